"""Generators of circuit description codes (shared by C03, C04, C15) and the two sides of the `cdc`
correspondence stream: the real `parse_cdc` and the Lean model `Cdc.parseCdc` behind the driver."""
import itertools

from canon import canon, same
import common

ATOMS = ["R", "C", "La", "Ls", "L", "Tlm", "Q", "X", "r", "[", "]", "(", ")", "{", "}", "=", "/", "%", ",", ":", "!",
         " ", "1", "-1", "0.5", "1e", "1e3", "2F", "-", "inf", "short", "open", "zero", "V", "X_1", "Z_A", "n", "abc",
         "1e999", "."]

SEEDS = [
    "R{R=5/1/10:ab}", "R(CL)", "[R(C[RW])]", "Tlm{X_1=short,Z_A=(RC),L=2F:x}", "!V=1!R{R=1F//50}C",
    "La{L=2F,n=0.5//0.75}(RQ{Y=1e-3/1%/200%,n=0.8:lbl})", "R{R=10}Tlm{X_1=R{R=2}}C",
    "Tlm{X_1=RC,X_2=[L],Zeta=open:a}", "R{R=1e3/inf/inf}", "(R{R=2E+00/0/inf:a b}[C{:x{1}y}Ws])",
    "Tlm{X_1=Tlm{X_1=R,Zeta=(RC)}C, X_2=zero, Z_B=inf}", "C{C=1.5E+04/1.0E+04/1.0E+06}",
    # version headers with every kind of number: out of the double range, fractional, zero, negative, too new
    # percentages of literals beyond the double range (inf as a Number token)
    "C{C=1.5E+04/1.0E+0411%}", "C{C=1.5E+04//1e999%}", "R{R=0/1e999%}", "L{L=-1/1e999%/inf}", "C{C=1.5E+04/-1e999%}",
    "!V=1e999!R(RC)", "!V=1.5!RC", "!V=0![R]", "!V=-1!R", "!V=2!R{R=1}", "!V=1e3!R", "!W=1!R", "!V=1F!R",
]
ALPHABET = "RCL[](){}=/%,:! 1-e.Ffainxo_"


def real(s):
    """Outcome of the real parse_cdc in canonical form."""
    from pyimpspec import parse_cdc
    from pyimpspec.exceptions import ParsingError

    try:
        c = parse_cdc(s)
    except ParsingError as e:
        if type(e) is ParsingError:  # the recursion-limit report: CPython runtime, not modelled
            return "err ParsingError"
        return "err " + type(e).__name__
    except BaseException as e:  # noqa
        return "err " + type(e).__name__
    try:
        return "ok " + canon(c._elements)
    except BaseException as e:  # noqa
        return "err canon:" + type(e).__name__


def model(strings, flags="gsv"):
    return common.run_driver([f"cdc {flags} {common.hexs(s)}" for s in strings])


def real_tokens(s):
    """Outcome of the real Tokenizer: class names, with the text of identifiers and labels."""
    from pyimpspec.circuit.tokenizer import Tokenizer, Identifier, Label

    try:
        toks = Tokenizer().process(s)
    except BaseException as e:  # noqa
        return "err " + type(e).__name__
    return "ok " + ",".join((type(t).__name__ + ":" + common.hexs(t.value)) if type(t) in (Identifier, Label) else type(t).__name__ for t in toks)


def compare_tokens(ctx, strings, stream, flags="gsv"):
    """Token-level correspondence: the real Tokenizer against `Cdc.tokenize` (the function the tokenizer theorems are about)."""
    exp = [real_tokens(s) for s in strings]
    got = common.run_driver([f"tok {flags} {common.hexs(s)}" if s else f"tok {flags}" for s in strings])
    diffs = []
    for s, e, g in zip(strings, exp, got):
        ctx.count(f"{stream}:{'ok' if e.startswith('ok') else e}")
        if e.rstrip() != g.rstrip():
            diffs.append({"input": s, "implementation": e[:400], "model": g[:400]})
    if diffs:
        ctx.add_broken("correspondence", f"tok/{stream}", {"n_diffs": len(diffs), "first": diffs[:5]})
    return exp, diffs


def exhaustive(n):
    for k in range(0, n + 1):
        for t in itertools.product(ATOMS, repeat=k):
            yield "".join(t)


def mutations(rnd, double=0):
    out = []
    for s in SEEDS:
        out.append(s)
        for i in range(len(s) + 1):
            out.append(s[:i])
            if i < len(s):
                out.append(s[:i] + s[i + 1:])
            for ch in ALPHABET:
                out.append(s[:i] + ch + s[i:])
                if i < len(s):
                    out.append(s[:i] + ch + s[i + 1:])
    out = list(dict.fromkeys(out))
    for _ in range(double):
        s = rnd.choice(out)
        i = rnd.randrange(len(s) + 1)
        ch = rnd.choice(ALPHABET)
        out.append(s[:i] + ch + s[i + (rnd.random() < 0.5):])
    return out


def random_atoms(rnd, n, maxlen=10):
    return ["".join(rnd.choice(ATOMS) for _ in range(rnd.randint(1, maxlen))) for _ in range(n)]


def compare(ctx, strings, stream, flags="gsv", rel=0.0):
    """Run both sides on the strings; record differences as a broken correspondence. Returns the
    implementation's outcomes."""
    exp = [real(s) for s in strings]
    got = model(strings, flags)
    diffs = []
    for s, e, g in zip(strings, exp, got):
        kind = e.split(" ")[0] if e.startswith("ok") else e
        ctx.count(f"{stream}:{kind}")
        if e == "err ParsingError":
            ctx.count(f"{stream}:recursion-limit(not modelled)")
            continue
        if not same(e, g, rel):
            diffs.append({"input": s, "implementation": e[:400], "model": g[:400]})
    if diffs:
        ctx.add_broken("correspondence", f"cdc/{stream}", {"n_diffs": len(diffs), "first": diffs[:5]})
    return exp, diffs

"""Canonical printing of real pyimpspec circuits (the observable behaviour compared with the Lean model)."""
import math
import re
from fractions import Fraction


def fval(x):
    x = float(x)
    if math.isinf(x):
        return "inf" if x > 0 else "-inf"
    if math.isnan(x):
        return "nan"
    return repr(x)


def canon(x):
    from pyimpspec.circuit.base import Container
    from pyimpspec.circuit.connections import Series, Parallel

    if isinstance(x, Series):
        return "[" + " ".join(canon(c) for c in x) + "]"
    if isinstance(x, Parallel):
        return "(" + " ".join(canon(c) for c in x) + ")"
    lo, hi, fx = x.get_lower_limits(), x.get_upper_limits(), x.are_fixed()
    parts = [
        f"{k}={fval(v)}/{fval(lo[k])}/{fval(hi[k])}/{'F' if fx[k] else 'v'}"
        for k, v in x.get_values().items()
    ]
    if isinstance(x, Container):
        for k, c in x.get_subcircuits().items():
            parts.append(f"{k}=open" if c is None else f"{k}={canon(c)}")
    return f"{x.get_symbol()}{{{','.join(parts)}:{x.get_label()}}}"


_NUM = re.compile(r"(?<![A-Za-z_0-9])(-?\d+/\d+|-?inf|nan|-?\d+\.?\d*(?:[eE][-+]?\d+)?)(?=[/,:}\] )]|$)")


def split_numbers(s, after="=/"):
    """Separate a canonical circuit string into (skeleton, [floats]).
    Numbers only occur directly after '=' or '/' inside a parameter list."""
    out = []
    nums = []
    i = 0
    n = len(s)
    in_label = False
    while i < n:
        ch = s[i]
        if i > 0 and s[i - 1] in after and not in_label:
            m = _NUM.match(s, i)
            if m:
                t = m.group(1)
                if "/" in t:
                    a, b = t.split("/")
                    if int(b) == 0:
                        # not a rational of the model (denominators are >= 1): text of a label, keep it as text
                        out.append(ch)
                        i += 1
                        continue
                    v = float(Fraction(int(a), int(b)))
                else:
                    v = float(t)
                nums.append(v)
                out.append("#")
                i = m.end()
                continue
        out.append(ch)
        i += 1
    return "".join(out), nums


def close(a, b, rel=1e-13):
    if math.isnan(a) or math.isnan(b):
        return math.isnan(a) and math.isnan(b)
    if math.isinf(a) or math.isinf(b):
        return a == b
    return a == b or abs(a - b) <= rel * max(abs(a), abs(b))


def same(py, model, rel=0.0):
    """Compare a canonical string of the implementation with one of the model."""
    if py.startswith("err") or model.startswith("err"):
        return py == model
    s1, n1 = split_numbers(py)
    s2, n2 = split_numbers(model)
    return s1 == s2 and len(n1) == len(n2) and all(close(a, b, rel) for a, b in zip(n1, n2))

"""C04 — parse_cdc is total. Correspondence stream `cdc` (model vs real parser) over exhaustive atom
sequences, mutations of valid codes and random atom strings; direct oracle of the property on the
implementation for every generated string (exception class, simulability, re-serialisation)."""
import numpy as np

import cdcgen
import common
import pyutil

ID = "C04"


def _allowed_class(name):
    import pyimpspec.exceptions as X

    if name == "ValueError":
        return True
    cls = getattr(X, name, None)
    return isinstance(cls, type) and (issubclass(cls, X.ParsingError) or issubclass(cls, X.TokenizingError))


def oracle(ctx, strings, outcomes):
    """The property itself, evaluated on the implementation."""
    from pyimpspec import parse_cdc
    from pyimpspec.exceptions import ImpedanceError

    f = np.array([1e-2, 1.0, 1e3])
    for s, o in zip(strings, outcomes):
        if o.startswith("err "):
            name = o[4:]
            if not _allowed_class(name):
                ctx.add_failing("exception-class", s, observed=name, expected="ParsingError/TokenizingError subclass or ValueError",
                                repro=f"/venv/bin/python -c 'from pyimpspec import parse_cdc; parse_cdc({s!r})'", clause="no other exception type escapes")
            continue
        c = parse_cdc(s)
        ctx.count("oracle:accepted")
        try:
            with np.errstate(all="ignore"):
                c.get_impedances(f)
        except ImpedanceError:
            ctx.count("oracle:impedance-error")
        except BaseException as e:  # noqa
            ctx.add_failing("simulate", s, observed=type(e).__name__, expected="impedances or an ImpedanceError",
                            repro=f"parse_cdc({s!r}).get_impedances([0.01,1,1000])", clause="accepted codes can be simulated or are rejected by an impedance error")
        within = pyutil.values_within_limits(c)
        if within:
            text = c.serialize()
            try:
                parse_cdc(text)
                ctx.count("oracle:reserialised")
            except BaseException as e:  # noqa
                if "too many levels of nested connections" in str(e):
                    # the extended form brackets every sub-circuit, so a code accepted just below CPython's recursion limit can
                    # print to one above it: runtime limit, not modelled (see assumptions)
                    ctx.count("oracle:reserialise:recursion-limit(runtime)")
                    continue
                ctx.add_failing("reserialise", s[:2000], observed=f"{type(e).__name__} for {text[:2000]}", expected="extended serialisation accepted",
                                repro=f"parse_cdc(parse_cdc({s!r}).serialize())", clause="its extended serialisation is itself accepted")


def streams(ctx, big):
    rnd = ctx.pyrandom(1)
    n_exh = 3
    out = [("exhaustive<=%d" % n_exh, list(cdcgen.exhaustive(n_exh)))]
    out.append(("mutations", cdcgen.mutations(rnd, double=20000 if big else 3000)))
    out.append(("random-atoms", cdcgen.random_atoms(rnd, 200000 if big else 20000)))
    if big:
        # every sequence of 4 atoms, sampled deterministically per seed (the full 2.56 M set in slices)
        four = []
        import itertools
        k = ctx.seed % 8
        for i, t in enumerate(itertools.product(cdcgen.ATOMS, repeat=4)):
            if i % 8 == k:
                four.append("".join(t))
        out.append(("exhaustive=4 slice %d/8" % k, four))
    deep = ["[" * n + "RC" + "]" * n for n in (50, 2000)] + ["(" * n + "RC" + ")" * n for n in (50, 2000)]
    # nesting through the sub-circuits of container elements (bare, bracketed and mixed forms) is recursion too
    for tmpl in ("Tlm{X_1=%s}", "Tlm{X_1=R%sC}", "Tlm{Zeta=[R%s]}", "R(CTlm{X_2=%sL})", "Tlm{X_1=(R%s)}"):
        a, b = tmpl.split("%s")
        deep += [a * n + "R" + b * n for n in (3, 40, 150, 260, 400, 2000)]
    out.append(("deep-nesting", deep))
    return out


def run(ctx, big=None):
    big = ctx.thorough if big is None else big
    ctx.rule = ("strings = every sequence of <=3 of 40 lexical atoms (exhaustive), single/double character mutations and "
                "truncations of 12 valid codes, random atom strings, deep nesting; a case is non-trivial when it is a distinct "
                "string; compared: accepted circuit in canonical form (numbers to 1e-13) or exception class")
    ctx.assumptions += [
        "CPython's recursion limit is not modelled: inputs nested deeper than ~490 levels are reported by the implementation as ParsingError and are excluded from the comparison",
        "float() of a decimal literal is modelled by exact rational arithmetic with the IEEE overflow threshold; values are compared to 1e-13",
    ]
    for name, strings in streams(ctx, big):
        exp, diffs = cdcgen.compare(ctx, strings, name)
        if name != "random-atoms" or not ctx.thorough:
            cdcgen.compare_tokens(ctx, strings[:40000], "tok:" + name)
        for s in strings:
            ctx.note_case(s)
        for s in strings[:2] + strings[len(strings) // 2: len(strings) // 2 + 2]:
            ctx.sample(s, limit=16)
        oracle(ctx, strings, exp)
    ctx.undecided.append("RecursionError beyond CPython's recursion limit: observed on the implementation only (runtime, not modelled)")


def search(ctx):
    """Failing-input search after a proof obligation or the correspondence broke."""
    if not ctx.thorough:
        run_big = True
        from pyimpspec import parse_cdc  # noqa
        rnd = ctx.pyrandom(7)
        strings = cdcgen.random_atoms(rnd, 150000, maxlen=12) + cdcgen.mutations(rnd, double=20000)
        exp = [cdcgen.real(s) for s in strings]
        oracle(ctx, strings, exp)


def replay(ctx, path):
    import json
    d = json.load(open(path))
    for f in d.get("failing", []):
        s = f["input"]
        print(repr(s), "->", cdcgen.real(s), "| model:", cdcgen.model([s])[0])
    return 0

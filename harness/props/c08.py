"""C08 — every analysis result is internally consistent with the data it came from.

The residual / weight / pseudo chi-squared kernels are REGENERATED from /repo on every run and the identity
chi^2 = sum |residual|^2 is proved about the regenerated terms (Props/C08.lean).  This module (a)
cross-checks the translator (generated terms evaluated by the driver at complex floats vs the real
functions), (b) runs the direct oracle on the implementation: for every analysis entry point the result's
frequencies are the unmasked frequencies, residuals = (Z_data - Z_model)/|Z_data|, chi^2 = sum |residuals|^2,
reported impedances = the attached circuit's impedances; masked points never influence anything (values on
masked points replaced by garbage -> bit-identical results); inputs are not modified."""
import copy
import json
import math
import struct

import numpy as np

import common
from props.c02 import fl, from_bits, relerr

ID = "C08"


def cfl(z):
    return f"{fl(z.real)};{fl(z.imag)}"


def signature(r):
    out = [np.asarray(r.frequencies).tobytes(), np.asarray(r.impedances).tobytes(), np.asarray(r.residuals).tobytes(), repr(float(r.pseudo_chisqr))]
    if hasattr(r, "circuit") and r.circuit is not None:
        out.append(r.circuit.serialize(17))
    return tuple(out)


def check_result(ctx, name, desc, r, data, tol=1e-9):
    f = data.get_frequencies()
    Z = data.get_impedances()
    if not (len(r.frequencies) == len(f) and np.array_equal(np.asarray(r.frequencies), f)):
        ctx.add_failing("frequencies", {"entry": name, **desc}, observed=f"{len(r.frequencies)} frequencies", expected=f"the {len(f)} unmasked frequencies",
                        clause="the result's frequencies are exactly the unmasked frequencies of the input data set")
        return
    Zm = np.asarray(r.impedances)
    res = np.asarray(r.residuals)
    exp_res = (Z - Zm) / np.abs(Z)
    if not np.allclose(res, exp_res, rtol=tol, atol=1e-14):
        ctx.add_failing("residuals", {"entry": name, **desc}, observed=f"max deviation {np.max(np.abs(res - exp_res)):.3g}", expected="(Z_data - Z_model)/|Z_data|",
                        clause="its residuals are (Z_data - Z_model)/|Z_data| point by point")
    chi = float(np.sum(np.abs(res) ** 2))
    if not math.isclose(chi, float(r.pseudo_chisqr), rel_tol=1e-7, abs_tol=1e-300):
        ctx.add_failing("pseudo-chisqr", {"entry": name, **desc}, observed=float(r.pseudo_chisqr), expected=chi,
                        clause="its pseudo chi-squared equals the sum of the squared moduli of those residuals")
    if getattr(r, "circuit", None) is not None:
        with np.errstate(all="ignore"):
            Zc = r.circuit.get_impedances(f)
        if not np.allclose(Zc, Zm, rtol=1e-9, atol=1e-300):
            ctx.add_failing("model-impedances", {"entry": name, **desc}, observed=f"max rel deviation {np.max(np.abs(Zc - Zm) / np.abs(Zm)):.3g}", expected="circuit.get_impedances(frequencies)",
                            clause="the reported model impedances equal that circuit's impedance")


def entry_points(big):
    from pyimpspec import perform_kramers_kronig_test, perform_zhit, calculate_drt, fit_circuit, parse_cdc
    from pyimpspec.analysis.kramers_kronig import evaluate_log_F_ext, perform_exploratory_kramers_kronig_tests
    eps = []
    for t in (["complex", "real", "imaginary", "complex-inv", "real-inv", "imaginary-inv"] if big else ["complex", "real-inv"]):
        for adm in (False, True):
            eps.append((f"perform_kramers_kronig_test[{t},Y={adm}]", lambda d, t=t, adm=adm: [perform_kramers_kronig_test(d, test=t, admittance=adm, num_procs=1)]))
    eps.append(("perform_kramers_kronig_test[cnls]", lambda d: [perform_kramers_kronig_test(d, test="cnls", num_RC=5, num_F_ext_evaluations=0, max_nfev=50, num_procs=1)]))
    eps.append(("evaluate_log_F_ext", lambda d: [r for (_, rs, _) in evaluate_log_F_ext(d, num_procs=1)[:2] for r in rs[:3]]))
    eps.append(("perform_exploratory_kramers_kronig_tests", lambda d: perform_exploratory_kramers_kronig_tests(d, num_procs=1)[0][:4]))
    for adm in (False, True):
        eps.append((f"perform_zhit[Y={adm}]", lambda d, adm=adm: [perform_zhit(d, admittance=adm, num_procs=1)]))
    if big:
        eps.append(("perform_zhit[auto]", lambda d: [perform_zhit(d, smoothing="auto", interpolation="auto", window="auto", num_procs=1)]))
    eps.append(("calculate_drt[tr-nnls,real]", lambda d: [calculate_drt(d, method="tr-nnls", mode="real")]))
    eps.append(("calculate_drt[tr-nnls,imaginary]", lambda d: [calculate_drt(d, method="tr-nnls", mode="imaginary", lambda_value=1e-3)]))
    eps.append(("calculate_drt[lm]", lambda d: [calculate_drt(d, method="lm", num_procs=1)]))
    eps.append(("calculate_drt[mrq-fit]", lambda d: [calculate_drt(d, method="mrq-fit", circuit=parse_cdc("R(RQ)(RQ)"), num_procs=1)]))
    if big:
        eps.append(("calculate_drt[bht]", lambda d: [calculate_drt(d, method="bht", num_samples=200, num_attempts=3, num_procs=1)]))
    eps.append(("fit_circuit", lambda d: [fit_circuit(parse_cdc("R(RC)(RW)"), d, method="least_squares", weight="boukamp", num_procs=1)]))
    eps.append(("fit_circuit[auto]", lambda d: [fit_circuit(parse_cdc("R(RC)(RW)"), d, method=["leastsq", "powell"], weight=["boukamp", "modulus"], num_procs=1)]))
    return eps


def make_data(rnd, n, asc, mask_frac, seed):
    from pyimpspec import generate_mock_data, DataSet
    d = generate_mock_data("CIRCUIT_1", noise=2e-2, seed=seed)[0]
    f, Z = d.get_frequencies(), d.get_impedances()
    idx = np.unique(np.round(np.linspace(0, len(f) - 1, n)).astype(int))
    f, Z = f[idx], Z[idx]
    masked = sorted(rnd.sample(range(len(f)), int(mask_frac * len(f))))
    if asc:
        # ascending input: indices refer to the supplied order
        fa, Za = f[::-1].copy(), Z[::-1].copy()
        m = {len(f) - 1 - i: True for i in masked}
        return fa, Za, m
    return f.copy(), Z.copy(), {i: True for i in masked}


def run(ctx):
    from pyimpspec import DataSet
    import pyimpspec.analysis.utility as U
    rnd = ctx.pyrandom(14)
    big = ctx.thorough
    ctx.rule = ("translator cross-check: residual / weight / chi-square terms at random complex points; oracle: analysis entry points x option samples x data sets "
                "(mock spectrum, 25..41 points, random mask subsets incl. none, ascending or descending input, garbage on masked points); a case is non-trivial when (entry, data variant) is distinct")
    ctx.assumptions += ["that the numeric code inside an analysis only reads the unmasked view is observed through the perturbation runs, not proved"]
    # ---- (a) translator cross-check
    lines, pts = [], []
    for _ in range(400 if big else 80):
        ze = complex(10 ** rnd.uniform(-3, 4) * rnd.choice([1, -1]), 10 ** rnd.uniform(-3, 4) * rnd.choice([1, -1]))
        zf = ze * complex(1 + rnd.uniform(-0.2, 0.2), rnd.uniform(-0.2, 0.2))
        for k in ("residual", "boukampWeight", "chisqrTerm"):
            lines.append(f"kerc {k} Z_exp={cfl(ze)} Z_fit={cfl(zf)}")
        pts.append((ze, zf))
    out = common.run_driver(lines)
    nd = 0
    for i, (ze, zf) in enumerate(pts):
        a, b = np.array([ze]), np.array([zf])
        real = [complex(U._calculate_residuals(a, b)[0]), complex(U._boukamp_weight(a)[0]), complex(U._calculate_pseudo_chisqr(a, b))]
        for j, r in enumerate(real):
            t = out[3 * i + j].split(" ")
            zm = from_bits(t[1], t[2])
            ctx.note_case(("kerc", j, ze, zf))
            if relerr(r, zm) > 1e-12:
                nd += 1
                if nd <= 3:
                    ctx.add_broken("correspondence", "translator/analysis-kernel", {"kernel": ["residual", "boukampWeight", "chisqrTerm"][j], "Z_exp": str(ze), "Z_fit": str(zf), "python": str(r), "term": str(zm)})
    ctx.counters["xcheck:points"] = len(pts)
    ctx.counters["xcheck:diffs"] = nd
    ctx.sample({"line": lines[0], "reply": out[0]})
    # ---- (b) oracle on the implementation
    variants = [(41, False, 0.0), (33, True, 0.15), (29, False, 0.25)] if not big else [(41, False, 0.0), (41, True, 0.0), (33, True, 0.15), (29, False, 0.25), (37, True, 0.3), (25, False, 0.1)]
    for name, fn in entry_points(big):
        for (n, asc, mf) in variants:
            f, Z, m = make_data(rnd, n, asc, mf, seed=rnd.randrange(1000))
            desc = {"points": n, "ascending": asc, "masked": sorted(m)}
            d = DataSet(f, Z, mask=dict(m), label="c08")
            before = json.dumps(d.to_dict(), sort_keys=True)
            try:
                with np.errstate(all="ignore"):
                    rs = fn(d)
            except Exception as x:  # noqa
                ctx.count(f"{name}:raised:{type(x).__name__}")
                continue
            ctx.count(f"{name}:ok")
            ctx.note_case((name, n, asc, tuple(sorted(m))))
            for r in rs:
                check_result(ctx, name, desc, r, d)
            if json.dumps(d.to_dict(), sort_keys=True) != before:
                ctx.add_failing("input-data-modified", {"entry": name, **desc}, observed="DataSet.to_dict() changed", expected="unchanged", clause="neither the input data set nor an input circuit is modified")
            # masked points must not matter: garbage on the masked points, same unmasked view
            if m and not name.startswith("calculate_drt[bht]"):
                Zg = Z.copy()
                for i in m:
                    Zg[i] = complex(rnd.uniform(-1e6, 1e6), rnd.uniform(-1e6, 1e6))
                d2 = DataSet(f, Zg, mask=dict(m), label="c08")
                try:
                    with np.errstate(all="ignore"):
                        rs2 = fn(d2)
                    if [signature(r) for r in rs] != [signature(r) for r in rs2]:
                        ctx.add_failing("masked-points-influence-result", {"entry": name, **desc}, observed="results differ after changing only masked points", expected="bit-identical",
                                        clause="masked points never influence any of it")
                except Exception as x:  # noqa
                    ctx.add_failing("masked-points-influence-result", {"entry": name, **desc}, observed=f"raises {type(x).__name__} after changing only masked points", expected="same result")
            # the same object after its mask has been cleared (observe - change the mask - observe): the result must be the one a
            # freshly built data set in that state gives
            if m and not name.startswith("calculate_drt[bht]") and (big or mf == 0.15):
                d.set_mask({})
                fresh = DataSet.from_dict(json.loads(json.dumps(d.to_dict())))
                try:
                    with np.errstate(all="ignore"):
                        ra, rb = fn(d), fn(fresh)
                    ctx.count(f"{name}:mask-cleared-on-same-object")
                    for r in ra:
                        check_result(ctx, name, {**desc, "history": "analysed with a mask, then set_mask({}), analysed again"}, r, fresh)
                    if [signature(r) for r in ra] != [signature(r) for r in rb]:
                        ctx.add_failing("stale-view-after-mask-change", {"entry": name, **desc, "history": "analysed with a mask, then set_mask({}), analysed again"},
                                        observed=f"{[len(r.frequencies) for r in ra]} frequencies", expected=f"{[len(r.frequencies) for r in rb]} (a fresh data set without mask)",
                                        clause="the result's frequencies are exactly the unmasked frequencies of the input data set")
                except Exception as x:  # noqa
                    ctx.count(f"{name}:mask-cleared:raised:{type(x).__name__}")
            if len(ctx.failing) > 8:
                return
    # Z-HIT in the admittance representation on data whose admittance has a negative real part (the data is shifted internally)
    from pyimpspec import generate_mock_data, perform_zhit
    for ident in ("CIRCUIT_8", "CIRCUIT_9"):
        d8 = generate_mock_data(ident, noise=1e-2, seed=rnd.randrange(100))[0]
        r = perform_zhit(d8, admittance=True, num_procs=1)
        check_result(ctx, "perform_zhit[Y=True,negative Re Y]", {"data": ident}, r, d8)
        ctx.note_case(("zhit-negY", ident))
    # input circuits untouched
    from pyimpspec import parse_cdc, fit_circuit, calculate_drt
    c = parse_cdc("R{R=90}(R{R=150}C{C=1e-6})(R{R=400}W)")
    s0 = c.serialize(17)
    f, Z, m = make_data(rnd, 41, False, 0.1, seed=5)
    d = DataSet(f, Z, mask=m)
    fit_circuit(c, d, method="least_squares", weight="boukamp", num_procs=1)
    c2 = parse_cdc("R(RQ)(RQ)")
    s2 = c2.serialize(17)
    calculate_drt(d, method="mrq-fit", circuit=c2, num_procs=1)
    if c.serialize(17) != s0 or c2.serialize(17) != s2:
        ctx.add_failing("input-circuit-modified", {"entry": "fit_circuit / mrq-fit"}, observed="Circuit.serialize() changed", expected="unchanged", clause="neither the input data set nor an input circuit is modified")
    ctx.undecided.append("which arrays each analysis puts into which result field (result assembly) is decided on the implementation by this oracle, not by a model")


def search(ctx):
    pass


def replay(ctx, path):
    print(json.dumps(json.load(open(path)).get("failing", [])[:5], indent=1, default=str)[:4000])
    return 0

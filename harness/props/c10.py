"""C10 — automatic Kramers-Kronig testing tracks the noise and flags drift.

Ties: (T) the noise <-> pseudo chi-squared conversion and the mock data's noise model are re-translated on every
run and cross-checked against the real functions (incl. the exact normal draws of `_add_noise`);
(H) correspondence streams `lim` (suggest_num_RC_limits: integer decision logic, the numerical sub-results are
recorded from the real run by wrapping the sub-functions) and `pick` (final selection of _suggest_using_default).
Direct oracle (statistical, bands frozen after calibration on the unchanged tree): estimated noise / injected noise
inside the band for all bundled valid mock circuits and random RC/RQ ladders, the suggestion inside the limits it
reports, and pseudo chi-squared of the drift-corrupted counterpart larger by a wide margin."""
import json
import math
import os
from multiprocessing import Pool

import numpy as np

import common
from props.c02 import fl, from_bits, relerr

ID = "C10"
NOISES = [0.02, 0.05, 0.1, 0.3, 1.0]
# frozen bands: estimated/injected noise.  Calibration (unchanged tree, 450 runs): 0.78 .. 1.7 for noise >= 0.05 %,
# up to 7.7 at 0.02 % (heavy upper tail) for circuits the RC model cannot follow below 0.05 % (Havriliak-Negami, finite-length Warburg)
BAND_LO, BAND_HI, BAND_HI_LOWNOISE = 0.4, 4.0, 20.0
# drift.  Calibration (unchanged tree): noise-free pairs chi2(invalid)/chi2(valid) >= 474 (deterministic);
# at 0.02 % noise (1200 runs) the invalid spectrum's estimated noise is >= 6.0 x the injected one (>= 8.3 except
# CIRCUIT_16) while valid spectra stay <= 4.6 x, and chi2(invalid)/chi2(valid) >= 5.8 (heavy lower tail).
# per-circuit baseline at 0.02 % noise: median of estimated/injected noise over 9 seeds on the unchanged tree (frozen); the
# median over 5 fresh seeds must stay within a factor 2.5 of it (catches a pipeline that systematically leaves misfit or
# fits the noise away on one kind of spectrum while single runs stay inside the wide per-run band)
BASELINE_MEDIAN = {"CIRCUIT_1": 1.13, "CIRCUIT_2": 0.94, "CIRCUIT_3": 1.12, "CIRCUIT_4": 1.12, "CIRCUIT_5": 1.02, "CIRCUIT_6": 1.37, "CIRCUIT_7": 1.07, "CIRCUIT_8": 1.07,
                   "CIRCUIT_9": 1.02, "CIRCUIT_10": 0.94, "CIRCUIT_11": 0.96, "CIRCUIT_12": 1.02, "CIRCUIT_13": 1.60, "CIRCUIT_14": 1.02, "CIRCUIT_15": 1.03, "CIRCUIT_16": 1.36,
                   "CIRCUIT_17": 1.26, "CIRCUIT_18": 1.07, "CIRCUIT_19": 1.97}
MEDIAN_FACTOR = 2.5
DRIFT_FREE_MIN = 50.0
DRIFT_PCT_MIN = {"CIRCUIT_16": 3.0}
DRIFT_PCT_MIN_DEFAULT = 4.0
DRIFT_PAIR_MIN = 2.0


def _kk_job(a):
    """worker: one default perform_kramers_kronig_test; records what suggest_num_RC returned"""
    import warnings
    warnings.filterwarnings("ignore")
    kind, spec, noise, seed = a
    from pyimpspec import generate_mock_data, perform_kramers_kronig_test, parse_cdc, simulate_spectrum
    import pyimpspec.analysis.kramers_kronig.single as S
    from pyimpspec.mock_data import _add_noise
    rec = []
    orig = S.suggest_num_RC

    def wrapper(tests, *args, **kw):
        r = orig(tests, *args, **kw)
        rec.append((r[0], r[2], r[3]))
        return r
    S.suggest_num_RC = wrapper
    try:
        if kind in ("mock", "mock-exploratory"):
            ds = generate_mock_data(spec, noise=noise, seed=seed)[0]
        else:
            ds = _add_noise(simulate_spectrum(parse_cdc(spec), np.logspace(5, -2, 71)), noise=noise, seed=seed)
        if kind == "mock-exploratory":
            # the other default entry point: all candidate fits of both representations plus the suggestion
            from pyimpspec.analysis.kramers_kronig import perform_exploratory_kramers_kronig_tests
            tests_, sug = perform_exploratory_kramers_kronig_tests(ds, num_procs=1)
            r = sug[0]
            return {"ok": True, "num_RC": int(r.num_RC), "pct": float(r.get_estimated_percent_noise()), "chisqr": float(r.pseudo_chisqr), "admittance": bool(r.admittance),
                    "limits": [[int(sug[2]), int(sug[3])]], "n_suggestions": 1, "log_F_ext": float(r.get_log_F_ext())}
        r = perform_kramers_kronig_test(ds, num_procs=1)
        hit = [(lo, hi) for (t, lo, hi) in rec if t is r]
        return {"ok": True, "num_RC": int(r.num_RC), "pct": float(r.get_estimated_percent_noise()), "chisqr": float(r.pseudo_chisqr), "admittance": bool(r.admittance),
                "limits": [list(map(int, h)) for h in hit], "n_suggestions": len(rec)}
    except Exception as x:  # noqa
        return {"ok": False, "error": f"{type(x).__name__}: {x}"[:300]}
    finally:
        S.suggest_num_RC = orig


def ladder(rnd):
    cdc = "R{R=%r}" % (10 ** rnd.uniform(0, 3))
    for _ in range(rnd.randint(1, 3)):
        R = 10 ** rnd.uniform(1, 3)
        tau = 10 ** rnd.uniform(-4, -0.5)     # characteristic frequencies at least ~1.5 decades inside the window 1e5 .. 1e-2 Hz
        if rnd.random() < 0.5:
            cdc += "(R{R=%r}C{C=%r})" % (R, tau / R)
        else:
            n = rnd.uniform(0.7, 1.0)
            cdc += "(R{R=%r}Q{Y=%r,n=%r})" % (R, tau ** n / R, n)
    return cdc


def ranks(values):
    u = sorted(set(values))
    return {v: i for i, v in enumerate(u)}


def run(ctx):
    import warnings
    warnings.filterwarnings("ignore")
    from pyimpspec import generate_mock_data
    import pyimpspec.analysis.kramers_kronig.utility as KU
    import pyimpspec.analysis.kramers_kronig.algorithms as ALG
    from pyimpspec.analysis.kramers_kronig import evaluate_log_F_ext, suggest_num_RC, suggest_num_RC_limits
    from pyimpspec.mock_data import _add_noise, _definitions
    from numpy.random import RandomState

    rnd = ctx.pyrandom(10)
    big = ctx.thorough
    ctx.rule = ("translator cross-check at random (N, chi2, noise, Z) and the exact draws of _add_noise; correspondence: suggest_num_RC_limits and the default suggestion on the test lists of "
                "mock spectra x {complex, real, imaginary} x {Z,Y} x random (lower_limit, upper_limit, limit_delta) incl. 0 and out-of-range values; oracle: all bundled valid mock circuits and "
                "random RC/RQ ladders x noise 0.02..1 % x RNG seeds; drift-corrupted counterparts at 0.02 % noise; a case is non-trivial when (spectrum, noise, seed, arguments) is distinct")
    ctx.assumptions += [f"acceptance bands frozen after calibration on the unchanged tree: estimated/injected noise in [{BAND_LO}, {BAND_HI}] (<= {BAND_HI_LOWNOISE} at 0.02 % noise, where the RC model's own misfit "
                        f"of Havriliak-Negami / finite Warburg responses shows); drift: noise-free chi2 ratio >= {DRIFT_FREE_MIN}, at 0.02 % noise estimated noise of the drifting spectrum >= {DRIFT_PCT_MIN_DEFAULT} x injected "
                        f"(>= {DRIFT_PCT_MIN['CIRCUIT_16']} x for CIRCUIT_16) and chi2 ratio to the valid run >= {DRIFT_PAIR_MIN}",
                        "the least-squares fits, the log_F_ext optimisation, the curvature statistics and the representation choice are runtime numerics: observed end to end, not proved"]

    # ---- (a) translator cross-check
    lines, real = [], []
    for _ in range(200 if big else 40):
        N, chi, p = rnd.randint(3, 200), 10 ** rnd.uniform(-9, 0), 10 ** rnd.uniform(-3, 1)
        Z = np.zeros(N, dtype=complex)
        lines.append(f"kerc est_pct_noise pseudo_chisqr={fl(chi)};{fl(0.0)} N={fl(float(N))};{fl(0.0)}")
        real.append(float(KU._estimate_pct_noise(Z, chi)))
        lines.append(f"kerc est_pseudo_chisqr pct_noise={fl(p)};{fl(0.0)} N={fl(float(N))};{fl(0.0)}")
        real.append(float(KU._estimate_pseudo_chisqr(Z, p)))
        ctx.note_case(("est", N, chi, p))
    # the noise model: the real _add_noise must add exactly RandomState(seed).normal(0, sd) to Re and then to Im
    from pyimpspec import DataSet
    draws = []
    for _ in range(20 if big else 6):
        n = rnd.randint(3, 30)
        f = np.logspace(4, 0, n)
        Z = np.array([complex(10 ** rnd.uniform(-2, 4) * rnd.choice([1, -1]), 10 ** rnd.uniform(-2, 4) * rnd.choice([1, -1])) for _ in range(n)])
        noise, seed = 10 ** rnd.uniform(-2, 0.5), rnd.randrange(2 ** 31)
        Zn = _add_noise(DataSet(f, Z), noise=noise, seed=seed).get_impedances()
        k0 = len(lines)
        for z in Z:
            lines.append(f"kerc noise_sd noise={fl(noise)};{fl(0.0)} Z_ideal={fl(z.real)};{fl(z.imag)}")
            real.append(None)
        draws.append((k0, Z, Zn, noise, seed))
        ctx.note_case(("noise", n, noise, seed))
    # the intercept kernel and its call sites in _estimate_target_num_RC: the real calls made while two spectra are tested
    # with default settings are recorded (wrapper around the function in the module's namespace) and replayed on the terms
    import pyimpspec.analysis.kramers_kronig.exploratory as EX
    import pyimpspec.analysis.kramers_kronig.algorithms.utility.pseudo_chi_squared as PC
    for _ in range(40 if big else 10):
        a, b, c, d = (rnd.uniform(-5, 5) for _ in range(4))
        if a == c:
            continue
        lines.append(f"kerc intercept_of_lines s1={fl(a)};{fl(0.0)} o1={fl(b)};{fl(0.0)} s2={fl(c)};{fl(0.0)} o2={fl(d)};{fl(0.0)}")
        real.append(float(PC._calculate_intercept_of_lines(a, b, c, d)))
    calls = []
    orig_icpt = EX._calculate_intercept_of_lines

    def rec_icpt(s1, o1, s2, o2):
        r_ = orig_icpt(s1, o1, s2, o2)
        calls.append((float(s1), float(o1), float(s2), float(o2), float(r_)))
        return r_
    EX._calculate_intercept_of_lines = rec_icpt
    try:
        from pyimpspec import perform_kramers_kronig_test
        for ident in rnd.sample(["CIRCUIT_1", "CIRCUIT_2", "CIRCUIT_5", "CIRCUIT_6", "CIRCUIT_17", "CIRCUIT_19"], 3 if big else 2):
            try:
                perform_kramers_kronig_test(generate_mock_data(ident, noise=rnd.choice([0.02, 0.1]), seed=rnd.randrange(1000))[0], num_procs=1)
            except Exception:  # noqa
                pass
    finally:
        EX._calculate_intercept_of_lines = orig_icpt
    site_lines = []
    for (s1, o1, s2, o2, r_) in calls[:200]:
        # both call sites have the shape (slope of the descent, its intercept, 0.0, level): same term
        site_lines.append((f"kerc target_main slope={fl(s1)};{fl(0.0)} intercept={fl(o1)};{fl(0.0)} ybest={fl(o2)};{fl(0.0)}", s2, r_))
    ctx.counters["xcheck:target-call-sites"] = len(site_lines)
    for l_, s2, r_ in site_lines:
        lines.append(l_)
        real.append(("site", s2, r_))
    out = common.run_driver(lines)
    nd = 0
    for l, r, o in zip(lines, real, out):
        if r is None:
            continue
        if isinstance(r, tuple):
            t = o.split(" ")
            zm = from_bits(t[1], t[2]) if t[0] == "ok" else complex("nan")
            if r[1] != 0.0 or not (relerr(complex(r[2]), zm) <= 1e-12):
                nd += 1
                if nd <= 3:
                    ctx.add_broken("correspondence", "translator/target-call-site", {"line": l, "third_argument": r[1], "python": r[2], "term": o,
                                                                                     "detail": "_estimate_target_num_RC calls _calculate_intercept_of_lines(descent slope, descent intercept, 0.0, level)"})
            continue
        t = o.split(" ")
        zm = from_bits(t[1], t[2]) if t[0] == "ok" else complex("nan")
        if not (relerr(complex(r), zm) <= 1e-12):
            nd += 1
            if nd <= 3:
                ctx.add_broken("correspondence", "translator/kk-noise-kernel", {"line": l, "python": repr(r), "term": o})
    for k0, Z, Zn, noise, seed in draws:
        sd = np.array([from_bits(*out[k0 + j].split(" ")[1:3]).real for j in range(len(Z))])
        rs = RandomState(seed=seed & (2 ** 32 - 1))
        exp = Z + rs.normal(0, sd) + 1j * rs.normal(0, sd)
        e = float(np.max(np.abs(exp - Zn) / np.abs(Z)))
        ctx.count("xcheck:noise-model")
        if not (e <= 1e-12):
            nd += 1
            ctx.add_broken("correspondence", "translator/noise-model", {"noise": noise, "seed": seed, "max_rel_dev": e,
                                                                        "detail": "_add_noise does not add RandomState(seed).normal(0, noise/100*|Z|) to the real and then to the imaginary part"})
    ctx.counters["xcheck:lines"] = len(lines)
    ctx.counters["xcheck:diffs"] = nd
    ctx.sample({"line": lines[0], "reply": out[0]})

    # ---- (b) correspondence: limits and the default suggestion
    rec = {}
    o1, o5, o4 = ALG._approximate_transition_and_end_point, ALG.suggest_num_RC_method_5, ALG.suggest_num_RC_method_4

    def w1(x, y):
        r = o1(x, y)
        rec["trans"] = (int(r[0]), int(r[1]))
        return r

    def w5(tests, **kw):
        r = o5(tests, **kw)
        if kw.get("upper_limit") == 0:
            rec["md"] = dict(r)
        return r

    def w4(**kw):
        r = o4(**kw)
        if kw.get("relative_scores") is False:
            rec["sc"] = dict(r)
        return r

    specs = []
    idents = [f"CIRCUIT_{i}" for i in range(1, 20)]
    nlists = 10 if big else 4
    for j in range(nlists):
        ident = rnd.choice(idents + ["CIRCUIT_10", "CIRCUIT_11"])
        specs.append((ident, rnd.choice(NOISES), rnd.randrange(10 ** 6), rnd.choice(["complex", "complex", "real", "imaginary"]), rnd.random() < 0.4))
    lim_lines, lim_real, pick_lines, pick_real = [], [], [], []
    ALG._approximate_transition_and_end_point, ALG.suggest_num_RC_method_5, ALG.suggest_num_RC_method_4 = w1, w5, w4
    try:
        for ident, noise, seed, test, adm in specs:
            ds = generate_mock_data(ident, noise=noise, seed=seed)[0]
            try:
                tests = evaluate_log_F_ext(ds, test=test, admittance=adm, num_F_ext_evaluations=0, num_procs=max(1, (os.cpu_count() or 2) - 1))[0][1]
            except Exception as x:  # noqa
                ctx.count("lists:skipped:" + type(x).__name__)
                continue
            tests = sorted(tests, key=lambda t: t.num_RC)
            ctx.count("lists")
            f = tests[0].get_frequencies()
            ns = [t.num_RC for t in tests]
            chir = ranks([float(t.pseudo_chisqr) for t in tests])
            for _ in range(40 if big else 25):
                r = rnd.random()
                lower = 0 if r < 0.5 else rnd.choice([rnd.randint(1, ns[-1] + 3), rnd.randint(1, 8)])
                r = rnd.random()
                upper = 0 if r < 0.5 else rnd.choice([rnd.randint(1, ns[-1] + 3), rnd.randint(ns[-1] // 2, ns[-1])])
                delta = 0 if rnd.random() < 0.6 else rnd.choice([1, 2, 3, 5, 10, -1])
                # ---- limits
                rec.clear()
                try:
                    lo, hi = suggest_num_RC_limits(tests, lower, upper, delta)
                    realr = f"ok {int(lo)} {int(hi)}"
                except (ValueError, IndexError) as x:
                    realr = f"err {type(x).__name__}"
                # inputs of the model, computed as the source computes them
                x = np.array([t.num_RC for t in tests if (tests[0].test == "complex" or t.num_RC <= len(f))], dtype=float)
                min_x, max_x = int(min(x)), int(max(x))
                y = np.log10([t.pseudo_chisqr for t in tests if t.num_RC <= max_x])   # the source's `log` is numpy.log10
                single = bool(min_x == 2 and (np.diff(x) == 1).all() and (y[:5] < -2).all())
                tl, tm = rec.get("trans", (0, 0))
                md = rec.get("md", {})
                lim_lines.append(f"lim {lower} {upper} {delta} {min_x} {max_x} {len(f)} {int(single)} {tl} {tm} "
                                 + ",".join(f"{t.num_RC}:{chir[float(t.pseudo_chisqr)]}" for t in tests) + " "
                                 + (",".join(f"{k}:{int(v >= 4.0)}" for k, v in md.items()) or "-"))
                lim_real.append(realr)
                ctx.note_case(("lim", ident, noise, seed, test, adm, lower, upper, delta))
                ctx.count("lim:" + realr.split(" ")[0] + (":manual" if lower > 0 and upper > 0 else ":auto"))
                # ---- default suggestion
                rec.clear()
                try:
                    st, scores, lo, hi = suggest_num_RC(tests, lower_limit=lower, upper_limit=max(upper, 0), limit_delta=delta)
                except (ValueError, IndexError, NotImplementedError) as x:
                    ctx.count("pick:raises:" + type(x).__name__)
                    continue
                inp = {"mock": ident, "noise": noise, "seed": seed, "test": test, "admittance": adm, "lower_limit": lower, "upper_limit": upper, "limit_delta": delta}
                if not (lo <= st.num_RC <= hi):
                    ctx.add_failing("suggestion-outside-limits", inp, observed=f"num_RC={st.num_RC}, limits=({lo}, {hi})", expected="lower <= num_RC <= upper",
                                    clause="the suggested number of RC elements lies inside the limits it reports")
                sc = rec.get("sc")
                if sc is None:
                    ctx.count("pick:no-sign-changes-recorded")
                    continue
                ins = [t for t in tests if lo <= t.num_RC <= hi]
                sr = ranks([float(scores.get(t.num_RC, 0.0)) for t in ins])
                lr = ranks([float(np.log10(t.pseudo_chisqr)) for t in ins])
                cr = ranks([float(sc[t.num_RC]) for t in ins])
                pick_lines.append(f"pick {lo} {hi} " + ",".join(f"{t.num_RC}:{sr[float(scores.get(t.num_RC, 0.0))]}:{lr[float(np.log10(t.pseudo_chisqr))]}:{cr[float(sc[t.num_RC])]}" for t in ins))
                pick_real.append(f"ok {st.num_RC}")
                ctx.count("pick")
    finally:
        ALG._approximate_transition_and_end_point, ALG.suggest_num_RC_method_5, ALG.suggest_num_RC_method_4 = o1, o5, o4
    out = common.run_driver(lim_lines + pick_lines)
    nd = 0
    for l, a, b in zip(lim_lines + pick_lines, lim_real + pick_real, out):
        if a != b:
            nd += 1
            if nd <= 3:
                ctx.add_broken("correspondence", l.split(" ")[0], {"line": l[:600], "implementation": a, "model": b})
    ctx.counters["corr:lines"] = len(lim_lines) + len(pick_lines)
    ctx.counters["corr:diffs"] = nd
    if lim_lines:
        ctx.sample({"line": lim_lines[0][:300], "reply": out[0]})

    # ---- (c) oracle: noise tracking, limits, drift
    jobs, meta = [], []
    reps = 3 if big else 1
    for i in range(1, 20):
        for _ in range(reps):
            noise, seed = rnd.choice(NOISES), rnd.randrange(10 ** 6)
            jobs.append(("mock", f"CIRCUIT_{i}", noise, seed))
            meta.append(("noise", f"CIRCUIT_{i}", noise, seed))
    for _ in range(24 if big else 8):
        cdc, noise, seed = ladder(rnd), rnd.choice(NOISES), rnd.randrange(10 ** 6)
        jobs.append(("cdc", cdc, noise, seed))
        meta.append(("noise", cdc, noise, seed))
    # the exploratory entry point with default settings (both representations, optimised extension): the spectra only the admittance
    # representation can describe, and a few others
    for ident in ["CIRCUIT_8", "CIRCUIT_9"] + rnd.sample([f"CIRCUIT_{i}" for i in (1, 2, 3, 4, 5, 6, 7, 10, 11)], 6 if big else 2):
        noise, seed = rnd.choice([0.05, 0.1, 0.5]), rnd.randrange(10 ** 6)
        jobs.append(("mock-exploratory", ident, noise, seed))
        meta.append(("noise", ident + " (exploratory)", noise, seed))
    med_circuits = sorted(BASELINE_MEDIAN) if big else rnd.sample(sorted(BASELINE_MEDIAN), 10)
    for ident in med_circuits:
        for _ in range(5):
            seed = rnd.randrange(10 ** 6)
            jobs.append(("mock", ident, 0.02, seed))
            meta.append(("median", ident, 0.02, seed))
    drift = [d.get_identifier()[:-len("_INVALID")] for d in _definitions if d.get_identifier().endswith("_INVALID")]
    if not big:
        drift = rnd.sample(drift, 8)
    for ident in drift:
        seed = rnd.randrange(10 ** 6)
        jobs.append(("mock", ident, 0.02, seed))
        meta.append(("drift-valid", ident, 0.02, seed))
        jobs.append(("mock", ident + "_INVALID", 0.02, seed))
        meta.append(("drift-invalid", ident, 0.02, seed))
        jobs.append(("mock", ident, 0.0, 1))
        meta.append(("free-valid", ident, 0.0, 1))
        jobs.append(("mock", ident + "_INVALID", 0.0, 1))
        meta.append(("free-invalid", ident, 0.0, 1))
    with Pool(max(1, min(15, (os.cpu_count() or 2) - 1))) as pool:
        res = pool.map(_kk_job, jobs, chunksize=1)
    ratios = []
    chis = {}
    med = {}
    for (kind, spec, noise, seed), r in zip(meta, res):
        inp = {"spectrum": spec, "noise_percent": noise, "seed": seed}
        ctx.note_case((kind, spec, noise, seed))
        ctx.count("oracle:" + kind)
        if not r["ok"] and kind.startswith("free-"):
            ctx.count("oracle:noise-free-run-raises(outside the quantifier, skipped)")
            continue
        if not r["ok"]:
            ctx.add_failing("kk-test-raises", inp, observed=r["error"], expected="a result", clause="run with default settings on a valid spectrum ... the automatic test returns a fit")
            continue
        if kind == "median":
            med.setdefault(spec, []).append((r["pct"] / noise, seed))
            continue
        if kind == "noise":
            ratio = r["pct"] / noise
            ratios.append(ratio)
            hi = BAND_HI_LOWNOISE if noise < 0.05 else BAND_HI
            if not (BAND_LO <= ratio <= hi):
                ctx.add_failing("noise-not-tracked", inp, observed=f"estimated {r['pct']:.4g} % for injected {noise} % (ratio {ratio:.3g}, num_RC={r['num_RC']})", expected=f"ratio in [{BAND_LO}, {hi}]",
                                clause="returns a fit whose estimated noise level is of the order of the injected one - it neither fits the noise away nor leaves systematic misfit")
            if not r["limits"]:
                ctx.add_failing("result-not-a-suggestion", inp, observed="the returned result is none of the results suggest_num_RC returned", expected="one of them", clause="the suggested number of RC elements lies inside the limits it reports")
            for lo, hi_ in r["limits"]:
                if not (lo <= r["num_RC"] <= hi_):
                    ctx.add_failing("suggestion-outside-limits", inp, observed=f"num_RC={r['num_RC']}, limits=({lo}, {hi_})", expected="lower <= num_RC <= upper",
                                    clause="the suggested number of RC elements lies inside the limits it reports")
        else:
            chis[(kind, spec)] = (r["chisqr"], seed, r["pct"])
    clause = "on the library's drift-corrupted counterpart of the same spectrum the pseudo chi-squared is larger by a wide margin"
    for ident in drift:
        if ("free-valid", ident) in chis and ("free-invalid", ident) in chis:
            ratio = chis[("free-invalid", ident)][0] / max(chis[("free-valid", ident)][0], 1e-300)
            ctx.counters["drift:min-noise-free-ratio"] = min(ctx.counters.get("drift:min-noise-free-ratio", 1e99), ratio)
            if not (ratio >= DRIFT_FREE_MIN):
                ctx.add_failing("drift-not-flagged", {"spectrum": ident, "noise_percent": 0.0}, observed=f"chi2(invalid)/chi2(valid) = {ratio:.3g}", expected=f">= {DRIFT_FREE_MIN}", clause=clause)
        if ("drift-valid", ident) in chis and ("drift-invalid", ident) in chis:
            inp = {"spectrum": ident, "noise_percent": 0.02, "seed": chis[("drift-valid", ident)][1]}
            ratio = chis[("drift-invalid", ident)][0] / chis[("drift-valid", ident)][0]
            pr = chis[("drift-invalid", ident)][2] / 0.02
            ctx.counters["drift:min-ratio"] = min(ctx.counters.get("drift:min-ratio", 1e99), ratio)
            ctx.counters["drift:min-pct-ratio"] = min(ctx.counters.get("drift:min-pct-ratio", 1e99), pr)
            need = DRIFT_PCT_MIN.get(ident, DRIFT_PCT_MIN_DEFAULT)
            if not (pr >= need):
                ctx.add_failing("drift-not-flagged", inp, observed=f"estimated noise of the drifting spectrum = {pr:.3g} x injected", expected=f">= {need} x", clause=clause)
            elif not (ratio >= DRIFT_PAIR_MIN):
                ctx.add_failing("drift-not-flagged", inp, observed=f"chi2(invalid)/chi2(valid) = {ratio:.3g}", expected=f">= {DRIFT_PAIR_MIN}", clause=clause)
    for ident, vals in med.items():
        if len(vals) < 5:
            continue
        m = float(np.median([v for v, _ in vals]))
        base = BASELINE_MEDIAN[ident]
        ctx.counters["median:max-over-baseline"] = max(ctx.counters.get("median:max-over-baseline", 0.0), m / base)
        ctx.counters["median:min-over-baseline"] = min(ctx.counters.get("median:min-over-baseline", 9e9), m / base)
        if not (base / MEDIAN_FACTOR <= m <= base * MEDIAN_FACTOR):
            ctx.add_failing("noise-not-tracked", {"spectrum": ident, "noise_percent": 0.02, "seeds": [s_ for _, s_ in vals]}, observed=f"median estimated/injected noise over 5 seeds = {m:.3g} (runs: {[round(v, 2) for v, _ in vals]})",
                            expected=f"within a factor {MEDIAN_FACTOR} of the frozen baseline {base}", clause="returns a fit whose estimated noise level is of the order of the injected one - it neither fits the noise away nor leaves systematic misfit")
    if ratios:
        ctx.counters["noise:min-ratio"] = float(min(ratios))
        ctx.counters["noise:max-ratio"] = float(max(ratios))
        ctx.counters["noise:median-ratio"] = float(np.median(ratios))
    ctx.sample({"job": list(map(str, jobs[0])), "result": res[0]})


def search(ctx):
    pass


def replay(ctx, path):
    print(json.dumps(json.load(open(path)).get("failing", [])[:5], indent=1, default=str)[:4000])
    return 0

"""C15 — the element registry and class defaults can always be restored.

Correspondence stream `reg`: random histories over {register_element(valid | inconsistent | duplicate-symbol |
invalid-symbol | incomplete definitions, private flag), remove_elements, reset(elements, default_parameters),
Class.set_default_values, get_elements(default_only, private)} run on the real registry and on the Lean
model `Registry.*`, compared after every step.  Direct oracle: built-ins never removed or shadowed, the
parser recognises exactly the registered symbols, inconsistent definitions refused, and after reset() the
library behaves as freshly imported.  Every history ends with reset() and the harness's classes are removed."""
import json

import numpy as np

import common

ID = "C15"
_VALS = {}


def vid(x):
    """floats -> small integers (order of first appearance), the model only compares them"""
    x = float(x)
    if x not in _VALS:
        _VALS[x] = len(_VALS)
    return _VALS[x]


def hx(s):
    return common.hexs(s) if s else "-"


def make_user_classes(n):
    from pyimpspec import Element
    out = []
    for i in range(n):
        def _impedance(self, f, R):
            return np.full(f.shape, complex(R, 0.0))
        cls = type(f"VerifUser{i}", (Element,), {"_impedance": _impedance})
        out.append(cls)
    return out


def observe(ids):
    from pyimpspec import get_elements
    parts = []
    for default_only, private in ((False, False), (False, True), (True, False), (True, True)):
        try:
            e = get_elements(default_only=default_only, private=private)
        except Exception as x:  # noqa
            parts.append(f"RAISED:{type(x).__name__}")
            continue
        parts.append(",".join(f"{k}:{ids.get(v, '?')}" for k, v in e.items()))
    try:
        defaults = get_elements(default_only=True, private=True)
    except Exception as x:  # noqa
        return "|".join(parts) + f" RAISED:{type(x).__name__}"
    ps = "|".join(f"{ids[c]}=" + ";".join(f"{k}:{vid(v)}" for k, v in c.get_default_values().items()) for c in defaults.values())
    return "|".join(parts) + " " + ps


def run(ctx):
    from pyimpspec import get_elements, parse_cdc, register_element, ElementDefinition, ParameterDefinition
    from pyimpspec.circuit import registry as R
    from pyimpspec.exceptions import ParsingError, TokenizingError
    from numpy import inf

    ctx.rule = ("histories of 3..14 operations over {register (valid / inconsistent / duplicate symbol / invalid symbol / incomplete / built-in class; private or not), remove_elements "
                "(user classes, built-ins, empty list), reset(elements, default_parameters) in all four flag combinations, set_default_values on built-in (public and private) and user classes}; "
                "after every step get_elements with all four flag combinations and the built-in classes' default values are compared; a history is non-trivial when distinct")
    rnd = ctx.pyrandom(15)
    R.reset()
    defaults = get_elements(default_only=True, private=True)
    users = make_user_classes(5)
    ids = {c: i for i, c in enumerate(defaults.values())}
    for i, u in enumerate(users):
        ids[u] = 100 + i
    priv = [k for k in defaults if k not in get_elements(default_only=True, private=False)]
    init = ("reg init " + ",".join(f"{hx(k)}:{ids[c]}" for k, c in defaults.items()) + " " + (",".join(f"{hx(k)}:{ids[defaults[k]]}" for k in priv) or "-") + " "
            + "|".join(f"{ids[c]}=" + ";".join(f"{hx(k)}:{vid(v)}" for k, v in c.get_default_values().items()) for c in defaults.values()))
    fresh = observe(ids)
    SYMS = ["Xa", "Xb", "Xab", "X1", "R", "Q", "K", "La", "Ls"]
    BAD = ["x", "1X", "XY", "X Y", "Xé", "x_"]
    lines, real = [], []
    nhist = 1500 if ctx.thorough else 200
    try:
        for h in range(nhist):
            R.reset()
            # fresh user classes per history: class attributes written by earlier registrations must not leak
            for u in users:
                ids.pop(u, None)
            users = make_user_classes(5)
            for i, u in enumerate(users):
                ids[u] = 100 + i
            hist = [init]
            lines.append(init)
            real.append("ok " + observe(ids))
            nops = rnd.randint(3, 14)
            for j in range(nops):
                r = rnd.random()
                try:
                    if r < 0.45:
                        kind = rnd.choice(["valid", "valid", "valid", "inconsistent", "badsym", "incomplete", "builtin-class"])
                        cls = rnd.choice(users) if kind != "builtin-class" else rnd.choice([c for k, c in defaults.items() if k != "Tlm"])
                        sym = rnd.choice(BAD) if kind == "badsym" else rnd.choice(SYMS)
                        private = rnd.random() < 0.35
                        validate = rnd.random() < 0.85
                        val = rnd.choice([1.0, 2.0, 5.0])
                        eq = "R" if kind != "inconsistent" else "2*R"
                        name = "" if kind == "incomplete" else "user element"
                        line = (f"reg register {ids[cls]} {hx(sym)} {int(kind != 'incomplete')} {int(kind != 'inconsistent')} {int(private)} {int(validate)} "
                                f"{hx('R')}:{vid(val)}")
                        lines.append(line)
                        hist.append(line)
                        register_element(
                            ElementDefinition(Class=cls, symbol=sym, name=name, description="verification harness element", equation=eq,
                                              parameters=[ParameterDefinition(symbol="R", unit="ohm", description="", value=val, lower_limit=0.0, upper_limit=inf, fixed=False)]),
                            private=private, validate_impedances=validate)
                        if kind == "badsym":
                            ctx.add_failing("invalid-symbol-accepted", hist[-6:], observed=f"symbol {sym!r} registered", expected="refused (ValueError)", clause="a definition with an invalid symbol is refused; the parser recognises exactly the currently registered symbols")
                        if kind == "inconsistent" and validate:
                            ctx.add_failing("inconsistent-definition-accepted", hist[-6:], observed="registered", expected="refused", clause="an element whose numeric impedance contradicts its declared equation at its default parameter values is refused at registration")
                    elif r < 0.62:
                        pick = rnd.random()
                        cs = [] if pick < 0.1 else ([rnd.choice(list(defaults.values()))] if pick < 0.3 else rnd.sample(users, rnd.randint(1, 2)))
                        line = "reg remove " + (",".join(str(ids[c]) for c in cs) or "-")
                        lines.append(line)
                        hist.append(line)
                        R.remove_elements(cs)
                    elif r < 0.78:
                        e, d = rnd.random() < 0.7, rnd.random() < 0.7
                        line = f"reg reset {int(e)} {int(d)}"
                        lines.append(line)
                        hist.append(line)
                        R.reset(elements=e, default_parameters=d)
                    else:
                        cls = rnd.choice(list(defaults.values()) + users)
                        keys = list(cls.get_default_values()) or ["R"]
                        key = rnd.choice(keys + ["zz"])
                        val = rnd.choice([1.0, 2.0, 3.5, 1e-6])
                        line = f"reg setdefault {ids[cls]} {hx(key)} {vid(val)}"
                        lines.append(line)
                        hist.append(line)
                        cls.set_default_values(**{key: val})
                    real.append("ok " + observe(ids))
                except Exception as x:  # noqa
                    real.append(f"err {type(x).__name__} " + observe(ids))
                # ---- oracle after every step
                if "RAISED" in real[-1]:
                    ctx.add_failing("get_elements-raises", hist[-8:], observed=real[-1][:200], expected="the tables of registered elements", clause="built-ins cannot be removed or shadowed")
                    break
                now = get_elements(private=True)
                for k, c in defaults.items():
                    if now.get(k) is not c:
                        ctx.add_failing("builtin-removed-or-shadowed", hist[-8:], observed=f"{k} -> {now.get(k)}", expected=str(c), clause="built-ins cannot be removed or shadowed")
                for s in rnd.sample(SYMS, 3):
                    try:
                        parse_cdc(s)
                        ok = True
                    except (ParsingError, TokenizingError):
                        ok = False
                    if ok != (s in now):
                        ctx.add_failing("parser-vs-registry", hist[-8:] + [s], observed=f"parse_cdc accepts={ok}", expected=f"registered={s in now}", clause="the parser recognises exactly the currently registered symbols")
                try:
                    c = parse_cdc("LLaLs").get_elements()
                    if [type(e).get_symbol() for e in c] != ["L", "La", "Ls"] and all(now.get(k) is defaults[k] for k in ("L", "La", "Ls")):
                        ctx.add_failing("longest-symbol", hist[-8:], observed=[type(e).get_symbol() for e in c], expected=["L", "La", "Ls"], clause="longest symbol wins, so L, La and Ls stay distinct")
                except Exception:
                    pass
            R.reset()
            after = observe(ids)
            lines.append("reg reset 1 1")
            real.append("ok " + after)
            if after != fresh:
                ctx.add_failing("reset-does-not-restore", hist, observed=after[:300], expected=fresh[:300], clause="after a reset the library behaves exactly as freshly imported")
            ctx.note_case(tuple(hist))
            if h in (0, nhist // 2):
                ctx.sample(hist[:8])
            if len(ctx.failing) > 6:
                break
    finally:
        R.reset()
    # ---- the tokenizer theorems (symbols_tokenize, registered_symbols_tokenize) stated on the real Tokenizer, and the
    # token-level correspondence that ties `Cdc.tokenize` to it
    import string
    import cdcgen
    from pyimpspec.circuit.tokenizer import Tokenizer, Identifier
    tail = string.ascii_lowercase + string.digits + "_"
    registered = sorted(get_elements(private=True))
    runs = [["L", "La", "Ls"], ["La", "L", "Ls", "L"], ["Ls", "La", "L"]]
    for _ in range(3000 if ctx.thorough else 500):
        k = rnd.randint(1, 8)
        if rnd.random() < 0.5:
            runs.append([rnd.choice(registered) for _ in range(k)])
        else:
            runs.append([rnd.choice(string.ascii_uppercase) + "".join(rnd.choice(tail) for _ in range(rnd.choice([0, 0, 1, 1, 2, 3, 5]))) for _ in range(k)])
    for run_ in runs:
        text = "".join(run_)
        try:
            toks = Tokenizer().process(text)
            got = [t.value if type(t) is Identifier else repr(t) for t in toks]
        except Exception as x:  # noqa
            got = f"{type(x).__name__}: {x}"
        ctx.note_case(("symbol-run", text))
        ctx.count("symbol-run:" + str(len(run_)))
        if got != run_:
            ctx.add_failing("symbol-run-not-split-into-its-symbols", {"symbols": run_, "code": text}, observed=got, expected=run_, clause="longest symbol wins, so L, La and Ls stay distinct",
                            repro="from pyimpspec.circuit.tokenizer import Tokenizer; Tokenizer().process(%r)" % text)
    corpus = ["".join(r) for r in runs] + cdcgen.mutations(rnd, 100) + cdcgen.random_atoms(rnd, 3000 if ctx.thorough else 600)
    cdcgen.compare_tokens(ctx, corpus, "tok")
    ctx.counters["tok:strings"] = len(corpus)
    model = common.run_driver(lines)
    nd = 0
    for i, (l, a, b) in enumerate(zip(lines, real, model)):
        ctx.count("op:" + l.split(" ")[1] + (":" + a.split(" ")[1] if a.startswith("err") else ""))
        if a != b:
            nd += 1
            if nd <= 3:
                j = i
                while j > 0 and not lines[j].startswith("reg init"):
                    j -= 1
                ctx.add_broken("correspondence", "reg", {"line": l, "implementation": a[:500], "model": b[:500], "history": [x[:120] for x in lines[j + 1:i + 1]]})
    ctx.counters["lines"] = len(lines)
    ctx.counters["diffs"] = nd


def search(ctx):
    pass


def replay(ctx, path):
    print(json.dumps(json.load(open(path)).get("failing", [])[:5], indent=1, default=str)[:4000])
    return 0

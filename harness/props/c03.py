"""C03 — circuit description codes mean one circuit however they are spelled.

Correspondence stream `cdc`: every generated text (serialisations at decimals 1..17 and alternative
spellings printed by a grammar-directed printer that knows the intended tree) is parsed by the real
parse_cdc and by the Lean model; canonical forms compared.  Direct oracle (the generator is the oracle):
parse_cdc(spelling) equals the intended circuit up to merging directly nested same-kind connections;
serialise -> parse -> serialise is stable; deep copies serialise identically."""
import copy
import json
import math

import circgen
import cdcgen
import common
import spellings as sp

ID = "C03"


def label_not_tokenizable(label):
    if not label:
        return False
    if not (label[0].isascii() and label[0].isalpha()):
        return True
    depth = 0
    for ch in label:
        if ch == "{":
            depth += 1
        elif ch == "}":
            depth -= 1
            if depth < 0:
                return True
    return False


def labels_of(t):
    if t[0] == "E":
        out = [t[3]]
        for s in t[4].values():
            if s not in (None, "short"):
                out += labels_of(s)
        return out
    return [l for c in t[1] for l in labels_of(c)]


def limits_collapse(t, d):
    """limits closer than the printed precision (F24)"""
    if t[0] == "E":
        for (v, lo, hi, fx) in t[2].values():
            if not (math.isinf(lo) or math.isinf(hi)) and float(f"%.{d}E" % lo) >= float(f"%.{d}E" % hi):
                return True
        return any(limits_collapse(s, d) for s in t[4].values() if s not in (None, "short"))
    return any(limits_collapse(c, d) for c in t[1])


def rounded(t, d):
    r = lambda x: x if math.isinf(x) else float(f"%.{d}E" % x)
    if t[0] == "E":
        return ("E", t[1], {k: (r(v), r(lo), r(hi), fx) for k, (v, lo, hi, fx) in t[2].items()}, t[3],
                {k: (s if s in (None, "short") else rounded(s, d)) for k, s in t[4].items()})
    return (t[0], [rounded(c, d) for c in t[1]])


def gen_trees(ctx, big):
    from pyimpspec import get_elements
    rnd = ctx.pyrandom(8)
    symbols = list(get_elements(private=True))
    trees = []
    for n in range(1, (5 if big else 4)):
        for shape in circgen.topologies(n):
            for _ in range(2 if big else 1):
                trees.append(sp.with_state(rnd, circgen.fill(rnd, shape, symbols)))
    for _ in range(3000 if big else 350):
        shape = circgen.random_shape(rnd, rnd.randint(1, 8))
        t = sp.with_state(rnd, circgen.fill(rnd, shape, symbols))
        trees.append(t)
    # labels outside the tokenizer's reach (known finding F5)
    for _ in range(20 if big else 6):
        t = sp.with_state(rnd, circgen.fill(rnd, "L", ["R", "C", "Q"]), labels=False)
        trees.append(("E", t[1], t[2], rnd.choice(sp.BAD_LABELS), t[4]))
    return trees, rnd


def run(ctx):
    from pyimpspec import Circuit, parse_cdc
    ctx.rule = ("circuits: every normal-form topology up to 3 (thorough: 4) leaves and random ones up to 8 leaves over every registered class incl. containers with open/short/connection sub-circuits; "
                "labels (plain, with spaces, digits, braces, separators), limits moved anywhere incl. +-inf and beyond the class defaults, fixed flags; for each: serialisation at a random number of decimals 1..17 "
                "and 3 alternative spellings (implicit outer series, omitted parameters/limits, percentage limits, F/f, short/zero/open/inf, bare sub-circuit lists, white space, version header, "
                "number spellings, entry order); a case is non-trivial when the text is distinct")
    ctx.assumptions += ["'%.{d}E' formatting and float() are not modelled: the model reads decimal literals as exact rationals, values are compared to 1e-13"]
    trees, rnd = gen_trees(ctx, ctx.thorough)
    texts = []
    for t in trees:
        bad_label = any(label_not_tokenizable(l) for l in labels_of(t))
        try:
            obj = sp.build(t)
        except Exception as e:  # noqa
            ctx.count("skipped:build:" + type(e).__name__)
            continue
        circuit = Circuit(obj)
        want = sp.flat_top(circuit)
        # --- alternative spellings
        for _ in range(3):
            s = sp.spell_circuit(rnd, t)
            texts.append(s)
            ctx.note_case(s)
            try:
                got = sp.flat_top(parse_cdc(s))
            except Exception as e:  # noqa
                got = "err " + type(e).__name__
            if got != want:
                ctx.add_failing("spelling", {"text": s, "intended": circuit.serialize(17), "bad_label": bad_label}, observed=str(got)[:400], expected=str(want)[:400],
                                repro=f"parse_cdc({s!r})", clause="every alternative spelling parses to that same circuit and never moves elements into or out of a sub-circuit")
        # --- serialise / parse / serialise
        d = rnd.choice([1, 2, 3, 6, 12, 12, 15, 17])
        text = circuit.serialize(d)
        texts.append(text)
        ctx.note_case(text)
        collapse = limits_collapse(t, d)
        try:
            c2 = parse_cdc(text)
            t2 = c2.serialize(d)
            c3 = parse_cdc(t2)
            t3 = c3.serialize(d)
            want_r = sp.flat_top(Circuit(sp.build(rounded(t, d)))) if not collapse else None
            if want_r is not None and sp.flat_top(c2) != want_r:
                ctx.add_failing("roundtrip-differs", {"text": text, "decimals": d, "bad_label": bad_label, "collapse": collapse}, observed=str(sp.flat_top(c2))[:400], expected=str(want_r)[:400],
                                clause="serialising and parsing back yields an equivalent circuit to the printed precision")
            if t3 != t2:
                ctx.add_failing("reserialise-not-identical", {"text": text, "decimals": d, "bad_label": bad_label, "collapse": collapse}, observed=t3[:300], expected=t2[:300],
                                clause="re-serialising gives the identical text")
        except Exception as e:  # noqa
            ctx.add_failing("roundtrip-rejected", {"text": text, "decimals": d, "bad_label": bad_label, "collapse": collapse}, observed=type(e).__name__ + ": " + str(e)[:200], expected="accepted",
                            repro=f"parse_cdc({text!r})", clause="serialising any circuit whose values lie within their limits and parsing the text back yields an equivalent circuit")
        # --- deep copy
        try:
            cc = copy.deepcopy(circuit)
            if cc.serialize(d) != text:
                ctx.add_failing("deepcopy-serialises-differently", {"text": text}, observed=cc.serialize(d)[:300], expected=text[:300], clause="a deep copy serialises identically")
        except Exception as e:  # noqa
            ctx.add_failing("deepcopy-fails", {"text": text}, observed=type(e).__name__, expected="a copy", clause="a deep copy serialises identically")
        if len(ctx.failing) > 8:
            break
    # --- correspondence with the Lean model
    texts = list(dict.fromkeys(texts))
    cdcgen.compare(ctx, texts, "spellings+serialisations")
    # the tokenizer on its own (the function tokenize_inverts_render / roundtrip_text are about): same token classes and texts
    cdcgen.compare_tokens(ctx, texts, "tok:spellings+serialisations")
    for s in texts[:3] + texts[-2:]:
        ctx.sample(s[:300], limit=8)
    ctx.undecided.append("'to the printed precision': %.{d}E / float() are runtime; numbers compared to 1e-13")


def search(ctx):
    pass


def replay(ctx, path):
    from pyimpspec import parse_cdc
    d = json.load(open(path))
    for f in d.get("failing", [])[:5]:
        s = f["input"]["text"]
        print(repr(s), "\n  impl :", cdcgen.real(s)[:400], "\n  model:", cdcgen.model([s])[0][:400])
    return 0

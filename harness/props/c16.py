"""C16 — element names and identifiers are unique and used consistently.

Correspondence stream `ident`: traversal order, both identifier maps and display names of the Lean model
`Ident.*` vs the real `_get_elements_recursive` / `generate_element_identifiers` / `get_element_name`
for generated circuits (nested containers, repeated element types, labelled/unlabelled mixes, shared
element objects).  Direct oracle: the property's clauses on the implementation, including the consumers
(sympy variables, fit identifiers, fitted-parameter table, CircuiTikZ labels)."""
import json
import re

import numpy as np

import circgen
import common
import pyutil

ID = "C16"
LABELS = ["", "", "", "a", "b", "ct", "dl", "x1", "a b", "ct2"]


def hx(s):
    return common.hexs(s) if s else "-"


def tokens(obj, ids):
    from pyimpspec.circuit.base import Connection, Container
    if isinstance(obj, Connection):
        out = ["C", str(len(obj._elements))]
        for c in obj._elements:
            out += tokens(c, ids)
        return out
    oid = ids.setdefault(id(obj), len(ids))
    subs = []
    if isinstance(obj, Container):
        subs = [c for c in obj.get_subcircuits().values() if c is not None]
    out = ["E", str(oid), hx(obj.get_symbol()), hx(obj.get_label()), str(len(subs))]
    for s in subs:
        out += tokens(s, ids)
    return out


def gen(ctx, big):
    from pyimpspec import get_elements, Circuit
    rnd = ctx.pyrandom(12)
    symbols = list(get_elements(private=True))
    cases = []
    shapes = []
    for n in range(1, 5 if big else 4):
        shapes += circgen.topologies(n)
    for sh in shapes:
        cases.append(circgen.fill(rnd, sh, symbols, labels=LABELS))
    for _ in range(2500 if big else 300):
        sh = circgen.random_shape(rnd, rnd.randint(1, 10))
        syms = rnd.choice([symbols, ["R", "C", "Q"], ["R", "Tlm", "Tlm", "C"]])
        cases.append(circgen.fill(rnd, sh, syms, labels=LABELS, nest=(_ % 4 == 3)))
    return cases, rnd


def share_objects(rnd, root):
    """make one element object occur twice (object sharing is legal through the object API)"""
    from pyimpspec.circuit.base import Connection
    conns = [root] + root.get_connections(recursive=True) if isinstance(root, Connection) else []
    els = pyutil.all_elements(root)
    if conns and els and rnd.random() < 0.15:
        rnd.choice(conns)._elements.append(rnd.choice(els))
        return True
    return False


def run(ctx):
    from pyimpspec import Circuit, Series
    from pyimpspec.analysis.fitting import generate_fit_identifiers
    ctx.rule = ("circuits: every normal-form topology up to 3 (thorough 4) leaves and random ones up to 10 leaves, element classes drawn from the whole registry or from small sets "
                "(repeated types), containers with nested sub-circuits, labelled/unlabelled mixes, occasionally one element object shared between two places; a case is non-trivial when distinct")
    cases, rnd = gen(ctx, ctx.thorough)
    lines, recs = [], []
    for t in cases:
        root = circgen.build(t)
        if t[0] == "E":
            root = Series([root])
        shared = share_objects(rnd, root)
        circuit = Circuit(root)
        ids = {}
        toks = tokens(circuit._elements, ids)
        lines.append("ident " + " ".join(toks))
        recs.append((circuit, ids, shared))
        ctx.note_case(" ".join(toks))
    out = common.run_driver(lines)
    nd = 0
    for (circuit, ids, shared), line, rep in zip(recs, lines, out):
        con = circuit._elements
        try:
            els = con._get_elements_recursive()
            run_ids = con.generate_element_identifiers(running=True)
            typ_ids = con.generate_element_identifiers(running=False)
            names = [con.get_element_name(e, typ_ids) for e in els]
            real = "ok " + ",".join(f"{ids[id(e)]}:{run_ids[e]}" for e in els) + " " + ",".join(f"{ids[id(e)]}:{typ_ids[e]}" for e in els) + " " + ",".join(names)
        except Exception as x:  # noqa
            real = "err " + type(x).__name__
        ctx.count("impl:" + real.split(" ")[0])
        if real != rep:
            nd += 1
            if nd <= 3:
                ctx.add_broken("correspondence", "ident", {"circuit": circuit.to_string(1)[:300], "implementation": real[:400], "model": rep[:400]})
        if real.startswith("err"):
            ctx.add_failing("identifiers-fail", {"cdc": circuit.to_string(1)}, observed=real, expected="identifier maps")
            continue
        # ---- the property itself
        reach = pyutil.all_elements(circuit)
        desc = {"cdc": circuit.serialize(3), "shared": shared}
        if len(els) != len(reach) or {id(e) for e in els} != {id(e) for e in reach}:
            ctx.add_failing("not-every-element-once", desc, observed=f"{len(els)} visited", expected=f"{len(reach)} reachable", clause="each element (incl. nested in containers) receives exactly one identifier of each kind")
        if sorted(run_ids.values()) != list(range(len(reach))):
            ctx.add_failing("running-index", desc, observed=sorted(run_ids.values()), expected=f"0..{len(reach) - 1}", clause="a running index 0..N-1")
        by_sym = {}
        for e in els:
            by_sym.setdefault(e.get_symbol(), []).append(typ_ids[e])
        for s, v in by_sym.items():
            if v != list(range(1, len(v) + 1)):
                ctx.add_failing("per-type-count", desc, observed={s: v}, expected="1..k in traversal order", clause="a per-type count starting at 1")
        labels = [(e.get_symbol(), e.get_label()) for e in els if e.get_label()]
        dup_labels = len(set(labels)) != len(labels)
        if not dup_labels and len(set(names)) != len(names):
            # a label that looks like a count ("R_2" vs the second unlabelled R) is a user-assigned duplicate in effect
            clash = [n for n in set(names) if names.count(n) > 1]
            auto = {f"{e.get_symbol()}_{typ_ids[e]}" for e in els if not e.get_label()}
            if not all(c in auto and any(e.get_label() and f"{e.get_symbol()}_{e.get_label()}" == c for e in els) for c in clash):
                ctx.add_failing("names-not-unique", desc, observed=clash, expected="unique names", clause="one display name, unique within the circuit unless the user assigned duplicate labels")
        # consumers use the same map
        try:
            fit_ids = generate_fit_identifiers(circuit)
            for e in els:
                for k in e.get_values():
                    want = f"{k}_{run_ids[e]}"
                    if getattr(fit_ids[e], k) != want:
                        ctx.add_failing("fit-identifier", desc, observed=getattr(fit_ids[e], k), expected=want, clause="the same identifier denotes the same element in the fitting parameter identifiers")
            allnames = [getattr(fit_ids[e], k) for e in els for k in e.get_values()]
            if len(set(allnames)) != len(allnames):
                ctx.add_failing("fit-identifiers-collide", desc, observed="duplicates", expected="injective")
        except Exception as x:  # noqa
            ctx.add_failing("fit-identifiers-fail", desc, observed=type(x).__name__, expected="identifiers")
        if len(ctx.failing) > 6:
            break
    ctx.counters["diffs"] = nd
    consumers(ctx, rnd)
    ctx.sample({"line": lines[0][:200], "model": out[0][:200]})
    ctx.sample({"line": lines[-1][:300], "model": out[-1][:300]})
    ctx.undecided.append("diagram labels are compared with the identifier maps by C20's check")


def consumers(ctx, rnd):
    """The same identifier denotes the same element for the consumers of the maps: the table of fitted parameters (circuits
    with up to 26 elements: identifiers with one and two digits, repeated types) and the symbolic expression's variables
    (incl. elements nested in containers)."""
    import numpy as np
    import sympy
    from copy import deepcopy
    from pyimpspec import Circuit, parse_cdc
    import pyimpspec.analysis.fitting as FT
    from lmfit.minimizer import MinimizerResult
    big = ctx.thorough
    # ---- table of fitted parameters
    for j in range(120 if big else 30):
        n = rnd.choice([1, 3, 9, 10, 11, 12, 13, 20, 21, 26]) if j % 2 else rnd.randint(1, 26)
        t = circgen.fill(rnd, circgen.random_shape(rnd, n), rnd.choice([["R", "C"], ["R", "C", "L", "Q", "W"], ["R"]]))
        c = Circuit(circgen.build(t))
        for e in c.get_elements(recursive=True):
            for k in e.get_values():
                if rnd.random() < 0.2:
                    e.set_fixed(**{k: True})
        ids = FT.generate_fit_identifiers(c)
        try:
            params = FT._to_lmfit(ids, {}, {})
        except ValueError:
            continue
        # every varied parameter gets its own, recognisable value
        tag = {}
        for i, (name, p) in enumerate(params.items()):
            if p.vary:
                lo = p.min if np.isfinite(p.min) else 0.0
                hi = p.max if np.isfinite(p.max) else lo + 1e6
                p.value = lo + (hi - lo) * (i + 1) / (len(params) + 2)
                tag[name] = p.value
        c2 = deepcopy(c)
        ids2 = FT.generate_fit_identifiers(c2)
        FT._from_lmfit(params, ids2)
        try:
            tbl = FT._extract_parameters(c2, MinimizerResult(var_names=[n_ for n_, p in params.items() if p.vary], params=params))
        except Exception as x:  # noqa
            ctx.add_failing("fitted-parameter-table", {"cdc": c.serialize(3), "elements": n}, observed=f"{type(x).__name__}: {x}"[:200], expected="a table", clause="the same name denotes the same element in the table of fitted parameters")
            continue
        ctx.count("consumer:parameter-table")
        ctx.note_case(("table", c.to_string(0)))
        typ = c2.generate_element_identifiers(running=False)
        for e in c2.get_elements(recursive=True):
            name = e.get_name() if e.get_name() != e.get_symbol() else f"{e.get_symbol()}_{typ[e]}"
            row = tbl.get(name, {})
            for k, v in e.get_values().items():
                if k not in row or row[k].value != v:
                    ctx.add_failing("fitted-parameter-table", {"cdc": c.serialize(3), "elements": n, "element": name, "parameter": k}, observed=f"table reports {row[k].value if k in row else None!r}", expected=f"the element's value {v!r}",
                                    clause="a value reported under a name is always the value of that element's parameter (table of fitted parameters)")
                    break
            else:
                continue
            break
    # ---- identifiers follow the circuit's current structure: observe, edit in place, observe again
    from pyimpspec import Resistor, Capacitor
    for j in range(60 if big else 15):
        t = circgen.fill(rnd, circgen.random_shape(rnd, rnd.randint(2, 8)), ["R", "C", "L", "Q", "W"])
        c = Circuit(circgen.build(t))
        try:
            c.generate_element_identifiers(running=True)
            c.generate_element_identifiers(running=False)
            [c.get_element_name(e) for e in c.get_elements(recursive=True)]
            cons = [x for x in c.get_connections(recursive=True)]
            con = rnd.choice(cons)
            r = rnd.random()
            if r < 0.4 and len(con) > 1:
                con.pop(rnd.randrange(len(con)))
                what = "pop"
            elif r < 0.7:
                con.insert(rnd.randrange(len(con) + 1), rnd.choice([Resistor, Capacitor])())
                what = "insert"
            else:
                items = list(con)
                con.clear()
                con.extend(items[::-1])
                what = "reverse"
            fresh = parse_cdc(c.serialize(12))
        except Exception as x:  # noqa
            ctx.count("consumer:edit:skipped:" + type(x).__name__)
            continue
        if fresh.to_string() != c.to_string():
            ctx.count("consumer:edit:not-normal-form(skipped)")
            continue
        ctx.count("consumer:identifiers-after-edit")
        ctx.note_case(("edit", what, c.to_string(0)))
        els_c, els_f = c.get_elements(recursive=True), fresh.get_elements(recursive=True)
        try:
            [c.get_element_name(e) for e in els_c]
            c.generate_element_identifiers(running=True)
        except Exception as x:  # noqa
            ctx.add_failing("identifiers-after-in-place-edit", {"cdc": c.serialize(3), "edit": what}, observed=f"{type(x).__name__}: {x}"[:200], expected="identifiers and names of the edited circuit",
                            clause="in every circuit each element receives exactly one identifier of each kind and one display name")
            continue
        for running in (True, False):
            ids_c, ids_f = c.generate_element_identifiers(running=running), fresh.generate_element_identifiers(running=running)
            got = [ids_c.get(e) for e in els_c]
            want = [ids_f.get(e) for e in els_f]
            if got != want or len(ids_c) != len(els_c):
                ctx.add_failing("identifiers-after-in-place-edit", {"cdc": c.serialize(3), "edit": what, "running": running}, observed=f"{got} ({len(ids_c)} identifiers)", expected=f"{want}",
                                clause="in every circuit each element receives exactly one identifier of each kind (running 0..N-1, per type from 1)")
                break
        names_c = [c.get_element_name(e) for e in els_c]
        names_f = [fresh.get_element_name(e) for e in els_f]
        if names_c != names_f:
            ctx.add_failing("names-after-in-place-edit", {"cdc": c.serialize(3), "edit": what}, observed=names_c, expected=names_f, clause="one display name ... the same name denotes the same element")
    # ---- symbolic variables
    symbols = ["R", "C", "L", "Q", "W", "Tlm", "Tlmbo"]
    for j in range(40 if big else 10):
        t = circgen.fill(rnd, circgen.random_shape(rnd, rnd.randint(1, 5)), symbols)
        c = Circuit(circgen.build(t))
        if j % 2 == 0:
            c = parse_cdc(rnd.choice(["RRTlm", "R(C[RTlm])", "Tlm(RC)", "R(RTlm)C", "Tlm{X_1=R(RC)}R"]))
        ids = FT.generate_fit_identifiers(c)
        want = {getattr(m, k) for e, m in ids.items() for k in e.get_values() if not e.get_label()}
        try:
            with pyutil.TimeLimit(20):
                expr = c.to_sympy(substitute=False)
                got = {str(s_) for s_ in expr.free_symbols} - {"f"}
        except (Exception, TimeoutError) as x:  # noqa
            ctx.count("consumer:sympy:skipped:" + type(x).__name__)
            continue
        ctx.count("consumer:sympy-variables")
        ctx.note_case(("sympy", c.to_string(0)))
        # every variable of the expression is one of the fit identifiers (parameters that cancel may be absent), and a
        # variable never denotes two elements: substituting each element's values under its own names reproduces the impedance
        if not got <= want:
            ctx.add_failing("sympy-variables", {"cdc": c.serialize(3)}, observed=sorted(got - want), expected=f"a subset of {sorted(want)}", clause="the same name/identifier denotes the same element in the symbolic expression's variables")
            continue
        try:
            with pyutil.TimeLimit(20):
                sub = {getattr(m, k): v for e, m in ids.items() for k, v in e.get_values().items()}
                f0 = 10 ** rnd.uniform(-1, 3)
                z = complex(sympy.N(expr.subs({k: (v if np.isfinite(v) else sympy.oo) for k, v in sub.items()}).subs("f", f0)))
                zr = complex(c.get_impedances(np.array([f0]))[0])
        except (Exception, TimeoutError) as x:  # noqa
            ctx.count("consumer:sympy:evaluation-skipped:" + type(x).__name__)
            continue
        if np.isfinite(zr) and not (abs(z - zr) <= 1e-6 * abs(zr)):
            ctx.add_failing("sympy-variables", {"cdc": c.serialize(3), "f": f0}, observed=f"expression with every element's values under its own names = {z}", expected=f"{zr}", clause="a value reported under a name is always the value of that element's parameter (symbolic expression)")


def search(ctx):
    pass


def replay(ctx, path):
    print(json.dumps(json.load(open(path)).get("failing", [])[:5], indent=1, default=str)[:4000])
    return 0

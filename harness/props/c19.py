"""C19 — the command-line interface reports what the API computes.

Tie (H): correspondence streams `cli filt` (apply_filters on real DataSets vs `Cli.applyFilters`) and `cli ident`
(`_parse_identity` vs `Cli.parseIdentity`, incl. malformed specifiers).
Direct oracle: the real CLI is run in-process (`pyimpspec.cli.main()` with patched argv, captured stdout / output
directory) and every number it prints or writes is compared with the corresponding API call on the same inputs:
parse (generated files and mock specifiers x filters x exclusions x csv/json/md), circuit --simulate, fit, drt."""
import contextlib
import io
import json
import math
import os
import shutil
import sys
import tempfile

import numpy as np

import common

ID = "C19"
KEYS = {"noise": float, "num_per_decade": int, "log_max_f": float, "log_min_f": float, "seed": int, "drift": float}


def run_cli(argv):
    import pyimpspec.cli as C
    old = sys.argv
    sys.argv = ["pyimpspec"] + [str(a) for a in argv]
    buf = io.StringIO()
    try:
        with contextlib.redirect_stdout(buf), contextlib.redirect_stderr(io.StringIO()):
            C.main()
    finally:
        sys.argv = old
    return buf.getvalue()


def numbers_csv(text):
    """all numeric cells of a CSV block, row-major"""
    out = []
    for line in text.strip().splitlines()[1:]:
        for cell in line.split(","):
            try:
                out.append(float(cell))
            except ValueError:
                pass
    return out


def numbers_md(text):
    out = []
    for line in text.strip().splitlines()[2:]:
        for cell in line.strip().strip("|").split("|"):
            try:
                out.append(float(cell.strip()))
            except ValueError:
                pass
    return out


def numbers_json(text):
    d = json.loads(text)
    out = []
    cols = list(d.keys())
    rows = list(d[cols[0]].keys())
    for r in rows:
        for c in cols:
            v = d[c][r]
            if isinstance(v, (int, float)) and not isinstance(v, bool):
                out.append(float(v))
    return out


def df_numbers(df):
    out = []
    for _, row in df.iterrows():
        for v in row.tolist():
            if isinstance(v, (int, float, np.floating, np.integer)) and not isinstance(v, bool):
                if not (isinstance(v, float) and math.isnan(v)):
                    out.append(float(v))
    return out


def close_lists(a, b, rel, abs_tol=0.0):
    if len(a) != len(b):
        return False
    return all((x == y) or abs(x - y) <= rel * max(abs(x), abs(y)) + abs_tol for x, y in zip(a, b))


def hx(s):
    return s.encode().hex() if s else "00"[:0] or "-"


def run(ctx):
    import warnings
    warnings.filterwarnings("ignore")
    os.environ.setdefault("MPLBACKEND", "Agg")
    from argparse import Namespace
    from pyimpspec import DataSet, calculate_drt, fit_circuit, generate_mock_data, parse_cdc, parse_data, simulate_spectrum
    from pyimpspec.analysis.utility import _interpolate
    import pyimpspec.cli.utility as CU

    rnd = ctx.pyrandom(19)
    big = ctx.thorough
    ctx.rule = ("correspondence: apply_filters on random data sets (3..14 points, random prior masks, cut-offs on / between / outside the frequencies, random exclusion lists incl. out-of-range and duplicates) "
                "and _parse_identity on generated specifiers (valid keyword lists, circuit codes with colons inside brackets, malformed and unknown keywords, white space); oracle: the real CLI in-process on "
                "generated files and mock specifiers x {csv, json, md} x filter options for parse, circuit --simulate, fit, drt; a case is non-trivial when its argument vector is distinct")
    ctx.assumptions += ["pandas' text formatting (to_csv / to_json / to_markdown) and argparse are runtime: CSV cells are compared exactly, JSON to 1e-10 absolute (10 decimals are written), markdown to the requested 6 significant digits"]

    # ---- (a) correspondence: apply_filters
    lines, real = [], []
    for _ in range(600 if big else 150):
        n = rnd.randint(3, 14)
        fs = sorted(rnd.sample(range(2, 60, 2), n), reverse=True)
        mask = {i: (rnd.random() < 0.2) for i in range(n)}
        d = DataSet(np.array(fs, dtype=float), np.array([complex(1, -1)] * n), mask=dict(mask))
        low = rnd.choice([0, 0, -3, rnd.randint(1, 62), rnd.choice(fs)])
        high = rnd.choice([0, 0, -1, rnd.randint(1, 62), rnd.choice(fs)])
        ex = [] if rnd.random() < 0.4 else [rnd.randint(-2, n + 1) for _ in range(rnd.randint(1, 4))]
        lines.append(f"cli filt {','.join(map(str, fs))} {','.join(str(int(mask[i])) for i in range(n))} {low} {high} {','.join(map(str, ex)) or '-'}")
        try:
            CU.apply_filters(d, Namespace(low_pass_cutoff=float(low), high_pass_cutoff=float(high), exclude_indices=ex))
            m = d.get_mask()
            real.append("ok " + ",".join(str(int(m[i])) for i in range(n)))
        except ValueError:
            real.append("err ValueError")
        ctx.note_case(("filt", tuple(fs), tuple(mask.values()), low, high, tuple(ex)))
        ctx.count("filt:" + real[-1].split(" ")[0])
    # ---- (b) correspondence: _parse_identity
    idents = ["CIRCUIT_1", "CIRCUIT_2_INVALID", "*", "R{R=1:a}(R{R=2}C)", "R{R=100}(R{R=200:x}C{C=1e-6})", "[R(C:1)]", "R{R=1:a}", "Circuit 1", "", "a:b", "R{R=1}C:"]
    vals = ["0.5", "1e-3", "7", "42", "-3", "abc", "", "1.5 ", " 2", "1,5", "{x}", "3)"]
    for _ in range(800 if big else 200):
        ident = rnd.choice(idents)
        r = rnd.random()
        if r < 0.25:
            s = ident
        else:
            nkw = rnd.randint(1, 3)
            parts = []
            for _k in range(nkw):
                k = rnd.choice(list(KEYS) + (["nois", "Noise", "seed "] if rnd.random() < 0.15 else []))
                v = rnd.choice(vals)
                sep = rnd.choice(["=", "=", "=", "==", "", " = "])
                parts.append(rnd.choice(["", "", " "]) + k + sep + v)
            s = ident + ":" + rnd.choice([",", ",", ", "]).join(parts)
        lines.append(f"cli ident {s.encode().hex() or '-'}")
        try:
            i2, kw = CU._parse_identity(s)
            real.append(("ok", i2, kw))
        except KeyError:
            real.append(("err", "KeyError"))
        except ValueError:
            real.append(("err", "ValueError"))
        ctx.note_case(("ident", s))
    out = common.run_driver(lines)
    nd = 0
    for l, a, b in zip(lines, real, out):
        if isinstance(a, str):
            ok = a == b
        else:
            # the model keeps the values as text; the conversion with float()/int() is Python's and happens argument by
            # argument: replay it on the model's trace of accepted pairs
            t = b.split(" ")
            trace, t = t[0], t[1:]
            conv_fail = False
            if trace != "-":
                for kv in trace.split(","):
                    k, v = kv.split("=")
                    try:
                        KEYS[bytes.fromhex(k).decode()](bytes.fromhex(v).decode())
                    except ValueError:
                        conv_fail = True
                        break
            if conv_fail:
                ok = a[0] == "err" and a[1] == "ValueError"
            elif t[0] == "err":
                ok = a[0] == "err" and a[1] == t[1]
            else:
                mi = bytes.fromhex(t[1]).decode() if len(t) > 1 and t[1] != "-" else ""
                mk = {}
                if len(t) > 2 and t[2] != "-":
                    for kv in t[2].split(","):
                        k, v = kv.split("=")
                        k, v = bytes.fromhex(k).decode(), bytes.fromhex(v).decode()
                        mk[k] = KEYS[k](v)
                ok = a[0] == "ok" and a[1] == mi and a[2] == mk and list(a[2]) == list(mk)
            ctx.count("ident:" + (a[0] if a[0] == "ok" else a[1]))
        if not ok:
            nd += 1
            if nd <= 3:
                ctx.add_broken("correspondence", "cli/" + l.split(" ")[1], {"line": l[:300], "decoded": bytes.fromhex(l.split(" ")[2]).decode() if l.startswith("cli ident") and l.split(" ")[2] != "-" else None,
                                                                          "implementation": str(a)[:300], "model": b[:300]})
    ctx.counters["corr:lines"] = len(lines)
    ctx.counters["corr:diffs"] = nd
    ctx.sample({"line": lines[0], "reply": out[0]})

    # ---- (c) oracle: the real CLI vs the API
    tmp = tempfile.mkdtemp(prefix="verif-c19-")
    try:
        # generated input files
        files = []
        for j in range(3):
            c = parse_cdc(rnd.choice(["R{R=50}(R{R=120}C{C=2e-6})", "R{R=5}(R{R=30}Q{Y=1e-4,n=0.85})(R{R=60}C{C=1e-3})", "R{R=1}L{L=1e-6}(R{R=2}C{C=1e-4})"]))
            f = np.logspace(rnd.choice([4, 5]), rnd.choice([-1, 0]), rnd.randint(12, 25))
            Z = c.get_impedances(f) * (1 + 0.001 * np.array([complex(rnd.gauss(0, 1), rnd.gauss(0, 1)) for _ in f]))
            path = os.path.join(tmp, f"in{j}.csv")
            with open(path, "w") as fp:
                fp.write("f,re,im\n" + "\n".join(f"{a!r},{z.real!r},{z.imag!r}" for a, z in zip(f.tolist(), Z.tolist())) + "\n")
            files.append(path)

        def api_data(spec):
            if spec.startswith("<"):
                ident, kw = spec[1:-1], {}
                if ":" in ident:
                    ident, rest = ident.split(":", 1)
                    for kv in rest.split(","):
                        k, v = kv.split("=")
                        kw[k] = KEYS[k](v)
                return generate_mock_data(ident, **kw)[0]
            return parse_data(spec)[0]

        def filtered(ds, low, high, ex):
            # the API equivalent of the requested filters (cf. Props.C19.applyFilters_ok)
            if low > 0:
                ds.low_pass(low)
            if high > 0:
                ds.high_pass(high)
            if ex:
                ds.set_mask({i: True for i in ex})
            return ds

        readers = {"csv": (numbers_csv, 0.0, 0.0), "json": (numbers_json, 0.0, 1e-10), "md": (numbers_md, 1e-5, 0.0)}
        nparse = 40 if big else 14
        for j in range(nparse):
            if rnd.random() < 0.5:
                spec = rnd.choice(files)
            else:
                kws = rnd.sample(["noise", "seed", "num_per_decade"], rnd.randint(0, 3))
                if "noise" in kws and "seed" not in kws:
                    kws.append("seed")     # without a seed the noise is drawn afresh on every call: nothing to compare
                kwtxt = ",".join(f"{k}={ {'noise': rnd.choice(['0.1', '0.5', '1e-2', '0']), 'seed': str(rnd.choice([0, 0, rnd.randint(1, 999)])), 'num_per_decade': str(rnd.randint(2, 6))}[k] }" for k in kws)
                if rnd.random() < 0.3:
                    kwtxt = (kwtxt + "," if kwtxt else "") + rnd.choice(["log_min_f=0", "log_max_f=3,log_min_f=0", "log_max_f=0,log_min_f=-2"])
                spec = "<" + rnd.choice(["CIRCUIT_1", "CIRCUIT_2", "CIRCUIT_5", "CIRCUIT_1_INVALID"]) + (":" + kwtxt if kwtxt else "") + ">"
            fmt = rnd.choice(["csv", "json", "md"])
            low = rnd.choice([0, 0, 1e3, 3e3])
            high = rnd.choice([0, 0, 1.0, 5.0])
            ex = [] if rnd.random() < 0.5 else sorted(set(rnd.randint(0, 10) for _ in range(rnd.randint(1, 3))))
            argv = ["parse", spec, "--output-format", fmt, "--suppress-progress"]
            if low:
                argv += ["--low-pass-filter", low]
            if high:
                argv += ["--high-pass-filter", high]
            if ex:
                argv += ["--exclude-indices"] + ex
            inp = {"argv": [str(a) for a in argv]}
            ctx.note_case(tuple(inp["argv"]))
            ctx.count(f"cli:parse:{fmt}:{'mock' if spec.startswith('<') else 'file'}")
            try:
                ds_api = filtered(api_data(spec), low, high, ex)
                if ds_api.get_num_points() < 1:
                    # nothing is left: the CLI must refuse as well (Props.C19.applyFilters_error_iff)
                    try:
                        run_cli(argv)
                        ctx.add_failing("parse-output-differs", inp, observed="output", expected="ValueError: all data points are masked", clause="'parse' prints the parsed spectrum (after the requested filters and exclusions)")
                    except ValueError:
                        ctx.count("cli:parse:all-masked-refused")
                    continue
                text = run_cli(argv)
                expected = df_numbers(ds_api.to_dataframe())
            except Exception as x:  # noqa
                ctx.add_failing("cli-raises", inp, observed=f"{type(x).__name__}: {x}"[:200], expected="output", clause="'parse' prints the parsed spectrum (after the requested filters and exclusions)")
                continue
            rd, rel, ab = readers[fmt]
            got = rd(text)
            if not close_lists(got, expected, rel, ab):
                ctx.add_failing("parse-output-differs", inp, observed=f"{len(got)} numbers, first {got[:5]}", expected=f"{len(expected)} numbers, first {expected[:5]}",
                                clause="'parse' prints the parsed spectrum (after the requested filters and exclusions); mock-data specifiers denote the same data set as generate_mock_data with those keyword arguments")
            if j == 0:
                ctx.sample({"argv": inp["argv"], "first_numbers": got[:5]})
        # several mock-data specifiers in ONE invocation, some sharing the identifier but not the keyword arguments: every one denotes
        # its own data set
        for j in range(6 if big else 2):
            ident = rnd.choice(["CIRCUIT_1", "CIRCUIT_2", "R{R=100}(R{R=200}C{C=1e-6})"])
            kwsets = [f"noise=0.5,seed={rnd.randint(1, 99)}", f"noise=0.5,seed={rnd.randint(100, 199)}", f"num_per_decade={rnd.randint(2, 5)}", "log_max_f=4,log_min_f=1,num_per_decade=3"]
            specs = [f"<{ident}:{kw}>" for kw in rnd.sample(kwsets, rnd.randint(2, 3))]
            argv = ["parse"] + specs + ["--output-format", "csv", "--suppress-progress"]
            inp = {"argv": argv}
            ctx.note_case(tuple(argv))
            ctx.count("cli:parse:several-specifiers")
            try:
                text = run_cli(argv)
                # one table per input; the order in which the CLI prints them is not part of the property: compare as multisets
                expected = sorted(df_numbers(api_data(sp).to_dataframe()) for sp in specs)
                got = sorted(numbers_csv(b) for b in text.strip().split("\n\n") if b.strip())
            except Exception as x:  # noqa
                ctx.add_failing("cli-raises", inp, observed=f"{type(x).__name__}: {x}"[:200], expected="output", clause="mock-data specifiers denote the same data set as generate_mock_data with those keyword arguments")
                continue
            if len(got) != len(expected) or not all(close_lists(g_, e_, 0.0, 0.0) for g_, e_ in zip(got, expected)):
                ctx.add_failing("parse-output-differs", inp, observed=f"{len(got)} tables, first numbers {[g_[:3] for g_ in got]}", expected=f"{len(expected)} tables, first numbers {[e_[:3] for e_ in expected]}",
                                clause="mock-data specifiers denote the same data set as generate_mock_data with those keyword arguments")
        # circuit --simulate
        for j in range(12 if big else 4):
            cdc = rnd.choice(["R{R=100}(R{R=200}C{C=1e-6})", "R{R=10}(R{R=20}Q{Y=1e-4,n=0.8})", "R{R=1}L{L=1e-5}", "<CIRCUIT_3>"])
            fmax, fmin, npd = rnd.choice([1e4, 1e5]), rnd.choice([0.1, 1.0]), rnd.randint(1, 5)
            fmt = rnd.choice(["csv", "json"])
            odir = tempfile.mkdtemp(prefix="sim", dir=tmp)
            argv = ["circuit", cdc, "--simulate", "--max-frequency", fmax, "--min-frequency", fmin, "--num-per-decade", npd, "--output-format", fmt, "--output-to", "--output-dir", odir, "--output-name", "sim", "--suppress-progress"]
            inp = {"argv": [str(a) for a in argv]}
            ctx.note_case(tuple(inp["argv"][:9]))
            ctx.count("cli:circuit-simulate")
            try:
                run_cli(argv)
                text = open(os.path.join(odir, "sim." + fmt)).read()
                from pyimpspec import generate_mock_circuits
                circ = generate_mock_circuits(cdc[1:-1])[0] if cdc.startswith("<") else parse_cdc(cdc)
                expected = df_numbers(simulate_spectrum(circ, _interpolate([fmax, fmin], npd)).to_dataframe())
            except Exception as x:  # noqa
                ctx.add_failing("cli-raises", inp, observed=f"{type(x).__name__}: {x}"[:200], expected="output", clause="'circuit --simulate' the simulated spectrum of the given code")
                continue
            rd, rel, ab = readers[fmt]
            if not close_lists(rd(text), expected, rel, ab):
                ctx.add_failing("simulate-output-differs", inp, observed=str(rd(text)[:5]), expected=str(expected[:5]), clause="'circuit --simulate' the simulated spectrum of the given code")
        # fit
        for j in range(6 if big else 2):
            spec = rnd.choice(files[:2] + ["<CIRCUIT_2:noise=0.1,seed=3>"])
            cdc = "R(RC)" if "CIRCUIT" not in spec and spec == files[0] else ("R(RQ)(RC)" if spec == files[1] else "R(RQ)")
            method, weight = rnd.choice(["least_squares", "leastsq", "lbfgsb"]), rnd.choice(["boukamp", "modulus", "proportional"])
            low = rnd.choice([0, 1e4])
            argv = ["fit", cdc, spec, "--method", method, "--weight", weight, "--output-format", "csv", "--num-procs", 1, "--suppress-progress"] + (["--low-pass-filter", low] if low else [])
            inp = {"argv": [str(a) for a in argv]}
            ctx.note_case(tuple(inp["argv"]))
            ctx.count("cli:fit")
            try:
                text = run_cli(argv)
                ds = filtered(api_data(spec), low, 0, [])
                fit = fit_circuit(parse_cdc(cdc), ds, method=method, weight=weight, max_nfev=-1, num_procs=1, timeout=0)
                blocks = [b for b in text.strip().split("\n\n") if b.strip()]
                got = numbers_csv(blocks[1]) + numbers_csv(blocks[2])
                expected = df_numbers(fit.to_parameters_dataframe()) + df_numbers(fit.to_statistics_dataframe())
            except Exception as x:  # noqa
                ctx.add_failing("cli-raises", inp, observed=f"{type(x).__name__}: {x}"[:200], expected="output", clause="'fit' the fitted parameters and statistics of fit_circuit with the same settings")
                continue
            if not close_lists(got, expected, 1e-9):
                ctx.add_failing("fit-output-differs", inp, observed=str(got[:8]), expected=str(expected[:8]), clause="'fit' the fitted parameters and statistics of fit_circuit with the same settings")
        # fit with several data sets in one invocation: every one is fitted from the initial values of the given code
        for j in range(3 if big else 1):
            specs = [files[0], "<CIRCUIT_2:noise=0.1,seed=3>"] if j % 2 == 0 else ["<CIRCUIT_2:noise=0.1,seed=3>", "<CIRCUIT_5:noise=0.05,seed=4>"]
            cdc = "R{R=50}(R{R=300}Q{Y=1e-5,n=0.9})"
            method, weight = rnd.choice(["leastsq", "least_squares"]), rnd.choice(["boukamp", "modulus"])
            argv = ["fit", cdc] + specs + ["--method", method, "--weight", weight, "--output-format", "csv", "--num-procs", 1, "--suppress-progress"]
            inp = {"argv": [str(a) for a in argv]}
            ctx.note_case(tuple(inp["argv"]))
            ctx.count("cli:fit:several-inputs")
            try:
                text = run_cli(argv)
                parts = text.split("CDC:")[1:]
                if len(parts) != len(specs):
                    raise ValueError(f"{len(parts)} reports for {len(specs)} inputs")
                for spec, part in zip(specs, parts):
                    blocks = [b for b in part.strip().split("\n\n") if b.strip()]
                    got = numbers_csv(blocks[1]) + numbers_csv(blocks[2])
                    fit = fit_circuit(parse_cdc(cdc), api_data(spec), method=method, weight=weight, max_nfev=-1, num_procs=1, timeout=0)
                    expected = df_numbers(fit.to_parameters_dataframe()) + df_numbers(fit.to_statistics_dataframe())
                    if not close_lists(got, expected, 1e-9):
                        ctx.add_failing("fit-output-differs", dict(inp, data_set=spec), observed=str(got[:8]), expected=str(expected[:8]), clause="'fit' the fitted parameters and statistics of fit_circuit with the same settings (every data set of the invocation)")
            except Exception as x:  # noqa
                ctx.add_failing("cli-raises", inp, observed=f"{type(x).__name__}: {x}"[:200], expected="output", clause="'fit' the fitted parameters and statistics of fit_circuit with the same settings")
        # drt
        for j in range(8 if big else 3):
            spec = rnd.choice(files + ["<CIRCUIT_5:noise=0.05,seed=11>"])
            mode, lam = rnd.choice(["real", "imaginary"]), rnd.choice([1e-3, 1e-2, -1.0])
            argv = ["drt", spec, "--method", "tr-nnls", "--mode", mode, "--lambda-value", lam, "--output-format", "csv", "--suppress-progress"]
            inp = {"argv": [str(a) for a in argv]}
            ctx.note_case(tuple(inp["argv"]))
            ctx.count("cli:drt")
            try:
                text = run_cli(argv)
                drt = calculate_drt(api_data(spec), method="tr-nnls", mode=mode, lambda_value=lam)
                blocks = [b for b in text.strip().split("\n\n") if b.strip()]
                got = numbers_csv(blocks[0])
                expected = df_numbers(drt.to_statistics_dataframe())
                if len(blocks) > 1:
                    got += numbers_csv(blocks[1])
                    expected += df_numbers(drt.to_peaks_dataframe(threshold=0.0))
            except Exception as x:  # noqa
                ctx.add_failing("cli-raises", inp, observed=f"{type(x).__name__}: {x}"[:200], expected="output", clause="'drt' the statistics of calculate_drt with the same settings")
                continue
            if not close_lists(got, expected, 1e-9):
                ctx.add_failing("drt-output-differs", inp, observed=str(got[:8]), expected=str(expected[:8]), clause="'fit'/'drt' the fitted parameters and statistics of fit_circuit/calculate_drt with the same settings")
    finally:
        shutil.rmtree(tmp, ignore_errors=True)


def search(ctx):
    pass


def replay(ctx, path):
    print(json.dumps(json.load(open(path)).get("failing", [])[:5], indent=1, default=str)[:4000])
    return 0

"""C18 — every documented option combination completes or is refused up front; progress payloads in [0,1].

Correspondence stream `prog`: `pyimpspec.progress.Progress` is wrapped from this harness process, so that
every analysis run records (total, sequence of operations, emitted payloads); the Lean model `Prog.step`
replays the same operations (driver op `prog`), and the step accounting models of perform_zhit /
fit_circuit are compared with the observed (total, #increments) (`zprog`, `fprog`).
Direct oracle: the option cross product per entry point on small spectra — each call must return a result
or raise TypeError / ValueError / a library error; never IndexError, KeyError, AttributeError, …, never the
bookkeeping error of Progress, and never a TypeError/ValueError escaping from inside numpy/scipy/lmfit
after the analysis has started."""
import itertools
import json
import math
import traceback

import numpy as np

import common

ID = "C18"
LOG = []          # global sequence of (object id, op token, recent_before, emitted fractions during the op)
_EMITTED = []
_DEPTH = [0]


def install():
    import pyimpspec.progress as P
    if getattr(P.Progress, "_verif_wrapped", False):
        return
    orig = {k: getattr(P.Progress, k) for k in ("__init__", "__enter__", "__exit__", "increment", "set_message", "set")}

    def cb(*a, **k):
        _EMITTED.append((k.get("progress"), k.get("message")))

    P.register(cb)

    def wrap(name, tok):
        def f(self, *a, **k):
            before = P._RECENT_PROGRESS
            n0 = len(_EMITTED)
            t = tok(self, *a, **k)
            if name == "__enter__":
                _DEPTH.append(None)
                self._vid = len(_DEPTH)      # id() values are reused after garbage collection
            _DEPTH[0] += 1
            try:
                return orig[name](self, *a, **k)
            finally:
                _DEPTH[0] -= 1
                if _DEPTH[0] == 0:   # `__exit__` calls `increment`: record the outer operation only
                    LOG.append((getattr(self, '_vid', id(self)), t, before, list(_EMITTED[n0:]), self._total, self._kwargs.get("N", 1.0)))
        return f

    P.Progress.__enter__ = wrap("__enter__", lambda self: "E")
    P.Progress.__exit__ = wrap("__exit__", lambda self, *a, **k: "X")
    P.Progress.increment = wrap("increment", lambda self, step=1, force=False: f"I:{step}:{int(bool(force))}")

    def smtok(self, message, i=-1, total=-1, force=True):
        return f"M:{int(bool(force))}" if (i < 0 and total < 0) else f"M!:{i}:{total}:{int(bool(force))}"

    P.Progress.set_message = wrap("set_message", smtok)
    P.Progress.set = wrap("set", lambda self, i: f"S:{i}")
    P.Progress._verif_wrapped = True


def frac(x):
    from fractions import Fraction
    f = Fraction(repr(float(x)))
    return f"{f.numerator}/{f.denominator}"


def take_log():
    global LOG
    log, LOG = LOG, []
    del _EMITTED[:]
    return log


ALLOWED_BASE = (TypeError, ValueError)


def classify(exc, tb, started):
    """None if the outcome is acceptable, else a description of the violation."""
    import pyimpspec.exceptions as X
    lib = tuple(v for v in vars(X).values() if isinstance(v, type) and issubclass(v, Exception))
    name = type(exc).__name__
    if "Expected self._i" in str(exc):
        return f"progress bookkeeping aborted the analysis: {exc}"
    if isinstance(exc, lib):
        return None
    if isinstance(exc, ALLOWED_BASE):
        frames = traceback.extract_tb(tb)
        inner = frames[-1].filename if frames else ""
        if "/pyimpspec/" in inner and (frames[-1].line or "").strip().startswith("raise"):
            if started and isinstance(exc, TypeError):
                # a TypeError of the library's own is argument validation; after progress has been reported it is not "up front" any more
                return f"{name} raised by the library after the analysis had started (progress already reported), not by up-front validation: {str(exc)[:160]}"
            return None      # raised by the library's own code with its own message
        if "/pyimpspec/" in inner:
            # numpy/SciPy raised from C code at a line of the library that is not a `raise` statement: an unhandled shape/type error
            return f"{name} raised by numpy/SciPy at {inner.split('/pyimpspec/')[-1]}:{frames[-1].lineno} `{(frames[-1].line or '').strip()[:80]}` (unhandled shape/type error): {str(exc)[:160]}"
        return f"{name} escaped from {inner.split('/site-packages/')[-1]} (unhandled shape/type error): {str(exc)[:200]}"
    return f"{name}: {str(exc)[:200]}"


def call(ctx, entry, fn, kwargs_desc, lines, expect):
    """Run one analysis call under the wrapped Progress; evaluate the oracle; queue correspondence lines."""
    take_log()
    outcome = "ok"
    try:
        with np.errstate(all="ignore"):
            fn()
    except BaseException as e:  # noqa
        if isinstance(e, KeyboardInterrupt):
            raise
        import sys
        tb = sys.exc_info()[2]
        log = list(LOG)
        started = any(t.startswith("I") for _, t, *_ in log)
        why = classify(e, tb, started)
        outcome = "refused:" + type(e).__name__
        if why is not None:
            ctx.add_failing("aborts", {"entry": entry, "options": kwargs_desc}, observed=why, expected="a result, or TypeError/ValueError/library error raised by the library itself",
                            repro=f"{entry}({kwargs_desc})", clause="either rejected by argument validation or runs to completion; never aborts because of bookkeeping or an unhandled shape/index error")
            outcome = "VIOLATION:" + type(e).__name__
    log = take_log()
    ctx.count(f"{entry}:{outcome}")
    ctx.note_case((entry, kwargs_desc))
    # payloads
    for _, tok, before, emitted, total, N in log:
        for p, msg in emitted:
            if not (isinstance(msg, str) and p is not None and 0.0 <= p <= 1.0):
                ctx.add_failing("progress-payload", {"entry": entry, "options": kwargs_desc, "payload": [p, msg]}, observed=f"progress={p} message={msg!r}", expected="0 <= progress <= 1 and a message",
                                clause="progress notifications always carry a fraction between 0 and 1 and a message")
    # correspondence: replay contiguous per-object op sequences in the model
    by_obj = {}
    order = []
    for rec in log:
        if rec[0] not in by_obj:
            by_obj[rec[0]] = []
            order.append(rec[0])
        by_obj[rec[0]].append(rec)
    for oid in order:
        recs = by_obj[oid]
        if recs[0][1] != "E" or any(t.startswith("M!") or t.startswith("S") for _, t, *_ in recs):
            ctx.count("prog:skipped(non-standard ops)")
            continue
        idxs = [i for i, r in enumerate(log) if r[0] == oid]
        if idxs != list(range(idxs[0], idxs[0] + len(idxs))):
            ctx.count("prog:skipped(nested progress objects interleave)")
            continue
        total, N, before = recs[0][4], recs[0][5], recs[0][2]
        lines.append(f"prog {frac(N)} {total} {frac(before)} " + " ".join(t for _, t, *_ in recs))
        expect.append((entry, kwargs_desc, recs, outcome))
    return outcome


def small_data(n, seed=3):
    from pyimpspec import generate_mock_data, DataSet
    d = generate_mock_data("CIRCUIT_1", noise=2e-2, seed=seed)[0]
    f, Z = d.get_frequencies(), d.get_impedances()
    idx = np.unique(np.round(np.linspace(0, len(f) - 1, n)).astype(int))
    return DataSet(f[idx], Z[idx], label=f"n{n}")


def pick(rnd, combos, k, big):
    combos = list(combos)
    if big or len(combos) <= k:
        return combos
    return rnd.sample(combos, k)


def run(ctx):
    import pyimpspec
    from pyimpspec import (perform_kramers_kronig_test, perform_zhit, calculate_drt, fit_circuit, parse_cdc)
    from pyimpspec.analysis.kramers_kronig import evaluate_log_F_ext, perform_exploratory_kramers_kronig_tests
    from pyimpspec.analysis.fitting import _METHODS, _WEIGHT_FUNCTIONS
    from pyimpspec.analysis.zhit.weights import _WINDOW_FUNCTIONS, _initialize_window_functions

    install()
    big = ctx.thorough
    rnd = ctx.pyrandom(6)
    ctx.rule = ("option cross product per entry point (KK: 7 tests x {Z,Y,auto} x C x L x {num_RC fixed|auto} x num_F_ext_evaluations {<0,0,>0} x rapid; Z-HIT: 6 smoothing x 5 interpolation x {Z,Y} x "
                "{custom weights, named window, auto}; DRT methods x modes x lambda modes; fit methods x weights) on spectra of several sizes incl. tiny ones; quick tier: a seeded sample of the product, "
                "thorough: the whole product; a case is non-trivial when (entry point, option tuple, data size) is distinct")
    ctx.assumptions += ["numerical failures inside numpy/scipy/lmfit are runtime; the oracle only classifies what escapes",
                        "float accumulation in _RECENT_PROGRESS may flip a `>=` that is an equality over the rationals: the emitted streams are compared only when equally long (slips are counted)"]
    lines, expect = [], []
    circuit0 = None
    sizes = {"tiny": small_data(4), "small": small_data(12), "medium": small_data(30), "n1": small_data(1), "n2": small_data(2), "n3": small_data(3), "n5": small_data(5)}
    # the smallest spectra each entry point accepts (known finding F22: some are not refused up front)
    for sz in ("n1", "n2", "n3", "tiny", "n5"):
        d = sizes[sz]
        call(ctx, "calculate_drt[tr-nnls]", lambda: calculate_drt(d, method="tr-nnls"), {"data": sz}, lines, expect)
        call(ctx, "calculate_drt[lm]", lambda: calculate_drt(d, method="lm", model_order_method="pseudo_chisqr", num_procs=1), {"model_order_method": "pseudo_chisqr", "data": sz}, lines, expect)
        call(ctx, "perform_kramers_kronig_test", lambda: perform_kramers_kronig_test(d, num_procs=1), {"data": sz}, lines, expect)
        call(ctx, "perform_zhit", lambda: perform_zhit(d, num_procs=1), {"data": sz}, lines, expect)
        call(ctx, "fit_circuit", lambda: fit_circuit(parse_cdc("R(RC)"), d, method="leastsq", weight="boukamp", num_procs=1), {"data": sz}, lines, expect)

    # ---- Kramers-Kronig
    tests = ["complex", "real", "imaginary", "complex-inv", "real-inv", "imaginary-inv", "cnls"]
    kk = itertools.product(tests, [False, True, None], [True, False], [True, False], [0, 5], [-12, 0, 12], [True, False], ["small", "medium"])
    for (t, adm, C, L, nrc, nev, rapid, sz) in pick(rnd, kk, 36, big):
        kw = dict(test=t, admittance=adm, add_capacitance=C, add_inductance=L, num_RC=nrc, num_F_ext_evaluations=nev, rapid_F_ext_evaluations=rapid, num_procs=1, max_nfev=30 if t == "cnls" else 0, timeout=0 if t != "cnls" else 60)
        if t == "cnls" and not big and nev != 0:
            kw["num_F_ext_evaluations"] = 0
        call(ctx, "perform_kramers_kronig_test", lambda: perform_kramers_kronig_test(sizes[sz], **kw), {**{k: v for k, v in kw.items()}, "data": sz}, lines, expect)
    # every (test, representation, fixed | automatic number of RC elements) at least once, the other options at their defaults
    for (t, adm, nrc) in itertools.product(tests, [False, True, None], [0, 7]):
        kw = dict(test=t, admittance=adm, num_RC=nrc, num_F_ext_evaluations=0, num_procs=1, max_nfev=30 if t == "cnls" else 0, timeout=0 if t != "cnls" else 60)
        call(ctx, "perform_kramers_kronig_test", lambda: perform_kramers_kronig_test(sizes["small"], **kw), {**kw, "data": "small"}, lines, expect)
    for (t, adm, nev) in pick(rnd, itertools.product(["complex", "real-inv"], [False, True], [0, 12]), 4, big):
        kw = dict(test=t, admittance=adm, num_F_ext_evaluations=nev, num_procs=1)
        call(ctx, "evaluate_log_F_ext", lambda: evaluate_log_F_ext(sizes["small"], **kw), {**kw, "data": "small"}, lines, expect)
        call(ctx, "perform_exploratory_kramers_kronig_tests", lambda: perform_exploratory_kramers_kronig_tests(sizes["small"], **kw), {**kw, "data": "small"}, lines, expect)

    # the extension search fans out over worker processes; with the non-linear test every worker fans out again
    for (t, nproc) in ([("cnls", 2), ("cnls", 4), ("complex", 2), ("real-inv", 3)] if big else [("cnls", 2)]):
        kw = dict(test=t, num_F_ext_evaluations=10, num_procs=nproc, max_nfev=30 if t == "cnls" else 0, timeout=60 if t == "cnls" else 0)
        call(ctx, "evaluate_log_F_ext", lambda: evaluate_log_F_ext(sizes["small"], **kw), {**kw, "data": "small"}, lines, expect)

    # ---- Z-HIT
    if len(_WINDOW_FUNCTIONS) == 0:
        _initialize_window_functions()
    nwf = len(_WINDOW_FUNCTIONS)
    zh = itertools.product(["none", "lowess", "modsinc", "savgol", "whithend", "auto"], ["akima", "cubic", "makima", "pchip", "auto"], [False, True], ["custom", "boxcar", "hann", "auto"], ["small", "medium"])
    zlines = []
    for (sm, ip, adm, win, sz) in pick(rnd, zh, 14, big):
        d = sizes[sz]
        kw = dict(smoothing=sm, interpolation=ip, admittance=adm, num_procs=1)
        if win == "custom":
            kw["weights"] = np.ones(d.get_num_points())
            kw["window"] = rnd.choice(["auto", "boxcar"])
        else:
            kw["window"] = win
        desc = {k: (v if not isinstance(v, np.ndarray) else "ones") for k, v in kw.items()}
        desc["data"] = sz
        n0 = len(expect)
        out = call(ctx, "perform_zhit", lambda: perform_zhit(d, **kw), desc, lines, expect)
        if out == "ok" and len(expect) > n0:
            recs = expect[n0][2]
            incs = sum(1 for _, t, *_ in recs if t.startswith("I")) + sum(1 for _, t, *_ in recs if t == "X")
            zlines.append((f"zprog {int(sm == 'auto')} {int(ip == 'auto')} {int(kw['window'] == 'auto')} {int(win == 'custom')} {nwf}", recs[0][4], incs, desc))
    # ---- fit
    circuit = parse_cdc("R(RC)(RW)")
    flines = []
    combos = list(itertools.product(list(_METHODS), list(_WEIGHT_FUNCTIONS), ["small"]))
    for (m, w, sz) in pick(rnd, combos, 10, big):
        kw = dict(method=m, weight=w, num_procs=1, max_nfev=200)
        call(ctx, "fit_circuit", lambda: fit_circuit(circuit, sizes[sz], **kw), {**kw, "data": sz}, lines, expect)
    for (ms, ws) in [(["leastsq", "powell"], ["boukamp", "unity", "modulus"]), ("auto", ["boukamp"])] + ([("auto", "auto")] if big else []):
        kw = dict(method=ms, weight=ws, num_procs=1, max_nfev=100)
        n0 = len(expect)
        out = call(ctx, "fit_circuit", lambda: fit_circuit(circuit, sizes["small"], **kw), {**kw, "data": "small"}, lines, expect)
        if out == "ok" and len(expect) > n0:
            recs = expect[n0][2]
            nm = len(_METHODS) if ms == "auto" else len(ms)
            nw = len(_WEIGHT_FUNCTIONS) if ws == "auto" else len(ws)
            incs = sum(1 for _, t, *_ in recs if t.startswith("I")) + sum(1 for _, t, *_ in recs if t == "X")
            flines.append((f"fprog {nm} {nw}", recs[0][4], incs, kw))
    # ---- DRT
    drt = []
    for mode, lam, sz in itertools.product(["real", "imaginary", "complex"], [-1.0, -2.0, 1e-3], ["tiny", "small", "medium"]):
        drt.append(("tr-nnls", dict(mode=mode, lambda_value=lam), sz))
    for mo, mom, sz in itertools.product([0, 3], ["matrix_rank", "pseudo_chisqr"], ["small", "medium"]):
        drt.append(("lm", dict(model_order=mo, model_order_method=mom, num_procs=1), sz))
    for sz in ["small", "medium"]:
        drt.append(("mrq-fit", dict(circuit=parse_cdc("R(RQ)(RQ)"), num_procs=1, max_nfev=100), sz))
    for rt, do, sz in itertools.product(["gaussian", "c2-matern"], [1, 2], ["small"]):
        drt.append(("bht", dict(rbf_type=rt, derivative_order=do, num_samples=100, num_attempts=2, num_procs=1), sz))
    for mode, lam, cv, sz in itertools.product(["complex", "real"], [1e-3, -1.0], ["gcv", "lc"], ["small"]):
        kw = dict(mode=mode, lambda_value=lam, num_procs=1)
        if lam < 0:
            kw["cross_validation"] = cv
        elif cv != "gcv":
            continue
        drt.append(("tr-rbf", kw, sz))
    # the smallest values the validation accepts (always run, not sampled)
    must = [("bht", dict(rbf_type="gaussian", derivative_order=1, num_samples=1, num_attempts=1, num_procs=1), "small"),
            ("bht", dict(rbf_type="gaussian", derivative_order=2, num_samples=2, num_attempts=1, num_procs=1), "small"),
            ("lm", dict(model_order=1, num_procs=1), "small"),
            ("tr-nnls", dict(mode="real", lambda_value=1e-12), "small")]
    for (m, kw, sz) in must + pick(rnd, drt, 16, big):
        desc = {k: (v if not hasattr(v, "to_string") else v.to_string()) for k, v in kw.items()}
        call(ctx, f"calculate_drt[{m}]", lambda: calculate_drt(sizes[sz], method=m, **kw), {**desc, "data": sz}, lines, expect)

    # ---- the model side
    allq = lines + [z[0] for z in zlines] + [f[0] for f in flines]
    out = common.run_driver(allq)
    nd = 0
    slips = 0
    for l, rep, (entry, desc, recs, outcome) in zip(lines, out[:len(lines)], expect):
        toks = rep.split(" ")[1:]
        m_err = any(t.startswith("err") for t in toks)
        i_err = "Expected self._i" in outcome or outcome.startswith("VIOLATION") and False
        real_emits = [[p for p, _ in r[3]] for r in recs]
        ctx.count("prog:objects")
        if m_err:
            # the model says the counter overshoots: the implementation must have raised the bookkeeping error
            nd += 1
            if nd <= 3:
                ctx.add_broken("correspondence", "prog", {"entry": entry, "options": desc, "line": l[:300], "model": rep[:300]})
            continue
        # compare emission streams (one model token per op)
        ok = len(toks) == len(recs)
        if ok:
            for t, em in zip(toks, real_emits):
                if t == "-" and not em:
                    continue
                if t != "-" and len(em) == 1:
                    a, b = t.split("/")
                    if abs(int(a) / int(b) - em[0]) <= 1e-9:
                        continue
                ok = False
                break
        if not ok:
            slips += 1
    ctx.counters["prog:float-slips(streams differ)"] = slips
    if slips > max(3, len(lines) // 5):
        ctx.add_broken("correspondence", "prog", {"note": f"{slips} of {len(lines)} emission streams differ from the model (more than float rounding explains)"})
    for (q, total, incs, desc), rep in zip(zlines + flines, out[len(lines):]):
        mt, mi = rep.split(" ")[1:3]
        ctx.count("accounting:compared")
        if (int(mt), int(mi)) != (total, incs):
            nd += 1
            ctx.add_broken("correspondence", "prog/accounting", {"options": desc, "query": q, "model(total,increments)": [mt, mi], "implementation": [total, incs]})
    ctx.counters["prog:lines"] = len(lines)
    ctx.counters["prog:diffs"] = nd
    if lines:
        ctx.sample({"line": lines[0][:300], "model": out[0][:300]})
    ctx.undecided += ["numerical failures inside numpy/scipy/lmfit: observed (classified) on the implementation only",
                      "step accounting of evaluate_log_F_ext and the DRT methods: compared with the Progress model operation by operation (conformance), not proved per entry point"]


def search(ctx):
    pass


def replay(ctx, path):
    print(json.dumps(json.load(open(path)).get("failing", [])[:5], indent=1, default=str)[:4000])
    return 0

"""C09 — Kramers-Kronig verdicts do not depend on units or point order.

Correspondence stream `tau`: `_generate_time_constants` vs the Lean model `KKTau.tau` (Float instance of the
definition the theorems are about).  Direct (metamorphic) oracle on the implementation: multiplying all
impedances by c, multiplying all frequencies by c, or reversing the point order leaves the relative residuals
and the pseudo chi-squared unchanged and rescales R, C, L, tau accordingly, for every test kind,
representation and option combination with a well-conditioned number of RC elements."""
import itertools
import json
import math
import struct

import numpy as np

import common
from props.c02 import fl, relerr
from props.c07 import conditioning

ID = "C09"
TESTS = ["complex", "real", "imaginary", "complex-inv", "real-inv", "imaginary-inv"]


def bits(x):
    return struct.unpack("d", struct.pack("Q", int(x)))[0]


def params(circuit):
    out = {}
    for i, e in enumerate(circuit.get_elements(recursive=True)):
        for k, v in e.get_values().items():
            out[(i, e.get_symbol(), k)] = v
    return out


def run(ctx):
    from pyimpspec import DataSet, generate_mock_data, perform_kramers_kronig_test
    import pyimpspec.analysis.kramers_kronig.utility as KU

    rnd = ctx.pyrandom(18)
    big = ctx.thorough
    ctx.rule = ("time constants at random (w range, num_RC, log_F_ext); metamorphic runs: mock spectra x 6 linear tests x {Z,Y} x C x L x num_RC (<= 1.5 per decade) x log_F_ext x "
                "scale factors 1e-6..1e6 for Z and for f, and reversed point order; a case is non-trivial when its option tuple, data and transformation are distinct")
    ctx.assumptions += ["conditioning changes with scale: runs whose design matrix has a condition number above 1e8 are outside the property's quantifier and skipped (counted)",
                        "the matrix-inversion tests contain dimensional guard constants (1e-18, 1e18, 1e-50): invariance is compared to 1e-6, not to ulps"]
    # ---- time constants
    lines, real = [], []
    for _ in range(2000 if big else 300):
        wmin = 10 ** rnd.uniform(-4, 3)
        wmax = wmin * 10 ** rnd.uniform(0.5, 8)
        n = rnd.randint(2, 40)
        lf = rnd.uniform(-1, 1)
        t = KU._generate_time_constants(np.array([wmax, wmin, math.sqrt(wmin * wmax)]), n, lf)
        k = rnd.randint(1, n)
        lines.append(f"tau {fl(wmin)} {fl(wmax)} {fl(10 ** lf)} {n} {k}")
        real.append(float(t[k - 1]))
        ctx.note_case(("tau", wmin, wmax, n, k))
    out = common.run_driver(lines)
    nd = 0
    for l, r, o in zip(lines, real, out):
        m = bits(o.split(" ")[1])
        if relerr(r, m) > 1e-11:
            nd += 1
            if nd <= 3:
                ctx.add_broken("correspondence", "tau", {"line": l, "implementation": r, "model": m})
    ctx.counters["tau:lines"] = len(lines)
    ctx.counters["tau:diffs"] = nd
    ctx.sample({"line": lines[0], "model": out[0]})
    # ---- metamorphic oracle
    idents = ["CIRCUIT_1", "CIRCUIT_2", "CIRCUIT_5"] + (["CIRCUIT_3", "CIRCUIT_4", "CIRCUIT_6"] if big else [])
    combos = list(itertools.product(TESTS, [False, True], [False, True], [False, True]))
    rnd.shuffle(combos)
    if not big:
        # every test kind in both representations, with one random choice of the capacitance/inductance options each
        combos = [(t, a, rnd.random() < 0.5, True if t.endswith("-inv") else rnd.random() < 0.5) for t in TESTS for a in (False, True)]
    for (test, adm, C, L) in combos:
        if test.endswith("-inv") and not L:
            continue
        ident = rnd.choice(idents)
        d = generate_mock_data(ident, noise=1e-2, seed=rnd.randrange(1000))[0]
        f, Z = d.get_frequencies(), d.get_impedances()
        decades = math.log10(f.max() / f.min())
        num_RC = rnd.randint(2, max(2, int(1.5 * decades)))
        lf = rnd.choice([0.0, rnd.uniform(-0.5, 0.5)])
        kw = dict(test=test, num_RC=num_RC, add_capacitance=C, add_inductance=L, admittance=adm, log_F_ext=lf, num_F_ext_evaluations=0, num_procs=1)
        taus = KU._generate_time_constants(2 * np.pi * f, num_RC, lf)
        # complex-inv inverts its normal equations without any singular-value cut-off and is observed to be invariant at every
        # condition number; all other variants go through lstsq/pinv, whose relative cut-off makes them scale dependent when
        # the matrix is ill-conditioned (outside the property's quantifier)
        cond_max = math.inf if test == "complex-inv" else 1e8
        if not (conditioning(test, f, Z, taus, C, L, adm) < cond_max):
            ctx.count("metamorphic:skipped(ill-conditioned)")
            continue
        try:
            base = perform_kramers_kronig_test(DataSet(f, Z), **kw)
        except Exception as e:  # noqa
            ctx.count("metamorphic:base-raised:" + type(e).__name__)
            continue
        p0 = params(base.circuit)
        nth = {}
        for what in ("Zscale", "fscale", "reverse", "Zscale", "fscale"):
            c = 10 ** rnd.uniform(-6, 6)
            nth[what] = nth.get(what, 0) + 1
            if nth[what] % 2 == 0:
                c = rnd.choice([1e-6, 1e6, 1e-3, 1e3])      # the ends of the quantified range are exercised on every spectrum
            if what == "Zscale":
                d2 = DataSet(f, c * Z)
            elif what == "fscale":
                d2 = DataSet(c * f, Z)
            else:
                d2 = DataSet(f[::-1].copy(), Z[::-1].copy())
            desc = {**kw, "data": ident, "transformation": what, "factor": c}
            f2, Z2 = d2.get_frequencies(), d2.get_impedances()
            if not (conditioning(test, f2, Z2, KU._generate_time_constants(2 * np.pi * f2, num_RC, lf), C, L, adm) < cond_max):
                ctx.count(f"metamorphic:{what}:skipped(ill-conditioned after the transformation)")
                continue
            try:
                r2 = perform_kramers_kronig_test(d2, **kw)
            except Exception as e:  # noqa
                ctx.add_failing("transformed-run-fails", desc, observed=type(e).__name__ + ": " + str(e)[:100], expected="a result", clause="leaves the relative residuals and the pseudo chi-squared unchanged")
                continue
            ctx.note_case(("meta", test, adm, C, L, num_RC, ident, what))
            ctx.count("metamorphic:" + what)
            dev = float(np.max(np.abs(np.asarray(r2.residuals) - np.asarray(base.residuals))))
            if not (dev <= 1e-6 * max(1.0, float(np.max(np.abs(base.residuals))))):
                ctx.add_failing("residuals-not-invariant", desc, observed=f"max deviation {dev:.3g}", expected="unchanged relative residuals", clause="leaves the relative residuals of a Kramers-Kronig test unchanged")
            if not math.isclose(r2.pseudo_chisqr, base.pseudo_chisqr, rel_tol=1e-5, abs_tol=1e-14):
                ctx.add_failing("chisqr-not-invariant", desc, observed=r2.pseudo_chisqr, expected=base.pseudo_chisqr, clause="leaves the pseudo chi-squared unchanged")
            # parameters rescale
            p2 = params(r2.circuit)
            for key, v0 in p0.items():
                v2 = p2.get(key)
                _, sym, name = key
                if what == "reverse":
                    exp = v0
                elif what == "Zscale":
                    exp = {"R": c * v0, "L": c * v0, "C": v0 / c, "tau": v0}[name]
                else:
                    exp = {"R": v0, "L": v0 / c, "C": v0 / c, "tau": v0 / c}[name]
                    if sym == "Ky" and name == "C":
                        exp = v0 / c
                if v2 is None or not (math.isclose(v2, exp, rel_tol=1e-4, abs_tol=1e-12 * max(abs(exp), 1e-300)) or abs(exp) < 1e-15 * max(abs(x) for x in p0.values()) or math.isinf(exp) or abs(exp) >= 1e17 or abs(v0) <= 1e-17):
                    # tiny / guard-constant parameters are numerically undetermined: only report well-determined ones
                    if abs(v0) > 1e-6 * max(abs(x) for (_, s2, n2), x in p0.items() if n2 == name) and not math.isinf(v0) and abs(v0) < 1e15:
                        ctx.add_failing("parameters-do-not-rescale", {**desc, "parameter": f"{sym}[{key[0]}].{name}"}, observed=v2, expected=exp, clause="the fitted resistances, capacitances, inductances and time constants rescale accordingly")
                        break
            if len(ctx.failing) > 6:
                return
    ctx.undecided.append("conditioning of the solvers under rescaling (runtime): the metamorphic oracle uses tolerances 1e-6 (residuals), 1e-5 (chi-squared), 1e-4 (parameters)")


def search(ctx):
    pass


def replay(ctx, path):
    print(json.dumps(json.load(open(path)).get("failing", [])[:5], indent=1, default=str)[:4000])
    return 0

"""C17 — results reproducible and independent of worker scheduling.

Correspondence stream `sel`: the real fan-out entry points are run with the multiprocessing Pool replaced
(from this harness process) by an in-process pool whose `imap_unordered` yields in a seeded permutation;
the keys of the collected results are sent to the Lean model `Select.pickBest` and its winner is compared
with the result the implementation returned.  Direct oracle: same inputs -> identical results across
permutations of the completion order, across real pools with 1/2/4 (thorough: up to 16) processes and on
repetition; mock data bit-identical per seed and different between seeds.  The hypotheses of the theorems
(unique minimal key; no NaN keys) are measured and reported."""
import contextlib
import json
import math

import numpy as np

import common

ID = "C17"


class FakeIter:
    def __init__(self, results):
        self._it = iter(results)

    def __iter__(self):
        return self

    def __next__(self):
        return next(self._it)

    def next(self, timeout=None):
        return next(self._it)


class FakePool:
    """In-process replacement of multiprocessing.Pool; completion order of imap_unordered is a seeded permutation."""
    rnd = None
    log = []

    def __init__(self, *a, **k):
        pass

    def __enter__(self):
        return self

    def __exit__(self, *a):
        return False

    def imap_unordered(self, func, args, chunksize=1):
        res = [func(a) for a in args]
        order = list(range(len(res)))
        FakePool.rnd.shuffle(order)
        out = [res[i] for i in order]
        FakePool.log.append((getattr(func, "__name__", "?"), "unordered", out))
        return FakeIter(out)

    def imap(self, func, args, chunksize=1):
        out = [func(a) for a in args]
        FakePool.log.append((getattr(func, "__name__", "?"), "ordered", out))
        return FakeIter(out)

    def map(self, func, args, chunksize=None):
        return [func(a) for a in args]

    def close(self):
        pass

    def join(self):
        pass


@contextlib.contextmanager
def fake_pools(rnd):
    import pyimpspec.analysis.fitting as fitting
    import pyimpspec.analysis.zhit.offset as off
    import pyimpspec.analysis.zhit.reconstruction as rec
    import pyimpspec.analysis.kramers_kronig.exploratory as expl
    mods = [fitting, off, rec, expl]
    old = [m.Pool for m in mods]
    FakePool.rnd = rnd
    FakePool.log = []
    for m in mods:
        m.Pool = FakePool
    try:
        yield
    finally:
        for m, o in zip(mods, old):
            m.Pool = o


def ranks(keys):
    """order-isomorphic integers (ties kept); NaN keys are reported separately"""
    finite = sorted(set(k for k in keys if not math.isnan(k)))
    idx = {k: i for i, k in enumerate(finite)}
    return [idx.get(k, len(finite)) for k in keys]


def zsig(r):
    return (float(r.pseudo_chisqr), r.smoothing, r.interpolation, r.window, r.impedances.tobytes())


def fsig(r):
    return (float(r.pseudo_chisqr), r.method, r.weight, r.circuit.serialize(17))


def ksig(r):
    return (int(r.num_RC), float(r.log_F_ext), float(r.pseudo_chisqr), r.get_impedances().tobytes())


def run(ctx):
    from pyimpspec import generate_mock_data, perform_zhit, fit_circuit, parse_cdc, perform_kramers_kronig_test, DataSet
    import pyimpspec.analysis.kramers_kronig as kkmod

    ctx.rule = ("entry points that fan out (perform_zhit with 'auto' options, fit_circuit with several methods/weights, Kramers-Kronig 'cnls' and extension search) on mock spectra; "
                "completion order forced through seeded permutations (in-process pool) and varied through real pools with several process counts; "
                "a case is non-trivial when (entry point, options, permutation/process count) is distinct")
    ctx.assumptions += [
        "that a worker function is a deterministic function of its arguments in another process, and the OS scheduler, are runtime: observed with real pools, not modelled",
    ]
    rnd = ctx.pyrandom(4)
    big = ctx.thorough
    full = generate_mock_data("CIRCUIT_1", noise=5e-2, seed=42)[0]
    f, Z = full.get_frequencies(), full.get_impedances()
    step = 1 if big else 2
    data = DataSet(f[::step], Z[::step], label="c17")
    lines, expect = [], []

    # ---- Z-HIT: both stages unordered
    variants = [dict(smoothing="auto", interpolation="auto", window="auto")]
    if big:
        variants += [dict(smoothing="auto", interpolation="auto", window="auto", admittance=True), dict(smoothing="auto", interpolation="akima", window="boxcar")]
    for opts in variants:
        sigs = []
        for perm in range(4 if big else 3):
            with fake_pools(rnd):
                r = perform_zhit(data, num_procs=4, **opts)
                logs = list(FakePool.log)
            sigs.append(zsig(r))
            ctx.note_case(("zhit", tuple(sorted(opts.items())), "perm", perm))
            offs = [l for l in logs if l[0] == "_adjust_offset"]
            for _, _, results in offs:
                keys = [float(x[0]) for x in results]
                nan = sum(math.isnan(k) for k in keys)
                # the sort key of the implementation: (pseudo chi-squared, smoothing, interpolation, window)
                full_keys = [(float(x[0]), x[2], x[3], x[4]) for x in results]
                order = {k: i for i, k in enumerate(sorted(set(full_keys)))}
                rk = [order[k] for k in full_keys]
                ctx.count("zhit:ties-in-chisqr-alone", len(keys) - len(set(keys)))
                ties = sum(1 for k in rk if k == min(rk)) - 1
                ctx.count("zhit:results", len(keys))
                ctx.count("zhit:nan-keys", nan)
                ctx.count("zhit:ties-at-minimum", ties)
                win = [i for i, x in enumerate(results) if (x[2], x[3], x[4]) == (r.smoothing, r.interpolation, r.window)]
                lines.append("sel " + ",".join(map(str, rk)))
                expect.append(("zhit", win, ties, nan))
        if len(set(sigs)) != 1:
            ctx.add_failing("zhit-depends-on-completion-order", {"options": opts, "winners": [s[:4] for s in sigs]}, observed="different results under permuted completion orders", expected="identical",
                            clause="the result does not depend on the order in which workers finish")
        for n in ([1, 2, 4, 8, 16] if big else [1, 2]):
            r = perform_zhit(data, num_procs=n, **opts)
            ctx.note_case(("zhit", tuple(sorted(opts.items())), "procs", n))
            if zsig(r) != sigs[0]:
                ctx.add_failing("zhit-depends-on-num_procs", {"options": opts, "num_procs": n, "winner": zsig(r)[:4], "reference": sigs[0][:4]}, observed="differs", expected="identical",
                                clause="the result does not depend on the number of worker processes")

    # ---- Z-HIT in the admittance representation on data the analysis shifts along the real axis (Re(Y) < 0 somewhere)
    d8 = generate_mock_data("CIRCUIT_8", noise=5e-2, seed=11)[0]
    d8 = DataSet(d8.get_frequencies()[::step], d8.get_impedances()[::step], label="c17-negY")
    sig8 = []
    for n in ([1, 1, 2, 4] if big else [1, 1, 2]):
        try:
            sig8.append(zsig(perform_zhit(d8, admittance=True, num_procs=n)))
        except Exception as x:  # noqa
            sig8.append(("raised", type(x).__name__))
        ctx.note_case(("zhit-negY", "procs", n))
    ctx.count("zhit:shifted-admittance-data")
    if len(set(sig8)) != 1:
        ctx.add_failing("zhit-depends-on-num_procs", {"data": "CIRCUIT_8 (negative Re Y), admittance=True", "num_procs": [1, 1, 2, 4][:len(sig8)], "winners": [s_[:4] for s_ in sig8]},
                        observed="differs", expected="identical", clause="the result does not depend on the number of worker processes")

    # ---- fit_circuit with constraint expressions and variables: serial vs parallel, and the same call repeated with the caller's objects
    import copy as _copy
    from pyimpspec.analysis.fitting import generate_fit_identifiers
    cc = parse_cdc("R{R=90}(R{R=200}C{C=2e-6})(R{R=450}C{C=3e-5})")
    ids = generate_fit_identifiers(cc)
    rs = [e for e in cc.get_elements(recursive=True) if e.get_symbol() == "R"]
    cexpr = {ids[rs[2]].R: f"{ids[rs[1]].R} * ratio"}
    cvars = {"ratio": dict(value=2.0, min=1e-3, max=1e3)}
    cvars0 = _copy.deepcopy(cvars)
    csig = []
    for n in ([1, 1, 2, 4] if big else [1, 1, 2]):
        try:
            r = fit_circuit(cc, data, method=["least_squares", "powell", "leastsq"], weight=["boukamp", "modulus"], constraint_expressions=cexpr, constraint_variables=cvars, num_procs=n)
            csig.append(fsig(r))
        except Exception as x:  # noqa
            csig.append(("raised", type(x).__name__, str(x)[:80]))
        ctx.note_case(("fit-constrained", "procs", n))
    ctx.count("fit:constrained")
    if len(set(csig)) != 1:
        ctx.add_failing("fit-depends-on-schedule", {"circuit": cc.to_string(3), "constraint_expressions": cexpr, "constraint_variables": cvars0, "num_procs": [1, 1, 2, 4][:len(csig)], "winners": [s_[:3] for s_ in csig]},
                        observed="different results (or an error) for the same call", expected="identical", clause="a multi-method/multi-weight circuit fit selects the same winner serially and in parallel")
    if cvars != cvars0:
        ctx.add_failing("caller's-constraint-variables-modified", {"before": cvars0, "after": cvars}, observed=str(cvars), expected=str(cvars0), clause="repeating the same call gives the same result")

    # ---- fit_circuit: ordered collection
    circuit = parse_cdc("R(RC)(RW)")
    methods = ["leastsq", "least_squares", "powell", "nelder"] if not big else "auto"
    weights = ["boukamp", "modulus", "unity"] if not big else "auto"
    sigs = []
    for perm in range(2):
        with fake_pools(rnd):
            r = fit_circuit(circuit, data, method=methods, weight=weights, num_procs=4)
            logs = list(FakePool.log)
        sigs.append(fsig(r))
        ctx.note_case(("fit", "perm", perm))
        for name, kind, results in logs:
            if name != "_fit_process":
                continue
            keys = [math.log(x[1]) if x[2] is not None else math.inf for x in results]
            rk = ranks(keys)
            ctx.count("fit:results", len(keys))
            ctx.count("fit:ties-at-minimum", sum(1 for k in rk if k == min(rk)) - 1)
            win = [i for i, x in enumerate(results) if (x[3], x[4]) == (r.method, r.weight)]
            lines.append("sel " + ",".join(map(str, rk)))
            expect.append(("fit", win, 0, 0))
    for n in ([1, 2, 4, 16] if big else [1, 2]):
        r = fit_circuit(circuit, data, method=methods, weight=weights, num_procs=n)
        sigs.append(fsig(r))
        ctx.note_case(("fit", "procs", n))
    if len(set(sigs)) != 1:
        ctx.add_failing("fit-depends-on-schedule", {"winners": [s[:3] for s in sigs]}, observed="different results", expected="identical",
                        clause="a multi-method/multi-weight circuit fit selects the same winner serially and in parallel")

    # ---- Kramers-Kronig: extension search and cnls
    ksigs = []
    for n in ([1, 2, 4] if big else [1, 2]):
        r = perform_kramers_kronig_test(data, num_procs=n)
        ksigs.append(ksig(r))
        ctx.note_case(("kk", "procs", n))
    for perm in range(2):
        with fake_pools(rnd):
            r = perform_kramers_kronig_test(data, num_procs=4)
        ksigs.append(ksig(r))
        ctx.note_case(("kk", "perm", perm))
    if len(set(ksigs)) != 1:
        ctx.add_failing("kk-depends-on-schedule", {"results": [s[:3] for s in ksigs]}, observed="different results", expected="identical",
                        clause="a Kramers-Kronig extension search selects the same winner serially and in parallel")
    # the non-linear test over its automatic range of RC elements: one worker (serial path) vs several (pool path)
    from pyimpspec.analysis.kramers_kronig import evaluate_log_F_ext
    for ident, npd in ((("CIRCUIT_1", 5), ("CIRCUIT_2", 7)) if big else (("CIRCUIT_1", 5),)):   # >= 21 points: the early-termination rule of the fan-out takes part
        dc = generate_mock_data(ident, noise=5e-2, seed=42, num_per_decade=npd)[0]
        sigs = []
        for n in ((1, 2, 4) if big else (1, 2)):
            try:
                tests = evaluate_log_F_ext(dc, test="cnls", num_F_ext_evaluations=0, num_procs=n)[0][1]
                sigs.append((len(tests), tests[0].num_RC, tests[-1].num_RC, tuple(float(t_.pseudo_chisqr) for t_ in tests)))
            except Exception as x:  # noqa
                sigs.append(("raised", type(x).__name__))
            ctx.note_case(("kk-cnls-range", ident, n))
        ctx.count("kk:cnls-range")
        if len(set(sigs)) != 1:
            ctx.add_failing("kk-cnls-depends-on-num-procs", {"data": ident, "points": dc.get_num_points(), "results": [s_[:3] for s_ in sigs]}, observed="different sets of test results", expected="identical for every num_procs",
                            clause="a Kramers-Kronig test returns the same results serially and in parallel")
    if big:
        cs = []
        for n in (1, 3):
            r = perform_kramers_kronig_test(data, test="cnls", num_RC=6, num_F_ext_evaluations=0, num_procs=n)
            cs.append(ksig(r))
            ctx.note_case(("kk-cnls", "procs", n))
        if len(set(cs)) != 1:
            ctx.add_failing("kk-cnls-depends-on-schedule", {"results": [s[:3] for s in cs]}, observed="different", expected="identical")

    # ---- repeated with other work in between: A, then B (same shape, other values / other frequency range), then A again
    from pyimpspec import calculate_drt
    other = generate_mock_data("CIRCUIT_2", noise=5e-2, seed=43)[0]
    fo, Zo = other.get_frequencies(), other.get_impedances()
    n_ = min(len(data.get_frequencies()), len(fo))
    dA = DataSet(data.get_frequencies()[:n_], data.get_impedances()[:n_], label="A")
    variants_B = [DataSet(dA.get_frequencies(), 3.7 * Zo[:n_], label="B same grid"), DataSet(10.0 * fo[:n_], Zo[:n_], label="B other range")]
    entries = [
        ("kk complex-inv", lambda d: ksig(perform_kramers_kronig_test(d, test="complex-inv", num_RC=8, add_inductance=True, num_F_ext_evaluations=0, num_procs=1))),
        ("kk real", lambda d: ksig(perform_kramers_kronig_test(d, test="real", num_RC=8, num_F_ext_evaluations=0, num_procs=1))),
        ("kk default", lambda d: ksig(perform_kramers_kronig_test(d, num_procs=1))),
        ("zhit whithend", lambda d: zsig(perform_zhit(d, smoothing="whithend", interpolation="makima", window="boxcar", num_procs=1))),
        ("zhit default", lambda d: zsig(perform_zhit(d, num_procs=1))),
        ("drt tr-nnls", lambda d: tuple(np.round(calculate_drt(d, method="tr-nnls", mode="real").get_drt_data()[1], 12).tolist())),
        ("drt lm", lambda d: tuple(np.round(np.sort(calculate_drt(d, method="lm", num_procs=1).get_peaks()[0]), 12).tolist())),
        ("fit", lambda d: fsig(fit_circuit(parse_cdc("R(RC)(RW)"), d, method="least_squares", weight="boukamp", num_procs=1))),
    ]
    for name, fn in (entries if big else entries[:2] + rnd.sample(entries[2:], 3)):
        try:
            first = fn(dA)
            for dB in variants_B:
                try:
                    fn(dB)
                except Exception:  # noqa
                    pass
            again = fn(dA)
        except Exception as x:  # noqa
            ctx.count("interleaved:skipped:" + type(x).__name__)
            continue
        ctx.count("interleaved")
        ctx.note_case(("interleaved", name))
        if first != again:
            ctx.add_failing("result-depends-on-earlier-calls", {"entry": name}, observed="the same call on the same data gives another result after other data were analysed in between", expected="identical",
                            clause="given the same inputs every analysis returns the same result when repeated")
    # ---- mock data: every seed (0, small, negative, beyond 32 bits) reproduces its data bit for bit; seeds differ
    seeds = [0, 1, 7, rnd.randrange(2, 10 ** 6), -rnd.randrange(1, 1000), 2 ** 31 - 1, 2 ** 32 + rnd.randrange(1, 100)]
    for ident in ("CIRCUIT_1", "CIRCUIT_2_INVALID", "CIRCUIT_5"):
        first = {}
        for sd in seeds:
            try:
                a = generate_mock_data(ident, noise=1e-2, seed=sd)
                b = generate_mock_data(ident, noise=1e-2, seed=sd)
            except Exception as x:  # noqa
                ctx.count("mock:skipped:" + type(x).__name__)
                continue
            ctx.note_case(("mock", ident, sd))
            ctx.count("mock:seed")
            for x, y in zip(a, b):
                if x.get_impedances().tobytes() != y.get_impedances().tobytes():
                    ctx.add_failing("mock-data-not-repeatable", {"id": ident, "seed": sd}, observed="differs", expected="bit-identical",
                                    clause="mock data generated with the same seed is bit-identical")
            first[sd] = a[0].get_impedances().tobytes()
        vals = [first[k] for k in (0, 1, 7) if k in first]
        if len(vals) >= 2 and len(set(vals)) != len(vals):
            ctx.add_failing("mock-data-seed-ignored", {"id": ident, "seeds": [0, 1, 7]}, observed="identical", expected="different",
                            clause="mock data differs between seeds")

    # ---- the model's winner vs the implementation's
    out = common.run_driver(lines)
    nd = 0
    for l, rep, (what, win, ties, nan) in zip(lines, out, expect):
        if ties > 0 or nan > 0:
            ctx.count(f"sel:{what}:theorem-hypothesis-not-met(ties/nan)")
        if not rep.startswith("ok ") or int(rep[3:]) not in win:
            nd += 1
            if nd <= 3:
                ctx.add_broken("correspondence", f"sel/{what}", {"keys": l[:300], "model_winner": rep, "implementation_winner_index": win})
    ctx.counters["sel:lines"] = len(lines)
    ctx.counters["sel:diffs"] = nd
    ctx.sample({"keys(ranks)": lines[0][:200], "model": out[0]})
    ctx.undecided += ["determinism of worker code across processes and the OS scheduler (runtime): observed through real pools only",
                      "repeatability of analyses that draw unseeded random numbers is checked by C17's oracle only for the fan-out entry points listed"]


def search(ctx):
    pass


def replay(ctx, path):
    print(json.dumps(json.load(open(path)).get("failing", [])[:3], indent=1, default=str)[:3000])
    return 0

"""C13 — DRT results carry the physics: area = resistance, peaks at RC.

Tie (T): the TR-NNLS matrix entries, the Loewner peak extraction and the m(RQ)fit distributions are re-translated on
every run; the cross-check runs the real `_generate_A_matrix`, `_extract_peaks` (on state-space models with known
poles and residues) and `_calculate_tau_gamma` against the translated terms.  Tie (H): `_calculate_delta_ln_tau` vs
the Lean model `Drt.deltas` (Float instance), bit for bit.
Direct oracle on `calculate_drt`: ladders of 1..4 RC/RQ elements; TR-NNLS (real | imaginary, fixed and automatic
lambda): gamma >= 0, area = polarisation resistance, peaks at the generating time constants; Loewner method without
series resistance: every (tau_k, R_k) recovered; m(RQ)fit: every element's distribution integrates to its resistance,
peaks at (R*Y)^(1/n); scaling of impedances and of frequencies."""
import json
import math
import os

import numpy as np

import common
from props.c02 import fl, from_bits, relerr, cfl

ID = "C13"
# frozen bands (calibration on the unchanged tree, 360 TR-NNLS runs / 90 Loewner runs): area/R_pol 0.963..1.0003,
# peak position within 0.29 decades, Loewner pairs within 1.4e-4
AREA_LO, AREA_HI = 0.92, 1.04
PEAK_DECADES = 0.5
LM_REL = 2e-3
MRQ_AREA = 1e-4


def trapz(y, x):
    return float(np.sum((y[1:] + y[:-1]) / 2 * np.diff(x)))


def ladder(rnd, series=True, kinds=("C", "Q"), nmax=4):
    """time constants >= 1.5 decades inside the window (f = 1e6 .. 1e-3 Hz) and >= 1.5 decades apart, resistances within
    one decade of each other, overall scale over 4 decades"""
    n = rnd.randint(1, nmax)
    scale = 10 ** rnd.uniform(-1, 3)
    gaps = [rnd.uniform(1.5, 2.2) for _ in range(n - 1)]
    t0 = rnd.uniform(-5.2, 0.6 - sum(gaps))
    lt = [t0]
    for g in gaps:
        lt.append(lt[-1] + g)
    els, cdc = [], ""
    if series:
        cdc += "R{R=%r}" % (scale * 10 ** rnd.uniform(-0.5, 0.5))
    for t in lt:
        R, tau = scale * 10 ** rnd.uniform(-0.5, 0.5), 10 ** t
        if rnd.choice(kinds) == "C":
            cdc += "(R{R=%r}C{C=%r})" % (R, tau / R)
            els.append((tau, R, 1.0))
        else:
            n_ = rnd.uniform(0.75, 0.95)
            cdc += "(R{R=%r}Q{Y=%r,n=%r})" % (R, tau ** n_ / R, n_)
            els.append((tau, R, n_))
    return cdc, els


def run(ctx):
    import warnings
    warnings.filterwarnings("ignore")
    from pyimpspec import DataSet, calculate_drt, parse_cdc
    import pyimpspec.analysis.drt.tr_nnls as TR
    import pyimpspec.analysis.drt.lm as LM
    import pyimpspec.analysis.drt.mrq_fit as MF

    rnd = ctx.pyrandom(13)
    big = ctx.thorough
    ctx.rule = ("translator cross-check: real _generate_A_matrix (both modes) on random grids, _extract_peaks on state-space models with random poles/residues, _calculate_tau_gamma on random R(RC)/(RQ) circuits; "
                "correspondence: _calculate_delta_ln_tau on random grids; oracle: ladders of 1..4 RC/RQ elements (time constants >= 1.5 decades inside the window and apart, resistances within a decade, scale over "
                "4 decades) x 5..20 points per decade x {tr-nnls real|imaginary, lambda fixed|automatic; lm; mrq-fit} x scale factors for Z and f; a case is non-trivial when (circuit, grid, method, options) is distinct")
    ctx.assumptions += [f"bands frozen after calibration on the unchanged tree: TR-NNLS area/R_pol in [{AREA_LO}, {AREA_HI}], peaks within {PEAK_DECADES} decades, Loewner pairs within {LM_REL:g}, m(RQ)fit element areas within {MRQ_AREA:g}",
                        "SciPy's nnls / svd / eig / find_peaks and lmfit are runtime: the theorems cover the kernels the numerics are built from"]

    # ---- (a) translator cross-check
    lines, real = [], []
    for _ in range(12 if big else 4):
        n = rnd.randint(3, 7)
        omega = np.array(sorted((10 ** rnd.uniform(-3, 6) for _ in range(n)), reverse=True))
        tau = 1 / omega
        delta = TR._calculate_delta_ln_tau(tau)
        for mode in (False, True):
            A = TR._generate_A_matrix(omega, tau, delta, mode)
            for i in range(n):
                for k in range(n):
                    lines.append(f"kerc trnnls_A_{'im' if mode else 're'} omega={fl(omega[i])};{fl(0.0)} tau={fl(tau[k])};{fl(0.0)} delta_ln_tau={fl(delta[k])};{fl(0.0)}")
                    real.append(complex(A[i, k]))
        ctx.note_case(("A", tuple(omega)))
    # Loewner peak extraction on a diagonal state-space model: poles lam_k, residues B_k*C_k
    lm_cases = []
    for _ in range(40 if big else 10):
        n = rnd.randint(1, 5)
        lam = np.array([-10 ** rnd.uniform(-3, 5) for _ in range(n)])
        B = np.array([rnd.uniform(0.1, 5) * rnd.choice([1, -1]) for _ in range(n)])
        C = np.array([rnd.uniform(0.1, 5) for _ in range(n)])
        taus, gam = LM._extract_peaks(np.identity(n), np.diag(lam), B, C)
        k0 = len(lines)
        for k in range(n):
            b = f"lambda={cfl(complex(lam[k]))} residue={cfl(complex(B[k] * C[k]))}"
            lines.append(f"kerc lm_tau {b}")
            real.append(None)
            lines.append(f"kerc lm_gamma {b}")
            real.append(None)
        lm_cases.append((k0, n, np.array(taus).ravel(), np.array(gam).ravel(), lam, B * C))
        ctx.note_case(("lm", tuple(lam)))
    # m(RQ)fit distributions
    mrq_cases = []
    for _ in range(12 if big else 4):
        cdc, els = ladder(rnd, kinds=("C", "Q"), nmax=3)
        c = parse_cdc(cdc)
        W = rnd.choice([0.15, 0.3])
        f = np.logspace(4, -2, 7)
        tau, gamma = MF._calculate_tau_gamma(c, f, W, 2)
        k0 = len(lines)
        for t in tau:
            for (t0_, R, n_) in els:
                Y = (t0_ / R) if n_ == 1.0 else t0_ ** n_ / R
                lines.append(f"kerc mrq_tau0 R={fl(R)};{fl(0.0)} Y={fl(Y)};{fl(0.0)} n={fl(n_)};{fl(0.0)}")
                real.append(None)
        mrq_cases.append((k0, tau, gamma, els, W, cdc))
        ctx.note_case(("mrq", cdc, W))
    out = common.run_driver(lines)
    nd = 0
    for l, r, o in zip(lines, real, out):
        if r is None:
            continue
        t = o.split(" ")
        zm = from_bits(t[1], t[2]) if t[0] == "ok" else complex("nan")
        ctx.count("xcheck:A")
        if not (relerr(r, zm) <= 1e-12):
            nd += 1
            if nd <= 3:
                ctx.add_broken("correspondence", "translator/trnnls_A", {"line": l, "python": repr(r), "term": o})
    for k0, n, taus, gam, lam, res in lm_cases:
        mt = sorted((from_bits(*out[k0 + 2 * k].split(" ")[1:3]).real, from_bits(*out[k0 + 2 * k + 1].split(" ")[1:3]).real) for k in range(n))
        rt = sorted(zip(taus.tolist(), gam.tolist()))
        ctx.count("xcheck:lm")
        if len(rt) != n or any(relerr(complex(a[0]), complex(b[0])) > 1e-9 or relerr(complex(a[1]), complex(b[1])) > 1e-9 for a, b in zip(mt, rt)):
            nd += 1
            ctx.add_broken("correspondence", "translator/lm_peaks", {"poles": lam.tolist(), "residues": res.tolist(), "python": rt, "terms": mt})
    # second pass for m(RQ)fit: gamma needs tau0 from the first pass
    lines2, meta2 = [], []
    for k0, tau, gamma, els, W, cdc in mrq_cases:
        j = k0
        for ti, t in enumerate(tau):
            for (t0_, R, n_) in els:
                tau0 = from_bits(*out[j].split(" ")[1:3]).real
                j += 1
                kern = "mrq_gamma_rc" if math.isclose(abs(n_), 1.0, abs_tol=1e-2) else "mrq_gamma_rq"
                lines2.append(f"kerc {kern} R={fl(R)};{fl(0.0)} W={fl(W)};{fl(0.0)} n={fl(n_)};{fl(0.0)} tau={fl(float(t))};{fl(0.0)} tau_0={fl(tau0)};{fl(0.0)}")
            meta2.append((cdc, float(t), float(gamma[ti]), len(els)))
    out2 = common.run_driver(lines2)
    j = 0
    for cdc, t, g, ne in meta2:
        m = sum(from_bits(*out2[j + k].split(" ")[1:3]).real for k in range(ne))
        j += ne
        ctx.count("xcheck:mrq")
        if not (relerr(complex(g), complex(m)) <= 1e-9):
            nd += 1
            if nd <= 5:
                ctx.add_broken("correspondence", "translator/mrq_gamma", {"cdc": cdc, "tau": t, "python": g, "terms": m})
    ctx.counters["xcheck:diffs"] = nd
    ctx.sample({"line": lines[0], "reply": out[0]})

    # ---- (b) correspondence: the weights
    lines, real = [], []
    for _ in range(300 if big else 60):
        n = rnd.randint(1, 12)
        tau = np.array(sorted((10 ** rnd.uniform(-7, 3) for _ in range(n)), reverse=rnd.random() < 0.5))
        ln_tau = np.log(tau)
        lines.append("dlt " + " ".join(fl(float(x)) for x in ln_tau))
        try:
            d = TR._calculate_delta_ln_tau(tau)
            real.append("ok " + " ".join(str(int(np.float64(x).view(np.uint64))) for x in d))
        except IndexError:
            real.append("err IndexError")
        ctx.note_case(("dlt", tuple(tau)))
        ctx.count("dlt")
    out = common.run_driver(lines)
    nd = 0
    for l, a, b in zip(lines, real, out):
        if a != b:
            nd += 1
            if nd <= 3:
                ctx.add_broken("correspondence", "dlt", {"line": l[:400], "implementation": a[:400], "model": b[:400]})
    ctx.counters["dlt:diffs"] = nd

    # ---- (c) oracle: TR-NNLS
    worst = {"area_lo": 1.0, "area_hi": 1.0, "peak": 0.0, "lm": 0.0, "scale": 0.0}
    ntr = 30 if big else 8
    for j in range(ntr):
        cdc, els = ladder(rnd)
        ppd = rnd.choice([5, 6, rnd.randint(5, 20), rnd.randint(5, 20)])
        f = np.logspace(6, -3, 9 * ppd + 1)
        Z = parse_cdc(cdc).get_impedances(f)
        Rpol = sum(e[1] for e in els)
        mode = rnd.choice(["real", "imaginary"])
        lam = rnd.choice([-1.0, -1.0, 1e-3, 1e-2, 3e-4])
        inp = {"cdc": cdc, "points_per_decade": ppd, "method": "tr-nnls", "mode": mode, "lambda_value": lam}
        ctx.note_case(("trnnls", cdc, ppd, mode, lam))
        ctx.count(f"oracle:tr-nnls:{mode}:{'auto' if lam < 0 else 'fixed'}")
        try:
            r = calculate_drt(DataSet(f, Z), method="tr-nnls", mode=mode, lambda_value=lam)
        except Exception as x:  # noqa
            ctx.add_failing("drt-raises", inp, observed=f"{type(x).__name__}: {x}"[:200], expected="a result", clause="the distribution of relaxation times returned by the library")
            continue
        tau, g = r.get_drt_data()
        o = np.argsort(tau)
        tau, g = tau[o], g[o]
        if not (g.min() >= 0.0):
            ctx.add_failing("negative-gamma", inp, observed=f"min gamma {g.min()!r}", expected=">= 0", clause="non-negative where the method promises it (TR-NNLS)")
        area = trapz(g, np.log(tau)) / Rpol
        worst["area_lo"], worst["area_hi"] = min(worst["area_lo"], area), max(worst["area_hi"], area)
        if not (AREA_LO <= area <= AREA_HI):
            ctx.add_failing("area-not-resistance", inp, observed=f"integral of gamma over ln(tau) = {area:.4g} x R_pol", expected=f"[{AREA_LO}, {AREA_HI}] x R_pol", clause="integrates over ln(tau) to the polarisation resistance")
        pt, pg = r.get_peaks()
        # the peaks reported are the maxima of the distribution returned: every strict local maximum of gamma is among them
        gp = np.concatenate([[0.0], g, [0.0]])
        maxima = [float(tau[i]) for i in range(len(g)) if gp[i] < gp[i + 1] > gp[i + 2]]
        lost = [m_ for m_ in maxima if not any(abs(math.log10(p / m_)) < 1e-9 for p in pt)]
        ctx.count("oracle:tr-nnls:maxima-vs-peaks")
        if lost:
            ctx.add_failing("maximum-not-reported-as-peak", inp, observed=f"maxima of gamma at tau = {lost} are not in get_peaks() = {np.array(pt).tolist()}", expected="every local maximum of gamma(tau)",
                            clause="has its peaks at the time constants R*C of the generating elements")
        for (t, R, n_) in els:
            dev = min((abs(math.log10(p / t)) for p in pt), default=9.0)
            worst["peak"] = max(worst["peak"], dev)
            if not (dev <= PEAK_DECADES):
                ctx.add_failing("peak-not-at-time-constant", inp, observed=f"nearest peak to tau={t:.4g} is {dev:.3g} decades away (peaks at {np.array(pt).tolist()})", expected=f"<= {PEAK_DECADES} decades", clause="has its peaks at the time constants R*C of the generating elements")
        # scaling
        c = 10 ** rnd.uniform(-3, 3)
        r2 = calculate_drt(DataSet(f, c * Z), method="tr-nnls", mode=mode, lambda_value=lam)
        t2, g2 = r2.get_drt_data()
        r3 = calculate_drt(DataSet(c * f, Z), method="tr-nnls", mode=mode, lambda_value=lam)
        t3, g3 = r3.get_drt_data()
        t1, g1 = r.get_drt_data()
        gm = np.max(np.abs(g1))
        e = max(float(np.max(np.abs(g2 - c * g1)) / (c * gm)), float(np.max(np.abs(t2 / t1 - 1))), float(np.max(np.abs(g3 - g1)) / gm), float(np.max(np.abs(t3 * c / t1 - 1))))
        worst["scale"] = max(worst["scale"], e)
        ctx.count("oracle:tr-nnls:scaling")
        if not (e <= 1e-6):
            ctx.add_failing("scaling", dict(inp, scale=c), observed=f"max relative deviation {e:.3g}", expected="<= 1e-6", clause="scaling the impedance scales gamma and leaves tau unchanged; scaling the frequencies scales tau inversely and leaves gamma unchanged")
        if j == 0:
            ctx.sample({"case": inp, "area_over_Rpol": area, "peaks": np.array(pt).tolist()})

    # ---- (d) oracle: Loewner method, ladders without series resistance
    for j in range(30 if big else 8):
        cdc, els = ladder(rnd, series=False, kinds=("C",))
        ppd = rnd.randint(5, 20)
        f = np.logspace(6, -3, 9 * ppd + 1)
        Z = parse_cdc(cdc).get_impedances(f)
        inp = {"cdc": cdc, "points_per_decade": ppd, "method": "lm"}
        ctx.note_case(("lm", cdc, ppd))
        ctx.count("oracle:lm")
        try:
            r = calculate_drt(DataSet(f, Z), method="lm", num_procs=1)
        except Exception as x:  # noqa
            ctx.add_failing("drt-raises", inp, observed=f"{type(x).__name__}: {x}"[:200], expected="a result", clause="the Loewner method recovers every (tau_k, R_k) pair")
            continue
        pk = r.get_peaks()
        taus, gam = np.array(pk[0]), np.array(pk[1])
        bad = len(taus) != len(els)
        errs = []
        for (t, R, n_) in els:
            if len(taus) == 0:
                errs.append(9.0)
                continue
            k = int(np.argmin(np.abs(np.log(taus / t))))
            errs.append(max(abs(taus[k] / t - 1), abs(gam[k] / R - 1)))
        worst["lm"] = max(worst["lm"], max(errs))
        if bad or not (max(errs) <= LM_REL):
            ctx.add_failing("lm-pairs-not-recovered", inp, observed=f"(tau, R) = {list(zip(taus.tolist(), gam.tolist()))}", expected=f"{[(t, R) for t, R, _ in els]} within {LM_REL:g}", clause="for a ladder without series resistance the Loewner method recovers every (tau_k, R_k) pair exactly")
        c = 10 ** rnd.uniform(-3, 3)

        def significant(pk):
            # poles whose gamma is numerically zero (|gamma| < 1e-6 of the largest) carry no resistance: not compared
            t_, g_ = np.array(pk[0]), np.array(pk[1])
            keep = np.abs(g_) > 1e-6 * np.max(np.abs(g_))
            o_ = np.argsort(t_[keep])
            return t_[keep][o_], g_[keep][o_]
        ts, gs = significant(pk)
        t2, g2 = significant(calculate_drt(DataSet(f, c * Z), method="lm", num_procs=1).get_peaks())
        t3, g3 = significant(calculate_drt(DataSet(c * f, Z), method="lm", num_procs=1).get_peaks())
        try:
            e = max(float(np.max(np.abs(t2 / ts - 1))), float(np.max(np.abs(g2 / (c * gs) - 1))), float(np.max(np.abs(t3 * c / ts - 1))), float(np.max(np.abs(g3 / gs - 1))))
        except ValueError:
            e = 9.0
        ctx.count("oracle:lm:scaling")
        if not (e <= 1e-4):
            ctx.add_failing("scaling", dict(inp, scale=c), observed=f"max relative deviation {e:.3g}", expected="<= 1e-4", clause="scaling the impedance scales gamma and leaves tau unchanged; scaling the frequencies scales tau inversely and leaves gamma unchanged")

    # ---- (e) oracle: m(RQ)fit distributions of single elements integrate to the resistance; peak at tau_0
    fw = np.logspace(10, -10, 201)
    for j in range(40 if big else 12):
        R, t0_ = 10 ** rnd.uniform(-1, 4), 10 ** rnd.uniform(-4, 1)
        if rnd.random() < 0.4:
            n_, cdc = 1.0, "R{R=1}(R{R=%r}C{C=%r})" % (R, t0_ / R)
        else:
            n_ = rnd.uniform(0.6, 0.98)
            cdc = "R{R=1}(R{R=%r}Q{Y=%r,n=%r})" % (R, t0_ ** n_ / R, n_)
        W = rnd.choice([0.1, 0.15, 0.3, 0.6])
        tau, g = MF._calculate_tau_gamma(parse_cdc(cdc), fw, W, 100)
        o = np.argsort(tau)
        area = trapz(g[o], np.log(tau[o])) / R
        peak = float(tau[int(np.argmax(g))])
        inp = {"cdc": cdc, "gaussian_width": W}
        ctx.note_case(("mrq-el", cdc, W))
        ctx.count("oracle:mrq-element")
        if not (abs(area - 1) <= MRQ_AREA):
            ctx.add_failing("mrq-element-area", inp, observed=f"integral over ln(tau) = {area!r} x R", expected=f"1 +- {MRQ_AREA:g}", clause="the m(RQ)fit distribution of each element integrates to that element's resistance")
        if not (abs(math.log10(peak / t0_)) <= 0.011):
            ctx.add_failing("mrq-element-peak", inp, observed=f"maximum at tau = {peak!r}", expected=f"(R*Y)^(1/n) = {t0_!r} (grid step 0.01 decades)", clause="has its peaks at the time constants R*C of the generating elements")
        if (g < 0).any():
            ctx.add_failing("negative-gamma", inp, observed=f"min gamma {g.min()!r}", expected=">= 0", clause="the m(RQ)fit distribution of each element")
    # several elements, in every order of (RC) and (RQ): the distribution is the sum of the single-element distributions (each of which was
    # checked above), so every element keeps its own area and peak whatever stands before it in the circuit
    for j in range(30 if big else 10):
        units = []
        for _ in range(rnd.randint(2, 3)):
            R, t0_ = 10 ** rnd.uniform(-1, 4), 10 ** rnd.uniform(-4, 1)
            if rnd.random() < 0.5:
                units.append("(R{R=%r}C{C=%r})" % (R, t0_ / R))
            else:
                n_ = rnd.uniform(0.6, 0.98)
                units.append("(R{R=%r}Q{Y=%r,n=%r})" % (R, t0_ ** n_ / R, n_))
        W = rnd.choice([0.1, 0.15, 0.3])
        cdc = "R{R=1}" + "".join(units)
        inp = {"cdc": cdc, "gaussian_width": W}
        ctx.note_case(("mrq-sum", cdc, W))
        ctx.count("oracle:mrq-sum-of-elements")
        try:
            tau, g = MF._calculate_tau_gamma(parse_cdc(cdc), fw, W, 100)
            parts = [MF._calculate_tau_gamma(parse_cdc("R{R=1}" + u), fw, W, 100) for u in units]
        except Exception as x:  # noqa
            ctx.add_failing("drt-raises", inp, observed=f"{type(x).__name__}: {x}"[:200], expected="a distribution", clause="m(RQ)fit")
            continue
        total = sum(p[1] for p in parts)
        if any(not np.allclose(p[0], tau, rtol=1e-12) for p in parts) or not np.allclose(g, total, rtol=1e-9, atol=1e-12 * float(np.max(total))):
            ctx.add_failing("mrq-not-the-sum-of-its-elements", inp, observed=f"max deviation {float(np.max(np.abs(g - total)) / np.max(total)):.3g} of the maximum", expected="gamma(circuit) = sum of gamma(element)",
                            clause="the m(RQ)fit distribution of each element integrates to that element's resistance ... has its peaks at the time constants R*C of the generating elements")
    # the whole method on a ladder (fit included)
    for j in range(4 if big else 1):
        cdc, els = ladder(rnd, kinds=("C", "Q"), nmax=2)
        f = np.logspace(6, -3, 91)
        true = parse_cdc(cdc)
        Z = true.get_impedances(f)
        inp = {"cdc": cdc, "method": "mrq-fit"}
        ctx.note_case(("mrq", cdc))
        ctx.count("oracle:mrq-fit")
        try:
            r = calculate_drt(DataSet(f, Z), method="mrq-fit", circuit=parse_cdc(cdc), num_procs=1)
            c = 10 ** rnd.uniform(-2, 2)
            r2 = calculate_drt(DataSet(f, c * Z), method="mrq-fit", circuit=parse_cdc(cdc), num_procs=1)
        except Exception as x:  # noqa
            ctx.add_failing("drt-raises", inp, observed=f"{type(x).__name__}: {x}"[:200], expected="a result", clause="m(RQ)fit")
            continue
        tau, g = r.get_drt_data()
        t2, g2 = r2.get_drt_data()
        e = float(np.max(np.abs(g2 - c * g)) / (c * np.max(g)))
        if not (e <= 1e-2 and np.max(np.abs(t2 / tau - 1)) <= 1e-12):
            ctx.add_failing("scaling", dict(inp, scale=c), observed=f"gamma deviates by {e:.3g}", expected="<= 1e-2", clause="scaling the impedance scales gamma and leaves tau unchanged")
        pt, pg = r.get_peaks()
        for (t, R, n_) in els:
            dev = min((abs(math.log10(p / t)) for p in pt), default=9.0)
            if not (dev <= 0.05):
                ctx.add_failing("peak-not-at-time-constant", inp, observed=f"nearest peak to tau={t:.4g} is {dev:.3g} decades away", expected="<= 0.05 decades", clause="has its peaks at the time constants R*C of the generating elements")
    for k, v in worst.items():
        ctx.counters["worst:" + k] = v


def search(ctx):
    pass


def replay(ctx, path):
    print(json.dumps(json.load(open(path)).get("failing", [])[:5], indent=1, default=str)[:4000])
    return 0

"""C05 — DataSet keeps (f, Z, mask) together.  Correspondence stream `ds`: random operation histories
run on the real DataSet and on the Lean model (line protocol), compared after every step; direct
oracle: an independent list-of-triples reference in this file, checked after every step."""
import copy
import itertools
import json

import numpy as np

import common

ID = "C05"


# ----------------------------------------------------------------------------- history generation

def gen_history(rnd, exhaustive_ctor=None):
    """A history = list of protocol lines (without the leading 'ds ')."""
    lines = ["reset"]
    nslots = 0

    def new_ds(n=None, asc=None, maskbits=None):
        nonlocal nslots
        n = n or rnd.choice([1, 1, 2, 3, 3, 4, 5, 6, 8, 12])
        ranks = sorted(rnd.sample(range(-5, 40), n), reverse=True)
        asc = rnd.random() < 0.5 if asc is None else asc
        if asc:
            ranks = ranks[::-1]
        zs = [rnd.randint(-50, 50) for _ in range(n)]
        if maskbits is None:
            r = rnd.random()
            if r < 0.25:
                pairs = []
            else:
                keys = [k for k in range(-2, n + 2) if rnd.random() < 0.5]
                rnd.shuffle(keys)
                pairs = [(k, rnd.random() < 0.6) for k in keys]
        else:
            pairs = [(i, True) for i in range(n) if maskbits >> i & 1]
        k = nslots
        nslots += 1
        lines.append(f"new {k} {csv(ranks)} {csv(zs)} {pairs_s(pairs)}")
        return k, n

    if exhaustive_ctor is not None:
        n, asc, bits = exhaustive_ctor
        new_ds(n, asc, bits)
        sizes = {0: n}
    else:
        k, n = new_ds()
        sizes = {k: n}
    for _ in range(rnd.randint(0, 14)):
        k = rnd.choice(list(sizes))
        n = sizes[k]
        op = rnd.choice(["setmask", "setmask", "lowpass", "highpass", "sub", "dup", "rt", "rt", "avg", "new", "obs", "bad"])
        if op == "setmask":
            if rnd.random() < 0.15:
                pairs = []
            else:
                keys = [i for i in range(-1, n + 1) if rnd.random() < 0.5]
                rnd.shuffle(keys)
                pairs = [(i, rnd.random() < 0.5) for i in keys]
            lines.append(f"setmask {k} {pairs_s(pairs)}")
        elif op in ("lowpass", "highpass"):
            lines.append(f"{op} {k} {rnd.randint(-6, 41)}")
        elif op == "sub":
            if rnd.random() < 0.3:
                lines.append(f"sub {k} {rnd.randint(-9, 9)}")
            else:
                lines.append(f"sub {k} {csv([rnd.randint(-9, 9) for _ in range(n)])}")
        elif op == "dup":
            lines.append(f"dup {k} {nslots}")
            sizes[nslots] = n
            nslots += 1
        elif op == "rt":
            lines.append(f"rt {k} {nslots} {int(rnd.random() < 0.3)} {int(rnd.random() < 0.4)}")
            sizes[nslots] = n
            nslots += 1
        elif op == "avg":
            # average the data set with duplicates of itself (same frequencies) or with a mismatching one
            others = [j for j in sizes if j != k]
            ks = [k] + ([rnd.choice(others)] if others and rnd.random() < 0.5 else [k])
            lines.append(f"avg {nslots} {csv(ks)}")
            sizes[nslots] = None  # size known only if it succeeds; resolved by the runner
            nslots += 1
        elif op == "new":
            j, m = new_ds()
            sizes[j] = m
        elif op == "bad":
            # invalid constructions: duplicate frequency / length mismatch
            if rnd.random() < 0.5:
                lines.append(f"new {nslots} 3,3,1 1,2,3 -")
            else:
                lines.append(f"new {nslots} 3,2,1 1,2 -")
            nslots += 1
        else:
            lines.append(f"obs {k}")
        sizes = {a: b for a, b in sizes.items() if b is not None}
    return lines


def csv(l):
    return ",".join(str(x) for x in l) if l else "-"


def pairs_s(p):
    return ",".join(f"{k}:{int(v)}" for k, v in p) if p else "-"


def ints(s):
    return [] if s == "-" else [int(x) for x in s.split(",")]


def pairs(s):
    return [] if s == "-" else [(int(a), b == "1") for a, b in (x.split(":") for x in s.split(","))]


# ----------------------------------------------------------------------------- the real implementation

def obs(d):
    fr = lambda a: [int(round(x)) for x in a]
    def view(m):
        f = d.get_frequencies(masked=m)
        z = d.get_impedances(masked=m)
        assert all(abs(c.real - c.imag) < 1e-9 for c in z), z
        return ",".join(f"{int(round(a))}:{int(round(b.real))}" for a, b in zip(f, z))
    f = d.get_frequencies(masked=None)
    z = d.get_impedances(masked=None)
    m = d.get_mask()
    # `masked` may be a numpy boolean (accepted by the validation): the same views must come back
    npflag = ""
    for b in (False, True):
        if list(d.get_frequencies(masked=np.bool_(b))) != list(d.get_frequencies(masked=b)) or list(d.get_impedances(masked=np.bool_(b))) != list(d.get_impedances(masked=b)):
            npflag = ";numpy-bool-argument-gives-another-view"
    return npflag.lstrip(";") + (";" if npflag else "") + (f"f={','.join(map(str, fr(f)))};z={','.join(str(int(round(c.real))) for c in z)};"
            f"m={','.join(f'{k}:{int(v)}' for k, v in m.items())};vn={view(None)};vf={view(False)};vt={view(True)}")


def Z(zs):
    return np.array([complex(z, z) for z in zs], dtype=complex)


def npmask(m, k):
    """every third mask is given with numpy booleans (and every sixth with numpy integer keys too): both are accepted by the validation"""
    if k % 3 == 1:
        return {(np.int64(i) if k % 6 == 1 else i): np.bool_(v) for i, v in m.items()}
    return m


def run_real(lines):
    """Execute a history on the real DataSet. Returns the reply lines."""
    from pyimpspec import DataSet

    slots = {}
    out = []
    for line in lines:
        a = line.split(" ")
        try:
            if a[0] == "reset":
                slots = {}
                out.append("ok")
            elif a[0] == "new":
                m = npmask(dict(pairs(a[4])), len(out))
                d = DataSet(np.array(ints(a[2]), dtype=float), Z(ints(a[3])), mask=m)
                slots[int(a[1])] = d
                out.append(f"ok {obs(d)}|{','.join(f'{k}:{int(v)}' for k, v in m.items())}")
            elif a[0] == "avg":
                ds = [slots[int(k)] for k in a[2].split(",") if int(k) in slots]
                d = DataSet.average(ds)
                # the model sums; mean * k is exact for small integers
                d._impedances = d._impedances * len(ds)
                slots[int(a[1])] = d
                out.append("ok " + obs(d))
            elif a[0] == "rt":
                d = slots.get(int(a[1]))
                if d is None:
                    out.append("err no-slot")
                    continue
                x = json.loads(json.dumps(d.to_dict()))
                if a[3] == "1":
                    del x["mask"]
                if a[4] == "1":
                    del x["version"]
                x0 = copy.deepcopy(x)
                d2 = DataSet.from_dict(x)
                same = x == x0
                d3 = DataSet.from_dict(x)  # importing a second time must work and agree
                same = same and obs(d3) == obs(d2)
                slots[int(a[2])] = d2
                out.append(f"ok {obs(d2)}|{'true' if same else 'false'}")
            elif a[0] == "obs":
                d = slots.get(int(a[1]))
                out.append("err no-slot" if d is None else "ok " + obs(d))
            else:
                d = slots.get(int(a[1]))
                if d is None:
                    out.append("err no-slot")
                    continue
                if a[0] == "setmask":
                    m = npmask(dict(pairs(a[2])), len(out))
                    m0 = dict(m)
                    d.set_mask(m)
                    assert m == m0
                elif a[0] == "lowpass":
                    d.low_pass(int(a[2]))
                elif a[0] == "highpass":
                    d.high_pass(int(a[2]))
                elif a[0] == "sub":
                    d.subtract_impedances(Z(ints(a[2])))
                elif a[0] == "dup":
                    d = DataSet.duplicate(d)
                    slots[int(a[2])] = d
                out.append("ok " + obs(d))
        except Exception as e:  # noqa
            out.append("err " + type(e).__name__)
    return out


# ----------------------------------------------------------------------------- independent reference (the oracle)

class Ref:
    """list of (f, z, masked) triples, descending f — the property's own reference model"""

    def __init__(self, fs, zs, mask):
        if len(fs) != len(zs) or not fs or len(set(fs)) != len(fs):
            raise ValueError
        t = [[f, z, bool(mask.get(i, False))] for i, (f, z) in enumerate(zip(fs, zs))]
        if fs[-1] > fs[0]:
            t.reverse()
        self.t = t

    def obs(self):
        v = lambda sel: ",".join(f"{f}:{z}" for f, z, m in self.t if sel is None or m == sel)
        return (f"f={','.join(str(x[0]) for x in self.t)};z={','.join(str(x[1]) for x in self.t)};"
                f"m={','.join(f'{i}:{int(x[2])}' for i, x in enumerate(self.t))};vn={v(None)};vf={v(False)};vt={v(True)}")


def run_ref(lines):
    slots = {}
    out = []
    for line in lines:
        a = line.split(" ")
        try:
            if a[0] == "reset":
                slots = {}
                out.append("ok")
            elif a[0] == "new":
                m = dict(pairs(a[4]))
                slots[int(a[1])] = r = Ref(ints(a[2]), ints(a[3]), m)
                out.append(f"ok {r.obs()}|{','.join(f'{k}:{int(v)}' for k, v in m.items())}")
            elif a[0] == "avg":
                rs = [slots[int(k)] for k in a[2].split(",") if int(k) in slots]
                if not rs:
                    raise IndexError
                f0 = [x[0] for x in rs[0].t]
                if any([x[0] for x in r.t] != f0 for r in rs):
                    raise ValueError
                r = Ref(f0, [sum(q.t[i][1] for q in rs) for i in range(len(f0))], {})
                slots[int(a[1])] = r
                out.append("ok " + r.obs())
            elif a[0] == "rt":
                r = slots.get(int(a[1]))
                if r is None:
                    out.append("err no-slot")
                    continue
                r2 = copy.deepcopy(r)
                if a[3] == "1":
                    for x in r2.t:
                        x[2] = False
                slots[int(a[2])] = r2
                out.append(f"ok {r2.obs()}|true")
            elif a[0] == "obs":
                r = slots.get(int(a[1]))
                out.append("err no-slot" if r is None else "ok " + r.obs())
            else:
                r = slots.get(int(a[1]))
                if r is None:
                    out.append("err no-slot")
                    continue
                n = len(r.t)
                if a[0] == "setmask":
                    m = dict(pairs(a[2]))
                    if not m:
                        for x in r.t:
                            x[2] = False
                    for k, v in m.items():
                        if 0 <= k < n:
                            r.t[k][2] = v
                elif a[0] == "lowpass":
                    for x in r.t:
                        x[2] = x[2] or x[0] > int(a[2])
                elif a[0] == "highpass":
                    for x in r.t:
                        x[2] = x[2] or x[0] < int(a[2])
                elif a[0] == "sub":
                    zs = ints(a[2])
                    if len(zs) == 1:
                        zs = zs * n
                    if len(zs) != n:
                        raise ValueError
                    for x, z in zip(r.t, zs):
                        x[1] -= z
                elif a[0] == "dup":
                    r = copy.deepcopy(r)
                    slots[int(a[2])] = r
                out.append("ok " + r.obs())
        except Exception as e:  # noqa
            out.append("err " + type(e).__name__)
    return out


# ----------------------------------------------------------------------------- check

def histories(ctx, big):
    rnd = ctx.pyrandom(5)
    hs = []
    # exhaustive: every size <= N, both orders, every mask subset
    nmax = 7 if big else 5
    for n in range(1, nmax + 1):
        for asc in (False, True):
            for bits in range(1 << n):
                hs.append(gen_history(rnd, (n, asc, bits)))
    for _ in range(40000 if big else 3000):
        hs.append(gen_history(rnd))
    return hs


def run(ctx):
    ctx.rule = ("histories: every (size<=N, order, mask subset) constructor followed by <=14 random operations over "
                "{set_mask, low_pass, high_pass, subtract, duplicate, to_dict->json->from_dict (with/without optional keys), average, "
                "new, invalid constructions}; compared after every step: full/unmasked/masked views, mask dict, caller's mask, "
                "caller's dict; a history is non-trivial when distinct")
    hs = histories(ctx, ctx.thorough)
    lines = [l for h in hs for l in h]
    real = []
    ref = []
    for h in hs:
        real += run_real(h)
        ref += run_ref(h)
        ctx.note_case(tuple(h))
    model = common.run_driver(["ds " + l for l in lines])
    ctx.sample(hs[len(hs) // 2][:8])
    ctx.sample(hs[-1][:8])
    ndiff = 0
    for i, (l, a, b, c) in enumerate(zip(lines, real, model, ref)):
        ctx.count("op:" + l.split(" ")[0] + (":err" if a.startswith("err") else ""))
        if a != b:
            ndiff += 1
            if ndiff <= 3:
                ctx.add_broken("correspondence", "ds", {"line": l, "implementation": a, "model": b, "history": context(lines, i)})
        if a != c:
            ctx.add_failing("dataset-history", context(lines, i), observed=a, expected=c,
                            repro="./check C05 --replay <this file>", clause="points stay together / caller arguments unchanged / import repeatable")
            if len(ctx.failing) > 5:
                break
    ctx.counters["lines"] = len(lines)
    ctx.counters["diffs"] = ndiff


def context(lines, i):
    j = i
    while j > 0 and lines[j] != "reset":
        j -= 1
    return lines[j:i + 1]


def search(ctx):
    pass  # run() already evaluates the direct oracle on every step of every history


def replay(ctx, path):
    d = json.load(open(path))
    for f in d.get("failing", []):
        h = f["input"]
        print("\n".join(f"{l}\n   impl : {a}\n   ref  : {b}\n   model: {c}" for l, a, b, c in
                        zip(h, run_real(h), run_ref(h), common.run_driver(["ds " + l for l in h]))))
    return 0

"""C02 — numeric impedance = documented equation.  The model (E-terms for every `_impedance` body and every
equation string) is REGENERATED from /repo on every run (harness/translate_kernels.py) and the theorems of
Props/C02.lean are re-checked against it.  This module (a) cross-checks the translator: the driver evaluates
every generated term at complex floats and is compared with the real Python kernel / sympy expression on
sampled points; (b) runs the direct oracle of the property on the implementation: get_impedances vs
to_sympy(substitute=True) for elements, circuits and all transmission-line configurations; limits."""
import itertools
import json
import math
import struct
from decimal import Decimal

import numpy as np

import circgen
import pyutil
import common

ID = "C02"
REL = 1e-8


def fl(x):
    """float -> sign:mantissa:exp10 (exact decimal of repr)"""
    t = Decimal(repr(float(x))).as_tuple()
    m = int("".join(map(str, t.digits)))
    return f"{'-' if t.sign else '+'}:{m}:{t.exponent}"


def from_bits(a, b):
    return complex(struct.unpack("d", struct.pack("Q", int(a)))[0], struct.unpack("d", struct.pack("Q", int(b)))[0])


def relerr(a, b):
    if not (np.isfinite(a) and np.isfinite(b)):
        return 0.0 if (np.isfinite(a) == np.isfinite(b)) else math.inf
    return abs(a - b) / max(abs(a), abs(b), 1e-300)


def sample_points(rnd, cls, n):
    pts = []
    for i in range(n):
        ps = circgen.random_params(rnd, cls)
        if i == 0:
            ps = dict(cls.get_default_values())
        elif i % 3 == 2:
            # towards the corner of the limit box: exponents close to (and at) their upper limit
            for k in ps:
                if k in ("n", "a", "b", "n_B", "n_A") and cls.get_default_upper_limit(k) <= 1.0:
                    ps[k] = circgen.round6(rnd.choice([rnd.uniform(0.85, 1.0), rnd.uniform(0.95, 1.0), 1.0]))
        f = 10 ** rnd.uniform(-6, 9)
        pts.append((ps, f))
    return pts


def benign(z):
    return np.isfinite(z) and 1e-200 < abs(z) < 1e200


COND_MAX = 1e4


def well_conditioned(fn, f):
    """Floating-point results can only be compared where the function is well conditioned: estimate the
    condition number with respect to the frequency (tan/tanh/coth of arguments ~1e10 lose all digits)."""
    h = 1e-10
    try:
        with np.errstate(all="ignore"):
            z0, z1, z2 = complex(fn(f)), complex(fn(f * (1 + h))), complex(fn(f * (1 - h)))
    except Exception:  # noqa
        return True
    if not (benign(z0) and benign(z1) and benign(z2)):
        return True
    return max(relerr(z0, z1), relerr(z0, z2)) / h <= COND_MAX


def run(ctx):
    from pyimpspec import get_elements, Circuit, parse_cdc
    from pyimpspec.circuit.base import Container

    ctx.rule = ("per element class: parameter vectors log-uniform in the limit box (+ defaults), exponents uniform in (0,1], f log-uniform 1e-6..1e9; "
                "translator cross-check: generated impl/eqn terms evaluated by the driver at complex floats vs the Python kernel / sympy; "
                "oracle: get_impedances vs to_sympy(substitute=True) for elements, random circuits, all 3^5 transmission-line configurations; "
                "a case is non-trivial when its (class, parameter vector, frequency) is distinct")
    ctx.assumptions += [
        "numpy's real-valued ** and sqrt on non-negative floats coincide with the principal complex power (parameters are real and inside their limit box)",
        "floating-point values are compared only where the kernel is well conditioned in f (estimated condition number <= 1e4; tan/tanh/coth of arguments ~1e10 carry no digits): other points are counted and skipped",
        "IEEE overflow of cosh/sinh at extreme arguments and sympy's own evaluation engine are runtime; points where either side is not finite or exceeds 1e200 are skipped",
    ]
    rnd = ctx.pyrandom(2)
    els = get_elements(private=True)
    kern = ctx.coverage.get("translator", {}).get("kernels", {}).get("kernels", [])
    npts = 60 if ctx.thorough else 12
    lines, meta = [], []
    for sym in kern:
        cls = els[sym]
        for ps, f in sample_points(rnd, cls, npts):
            binds = " ".join(f"{k}={fl(v)}" for k, v in ps.items()) + f" f={fl(f)}"
            lines.append(f"ker impl {sym} {binds}")
            lines.append(f"ker eqn {sym} {binds}")
            meta.append((sym, ps, f))
    out = common.run_driver(lines)
    nd = 0
    for i, (sym, ps, f) in enumerate(meta):
        cls = els[sym]
        e = cls(**ps)
        with np.errstate(all="ignore"):
            z_py = complex(e._impedance(np.array([f]), **ps)[0])
        a = out[2 * i].split(" ")
        b = out[2 * i + 1].split(" ")
        if a[0] != "ok" or b[0] != "ok":
            ctx.add_broken("correspondence", f"ker/{sym}", {"reply": out[2 * i][:200]})
            continue
        z_impl, z_eqn = from_bits(a[1], a[2]), from_bits(b[1], b[2])
        ctx.note_case((sym, tuple(ps.values()), f))
        if not (benign(z_py) and benign(z_impl)):
            ctx.count("xcheck:skipped-nonfinite")
            continue
        if not well_conditioned(lambda x: e._impedance(np.array([x]), **ps)[0], f):
            ctx.count("xcheck:skipped-ill-conditioned")
            continue
        ctx.count("xcheck:impl-term-vs-python")
        if relerr(z_py, z_impl) > REL:
            nd += 1
            if nd <= 3:
                ctx.add_broken("correspondence", f"translator/impl/{sym}", {"params": ps, "f": f, "python": str(z_py), "term": str(z_impl)})
        # equation term vs sympy (a few points only: sympy is slow)
        if i % 4 == 0:
            try:
                z_sym = sym_eval(e, f)
            except (Exception, TimeoutError):
                continue
            ctx.count("xcheck:eqn-term-vs-sympy")
            if benign(z_sym) and benign(z_eqn) and relerr(z_sym, z_eqn) > REL:
                nd += 1
                if nd <= 3:
                    ctx.add_broken("correspondence", f"translator/eqn/{sym}", {"params": ps, "f": f, "sympy": str(z_sym), "term": str(z_eqn)})
            # the property itself on the implementation
            if benign(z_sym) and relerr(z_py, z_sym) > 1e-6:
                ctx.add_failing("element-vs-equation", {"cdc": e.to_string(17), "f": f}, observed=str(z_py), expected=str(z_sym),
                                repro=f"e=parse_cdc('{e.to_string(17)}').get_elements()[0]; e.get_impedances([{f!r}]) vs complex(e.to_sympy(substitute=True).subs('f',{f!r}))",
                                clause="numerically computed impedance equals the documented closed-form equation")
    ctx.counters["xcheck:diffs"] = nd
    ctx.sample({"line": lines[0], "reply": out[0]})
    oracle(ctx, rnd, els)


class TimeLimit:
    """sympy occasionally does not return (limit(), subs() on pathological expressions): bound each call"""

    def __init__(self, seconds):
        self.seconds = seconds

    def __enter__(self):
        import signal

        def handler(signum, frame):
            raise TimeoutError()

        import time
        self.old = signal.signal(signal.SIGALRM, handler)
        self.t0 = time.time()
        self.outer = signal.alarm(self.seconds)     # seconds left on an enclosing alarm (the check's time budget), re-armed on exit

    def __exit__(self, *a):
        import signal
        import time
        signal.alarm(0)
        signal.signal(signal.SIGALRM, self.old)
        if self.outer:
            signal.alarm(max(1, int(self.outer - (time.time() - self.t0))))
        return False


def sym_eval(obj, f):
    with TimeLimit(20):
        expr = obj.to_sympy(substitute=True)
        return complex(expr.subs("f", f))


def oracle(ctx, rnd, els):
    """Direct property oracle on the implementation (also the failing-input search)."""
    from pyimpspec import Circuit
    from pyimpspec.circuit.base import Container
    big = ctx.thorough or bool(ctx.broken)
    # elements (all classes incl. those the translator does not cover)
    for sym, cls in els.items():
        if issubclass(cls, Container):
            continue
        for ps, f in sample_points(rnd, cls, (60 if ctx.broken else 25) if big else 3):
            e = cls(**ps)
            with np.errstate(all="ignore"):
                z = complex(e._impedance(np.array([f]), **ps)[0])
            try:
                zs = sym_eval(e, f)
            except Exception as x:  # noqa
                ctx.add_failing("to_sympy-fails", {"cdc": e.to_string(17), "f": f}, observed=type(x).__name__, expected="an expression")
                continue
            ctx.count("oracle:element")
            if benign(z) and benign(zs) and relerr(z, zs) > 1e-6 and not well_conditioned(lambda x: e._impedance(np.array([x]), **ps)[0], f):
                ctx.count("oracle:skipped-ill-conditioned")
                continue
            if z == 0 and benign(zs) and well_conditioned(lambda x: complex(sym_eval(e, x)), f):
                ctx.add_failing("element-vs-equation", {"cdc": e.to_string(17), "f": f}, observed="exactly 0", expected=str(zs),
                                clause="numerically computed impedance equals the documented closed-form equation")
            if benign(z) and benign(zs) and relerr(z, zs) > 1e-6:
                ctx.add_failing("element-vs-equation", {"cdc": e.to_string(17), "f": f}, observed=str(z), expected=str(zs),
                                clause="numerically computed impedance equals the documented closed-form equation")
    # circuits
    symbols = [s for s in els if s not in ("Xo", "Xz", "Xp")]
    from pyimpspec import parse_cdc
    tlm_codes = ["RTlm", "Tlm{X_1=R(RC)}", "R(C[RTlm{X_2=R,Zeta=(RQ)}])", "Tlm{X_1=R,X_2=R,Z_A=Q,Z_B=R,Zeta=Q}L"]
    for _ in range(150 if big else 25):
        # every other circuit carries labels drawn from a small pool, so that several elements (of the same or of different
        # classes) share a label: their parameters share display names but never values
        t = circgen.fill(rnd, circgen.random_shape(rnd, rnd.randint(1, 6)), symbols, **({"labels": ["a", "dl", "film"]} if _ % 2 else {}))
        c = Circuit(circgen.build(t))
        if _ % 3 == 0 and _ // 3 < (len(tlm_codes) if big else 2):
            c = parse_cdc(tlm_codes[(_ // 3 + rnd.randrange(len(tlm_codes))) % len(tlm_codes)])
        f = 10 ** rnd.uniform(-4, 7)
        try:
            with np.errstate(all="ignore"):
                z = complex(c.get_impedances(np.array([f]))[0])
            zs = sym_eval(c, f)
        except Exception as x:  # noqa
            ctx.count("oracle:circuit-skipped:" + type(x).__name__)
            continue
        ctx.count("oracle:circuit")
        if _ % 3 == 0:
            # observe - change the parameters in place (also of elements nested in containers) - observe again: the symbolic
            # expression must follow the circuit's current state
            try:
                only_nested = rnd.random() < 0.5     # leave container elements themselves alone half of the time
                for e in pyutil.all_elements(c):
                    if (only_nested and isinstance(e, Container)) or rnd.random() < 0.25:
                        continue
                    lo, hi, vals = e.get_lower_limits(), e.get_upper_limits(), {}
                    for k, v in e.get_values().items():
                        nv = v * rnd.uniform(1.5, 3.0)
                        if lo[k] <= nv <= hi[k] and k not in ("n", "a", "b", "n_B"):
                            vals[k] = nv
                    if vals:
                        e.set_values(**vals)
                with np.errstate(all="ignore"):
                    z2 = complex(c.get_impedances(np.array([f]))[0])
                zs2 = sym_eval(c, f)
                ctx.count("oracle:circuit:after-in-place-change")
                if benign(z2) and benign(zs2) and relerr(z2, zs2) > 1e-6 and well_conditioned(lambda x: c.get_impedances(np.array([x]))[0], f):
                    ctx.add_failing("circuit-vs-symbolic", {"cdc": c.serialize(17), "f": f, "history": "expression requested, parameters changed in place, expression requested again"}, observed=str(z2), expected=str(zs2),
                                    clause="the symbolic impedance expression of a circuit with values substituted evaluates to the numeric impedance")
            except Exception as x:  # noqa
                ctx.count("oracle:circuit:after-in-place-change:skipped:" + type(x).__name__)
        if benign(z) and benign(zs) and relerr(z, zs) > 1e-6 and not well_conditioned(lambda x: c.get_impedances(np.array([x]))[0], f):
            ctx.count("oracle:skipped-ill-conditioned")
            continue
        if benign(z) and benign(zs) and relerr(z, zs) > 1e-6:
            ctx.add_failing("circuit-vs-symbolic", {"cdc": c.serialize(17), "f": f}, observed=str(z), expected=str(zs),
                            clause="the symbolic impedance expression of a circuit with values substituted evaluates to the numeric impedance")
    tlm_configs(ctx, rnd, els, big)
    limits(ctx, rnd, els, big)
    limit_vectors(ctx, rnd, big)


def cfl(z):
    return f"{fl(z.real)};{fl(z.imag)}"


def tlm_configs(ctx, rnd, els, big):
    """All 3^5 open/short/finite configurations of the general transmission line.  (a) correspondence `tlm`:
    the Lean model (hand-written decision trees + regenerated branch formulas, evaluated by the driver at
    complex floats on the real sub-circuits' impedances) vs the real numeric and symbolic implementations;
    (b) oracle: numeric and symbolic side agree on which configurations are refused and on the values."""
    from pyimpspec import Series, Resistor, ConstantPhaseElement
    Tlm = els["Tlm"]
    keys = ["X_1", "X_2", "Z_A", "Z_B", "Zeta"]
    names = ["x1", "x2", "za", "zb", "ze"]

    def make(kind):
        if kind == "open":
            return None
        if kind == "short":
            return Series([])
        return Series([Resistor(R=circgen.round6(10 ** rnd.uniform(-1, 3))), ConstantPhaseElement(Y=circgen.round6(10 ** rnd.uniform(-5, -2)), n=circgen.round6(rnd.uniform(0.5, 1.0)))]) \
            if rnd.random() < 0.5 else Series([Resistor(R=circgen.round6(10 ** rnd.uniform(-1, 3)))])

    nvalid = 0
    lines, recs = [], []
    for cfg in itertools.product(["open", "short", "finite"], repeat=5):
        reps = 2 if big else 1
        for _ in range(reps):
            subs = {k: make(c) for k, c in zip(keys, cfg)}
            t = Tlm(**subs, L=circgen.round6(10 ** rnd.uniform(-1, 1)))
            f = 10 ** rnd.uniform(-2, 4)
            try:
                with np.errstate(all="ignore"):
                    z = complex(t._impedance(np.array([f]), **t.get_values(), **t.get_subcircuits())[0])
                zr = "ok"
            except Exception as x:  # noqa
                z, zr = None, type(x).__name__
            try:
                zs = sym_eval(t, f)
                sr = "ok"
            except Exception as x:  # noqa
                zs, sr = None, type(x).__name__
            binds = []
            for nm, k in zip(names, keys):
                c = subs[k]
                v = complex(0, 0) if c is None else complex(c._impedance(np.array([f]))[0])
                binds.append(f"{nm}={cfl(v)}")
            binds.append(f"L={cfl(complex(t.get_value('L'), 0))}")
            lines.append("tlm impl " + " ".join(cfg) + " " + " ".join(binds))
            lines.append("tlm sym " + " ".join(cfg) + " " + " ".join(binds))
            if sr == "TimeoutError":
                ctx.count("tlm:sympy-timeout(skipped)")
                lines = lines[:-2]
                continue
            recs.append((cfg, t, f, z, zr, zs, sr))
    out = common.run_driver(lines)
    nd = 0
    for i, (cfg, t, f, z, zr, zs, sr) in enumerate(recs):
        ctx.count(f"tlm:{zr}")
        ctx.note_case(("tlm", cfg, f))
        for which, rep, real_v, real_r in (("impl", out[2 * i], z, zr), ("sym", out[2 * i + 1], zs, sr)):
            if rep.startswith("err"):
                ok = real_r == rep[4:]
                if not ok and real_r == "ok" and not benign(real_v):
                    ok = True
                if not ok and which == "sym" and real_r in ("ZeroDivisionError", "TypeError"):
                    ok = True  # sympy refuses to divide by an exact zero (zoo); the float model returns inf/nan
            else:
                a = rep.split(" ")
                zm = from_bits(a[1], a[2])
                ok = real_r == "ok" and ((not benign(real_v)) or (not benign(zm)) or relerr(real_v, zm) <= 1e-6)
                if real_r != "ok" and not benign(zm):
                    ok = True
            if not ok:
                nd += 1
                if nd <= 3:
                    ctx.add_broken("correspondence", f"tlm/{which}", {"config": dict(zip(keys, cfg)), "cdc": t.to_string(17), "f": f, "implementation": f"{real_r} {real_v}", "model": rep})
        if (zr == "ok") != (sr == "ok"):
            if (zr == "ok" and not benign(z)) or (sr == "ok" and not benign(zs)):
                continue
            ctx.add_failing("tlm-config-refusal-differs", {"config": dict(zip(keys, cfg)), "cdc": t.to_string(17), "f": f}, observed=f"numeric {zr}", expected=f"symbolic {sr}",
                            clause="for every configuration of the general transmission-line element's sub-circuits")
        elif zr == "ok":
            nvalid += 1
            if benign(z) and benign(zs) and relerr(z, zs) > 1e-6:
                ctx.add_failing("tlm-vs-symbolic", {"config": dict(zip(keys, cfg)), "cdc": t.to_string(17), "f": f}, observed=str(z), expected=str(zs),
                                clause="for every configuration of the general transmission-line element's sub-circuits")
    ctx.counters["tlm:valid-evaluations"] = nvalid
    ctx.counters["tlm:diffs"] = nd


def limits(ctx, rnd, els, big):
    """Where get_impedances reports a finite limit at f = 0 or f = inf, it must be the continuous extension of
    the finite-frequency values of the same element."""
    from pyimpspec.circuit.base import Container
    from pyimpspec.exceptions import ImpedanceError
    import sympy
    syms = [s for s, c in els.items() if not issubclass(c, Container)]
    n = len(syms) if big else 6
    for sym in rnd.sample(syms, n):
        cls = els[sym]
        ps = circgen.random_params(rnd, cls)
        # keep exponents away from 0 so that convergence towards the limit is visible in doubles
        for k in ps:
            if k in ("n", "a", "b", "n_B") and ps[k] < 0.4:
                ps[k] = 0.5
        e = cls(**ps)
        for f0, probe in ((0.0, sympy.Rational(1, 10 ** 200)), (math.inf, sympy.Integer(10) ** 200)):
            try:
                with np.errstate(all="ignore"), TimeLimit(20):
                    zl = complex(e.get_impedances(np.array([f0]))[0])
            except TimeoutError:
                ctx.count("oracle:limit:sympy-timeout")
                continue
            except ImpedanceError:
                ctx.count("oracle:limit:not-finite")
                continue
            except Exception as x:  # noqa
                ctx.count("oracle:limit:error:" + type(x).__name__)
                continue
            try:
                with TimeLimit(20):
                    near = complex(sympy.N(e.to_sympy(substitute=True).subs("f", probe), 30))
            except (Exception, TimeoutError):
                continue
            ctx.count("oracle:limit:finite")
            if np.isfinite(near) and abs(near - zl) > 1e-3 * max(abs(zl), abs(near), 1e-30):
                ctx.add_failing("limit-not-continuous-extension", {"cdc": e.to_string(17), "f": f0}, observed=str(zl), expected=str(near),
                                clause="a reported finite limit at 0 Hz or infinite frequency is the continuous extension of the finite-frequency values")


def limit_vectors(ctx, rnd, big):
    """Frequency vectors that mix 0 Hz, infinite and finite frequencies in any order: every entry of the result must
    be what a call with that single frequency reports (the limits are computed on a separate code path)."""
    from pyimpspec import parse_cdc
    tmpls = ["R{R=%(a)r}(R{R=%(b)r}C{C=%(c)r})", "R{R=%(a)r}(R{R=%(b)r}Q{Y=%(c)r,n=0.8})(R{R=%(a)r}C{C=%(c)r})", "(R{R=%(a)r}[R{R=%(b)r}L{L=%(c)r}])", "R{R=%(a)r}Zarc{R=%(b)r,tau=%(c)r,n=0.8}"]
    for j in range(len(tmpls) if big else 2):
        c = parse_cdc(tmpls[(j + rnd.randrange(len(tmpls))) % len(tmpls)] % dict(a=circgen.round6(10 ** rnd.uniform(0, 2)), b=circgen.round6(10 ** rnd.uniform(0, 3)), c=circgen.round6(10 ** rnd.uniform(-6, -3))))
        single = {}
        try:
            with np.errstate(all="ignore"), TimeLimit(60):
                for f0 in (0.0, math.inf, 1.0, 1e3):
                    single[f0] = complex(c.get_impedances(np.array([f0]))[0])
        except (Exception, TimeoutError) as x:  # noqa
            ctx.count("oracle:limit-vector:skipped:" + type(x).__name__)
            continue
        orders = [[math.inf, 1e3, 1.0, 0.0], [0.0, math.inf], [math.inf, 0.0], [0.0, math.inf, 1.0, 0.0], [math.inf, 1.0, 0.0, math.inf]]
        extra = [0.0, math.inf, 1.0, 1e3, 0.0, math.inf]
        rnd.shuffle(extra)
        orders.append(extra)
        for fs in orders:
            ctx.count("oracle:limit-vector")
            ctx.note_case(("limit-vector", c.to_string(6), tuple(fs)))
            try:
                with np.errstate(all="ignore"), TimeLimit(60):
                    z = c.get_impedances(np.array(fs))
            except (Exception, TimeoutError) as x:  # noqa
                ctx.add_failing("limit-vector-raises", {"cdc": c.serialize(17), "f": [str(v) for v in fs]}, observed=type(x).__name__, expected="values", clause="a reported finite limit at 0 Hz or infinite frequency")
                continue
            exp = [single[v] for v in fs]
            if any(relerr(complex(a), b) > 1e-9 for a, b in zip(z, exp)):
                ctx.add_failing("limit-vector-vs-single", {"cdc": c.serialize(17), "f": [str(v) for v in fs]}, observed=str([complex(v) for v in z]), expected=str(exp),
                                clause="a reported finite limit at 0 Hz or infinite frequency is the continuous extension of the finite-frequency values (whatever the order of the frequencies)")


def search(ctx):
    from pyimpspec import get_elements
    ctx.tier = "thorough"
    oracle(ctx, ctx.pyrandom(9), get_elements(private=True))


def replay(ctx, path):
    from pyimpspec import parse_cdc
    d = json.load(open(path))
    for f_ in d.get("failing", [])[:5]:
        print(json.dumps(f_, default=str)[:1500])
    return 0

"""C20 — symbolic, LaTeX and diagram exports exist for every circuit.

Correspondence stream `tikz`: every drawing command (kind, coordinates) of the real `to_circuitikz` vs the
Lean model `Tikz.render` for generated circuits, incl. object-built shapes outside the parser's normal
form.  Direct oracle: to_sympy / to_latex / to_circuitikz / to_drawing produce something for every
simulable circuit; free variables of the symbolic expression; one component per element, named as the
circuit names it; balanced begin/end."""
import json
import re

import numpy as np

import circgen
import common
import pyutil

ID = "C20"
LABELS = ["", "", "", "a", "ct", "dl", "x1", "ct_1", "R_s", "double_layer"]
DRAW = re.compile(r"\\draw \(([-\d.e]+),([-\d.e]+)\) (?:node\[above\]\{.*?\} )?to\[(.*?)\] \(([-\d.e]+),([-\d.e]+)\)")


def tokens(obj, ids):
    from pyimpspec import Series, Parallel
    if isinstance(obj, (Series, Parallel)):
        out = ["S" if isinstance(obj, Series) else "P", str(len(obj._elements))]
        for c in obj._elements:
            out += tokens(c, ids)
        return out
    ids[id(obj)] = len(ids)
    return ["E", str(ids[id(obj)])]


def expected_lines(rep, els_by_oid, names, nw=3.0, nh=1.5):
    """model commands -> (x1, y1, kind/label, x2, y2) tuples as the LaTeX source states them"""
    parts = rep.split(" ")
    total_w = int(parts[1])
    X = lambda q: q / 4 * (nw - 1.0) + 1.0
    Y = lambda u: -u * nh
    out = [(0.0, 0.0, "short, o-", 1.0, 0.0)]
    for tok in parts[2:]:
        a = tok.split(":")
        if a[0] == "c":
            oid, x, y, w = map(int, a[1:])
            out.append((max(1.0, X(x)), Y(y), names[oid], X(x + w), Y(y)))
        elif a[0] == "s":
            x, y = map(int, a[1:])
            out.append((max(1.0, X(x)), Y(y), "short", X(x + 1), Y(y)))
        elif a[0] == "v":
            x, t, b = map(int, a[1:])
            out.append((X(x), Y(t), "short", X(x), Y(b)))
        elif a[0] == "k":
            x, y, xe = map(int, a[1:])
            out.append((X(x), Y(y), "short", X(xe), Y(y)))
    out.append((X(total_w), 0.0, "short, -o", X(total_w) + 1, 0.0))
    return out


def gen(ctx, big):
    from pyimpspec import get_elements
    rnd = ctx.pyrandom(13)
    symbols = list(get_elements(private=True))
    cases = []
    for n in range(1, 6 if big else 5):
        for sh in circgen.topologies(n, allow_degenerate=(n <= 3)):
            cases.append(circgen.fill(rnd, sh, rnd.choice([symbols, ["R", "C", "L", "Q", "W"]]), labels=LABELS))
    for _ in range(2000 if big else 250):
        sh = circgen.random_shape(rnd, rnd.randint(1, 12), allow_degenerate=rnd.random() < 0.15)
        cases.append(circgen.fill(rnd, sh, symbols, labels=LABELS))
    return cases, rnd


def parser_normal(t):
    if t[0] == "E":
        return True
    if t[0] == "P" and len(t[1]) < 2:
        return False
    return len(t[1]) >= 1 and all(parser_normal(c) for c in t[1])


def run(ctx):
    from pyimpspec import Circuit, Series
    from pyimpspec.circuit.diagrams.circuitikz import to_circuitikz as _  # noqa
    from pyimpspec.circuit.base import Container
    from pyimpspec.circuit.resistor import Resistor
    from pyimpspec.circuit.capacitor import Capacitor
    from pyimpspec.circuit.inductor import Inductor, ModifiedInductor
    from pyimpspec.circuit.constant_phase_element import ConstantPhaseElement
    tikzsym = {Resistor: "R", Capacitor: "capacitor", Inductor: "L", ModifiedInductor: "L", ConstantPhaseElement: "cpe"}
    ctx.rule = ("circuits: every series/parallel topology up to 4 (thorough 5) leaves incl. singleton / directly nested same-kind connections for <=3 leaves, random ones up to 12 leaves, "
                "all element classes, labels; every drawing command and coordinate compared; a case is non-trivial when its shape is distinct")
    cases, rnd = gen(ctx, ctx.thorough)
    lines, recs = [], []
    for t in cases:
        root = circgen.build(t)
        circuit = Circuit(root) if t[0] != "E" else Circuit(Series([root]))
        ids = {}
        toks = tokens(circuit._elements, ids)
        lines.append("tikz " + " ".join(toks[1:]))
        recs.append((t, circuit, ids))
        ctx.note_case(circgen.shape_of(t))
    out = common.run_driver(lines)
    nd = 0
    ndraw = 0
    for (t, circuit, ids), rep in zip(recs, out):
        con = circuit._elements
        els = {ids[id(e)]: e for e in pyutil.all_elements(circuit) if id(e) in ids}
        try:
            src = circuit.to_circuitikz()
            real = "ok"
        except ValueError:
            src, real = None, "err ValueError"
        except Exception as x:  # noqa
            src, real = None, "err " + type(x).__name__
        ctx.count("tikz:" + real)
        normal = parser_normal(t)
        if real != "ok":
            if rep != real:
                nd += 1
                ctx.add_broken("correspondence", "tikz", {"circuit": circuit.to_string(), "implementation": real, "model": rep[:200]}) if nd <= 3 else None
            if normal:
                ctx.add_failing("circuitikz-fails", {"cdc": circuit.serialize(3)}, observed=real, expected="LaTeX source", clause="the CircuiTikZ source can be produced without error")
            else:
                ctx.add_failing("circuitikz-fails-outside-normal-form", {"cdc": circuit.to_string(), "normal_form": False}, observed=real, expected="LaTeX source", clause="for every circuit that can be simulated the CircuiTikZ source can be produced")
            continue
        typ_ids = con.generate_element_identifiers(running=False)
        names = {}
        for oid, e in els.items():
            label = f"{e.get_symbol()}_{{\\rm {e.get_label() or typ_ids[e]}}}"
            names[oid] = f"{tikzsym.get(type(e), 'generic')}=${label}$"
        got = [(float(a), float(b), k, float(c), float(d)) for a, b, k, c, d in DRAW.findall(src)]
        if not rep.startswith("ok"):
            nd += 1
            ctx.add_broken("correspondence", "tikz", {"circuit": circuit.to_string(), "implementation": "ok", "model": rep[:200]}) if nd <= 3 else None
            continue
        exp = expected_lines(rep, els, names)
        if got != exp:
            nd += 1
            if nd <= 3:
                first = next((i for i, (g, e) in enumerate(zip(got, exp)) if g != e), min(len(got), len(exp)))
                ctx.add_broken("correspondence", "tikz", {"circuit": circuit.to_string(), "first_diff_index": first, "implementation": got[first:first + 2], "model": exp[first:first + 2], "n": [len(got), len(exp)]})
        # ---- the property on the implementation
        desc = {"cdc": circuit.serialize(3)}
        comps = [g for g in got if "=$" in g[2]]
        nel = len(con.get_elements(recursive=True))
        if len(comps) != nel:
            ctx.add_failing("component-count", desc, observed=len(comps), expected=nel, clause="one component per element of the circuit's connections (a container counts as one)")
        if src.count("\\begin{circuitikz}") != 1 or src.count("\\end{circuitikz}") != 1 or not src.startswith("\\begin{circuitikz}") or not src.rstrip().endswith("\\end{circuitikz}"):
            ctx.add_failing("begin-end", desc, observed="unbalanced", expected="balanced begin/end structure")
        want_names = sorted(f"{e.get_symbol()}_{{\\rm {e.get_label() or typ_ids[e]}}}" for e in con.get_elements(recursive=True))
        got_names = sorted(re.findall(r"=\$(.*?)\$", src))
        if want_names != got_names:
            ctx.add_failing("component-names", desc, observed=got_names[:6], expected=want_names[:6], clause="named as the circuit names it")
        # other exports (sampled: sympy / schemdraw are slow)
        if ndraw < (400 if ctx.thorough else 40) and rnd.random() < 0.3:
            ndraw += 1
            other_exports(ctx, circuit, desc, normal)
        if len(ctx.failing) > 6:
            break
    # containers: elements nested in the sub-circuits of a transmission line share the circuit-wide numbering
    from pyimpspec import parse_cdc
    for cdc in ["RRTlm", "RQTlm", "Tlm{X_1=[R], X_2=[R]}", "LR(Q[RW])Tlm", "R(C[RTlm])", "RTlm{X_1=[R], X_2=[R], Z_A=[Q], Z_B=[R], Zeta=[Q]}"][: (6 if ctx.thorough else 3)]:
        other_exports(ctx, parse_cdc(cdc), {"cdc": cdc}, True)
        ndraw += 1
    ctx.counters["diffs"] = nd
    ctx.counters["other-exports-checked"] = ndraw
    ctx.sample({"line": lines[3][:200], "model": out[3][:300]})
    ctx.undecided.append("to_sympy / to_latex / to_drawing are checked for totality and variable sets on the implementation only (sympy, schemdraw, matplotlib are runtime)")


def other_exports(ctx, circuit, desc, normal):
    import warnings
    # the property quantifies over circuits that can be simulated
    try:
        with np.errstate(all="ignore"):
            circuit.get_impedances(np.array([1e-2, 1.0, 1e3]))
    except Exception as x:  # noqa
        ctx.count("not-simulable:" + type(x).__name__)
        return
    els = pyutil.all_elements(circuit)
    nparams = sum(len(e.get_values()) for e in els)
    try:
      with pyutil.TimeLimit(20):
          expr = circuit.to_sympy()
          syms = {str(s) for s in expr.free_symbols}
          exprs = circuit.to_sympy(substitute=True)
          fs = {str(s) for s in exprs.free_symbols}
          if not fs <= {"f"}:
              ctx.add_failing("free-variables-after-substitute", desc, observed=sorted(fs), expected="subset of {f}", clause="no free variable other than the frequency after substituting values")
          labels = [e.get_label() for e in els if e.get_label()]
          if len(syms - {"f"}) != nparams and not any("_" in l for l in labels) and len(set((e.get_symbol(), l) for e in els for l in [e.get_label()] if l)) == len(labels):
              # (a parameter may cancel out of the expression: only more variables than parameters, or collisions, are errors)
              if len(syms - {"f"}) > nparams:
                  ctx.add_failing("variables-per-parameter", desc, observed=len(syms - {"f"}), expected=nparams, clause="exactly one variable per parameter")
          if not labels:
              # one variable per parameter also means: no variable stands for two parameters.  The variables are the fitting
              # identifiers; substituting every parameter's value under its own name must reproduce the impedance
              import sympy
              from pyimpspec.analysis.fitting import generate_fit_identifiers
              ids = generate_fit_identifiers(circuit)
              want = {getattr(m, k) for e, m in ids.items() for k in e.get_values()}
              if not (syms - {"f"}) <= want:
                  ctx.add_failing("variables-per-parameter", desc, observed=sorted(syms - {"f"} - want), expected=f"variables among {sorted(want)}", clause="exactly one variable per parameter")
              else:
                  sub = {getattr(m, k): (v if np.isfinite(v) else sympy.oo) for e, m in ids.items() for k, v in e.get_values().items()}
                  f0 = 37.0
                  z = complex(sympy.N(expr.subs(sub).subs("f", f0)))
                  with np.errstate(all="ignore"):
                      zr = complex(circuit.get_impedances(np.array([f0]))[0])
                  ctx.count("sympy:one-variable-per-parameter")
                  if np.isfinite(zr) and np.isfinite(z) and not (abs(z - zr) <= 1e-6 * abs(zr)):
                      ctx.add_failing("variables-per-parameter", desc, observed=f"substituting each parameter's value for its variable gives {z}", expected=f"{zr}", clause="exactly one variable per parameter (a variable stands for two different parameters)")
          circuit.to_latex()
          ctx.count("sympy/latex:ok")
    except TimeoutError:
        ctx.count("sympy:timeout(skipped)")
    except Exception as x:  # noqa
        ctx.add_failing("symbolic-export-fails", desc, observed=type(x).__name__ + ": " + str(x)[:150], expected="an expression", clause="the symbolic expression and its LaTeX form can be produced without error")
    try:
        with warnings.catch_warnings(), pyutil.TimeLimit(30):
            warnings.simplefilter("ignore")
            circuit.to_drawing()
        ctx.count("schemdraw:ok")
    except TimeoutError:
        ctx.count("schemdraw:timeout(skipped)")
    except Exception as x:  # noqa
        if normal:
            ctx.add_failing("drawing-fails", desc, observed=type(x).__name__ + ": " + str(x)[:150], expected="a drawing", clause="the schematic drawing can be produced without error")
        else:
            ctx.add_failing("drawing-fails-outside-normal-form", {**desc, "normal_form": False}, observed=type(x).__name__, expected="a drawing")


def search(ctx):
    pass


def replay(ctx, path):
    print(json.dumps(json.load(open(path)).get("failing", [])[:5], indent=1, default=str)[:4000])
    return 0

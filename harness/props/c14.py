"""C14 — element parameter API as a state machine.  Correspondence stream `pa`: random call histories
on every registered element class, run on the real objects and on the Lean model, compared after
every call (state after accepted AND refused calls, exception class).  Direct oracle: the property's
clauses evaluated on the real objects after every call."""
import copy
import json
import math
from fractions import Fraction

import common

ID = "C14"
GRID = [0.0, 1e-30, 1e-24, 1e-6, 0.5, 0.8, 1.0, 2.0, 1000.0, 1e6, -1.0, -1000.0, math.inf, -math.inf, math.nan, 5, 3]
LABELS = ["", "a", " a b ", "1", "12", "1a", "é", "x{y}", "ct_x", "  ", None, "R1}", "a:b"]


def vshow(x):
    x = float(x)
    if math.isnan(x):
        return "nan"
    if math.isinf(x):
        return "inf" if x > 0 else "-inf"
    f = Fraction(x)
    return f"{f.numerator}/{f.denominator}"


def show(e):
    lo, hi, fx = e.get_lower_limits(), e.get_upper_limits(), e.are_fixed()
    return ",".join(f"{k}={vshow(v)}/{vshow(lo[k])}/{vshow(hi[k])}/{'F' if fx[k] else 'v'}" for k, v in e.get_values().items()) + ":" + e.get_label()


def arg_s(a):
    if isinstance(a, bool):
        return f"b:{int(a)}"
    if a is None:
        return "x:TypeError"
    if isinstance(a, str):
        return "x:ValueError"
    return "n:" + vshow(a)


def pairs_s(pairs):
    return ";".join(f"{common.hexs(k)}={arg_s(a)}" for k, a in pairs) if pairs else "-"


def gen_history(rnd, classes):
    """Returns (list of (protocol line, python thunk description))."""
    ops = [("reset",)]
    sym = rnd.choice(classes)
    ops.append(("init", 0, sym))
    nslots = 1
    from pyimpspec import get_elements
    cls = get_elements(private=True)[sym]
    keys = list(cls.get_default_values().keys())

    def rand_arg(kind):
        r = rnd.random()
        if kind == "sf":
            if r < 0.8:
                return rnd.random() < 0.5
            return rnd.choice([1.0, None, "abc", 0])
        if r < 0.06:
            return None
        if r < 0.1:
            return "abc"
        if r < 0.14:
            return rnd.random() < 0.5
        base = GRID + [cls.get_default_value(k) for k in keys] + [cls.get_default_lower_limit(k) for k in keys] + [cls.get_default_upper_limit(k) for k in keys]
        return rnd.choice(base)

    # invalid keys: a made-up one, parameter names of other classes and - for container elements - the names of the class's
    # own sub-circuits (valid constructor keywords, but not parameters)
    from pyimpspec.circuit.base import Container
    bad = ["zz"] + [x for x in ("R", "Y", "n", "tau") if x not in keys][:2]
    if issubclass(cls, Container):
        bad += list(cls().get_subcircuits().keys())

    def rand_key():
        return rnd.choice(keys + keys + keys + [rnd.choice(bad)]) if keys else rnd.choice(bad)

    for _ in range(rnd.randint(1, 22)):
        k = rnd.randrange(nslots)
        r = rnd.random()
        if r < 0.62:
            op = rnd.choice(["sv", "sl", "su", "sl", "su", "sf"])
            form = rnd.random()
            kw, pos, odd = [], [], False
            n = rnd.choice([1, 1, 1, 2, 3])
            ks = [rand_key() for _ in range(n)]
            if form < 0.4:
                kw = list(dict.fromkeys(ks))
            elif form < 0.8:
                pos = ks
            else:
                kw = list(dict.fromkeys(ks[:1]))
                pos = ks[1:] + ([ks[0]] if rnd.random() < 0.3 else [])
            if pos and rnd.random() < 0.1:
                odd = True
            ops.append((op, k, [(x, rand_arg(op)) for x in kw], [(x, rand_arg(op)) for x in pos], odd))
        elif r < 0.72:
            ops.append(("label", k, rnd.choice(LABELS)))
        elif r < 0.80:
            ops.append(("reset1", k, rand_key()))
        elif r < 0.88:
            ks = [x for x in keys if rnd.random() < 0.5]
            if rnd.random() < 0.15:
                ks.append(rnd.choice(bad))
            ops.append(("resetp", k, ks))
        elif r < 0.97:
            ops.append(("copy", k, nslots, rnd.choice(["copy", "deepcopy"])))
            nslots += 1
        else:
            ops.append(("obs", k))
    return sym, ops


def to_line(op, is_container):
    t = op[0]
    if t == "reset":
        return "pa reset"
    if t == "init":
        return f"pa init {op[1]} {op[2]}"
    if t in ("sv", "sl", "su", "sf"):
        return f"pa {t} {op[1]} {pairs_s(op[2])} {pairs_s(op[3])} {int(op[4])}"
    if t == "label":
        return f"pa label {op[1]} {'NONE' if op[2] is None else common.hexs(op[2]) or '-'}"
    if t == "reset1":
        return f"pa reset1 {op[1]} {common.hexs(op[2])}"
    if t == "resetp":
        return f"pa resetp {op[1]} {','.join(common.hexs(x) for x in op[2]) or '-'}"
    if t == "copy":
        return f"pa copy {op[1]} {op[2]} {'c' if is_container else 'e'}"
    return f"pa obs {op[1]}"


def snapshot(e):
    return (tuple(e.get_values().items()), tuple(e.get_lower_limits().items()), tuple(e.get_upper_limits().items()),
            tuple(e.are_fixed().items()), e.get_label())


def eqnan(a, b):
    return repr(a) == repr(b)


def run_real(ctx, sym, ops):
    """Execute on the real element objects; returns replies; evaluates the property's clauses on the fly."""
    from pyimpspec import get_elements
    from pyimpspec.circuit.base import Container

    cls = get_elements(private=True)[sym]
    slots = {}
    out = []
    hist = []
    for op in ops:
        t = op[0]
        hist.append(op)
        try:
            if t == "reset":
                out.append("ok")
                continue
            if t == "init":
                slots[op[1]] = cls()
                out.append("ok " + show(slots[op[1]]))
                continue
            e = slots[op[1]]
            before = snapshot(e)
            if t in ("sv", "sl", "su", "sf"):
                f = {"sv": e.set_values, "sl": e.set_lower_limits, "su": e.set_upper_limits, "sf": e.set_fixed}[t]
                args = [x for p in op[3] for x in p] + (["dangling"] if op[4] else [])
                try:
                    f(*args, **dict(op[2]))
                    out.append("ok " + show(e))
                    if t in ("sl", "su") and len(op[2]) + len(op[3]) == 1:
                        k, v = (op[2] + op[3])[0]
                        v = float(v)
                        old = dict(before[0])[k]
                        lim = (e.get_lower_limit if t == "sl" else e.get_upper_limit)(k)
                        exp = (max if t == "sl" else min)(old, v) if not math.isnan(old) else old
                        if lim != v or not eqnan(e.get_value(k), exp):
                            ctx.add_failing("clamp", hist_s(sym, hist), observed=show(e), expected=f"limit {v}, value {exp}",
                                            clause="moving a limit past the current value moves the value onto the limit")
                except Exception as x:  # noqa
                    out.append(f"err {type(x).__name__} {show(e)}")
                    if len(op[2]) + len(op[3]) == 1 and not eqnan(snapshot(e), before):
                        ctx.add_failing("refused-update-changed-state", hist_s(sym, hist), observed=show(e), expected="unchanged",
                                        clause="an update that is refused leaves the parameter it addressed unchanged")
            elif t == "label":
                try:
                    e.set_label(op[2])
                    out.append("ok " + show(e))
                except Exception as x:  # noqa
                    out.append(f"err {type(x).__name__} {show(e)}")
            elif t in ("reset1", "resetp"):
                try:
                    if t == "reset1":
                        e.reset_parameter(op[2])
                        ks = [op[2]]
                    else:
                        e.reset_parameters(*op[2])
                        ks = op[2] or list(cls.get_default_values())
                    out.append("ok " + show(e))
                    for k in ks:
                        got = (e.get_value(k), e.get_lower_limit(k), e.get_upper_limit(k), e.is_fixed(k))
                        exp = (cls.get_default_value(k), cls.get_default_lower_limit(k), cls.get_default_upper_limit(k), cls.is_fixed_by_default(k))
                        if got != exp:
                            ctx.add_failing("reset", hist_s(sym, hist), observed=got, expected=exp, clause="resetting restores the class defaults")
                    # ... of the named parameters only: every other parameter keeps its value, limits and fixed flag
                    keys = list(e.get_values())
                    for k in keys:
                        if k in ks:
                            continue
                        now = (e.get_value(k), e.get_lower_limit(k), e.get_upper_limit(k), e.is_fixed(k))
                        was = (dict(before[0])[k], dict(before[1])[k], dict(before[2])[k], dict(before[3])[k])
                        if not eqnan(now, was):
                            ctx.add_failing("reset-touched-other-parameter", hist_s(sym, hist), observed=f"{k}: {now}", expected=f"{k}: {was}", clause="resetting (a subset of the parameters) restores the class defaults of those parameters")
                except KeyError as x:
                    out.append(f"err KeyError {show(e)}")
                    if not eqnan(snapshot(e), before):
                        ctx.add_failing("refused-reset-changed-state", hist_s(sym, hist), observed=show(e), expected="unchanged")
                except Exception as x:  # noqa
                    out.append(f"err {type(x).__name__} {show(e)}")
                    ctx.add_failing("reset", hist_s(sym, hist), observed=type(x).__name__, expected="defaults restored", clause="resetting restores the class defaults")
            elif t == "copy":
                within = all(lo <= v <= hi for v, lo, hi in zip(e.get_values().values(), e.get_lower_limits().values(), e.get_upper_limits().values()))
                try:
                    c = copy.copy(e) if op[3] == "copy" else copy.deepcopy(e)
                    slots[op[2]] = c
                    out.append("ok " + show(c))
                    if within or not isinstance(e, Container):
                        if not eqnan(snapshot(c), snapshot(e)):
                            ctx.add_failing("copy-differs", hist_s(sym, hist), observed=show(c), expected=show(e), clause="copies are equal to the original")
                    if c is e or (c._parameter_value is e._parameter_value):
                        ctx.add_failing("copy-aliased", hist_s(sym, hist), observed="same object", expected="independent copy")
                except Exception as x:  # noqa
                    out.append("err " + type(x).__name__)
                    if within:
                        ctx.add_failing("copy-fails", hist_s(sym, hist), observed=type(x).__name__, expected="copy succeeds", clause="copies of an element in any state whose values lie within their limits succeed")
            else:
                out.append("ok " + show(e))
            # invariant after every call, on every live object, plus independence of the objects
            for s, o in slots.items():
                for k in o.get_values():
                    if not (o.get_lower_limit(k) < o.get_upper_limit(k)):
                        ctx.add_failing("limits-crossed", hist_s(sym, hist), observed=show(o), expected="lower < upper", clause="a lower limit is always strictly below the upper limit")
            if t != "copy":
                for s, o in slots.items():
                    if o is not e and getattr(o, "_snap", None) is not None and not eqnan(snapshot(o), o._snap):
                        ctx.add_failing("not-independent", hist_s(sym, hist), observed=show(o), expected="unchanged by a call on another object", clause="copies are independent")
            for s, o in slots.items():
                o._snap = snapshot(o)
            d = cls()
            if snapshot(d)[1:4] != (tuple(cls.get_default_lower_limits().items()), tuple(cls.get_default_upper_limits().items()), tuple(cls.are_fixed_by_default().items())):
                ctx.add_failing("class-defaults-changed", hist_s(sym, hist), observed=show(d), expected="class defaults")
        except KeyError:
            out.append("err no-slot")
    return out


def hist_s(sym, hist):
    return [sym] + [repr(o) for o in hist]


def run(ctx):
    from pyimpspec import get_elements
    from pyimpspec.circuit.base import Container

    ctx.rule = ("histories of 1..22 calls over {set_values, set_lower_limits, set_upper_limits, set_fixed (keyword / positional / mixed / odd / duplicate-key forms; "
                "valid numbers, limits' own boundaries, inf, nan, bool, None, str), set_label, reset_parameter, reset_parameters, copy, deepcopy} on every registered "
                "element class incl. the container; state and exception class compared after every call; a history is non-trivial when distinct")
    rnd = ctx.pyrandom(3)
    els = get_elements(private=True)
    classes = list(els)
    defaults0 = {s: (dict(c.get_default_values()), dict(c.get_default_lower_limits()), dict(c.get_default_upper_limits())) for s, c in els.items()}
    n = 12000 if ctx.thorough else 1500
    lines, real = [], []
    for i in range(n):
        sym, ops = gen_history(rnd, classes)
        isc = issubclass(els[sym], Container)
        ls = [to_line(o, isc) for o in ops]
        lines += ls
        real += run_real(ctx, sym, ops)
        ctx.note_case(tuple(ls))
        if i in (0, n // 2):
            ctx.sample(ls[:10])
        if len(ctx.failing) > 5:
            break
    model = common.run_driver(lines)
    nd = 0
    for i, (l, a, b) in enumerate(zip(lines, real, model)):
        ctx.count("op:" + l.split(" ")[1] + (":" + a.split(" ")[1] if a.startswith("err") else ""))
        if a != b:
            nd += 1
            if nd <= 3:
                j = i
                while j > 0 and lines[j] != "pa reset":
                    j -= 1
                ctx.add_broken("correspondence", "pa", {"line": l, "implementation": a, "model": b, "history": lines[j:i + 1]})
    ctx.counters["lines"] = len(lines)
    ctx.counters["diffs"] = nd
    now = {s: (dict(c.get_default_values()), dict(c.get_default_lower_limits()), dict(c.get_default_upper_limits())) for s, c in els.items()}
    if now != defaults0:
        ctx.add_failing("class-defaults-changed", "whole run", observed="class-level defaults differ after the histories", expected="unchanged",
                        clause="changing one object never changes the class defaults")
    containers(ctx, rnd, els)
    ctx.undecided.append("object aliasing between an element and its copies is checked on the implementation only (a pure model cannot alias)")


def containers(ctx, rnd, els):
    """Container elements: the sub-circuits of one instance are its own — changing them (values of nested elements, or the
    structure of a sub-circuit incl. the empty 'short' one) never shows in another instance, a new instance, a copy or the
    class defaults."""
    from copy import copy, deepcopy
    from pyimpspec import Resistor, Capacitor, parse_cdc
    from pyimpspec.circuit.base import Container
    for sym, cls in els.items():
        if not issubclass(cls, Container):
            continue
        fresh = cls().to_string(6)
        dflt = {k: (None if v is None else v.to_string(6)) for k, v in cls.get_default_subcircuits().items()}
        makers = [("default constructor", lambda: cls()), ("parse_cdc", lambda: parse_cdc(sym).get_elements()[0]), ("copy", lambda: copy(cls())), ("deepcopy", lambda: deepcopy(cls()))]
        for how, mk in makers:
            a, b = mk(), mk()
            for key in list(a.get_subcircuits()):
                sa, sb = a.get_subcircuit(key), b.get_subcircuit(key)
                ctx.count("container:subcircuit")
                ctx.note_case(("container", sym, how, key))
                desc = {"class": sym, "made_by": how, "subcircuit": key}
                if sa is not None and sa is sb:
                    ctx.add_failing("subcircuit-shared", desc, observed="two instances hold the same sub-circuit object", expected="independent objects", clause="changing one instance never changes another instance or the class defaults")
                    continue
                if sa is None:
                    continue
                before_b = b.to_string(6)
                try:
                    nested = sa.get_elements(recursive=True)
                    if nested and rnd.random() < 0.5:
                        e = rnd.choice(nested)
                        k = rnd.choice(list(e.get_values()))
                        e.set_values(**{k: e.get_value(k) * 1.5})
                    else:
                        sa.append(rnd.choice([Resistor, Capacitor])())
                except Exception as x:  # noqa
                    ctx.count("container:change-refused:" + type(x).__name__)
                    continue
                now_dflt = {k: (None if v is None else v.to_string(6)) for k, v in cls.get_default_subcircuits().items()}
                if b.to_string(6) != before_b:
                    ctx.add_failing("not-independent", desc, observed=b.to_string(3), expected=before_b, clause="changing one instance never changes another instance")
                if cls().to_string(6) != fresh or now_dflt != dflt:
                    ctx.add_failing("class-defaults-changed", desc, observed=cls().to_string(3), expected=fresh, clause="changing one instance never changes the class defaults")
                    return


def search(ctx):
    pass


def replay(ctx, path):
    d = json.load(open(path))
    print(json.dumps(d.get("failing", [])[:3], indent=1)[:4000])
    return 0

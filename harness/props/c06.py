"""C06 — writing a spectrum to a supported file layout and parsing it returns it.

Correspondence streams `cols` (`_detect_columns` vs `Cols.detect`, on header rows built from every alias x
case x sign marker x unit suffix x column order, plus adversarial rows) and `sweeps` (`_split_sweeps` vs
`Cols.splitSweeps`).  Direct oracle: real temporary files (outside /repo and /verif, removed at once) in
every documented convention and in the simple instrument layouts are parsed with parse_data and must
return the spectrum that was written, one data set per sweep; the CLI's own table is such a file."""
import io
import itertools
import json
import math
import os
import shutil
import tempfile

import numpy as np

import common

ID = "C06"
ALIASES = {
    "frequency": ["frequency", "freq", "f"],
    "imaginary": ['z"', "z''", "z im", "z_im", "zim", "imaginary", "imag", "im"],
    "real": ["z'", "z re", "z_re", "zre", "real", "re"],
    "magnitude": ["|z|", "z", "magnitude", "modulus", "mag", "mod"],
    "phase": ["phase", "phz", "phi"],
}
SUFFIXES = ["", " (ohm)", "(ohm)", "/ohm", " / ohm", "[ohm]", " (Hz)", "/Hz", " (deg)", "(°)"]


def case_variant(rnd, s):
    r = rnd.random()
    if r < 0.4:
        return s
    if r < 0.6:
        return s.upper()
    if r < 0.8:
        return s.capitalize()
    return "".join(c.upper() if rnd.random() < 0.5 else c for c in s)


def header_row(rnd, kind):
    """kind: 'cart', 'polar', 'all' -> list of (quantity, header text, negated)"""
    qs = {"cart": ["frequency", "real", "imaginary"], "polar": ["frequency", "magnitude", "phase"], "all": list(ALIASES)}[kind]
    rnd.shuffle(qs)
    row = []
    for q in qs:
        a = rnd.choice(ALIASES[q])
        suf = rnd.choice(SUFFIXES)
        if a == 'z"' and suf:
            suf = ""   # a quote inside a field followed by more text is pandas' business (F23)
        neg = q in ("real", "imaginary", "phase") and rnd.random() < 0.4
        mark = rnd.choice(["-", "−"]) if neg else ""
        row.append((q, mark + case_variant(rnd, a) + suf, neg))
    return row


def real_detect(headers):
    from pandas import DataFrame
    from pyimpspec.data.data_set import _detect_columns
    try:
        idx, neg = _detect_columns(DataFrame(columns=headers))
        return "ok " + ",".join(f"{k}:{idx[k]}:{int(neg[k])}" for k in idx)
    except Exception as e:  # noqa
        return "err " + type(e).__name__


def hx(s):
    return common.hexs(s) if s else "-"


def write_table(path, rows_by_sweep, header, sep, decimal, fmt):
    """rows: list of sweeps, each a list of row tuples (already in column order)"""
    with open(path, "w", encoding="utf-8") as fp:
        fp.write(sep.join(header) + "\n")
        for sweep in rows_by_sweep:
            for row in sweep:
                cells = []
                for v in row:
                    s = fmt % v if fmt else repr(float(v))
                    if decimal == ",":
                        s = s.replace(".", ",")
                    cells.append(s)
                fp.write(sep.join(cells) + "\n")


def spectrum(rnd, n):
    f = np.array(sorted((10 ** rnd.uniform(-3, 6) for _ in range(n)), reverse=True))
    mag = np.array([10 ** rnd.uniform(-4, 8) for _ in range(n)])
    Z = np.array([complex(m * rnd.choice([1, -1]) * rnd.uniform(0.1, 1), m * rnd.choice([1, -1]) * rnd.uniform(0.1, 1)) for m in mag])
    return f, Z


def same_spectrum(ds, f, Z, rel):
    ff, ZZ = ds.get_frequencies(masked=None), ds.get_impedances(masked=None)
    if len(ff) != len(f):
        return False
    order = np.argsort(-f)
    return bool(np.allclose(ff, f[order], rtol=rel, atol=0) and np.allclose(ZZ, Z[order], rtol=rel, atol=1e-300))


def run(ctx):
    from pyimpspec import parse_data, DataSet
    from pyimpspec.data.data_set import _split_sweeps

    rnd = ctx.pyrandom(16)
    big = ctx.thorough
    ctx.rule = ("header rows: every quantity subset {cartesian, polar, all five} x random alias x letter case x sign marker (-, U+2212) x unit suffix x column order, plus rows with unknown, "
                "duplicated or too few headers; sweeps: random decompositions into monotone runs incl. equal neighbours; files: spectra of 1..12 points over 12 decades and both signs x "
                "{separator , ; tab space} x {decimal point, decimal comma} x {ascending, descending rows} x {1..3 sweeps} x {cartesian, polar} and the layouts .mpt .i2b .P00 .dfr .dta .z; "
                "a case is non-trivial when distinct")
    ctx.assumptions += ["pandas' separator sniffing, dtype inference and file decoding are runtime; str.lower()/str.strip() are applied by the harness before the header reaches the model"]
    # ---------------- (a) column detection
    lines, real = [], []
    rows = []
    for _ in range(6000 if big else 1200):
        rows.append([h for _, h, _ in header_row(rnd, rnd.choice(["cart", "polar", "all"]))])
    junk = ["time", "ampl", "bias", "gd", "err", "range", "index", "t/s", "zsig", "e (v)", "i (a)", "", " ", "-", "z", "Z", "f", "-f", "|Z|", "zmod", "zphz", "idc", "vdc"]
    for _ in range(3000 if big else 600):
        n = rnd.randint(0, 7)
        rows.append([rnd.choice(junk + [h for q in ALIASES for h in ALIASES[q]]) + rnd.choice(["", "", " x", "2"]) for _ in range(n)])
    for hs in rows:
        norm = [h.lower().strip() for h in hs]
        lines.append("cols " + " ".join(hx(h) for h in norm) if norm else "cols")
        real.append(real_detect(hs))
        ctx.note_case(("cols", tuple(hs)))
    # ---------------- (b) sweeps
    sw_lines, sw_real = [], []
    for _ in range(4000 if big else 800):
        k = rnd.randint(1, 4)
        dec = rnd.random() < 0.5
        fs = []
        for j in range(k):
            m = rnd.randint(1, 6)
            run_ = sorted(rnd.sample(range(-50, 50), m), reverse=dec)
            fs += run_
        if rnd.random() < 0.1 and len(fs) > 1:
            i = rnd.randrange(1, len(fs))
            fs[i] = fs[i - 1]
        sw_lines.append("sweeps " + ",".join(map(str, fs)))
        try:
            ds = _split_sweeps([float(x) for x in fs], [1.0] * len(fs), [0.0] * len(fs), "p", "l")
            sw_real.append("ok " + ",".join(str(d.get_num_points(masked=None)) for d in ds))
        except Exception as e:  # noqa
            sw_real.append("err " + type(e).__name__)
        ctx.note_case(("sweeps", tuple(fs)))
    out = common.run_driver(lines + sw_lines)
    nd = 0
    for l, a, b in zip(lines + sw_lines, real + sw_real, out):
        ctx.count(l.split(" ")[0] + ":" + (a.split(" ")[0] if a.startswith("ok") else a))
        if a != b:
            # duplicate frequencies inside a sweep are refused by DataSet itself (ValueError) in the implementation
            nd += 1
            if nd <= 3:
                ctx.add_broken("correspondence", l.split(" ")[0], {"line": l[:300], "implementation": a, "model": b})
    ctx.counters["diffs"] = nd
    ctx.sample({"line": lines[0][:200], "model": out[0]})
    ctx.sample({"line": sw_lines[0], "model": out[len(lines)]})
    # the intended detection for generated rows (the generator is the oracle)
    for _ in range(2000 if big else 400):
        row = header_row(rnd, rnd.choice(["cart", "polar", "all"]))
        want = "ok " + ",".join(f"{q}:{i}:{int(n)}" for i, (q, h, n) in enumerate(row))
        got = real_detect([h for _, h, _ in row])
        if sorted(want[3:].split(",")) != sorted(got[3:].split(",")) or not got.startswith("ok"):
            ctx.add_failing("column-detection", {"headers": [h for _, h, _ in row]}, observed=got, expected=want, clause="any recognised column header alias in any letter case, sign-inverted columns marked by a leading minus")
    # ---------------- (c) files
    tmp = tempfile.mkdtemp(prefix="verif_c06_")
    try:
        files_oracle(ctx, rnd, tmp, big)
    finally:
        shutil.rmtree(tmp, ignore_errors=True)


def files_oracle(ctx, rnd, tmp, big):
    from pyimpspec import parse_data, DataSet
    n_files = 600 if big else 120
    for i in range(n_files):
        nsweeps = rnd.choice([1, 1, 2, 3])
        # consecutive sweeps of one measurement cover the same frequency grid
        f0, _z = spectrum(rnd, rnd.choice([1, 2, 3, 5, 12]) if nsweeps == 1 else rnd.choice([2, 3, 5]))
        asc = rnd.random() < 0.5
        if nsweeps > 1 and rnd.random() < 0.5:
            # sweeps over different ranges: every junction must break the direction of the rows (the next sweep starts on the
            # far side of where the previous one ended), otherwise two sweeps are indistinguishable from one
            sweeps = [(f0, _z)]
            while len(sweeps) < nsweeps:
                f1, z1 = spectrum(rnd, rnd.choice([2, 3, 5]))
                prev = sweeps[-1][0]
                first_next, last_prev = (f1.min(), prev.max()) if asc else (f1.max(), prev.min())
                if (first_next < last_prev) if asc else (first_next > last_prev):
                    sweeps.append((f1, z1))
        else:
            sweeps = [(f0, spectrum(rnd, len(f0))[1]) for _ in range(nsweeps)]
        kind = rnd.choice(["cart", "cart", "polar"])
        sep = rnd.choice([",", ";", "\t", " "])
        decimal = rnd.choice([".", ","]) if sep != "," else "."
        row = header_row(rnd, kind)
        if sep in (" ", ";") or True:
            # header text never contains the separator itself (the documented detection contract)
            row = [(q, h.replace(" ", "") if sep in (" ", ";") else h, n) for q, h, n in row]
            row = [(q, h.replace(",", "").replace(";", ""), n) for q, h, n in row]
        degrees = True
        rows_by_sweep = []
        for (f, Z) in sweeps:
            order = np.argsort(f) if asc else np.argsort(-f)
            rs = []
            for j in order:
                vals = {"frequency": f[j], "real": Z[j].real, "imaginary": Z[j].imag, "magnitude": abs(Z[j]), "phase": math.degrees(math.atan2(Z[j].imag, Z[j].real))}
                rs.append(tuple((-vals[q] if n else vals[q]) for q, h, n in row))
            rows_by_sweep.append(rs)
        path = os.path.join(tmp, f"t{i}.csv")
        write_table(path, rows_by_sweep, [h for _, h, _ in row], sep, decimal, None)
        desc = {"headers": [h for _, h, _ in row], "sep": sep, "decimal": decimal, "ascending": asc, "sweeps": [len(f) for f, _ in sweeps], "kind": kind}
        try:
            kw = {}
            if decimal == ",":
                # either pandas converts the decimal commas (numeric cells) or the library's own conversion of text cells does
                r_ = rnd.random()
                kw = dict(sep=sep, decimal=",") if r_ < 0.4 else (dict(sep=sep) if r_ < 0.8 else {})
            elif sep != ",":
                kw = dict(sep=sep) if rnd.random() < 0.5 else {}
            ds = parse_data(path, **kw)
        except Exception as e:  # noqa
            single_point = all(len(f) == 1 for f, _ in sweeps)
            ctx.add_failing("table-not-parsed", {**desc, "text": open(path, encoding="utf-8").read()[:400]}, observed=f"{type(e).__name__}: {str(e)[:150]}", expected="the spectrum",
                            clause="writing it as a delimited text table in any documented convention and parsing the file returns the same frequencies and impedances")
            os.remove(path)
            continue
        os.remove(path)
        ctx.note_case(("file", tuple(desc["headers"]), sep, decimal, asc, tuple(desc["sweeps"])))
        ctx.count("file:table")
        ok = len(ds) == len(sweeps) and all(same_spectrum(d, f, Z, 1e-12 if kind == "cart" else 1e-9) for d, (f, Z) in zip(ds, sweeps))
        if not ok:
            ctx.add_failing("table-roundtrip", desc, observed=f"{len(ds)} data sets: {[d.get_num_points(masked=None) for d in ds]}", expected=f"{len(sweeps)} sweeps with the written values",
                            clause="returns the same frequencies and impedances with the documented sign of the imaginary part, one data set per sweep")
    # instrument layouts
    for i in range(60 if big else 12):
        f, Z = spectrum(rnd, rnd.choice([1, 2, 5, 12]))
        for ext, writer in LAYOUTS.items():
            path = os.path.join(tmp, f"s{i}{ext}")
            writer(path, f, Z, rnd)
            try:
                ds = parse_data(path)
                ok = len(ds) >= 1 and same_spectrum(ds[-1], f, Z, 1e-12)
                if not ok:
                    ctx.add_failing("layout-roundtrip", {"layout": ext, "points": len(f)}, observed="different spectrum", expected="the written spectrum", clause="the simple instrument text layouts")
            except Exception as e:  # noqa
                ctx.add_failing("layout-not-parsed", {"layout": ext, "points": len(f), "text": open(path, encoding="latin1").read()[:300]}, observed=f"{type(e).__name__}: {str(e)[:120]}", expected="the spectrum", clause="the simple instrument text layouts")
            os.remove(path)
            ctx.count("file:" + ext)
            ctx.note_case(("layout", ext, len(f)))
    # the CLI's own table
    from pyimpspec.cli.utility import format_text
    import argparse
    for idx in (False, True):
        f, Z = spectrum(rnd, 7)
        d = DataSet(f, Z, label="cli")
        args = argparse.Namespace(output_format="csv", output_indices=idx, output_significant_digits=6)
        text = format_text(d.to_dataframe(), args)
        path = os.path.join(tmp, "cli.csv")
        open(path, "w").write(text)
        try:
            ds = parse_data(path)
            if not (len(ds) == 1 and same_spectrum(ds[0], f, Z, 1e-9)):
                ctx.add_failing("cli-table-roundtrip", {"text": text[:300]}, observed="different", expected="the printed spectrum", clause="the table printed by the command-line 'parse' command is itself such a file")
        except Exception as e:  # noqa
            ctx.add_failing("cli-table-not-parsed", {"text": text[:300]}, observed=type(e).__name__ + str(e)[:100], expected="parsed", clause="the table printed by the command-line 'parse' command is itself such a file")
        os.remove(path)
        ctx.count("file:cli-table")
        ctx.note_case(("cli-table", idx))


def w_mpt(path, f, Z, rnd):
    with open(path, "w", encoding="latin1") as fp:
        fp.write("EC-Lab ASCII FILE\nNb header lines : 4\n\nfreq/Hz\tRe(Z)/Ohm\t-Im(Z)/Ohm\t|Z|/Ohm\n")
        for a, z in zip(f, Z):
            fp.write(f"{a!r}\t{z.real!r}\t{-z.imag!r}\t{abs(z)!r}\n")


def w_i2b(path, f, Z, rnd):
    with open(path, "w", encoding="latin1") as fp:
        fp.write("meta 1\nmeta 2\nmeta 3\nmeta 4\n\n%d\n" % len(f))
        for a, z in zip(f, Z):
            fp.write(f"{a!r} {z.real!r} {z.imag!r}\n")


def w_p00(path, f, Z, rnd):
    with open(path, "w", encoding="latin1") as fp:
        fp.write("Procedure : x\nDescription\n f/Hz \t Z'/Ohm \t -Z''/Ohm \t time/s \t Edc/V \t Idc/A \t\n %d \n" % len(f))
        for a, z in zip(f, Z):
            fp.write(f" {a!r}\t {z.real!r}\t {-z.imag!r}\t 1.0\t 0.1\t 1e-8\n")


def w_dfr(path, f, Z, rnd):
    with open(path, "w", encoding="latin1") as fp:
        fp.write("VERSION8.0\n %d\n 1\n" % len(f))
        for a, z in zip(f, Z):
            fp.write(f" {a!r}\n {z.real!r}\n {-z.imag!r}\n 0.0\n 0.0\n 0.0\n 0.0\n 0.0\n 0.0\n")


def w_dta(path, f, Z, rnd):
    with open(path, "w", encoding="latin1") as fp:
        fp.write("EXPLAIN\nTAG\tEISPOT\nDRIFTCOR\tSELECTOR\t0\t&Drift Correction\nZCURVE\tTABLE\t%d\n\tPt\tTime\tFreq\tZreal\tZimag\tZsig\tZmod\tZphz\tIdc\tVdc\tIERange\n\t#\ts\tHz\tohm\tohm\tV\tohm\tdeg\tA\tV\t#\n" % len(f))
        comma = rnd.random() < 0.5
        for i, (a, z) in enumerate(zip(f, Z)):
            row = f"\t{i}\t{i * 1.5!r}\t{a!r}\t{z.real!r}\t{z.imag!r}\t1.0\t{abs(z)!r}\t0.0\t0.0\t0.0\t1"
            fp.write((row.replace(".", ",") if comma else row) + "\n")


def w_z(path, f, Z, rnd):
    with open(path, "w", encoding="latin1") as fp:
        fp.write("ZPLOT2 ASCII\n  Measured Data\n  Freq(Hz)\tAmpl\tBias\tTime(Sec)\tZ'(a)\tZ''(b)\tGD\tErr\tRange\nEnd Comments\n")
        for a, z in zip(f, Z):
            fp.write(f"{a!r}\t0.0\t0.0\t0.0\t{z.real!r}\t{z.imag!r}\t0.0\t0\t0\n")


def _py(fn):
    def g(path, f, Z, rnd):
        return fn(path, [float(x) for x in f], [complex(z) for z in Z], rnd)
    return g


LAYOUTS = {".mpt": _py(w_mpt), ".i2b": _py(w_i2b), ".P00": _py(w_p00), ".dfr": _py(w_dfr), ".dta": _py(w_dta), ".z": _py(w_z)}


def search(ctx):
    pass


def replay(ctx, path):
    print(json.dumps(json.load(open(path)).get("failing", [])[:5], indent=1, default=str)[:4000])
    return 0

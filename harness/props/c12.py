"""C12 — circuit fitting recovers generating parameters and respects constraints.

Ties: (T) the error rows of `_residual` and the four weight functions are re-translated on every run and compared
with the real `_residual`; (H) correspondence stream `fit`: `_to_lmfit`, `_from_lmfit`, `_extract_parameters` and the
choice of the best (method, weight) combination in `fit_circuit` (with `_fit_process` replaced by prepared results)
vs the Lean model `Fit.*`.
Direct oracle: recovery of the generating parameters with the default settings on noise-free data of identifiable
circuit families; in EVERY fit (9 methods x 4 weights sampled): values within limits, fixed parameters exactly
unchanged, constraint expressions hold, the table reports the returned circuit, the input circuit is untouched."""
import json
import math
import os
from fractions import Fraction
from multiprocessing import Pool

import numpy as np

import common
from props.c02 import fl, from_bits, relerr, cfl

ID = "C12"
METHODS = ["leastsq", "least_squares", "nelder", "lbfgsb", "powell", "cg", "bfgs", "tnc", "slsqp"]
WEIGHTS = ["unity", "modulus", "proportional", "boukamp"]
# frozen bands for the recovery clause; calibration on the unchanged tree (180 default fits): parameter error <= 3.5e-3, chi2 <= 1.9e-6
REC_PARAM = 3e-2
REC_CHISQR = 1e-4


def frac(x):
    if x == math.inf:
        return "inf"
    if x == -math.inf:
        return "-inf"
    fr = Fraction(float(x))
    return f"{fr.numerator}/{fr.denominator}" if fr.denominator != 1 else str(fr.numerator)


def encode_circuit(circuit):
    """the model's view: running id; symbol:value:lower:upper:fixed"""
    parts = []
    for e, i in circuit.generate_element_identifiers(running=True).items():
        lo, hi, fx = e.get_lower_limits(), e.get_upper_limits(), e.are_fixed()
        parts.append(f"{i};" + (",".join(f"{k}:{frac(v)}:{frac(lo[k])}:{frac(hi[k])}:{int(fx[k])}" for k, v in e.get_values().items()) or "-"))
    return "|".join(parts)


FAMILIES = [
    ("R(RC)", "R{R=%(R0)r}(R{R=%(R1)r}C{C=%(C1)r})"),
    ("R(RQ)", "R{R=%(R0)r}(R{R=%(R1)r}Q{Y=%(Y1)r,n=%(n1)r})"),
    ("R(RC)(RC)", "R{R=%(R0)r}(R{R=%(R1)r}C{C=%(C1)r})(R{R=%(R2)r}C{C=%(C2)r})"),
    ("R(RC)(RQ)", "R{R=%(R0)r}(R{R=%(R1)r}C{C=%(C1)r})(R{R=%(R2)r}Q{Y=%(Y2)r,n=%(n2)r})"),
    ("R(C[RW])", "R{R=%(R0)r}(C{C=%(C1)r}[R{R=%(R1)r}W{Y=%(Yw)r}])"),
    ("RL(RQ)", "R{R=%(R0)r}L{L=%(L)r}(R{R=%(R1)r}Q{Y=%(Y1)r,n=%(n1)r})"),
]


def family_params(rnd):
    """generating parameters over decades; identifiable: resistances within 1.5 decades of each other, time constants
    inside the window and separated by >= 1.8 decades, the inductive branch visible below the highest frequency"""
    R0 = 10 ** rnd.uniform(0, 3)
    R1, R2 = R0 * 10 ** rnd.uniform(-0.3, 1.2), R0 * 10 ** rnd.uniform(-0.3, 1.2)
    t1 = 10 ** rnd.uniform(-4.5, -3)
    t2 = t1 * 10 ** rnd.uniform(1.8, 3)
    n1, n2 = rnd.uniform(0.7, 0.95), rnd.uniform(0.7, 0.95)
    fL = 10 ** rnd.uniform(3, 4.3)
    return dict(R0=R0, R1=R1, R2=R2, C1=t1 / R1, C2=t2 / R2, Y1=t1 ** n1 / R1, n1=n1, Y2=t2 ** n2 / R2, n2=n2, Yw=10 ** rnd.uniform(-0.5, 0.5) / R1, L=R0 / (2 * math.pi * fL))


def perturbed(rnd, circuit, factor):
    from pyimpspec import parse_cdc
    c = parse_cdc(circuit.serialize(17))
    for e in c.get_elements(recursive=True):
        lo, hi = e.get_lower_limits(), e.get_upper_limits()
        vals = {}
        fx = e.are_fixed()
        for k, v in e.get_values().items():
            if fx[k]:
                continue
            if k == "n":
                nv = min(1.0, max(0.4, v + rnd.uniform(-0.1, 0.1)))
            else:
                nv = v * factor ** rnd.uniform(-1, 1)
            vals[k] = min(max(nv, lo[k]), hi[k])
        e.set_values(**vals)
    return c


def _fit_job(a):
    """worker: one fit_circuit call; returns everything the invariants need"""
    import warnings
    warnings.filterwarnings("ignore")
    from pyimpspec import DataSet, fit_circuit, generate_fit_identifiers, parse_cdc
    from pyimpspec.exceptions import FittingError
    true_cdc, start_cdc, fspec, method, weight, constraint = a
    f = np.logspace(*fspec)
    true = parse_cdc(true_cdc)
    data = DataSet(f, true.get_impedances(f))
    start = parse_cdc(start_cdc)
    before = start.serialize(17)
    kw = {}
    if constraint:
        ids = generate_fit_identifiers(start)
        els = [e for e in start.get_elements(recursive=True) if e.get_symbol() == "R"]
        a_, b_ = ids[els[-1]].R, ids[els[-2]].R
        # the last resistor is tied to the one before it through a free ratio
        kw = dict(constraint_expressions={a_: f"{b_} * ratio"}, constraint_variables={"ratio": dict(value=els[-1].get_value("R") / els[-2].get_value("R"), min=1e-6, max=1e6)})
    try:
        r = fit_circuit(start, data, method=method, weight=weight, num_procs=1, **kw)
    except FittingError as x:
        return {"ok": False, "fitting_error": str(x)[-300:], "untouched": start.serialize(17) == before}
    except Exception as x:  # noqa
        return {"ok": False, "error": f"{type(x).__name__}: {x}"[:300], "untouched": start.serialize(17) == before}
    out = {"ok": True, "untouched": start.serialize(17) == before, "chisqr": float(r.pseudo_chisqr), "method": r.method, "weight": r.weight}
    fitted = r.circuit
    rows = []
    for e0, e1 in zip(start.get_elements(recursive=True), fitted.get_elements(recursive=True)):
        lo, hi, fx = e0.get_lower_limits(), e0.get_upper_limits(), e0.are_fixed()
        for k, v in e1.get_values().items():
            rows.append({"el": e0.get_symbol(), "k": k, "v": float(v), "v0": float(e0.get_value(k)), "lo": float(lo[k]), "hi": float(hi[k]), "fixed": bool(fx[k]),
                         "lo1": float(e1.get_lower_limits()[k]), "hi1": float(e1.get_upper_limits()[k]), "fixed1": bool(e1.are_fixed()[k])})
    out["rows"] = rows
    # the table
    tbl = []
    ext = fitted.generate_element_identifiers(running=False)
    for e in fitted.get_elements(recursive=True):
        name = e.get_name()
        if name == e.get_symbol():
            name = f"{e.get_symbol()}_{ext[e]}"
        ent = r.parameters.get(name, {})
        tbl.append({"name": name, "table": {k: (float(p.value), bool(p.fixed)) for k, p in ent.items()}, "circuit": {k: float(v) for k, v in e.get_values().items()}})
    out["table"] = tbl
    out["n_table"] = len(r.parameters)
    out["true"] = [float(v) for e in true.get_elements(recursive=True) for v in e.get_values().values()]
    out["fit"] = [float(v) for e in fitted.get_elements(recursive=True) for v in e.get_values().values()]
    if constraint:
        p = r.minimizer_result.params
        out["constraint"] = {"lo": float(els[-1].get_lower_limit("R")), "hi": float(els[-1].get_upper_limit("R")), "lhs": float(p[a_].value), "rhs": float(p[b_].value * p["ratio"].value), "circuit_lhs": float(els and [e for e in fitted.get_elements(recursive=True) if e.get_symbol() == "R"][-1].get_value("R")),
                             "circuit_rhs_factor": float([e for e in fitted.get_elements(recursive=True) if e.get_symbol() == "R"][-2].get_value("R") * p["ratio"].value)}
    return out


def run(ctx):
    import warnings
    warnings.filterwarnings("ignore")
    from copy import deepcopy
    from pyimpspec import Circuit, DataSet, parse_cdc, generate_fit_identifiers
    import pyimpspec.analysis.fitting as FT
    from lmfit import Parameters
    from lmfit.minimizer import MinimizerResult
    import circgen

    rnd = ctx.pyrandom(12)
    big = ctx.thorough
    ctx.rule = ("translator cross-check: real _residual x 4 weights on random circuits and data; correspondence: _to_lmfit / _from_lmfit / _extract_parameters on random circuits (random topologies, 1..7 elements, "
                "random limits, fixed flags, values also outside limits) and random solver answers, best-of over random (chi2, failure) vectors through the real fit_circuit; oracle: 6 identifiable families x generating "
                "parameters over decades x start perturbation up to x3 x fixed subsets x limit boxes x {9 methods} x {4 weights} (+ default auto for recovery) x constraint expressions; "
                "a case is non-trivial when its (circuit, options) tuple is distinct")
    ctx.assumptions += ["lmfit's contract (a parameter with vary=False is returned unchanged, a varied one stays inside [min, max], an `expr` parameter equals its expression) is the hypothesis `Respects` of the theorems; it is observed on every fit of the oracle",
                        f"recovery bands frozen after calibration on the unchanged tree: relative parameter error <= {REC_PARAM:g}, pseudo chi-squared <= {REC_CHISQR:g}",
                        "the input circuit being left untouched is a statement about Python object identity (deepcopy): decided by the oracle, not by a theorem"]

    # ---- (a) translator cross-check on the real _residual
    lines, meta = [], []
    symbols = ["R", "C", "L", "Q", "W"]
    for _ in range(30 if big else 8):
        t = circgen.fill(rnd, circgen.random_shape(rnd, rnd.randint(1, 5)), symbols)
        c = Circuit(circgen.build(t))
        f = np.array([10 ** rnd.uniform(-2, 5) for _ in range(3)])
        try:
            Zf = c.get_impedances(f)
        except Exception:  # noqa
            continue
        Ze = Zf * np.array([complex(1 + rnd.uniform(-0.3, 0.3), rnd.uniform(-0.3, 0.3)) for _ in f])
        if not (np.isfinite(Zf).all() and (np.abs(Zf.real) > 1e-12).all() and (np.abs(Zf.imag) > 1e-12).all()):
            continue
        ids = generate_fit_identifiers(c)
        try:
            params = FT._to_lmfit(ids, {}, {})
        except ValueError:
            continue
        for w in WEIGHTS:
            res = FT._residual(params, c, f, Ze, FT._WEIGHT_FUNCTIONS[w], ids)
            res = np.broadcast_to(res, (2, len(f)))
            for j in range(len(f)):
                b = f"Z_exp={cfl(complex(Ze[j]))} Z_fit={cfl(complex(Zf[j]))}"
                for row, part in ((0, "re"), (1, "im")):
                    lines.append(f"kerc fit_w_{w}_{part} {b}")
                    lines.append(f"kerc fit_err_{part} {b}")
                    meta.append((w, part, float(res[row][j]), complex(Ze[j]), complex(Zf[j])))
                    ctx.note_case(("res", w, part, complex(Ze[j]), complex(Zf[j])))
    out = common.run_driver(lines)
    nd = 0
    for i, (w, part, r, ze, zf) in enumerate(meta):
        a, b = out[2 * i].split(" "), out[2 * i + 1].split(" ")
        m = (from_bits(a[1], a[2]) * from_bits(b[1], b[2])).real if a[0] == "ok" and b[0] == "ok" else float("nan")
        ctx.count(f"xcheck:{w}")
        if not (relerr(complex(r), complex(m)) <= 1e-12):
            nd += 1
            if nd <= 3:
                ctx.add_broken("correspondence", f"translator/fit-kernel/{w}/{part}", {"Z_exp": str(ze), "Z_fit": str(zf), "python": repr(r), "terms": repr(m)})
    ctx.counters["xcheck:diffs"] = nd
    if lines:
        ctx.sample({"line": lines[0], "reply": out[0]})

    # ---- (b) correspondence: bookkeeping
    lines, real = [], []
    for _ in range(400 if big else 80):
        t = circgen.fill(rnd, circgen.random_shape(rnd, rnd.randint(1, 7)), symbols + ["R", "Q"])
        c = Circuit(circgen.build(t))
        for e in c.get_elements(recursive=True):
            for k, v in list(e.get_values().items()):
                r = rnd.random()
                if r < 0.3:
                    e.set_fixed(**{k: True})
                elif r < 0.4:
                    e.set_fixed(**{k: False})
                r = rnd.random()
                try:
                    if r < 0.25:
                        e.set_lower_limits(**{k: v * rnd.choice([0.5, 0.1, 1.0])})
                    elif r < 0.35:
                        e.set_lower_limits(**{k: -math.inf})
                    r = rnd.random()
                    if r < 0.25:
                        e.set_upper_limits(**{k: v * rnd.choice([2.0, 10.0, 1.0])})
                    elif r < 0.35:
                        e.set_upper_limits(**{k: math.inf})
                    if rnd.random() < 0.04:
                        # a value outside its limits (direct write: the setters refuse it)
                        e._lower_limit[k] = v * 2 if rnd.random() < 0.5 else e._lower_limit[k]
                        if e._lower_limit[k] <= v:
                            e._upper_limit[k] = v / 2
                except Exception:  # noqa
                    pass
        enc = encode_circuit(c)
        ids = generate_fit_identifiers(c)
        lines.append(f"fit tolmfit {enc}")
        try:
            params = FT._to_lmfit(ids, {}, {})
            real.append("ok " + ",".join(f"{p.name}:{frac(p.value)}:{frac(p.min)}:{frac(p.max)}:{int(p.vary)}" for p in params.values()))
        except ValueError:
            real.append("err ValueError")
            ctx.count("tolmfit:ValueError")
            ctx.note_case(("tolmfit", enc))
            continue
        ctx.count("tolmfit:ok")
        ctx.note_case(("tolmfit", enc))
        # a solver answer respecting lmfit's contract (occasionally: names missing / extra names)
        sol = Parameters()
        solenc = []
        idmap = {e: i for e, i in c.generate_element_identifiers(running=True).items()}
        for e, m in ids.items():
            for sym in e.get_values():
                name = getattr(m, sym)
                p = params[name]
                if rnd.random() < 0.05:
                    continue
                if p.vary:
                    lo = p.min if math.isfinite(p.min) else p.value - abs(p.value) - 1
                    hi = p.max if math.isfinite(p.max) else p.value + abs(p.value) + 1
                    v = rnd.uniform(lo, hi) if rnd.random() < 0.9 else rnd.choice([lo, hi])
                else:
                    v = p.value
                sol.add(name, value=float(v), min=p.min, max=p.max, vary=p.vary)
                solenc.append(f"{sym}@{idmap[e]}={frac(sol[name].value)}")
        if rnd.random() < 0.3:
            sol.add("ratio", value=2.5)
            solenc.append(f"ratio@999={frac(2.5)}")
        c2 = deepcopy(c)
        ids2 = generate_fit_identifiers(c2)
        FT._from_lmfit(sol, ids2)
        fake = MinimizerResult(var_names=[n for n, p in sol.items() if p.vary and n != "ratio"], params=sol)
        tbl = FT._extract_parameters(c2, fake)
        circ_s = "|".join(f"{i};" + ",".join(f"{k}:{frac(v)}" for k, v in e.get_values().items()) for e, i in c2.generate_element_identifiers(running=True).items())
        tbl_s = "|".join(f"{i};" + ",".join(f"{k}:{frac(p.value)}:{int(p.fixed)}" for k, p in rows.items()) for i, rows in enumerate(tbl.values()))
        lines.append(f"fit apply {enc} " + (",".join(solenc) or "-"))
        real.append(f"ok {circ_s} {tbl_s}")
        ctx.count("apply")
        # direct: the table reports the circuit
        for (name, rows), e in zip(tbl.items(), [e for e in c2.generate_element_identifiers(running=True)]):
            for k, v in e.get_values().items():
                if k not in rows or rows[k].value != v:
                    ctx.add_failing("table-vs-circuit", {"circuit": enc, "solution": solenc}, observed=f"{name}.{k}: table {rows.get(k)}", expected=f"circuit value {v!r}", clause="the table of fitted parameters reports exactly the values of the returned circuit")
    # best-of through the real fit_circuit with prepared intermediate results
    orig = FT._fit_process
    base = parse_cdc("R{R=100}(R{R=200}C{C=1e-6})")
    f0 = np.logspace(4, 0, 12)
    data0 = DataSet(f0, base.get_impedances(f0))
    try:
        for _ in range(120 if big else 40):
            ms = rnd.sample(METHODS, rnd.randint(1, 5))
            ws = rnd.sample(WEIGHTS, rnd.randint(1, 4))
            combos = [(m, w) for m in ms for w in ws]
            vals = []
            pool = [10 ** rnd.uniform(-12, 2) for _ in range(3)]
            for _c in combos:
                r = rnd.random()
                vals.append(None if r < 0.25 else (rnd.choice(pool) if r < 0.7 else 10 ** rnd.uniform(-12, 2)))
            table = dict(zip(combos, vals))

            def stub(args, table=table):
                circuit, f, Z, method, weight = args[0], args[1], args[2], args[3], args[4]
                v = table[(method, weight)]
                cc = deepcopy(circuit)
                if v is None:
                    return (cc, math.inf, None, method, weight, "prepared failure")
                ids_ = generate_fit_identifiers(cc)
                return (cc, v, MinimizerResult(var_names=[], params=FT._to_lmfit(ids_, {}, {})), method, weight, "")
            FT._fit_process = stub
            rk = {v: i for i, v in enumerate(sorted({math.log(v) for v in vals if v is not None}))}
            lines.append("fit best " + ",".join("-" if v is None else str(rk[math.log(v)]) for v in vals))
            try:
                r = FT.fit_circuit(base, data0, method=ms, weight=ws, num_procs=1)
                real.append(f"ok {combos.index((r.method, r.weight))}")
                if r.pseudo_chisqr != min(v for v in vals if v is not None):
                    ctx.add_failing("best-not-minimal", {"pseudo_chisqr": vals, "combos": combos}, observed=r.pseudo_chisqr, expected=min(v for v in vals if v is not None), clause="with the default automatic choice of method and weight ... (best by pseudo chi-squared)")
            except FT.FittingError:
                real.append("err FittingError")
            ctx.count("best")
            ctx.note_case(("best", tuple(vals)))
    finally:
        FT._fit_process = orig
    out = common.run_driver(lines)
    nd = 0
    for l, a, b in zip(lines, real, out):
        if a != b:
            nd += 1
            if nd <= 3:
                ctx.add_broken("correspondence", "fit/" + l.split(" ")[1], {"line": l[:700], "implementation": a[:700], "model": b[:700]})
    ctx.counters["corr:lines"] = len(lines)
    ctx.counters["corr:diffs"] = nd
    ctx.sample({"line": lines[0][:300], "reply": out[0][:300]})

    # ---- (c) oracle
    jobs, meta = [], []
    fspec = (5, -2, 57)
    nrec = 18 if big else 6
    for j in range(nrec):
        name, tmpl = FAMILIES[j % len(FAMILIES)]
        true = parse_cdc(tmpl % family_params(rnd))
        start = perturbed(rnd, true, rnd.choice([1.3, 2.0, 3.0]))
        jobs.append((true.serialize(17), start.serialize(17), fspec, "auto", "auto", False))
        meta.append(("recovery", name))
    ninv = 90 if big else 24
    for j in range(ninv):
        name, tmpl = FAMILIES[rnd.randrange(len(FAMILIES))]
        true = parse_cdc(tmpl % family_params(rnd))
        start = perturbed(rnd, true, rnd.choice([1.3, 2.0, 3.0]))
        for e in start.get_elements(recursive=True):
            for k, v in e.get_values().items():
                r = rnd.random()
                if r < 0.25:
                    e.set_fixed(**{k: True})
                elif r < 0.3:
                    e.set_fixed(**{k: False})
                r = rnd.random()
                try:
                    if r < 0.3:
                        # a limit box that may or may not contain the generating value
                        e.set_lower_limits(**{k: v / rnd.choice([1.2, 3.0, 30.0])})
                        e.set_upper_limits(**{k: min(v * rnd.choice([1.2, 3.0, 30.0]), e.get_upper_limit(k))})
                except Exception:  # noqa
                    pass
        # boundary cases of the bound/fixed handling: a fixed parameter sitting exactly on one of its limits, and data whose
        # optimum lies beyond a limit that is exactly zero (the default lower limit of most parameters)
        if j % 4 == 0:
            for e in start.get_elements(recursive=True):
                for k, v in e.get_values().items():
                    if k == "n" and e.get_upper_limit(k) == 1.0:
                        e.set_values(n=1.0)
                        e.set_fixed(n=True)
                    elif e.is_fixed(k) and math.isfinite(e.get_lower_limit(k)) and rnd.random() < 0.5:
                        try:
                            e.set_values(**{k: e.get_lower_limit(k)})
                        except Exception:  # noqa
                            pass
        if j % 4 == 1:
            # the generating series resistance is negative; the fitted circuit keeps its default limits [0, inf)
            r0 = [e for e in true.get_elements(recursive=True) if e.get_symbol() == "R"][0]
            r0.set_lower_limits(R=-math.inf)
            r0.set_values(R=-abs(r0.get_value("R")) * rnd.uniform(0.05, 0.5))
            s0 = [e for e in start.get_elements(recursive=True) if e.get_symbol() == "R"][0]
            s0.set_fixed(R=False)
            s0.set_lower_limits(R=0.0)
            s0.set_upper_limits(R=math.inf)
        constraint = name in ("R(RC)(RC)", "R(RC)(RQ)", "R(RC)", "R(RQ)") and rnd.random() < 0.35 and j % 4 > 1
        if constraint:
            # the constrained parameter itself must be free (an expression on a fixed parameter is a contradictory request)
            [e for e in start.get_elements(recursive=True) if e.get_symbol() == "R"][-1].set_fixed(R=False)
        jobs.append((true.serialize(17), start.serialize(17), fspec, rnd.choice(METHODS), rnd.choice(WEIGHTS), constraint))
        meta.append(("invariants", name))
    with Pool(max(1, min(15, (os.cpu_count() or 2) - 1))) as pool:
        res = pool.map(_fit_job, jobs, chunksize=1)
    worst_p, worst_c = 0.0, 0.0
    for (kind, name), job, r in zip(meta, jobs, res):
        inp = {"family": name, "generating": job[0], "start": job[1], "method": job[3], "weight": job[4], "constraint": job[5]}
        ctx.note_case((kind, job[0], job[1], job[3], job[4], job[5]))
        ctx.count(f"oracle:{kind}:{name}")
        if not r["untouched"]:
            ctx.add_failing("input-circuit-modified", inp, observed="serialize() of the circuit passed in changed", expected="unchanged", clause="the circuit passed in is left untouched")
        if not r["ok"]:
            if kind == "recovery" or "error" in r:
                ctx.add_failing("fit-raises", inp, observed=r.get("error") or r.get("fitting_error"), expected="a result", clause="fitting a circuit to noise-free data simulated from the same circuit ... returns the generating parameter values")
            else:
                ctx.count("oracle:FittingError(single method)")
            continue
        ctx.count(f"method:{r['method']}")
        ctx.count(f"weight:{r['weight']}")
        for row in r["rows"]:
            if not (row["lo"] <= row["v"] <= row["hi"]):
                ctx.add_failing("value-outside-limits", inp, observed=f"{row['el']}.{row['k']} = {row['v']!r}", expected=f"[{row['lo']!r}, {row['hi']!r}]", clause="each fitted value lies within that parameter's lower and upper limit")
            if row["fixed"] and row["v"] != row["v0"]:
                ctx.add_failing("fixed-parameter-changed", inp, observed=f"{row['el']}.{row['k']} = {row['v']!r}", expected=repr(row["v0"]), clause="parameters marked fixed keep their initial value exactly")
            if (row["lo1"], row["hi1"], row["fixed1"]) != (row["lo"], row["hi"], row["fixed"]):
                ctx.add_failing("limits-or-flags-changed", inp, observed=f"{row['el']}.{row['k']}: {(row['lo1'], row['hi1'], row['fixed1'])}", expected=f"{(row['lo'], row['hi'], row['fixed'])}", clause="each fitted value lies within that parameter's lower and upper limit")
        if r["n_table"] != len(r["table"]):
            ctx.add_failing("table-vs-circuit", inp, observed=f"{r['n_table']} table entries", expected=f"{len(r['table'])} elements", clause="the table of fitted parameters reports exactly the values of the returned circuit")
        for ent in r["table"]:
            if {k: v for k, (v, _) in ent["table"].items()} != ent["circuit"]:
                ctx.add_failing("table-vs-circuit", inp, observed=f"{ent['name']}: {ent['table']}", expected=str(ent["circuit"]), clause="the table of fitted parameters reports exactly the values of the returned circuit")
        if job[5]:
            cs = r["constraint"]
            ctx.count("oracle:constraint")
            if not (abs(cs["lhs"] - cs["rhs"]) <= 1e-9 * abs(cs["rhs"]) and abs(cs["circuit_lhs"] - cs["circuit_rhs_factor"]) <= 1e-9 * abs(cs["circuit_lhs"])):
                ctx.add_failing("constraint-violated", dict(inp, constraint_values=cs), observed=str(cs), expected="R_last == R_previous * ratio", clause="user-supplied constraint expressions hold for the returned values")
        if kind == "recovery":
            errs = [abs(a - b) / abs(b) for a, b in zip(r["fit"], r["true"])]
            if name == "R(RC)(RC)":
                # the circuit is symmetric under exchanging its two (RC) units: the generating values are determined up to that exchange
                fit = r["fit"]
                swapped = [fit[0], fit[3], fit[4], fit[1], fit[2]]
                errs2 = [abs(a - b) / abs(b) for a, b in zip(swapped, r["true"])]
                if max(errs2) < max(errs):
                    errs = errs2
                    ctx.count("recovery:units-exchanged")
            worst_p, worst_c = max(worst_p, max(errs)), max(worst_c, r["chisqr"])
            if not (max(errs) <= REC_PARAM and r["chisqr"] <= REC_CHISQR):
                ctx.add_failing("generating-parameters-not-recovered", inp, observed=f"max relative parameter error {max(errs):.3g}, pseudo chi-squared {r['chisqr']:.3g} ({r['method']}, {r['weight']})",
                                expected=f"<= {REC_PARAM:g} and <= {REC_CHISQR:g}", clause="returns (with the default automatic choice of method and weight) the generating parameter values and a vanishing pseudo chi-squared")
    ctx.counters["recovery:max-param-err"] = worst_p
    ctx.counters["recovery:max-chisqr"] = worst_c
    ctx.sample({"job": [str(x)[:200] for x in jobs[0]], "result": {k: v for k, v in res[0].items() if k in ("ok", "chisqr", "method", "weight", "untouched")}})


def search(ctx):
    pass


def replay(ctx, path):
    print(json.dumps(json.load(open(path)).get("failing", [])[:5], indent=1, default=str)[:4000])
    return 0

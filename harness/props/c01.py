"""C01 — series/parallel composition laws.  Correspondence stream `imp`: for generated circuits the
driver evaluates the Lean model (`Imp.circuitImpl`, the same definitions the theorems are about) at
exact complex rationals on the leaf vectors produced by the real elements; compared with the real
`Circuit.get_impedances` of the circuit built four ways (objects, parse_cdc(serialize), CircuitBuilder,
one frequency at a time).  Direct oracle: the composition law recomputed in Python complex arithmetic."""
import json
import math
from fractions import Fraction

import numpy as np

import circgen
import common

ID = "C01"
REL = 1e-7


def frac(x):
    f = Fraction(float(x))
    return f"{f.numerator}/{f.denominator}"


def entry(z):
    if np.isinf(z) or np.isnan(z):
        return "inf"
    return f"{frac(z.real)}|{frac(z.imag)}"


def leaf_vector(e, f):
    from pyimpspec.circuit.base import Container
    with np.errstate(all="ignore"):
        if isinstance(e, Container):
            z = e._impedance(f, **e.get_values(), **e.get_subcircuits())
        else:
            z = e._impedance(f, **e.get_values())
    return np.array(np.broadcast_to(np.asarray(z, dtype=complex), f.shape))


def tokens(obj, f, leafvecs):
    from pyimpspec import Series, Parallel
    if isinstance(obj, Series):
        out = ["S", str(len(obj._elements))]
        for c in obj._elements:
            out += tokens(c, f, leafvecs)
        return out
    if isinstance(obj, Parallel):
        out = ["P", str(len(obj._elements))]
        for c in obj._elements:
            out += tokens(c, f, leafvecs)
        return out
    z = leaf_vector(obj, f)
    leafvecs.append(z)
    return ["L"] + [entry(x) for x in z]


def spec(obj, f, seen_open=None):
    """The property's law, recomputed independently, per frequency: parts in series add (anything plus an
    open part is open), parts in parallel: 0 if some branch is shorted, open if every branch is open (an
    entirely open connection is itself an open branch), else the reciprocal of the sum of reciprocals of
    the non-open branches.  Returns (values, is_open mask); `seen_open` collects whether some parallel
    connection was entirely open."""
    from pyimpspec import Series, Parallel
    if isinstance(obj, Series):
        r = np.zeros(f.shape, dtype=complex)
        isinf = np.zeros(f.shape, dtype=bool)
        for c in obj._elements:
            z, zi = spec(c, f, seen_open)
            isinf |= zi
            r = r + np.where(zi, 0, z)
        return r, isinf
    if isinstance(obj, Parallel):
        if not obj._elements:
            return np.zeros(f.shape, dtype=complex), np.zeros(f.shape, dtype=bool)
        zs = [spec(c, f, seen_open) for c in obj._elements]
        r = np.zeros(f.shape, dtype=complex)
        ro = np.zeros(f.shape, dtype=bool)
        for j in range(f.size):
            col = [(z[j], zi[j]) for z, zi in zs]
            if any((not i) and v == 0 for v, i in col):
                r[j] = 0
            elif all(i for _, i in col):
                ro[j] = True
                if seen_open is not None:
                    seen_open.append(True)
            else:
                r[j] = 1 / sum(1 / v for v, i in col if not i)
        return r, ro
    z = leaf_vector(obj, f)
    zi = np.isinf(z)
    return z, zi


def real_eval(circuit, f):
    from pyimpspec.exceptions import ImpedanceError
    try:
        with np.errstate(all="ignore"):
            return circuit.get_impedances(f)
    except ImpedanceError as e:
        return "err " + ("InfiniteImpedance" if "Infinite" in type(e).__name__ else type(e).__name__)
    except Exception as e:  # noqa
        return "err " + type(e).__name__


def close(a, b, rel=REL):
    if isinstance(a, str) or isinstance(b, str):
        return isinstance(a, str) and isinstance(b, str) and a == b
    a, b = np.asarray(a), np.asarray(b)
    if a.shape != b.shape:
        return False
    scale = np.maximum(np.abs(a), np.abs(b))
    return bool(np.all(np.abs(a - b) <= rel * scale + 1e-300))


def parse_model(reply):
    if reply.startswith("err"):
        return reply
    out = []
    for tok in reply.split(" ")[1:]:
        a, b = tok.split("|")
        n1, d1 = a.split("/")
        n2, d2 = b.split("/")
        out.append(complex(float(Fraction(int(n1), int(d1))), float(Fraction(int(n2), int(d2)))))
    return np.array(out, dtype=complex)


def gen_cases(ctx, big):
    from pyimpspec import get_elements
    rnd = ctx.pyrandom(11)
    symbols = [s for s in get_elements(private=True) if s not in ("Xo", "Xz", "Xp")]
    cases = []
    nmax = 5 if big else 4
    for n in range(1, nmax + 1):
        for shape in circgen.topologies(n, allow_degenerate=(n <= 3)):
            reps = 3 if big else 1
            for _ in range(reps):
                cases.append(circgen.fill(rnd, shape, symbols, p_open=0.2, p_short=0.2))
    for _ in range(6000 if big else 500):
        n = rnd.randint(1, 14)
        shape = circgen.random_shape(rnd, n, allow_degenerate=rnd.random() < 0.2)
        cases.append(circgen.fill(rnd, shape, symbols, p_open=0.12, p_short=0.12))
    return cases, rnd


def run(ctx):
    from pyimpspec import Circuit, parse_cdc, Series
    ctx.rule = ("circuits: every series/parallel topology up to 4 (thorough: 5) leaves incl. singleton and directly nested same-kind connections, "
                "random ones up to 14 leaves; leaves from every registered class incl. K/Ky/Tlm, shorted R/L (value 0) and a harness-registered open element; "
                "parameters log-uniform in the limit box; frequency vectors of length 1..12 in any order over 1e-6..1e9 Hz; a case is non-trivial when its "
                "(shape, leaf classes) is distinct")
    ctx.assumptions += [
        "the reciprocal of an exactly vanishing admittance sum (an ideal LC resonance hit exactly) is inf in numpy and 0 in the field model; the generator does not produce it",
        "floating-point rounding: implementation vs exact rational evaluation compared to 1e-7 relative",
    ]
    circgen.register_open_element()
    try:
        cases, rnd = gen_cases(ctx, ctx.thorough)
        lines, recs = [], []
        for t in cases:
            nf = rnd.choice([1, 1, 2, 3, 5, 8, 12])
            f = np.array([10 ** rnd.uniform(-6, 9) for _ in range(nf)])
            root = circgen.build(t)
            circuit = Circuit(root) if t[0] != "E" or rnd.random() < 0.5 else Circuit([root])
            leafvecs = []
            toks = tokens(circuit._elements, f, leafvecs)
            uniform = all((not np.isinf(z).any()) or np.isinf(z).all() for z in leafvecs)
            if not uniform:
                ctx.count("non-uniform-leaf (model only; outside the theorem's hypothesis)")
            if any((np.isnan(z) & ~np.isinf(z)).any() for z in leafvecs):
                ctx.count("skipped:nan-leaf")
                continue
            lines.append(f"imp {nf} " + " ".join(toks))
            recs.append((t, f, circuit, uniform))
            ctx.note_case(circgen.shape_of(t))
        model = common.run_driver(lines)
        ndiff = 0
        for (t, f, circuit, uniform), line, rep in zip(recs, lines, model):
            shape = circgen.shape_of(t)
            z1 = real_eval(circuit, f)
            zm = parse_model(rep)
            kind = z1 if isinstance(z1, str) else "ok"
            ctx.count("impl:" + kind)
            if not close(z1, zm):
                ndiff += 1
                if ndiff <= 3:
                    ctx.add_broken("correspondence", "imp", {"circuit": circuit.to_string(6), "f": f.tolist(), "implementation": str(z1)[:300], "model": str(zm)[:300]})
            # the property itself, on the implementation
            seen = []
            zs, zi = spec(circuit._elements, f, seen)
            exp = "err InfiniteImpedance" if zi.any() else zs
            all_open_parallel = bool(seen)   # some parallel connection has only open branches (F28's domain when nested)
            if uniform and not close(z1, exp):
                ctx.add_failing("composition-law", {"cdc": circuit.serialize(17), "shape": shape, "f": f.tolist(), "all_open_parallel": all_open_parallel}, observed=str(z1)[:300], expected=str(exp)[:300],
                                clause="parts in series add, parts in parallel add as reciprocals, open contributes nothing, short shorts")
            # built other ways
            ways = {}
            try:
                ways["parse(serialize)"] = real_eval(parse_cdc(circuit.serialize(17)), f)
            except Exception as e:  # noqa
                if "Xo" not in shape and _parsable(t):
                    ways["parse(serialize)"] = "err parse:" + type(e).__name__
            if _builder_ok(t):
                try:
                    ways["builder"] = real_eval(circgen.builder_circuit(t, rnd if rnd.random() < 0.5 else None), f)
                except Exception as e:  # noqa
                    ways["builder"] = "err build:" + type(e).__name__
            if not isinstance(z1, str):
                pts = [real_eval(circuit, f[j:j + 1]) for j in range(f.size)]
                ways["one-at-a-time"] = "err" if any(isinstance(p, str) for p in pts) else np.concatenate(pts)
            else:
                pts = [real_eval(circuit, f[j:j + 1]) for j in range(f.size)]
                ways["one-at-a-time"] = z1 if all(isinstance(p, str) and p == z1 for p in pts) else "mixed"
            if not isinstance(z1, str) and len(set(f.tolist())) == f.size:
                # simulate_spectrum: every (frequency, impedance) pair of the returned data set belongs together
                try:
                    from pyimpspec import simulate_spectrum
                    ds = simulate_spectrum(circuit, f.tolist() if rnd.random() < 0.5 else f)
                    lookup = {float(a): b for a, b in zip(f.tolist(), z1)}
                    ways["simulate_spectrum"] = np.array([lookup[float(a)] for a in ds.get_frequencies()]) if set(map(float, ds.get_frequencies())) == set(lookup) else "err frequencies-differ"
                    z1_sim = ds.get_impedances()
                    ctx.count("way:simulate_spectrum")
                    if uniform and not close(ways.pop("simulate_spectrum"), z1_sim, 1e-9):
                        ctx.add_failing("construction-independence", {"cdc": circuit.serialize(17), "way": "simulate_spectrum", "f": f.tolist(), "all_open_parallel": all_open_parallel},
                                        observed=str(list(zip(ds.get_frequencies().tolist(), z1_sim.tolist())))[:300], expected=str(list(zip(f.tolist(), z1.tolist())))[:300],
                                        clause="the impedance reported at any frequency (Circuit.get_impedances / simulate_spectrum) equals the value obtained by combining the parts")
                except Exception as e:  # noqa
                    ways.pop("simulate_spectrum", None)
                    ctx.count("way:simulate_spectrum:raises:" + type(e).__name__)
            for w, z in (ways.items() if uniform else []):
                ctx.count("way:" + w)
                if not close(z1, z, 1e-9):
                    ctx.add_failing("construction-independence", {"cdc": circuit.serialize(17), "way": w, "f": f.tolist(), "all_open_parallel": all_open_parallel}, observed=str(z)[:300], expected=str(z1)[:300],
                                    clause="the result does not depend on how the circuit object was built / array vs single frequency")
            if len(ctx.failing) > 5:
                break
        ctx.counters["diffs"] = ndiff
        ctx.sample({"circuit": recs[0][2].to_string(3), "f": recs[0][1].tolist()})
        ctx.sample({"circuit": recs[-1][2].to_string(3), "f": recs[-1][1].tolist()})
    finally:
        circgen.unregister_open_element()


def _parsable(t):
    """The parser refuses parallels with < 2 children and empty connections by design."""
    if t[0] == "E":
        return True
    if t[0] == "P" and len(t[1]) < 2:
        return False
    return len(t[1]) >= 1 and all(_parsable(c) for c in t[1])


def _builder_ok(t):
    return _parsable(t) and all(not l[4] for l in circgen.leaves(t))


def search(ctx):
    pass


def replay(ctx, path):
    from pyimpspec import parse_cdc
    d = json.load(open(path))
    circgen.register_open_element()
    for f_ in d.get("failing", []):
        i = f_["input"]
        c = parse_cdc(i["cdc"])
        f = np.array(i["f"])
        print(i["cdc"], "\n impl:", real_eval(c, f), "\n law :", spec(c._elements, f)[0])
    circgen.unregister_open_element()
    return 0

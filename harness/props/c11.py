"""C11 — Z-HIT reconstructs the modulus from the phase.

Tie (T): the reconstruction formula of `_reconstruct` (both branches) and `_offset_residual` are re-translated on
every run; the cross-check runs the REAL functions (with stub interpolators whose integral and derivative are known)
and the translated terms on the same numbers.
Direct oracle on the implementation: constant-phase elements x 5 smoothers x 4 interpolators x {Z, Y} x window
options are reconstructed to the precision of the offset fit, the shape (ratio to the true modulus constant over
the spectrum) to 1e-8; smooth ladders stay within the frozen band and agree with the ideal two-term formula
evaluated on the analytic phase (pins sign and size of the derivative term); scaling; zero-weight irrelevance;
smoothers on constant / linear data."""
import json
import math
import time

import numpy as np

import common
from props.c02 import fl, from_bits, relerr

ID = "C11"
SMOOTHERS = ["none", "lowess", "modsinc", "savgol", "whithend"]
INTERPOLATORS = ["akima", "makima", "cubic", "pchip"]
# frozen bands (calibrated on the unchanged tree: offset fit of a quartic objective reaches 2e-5, ladders 6.7 % over 480 calibration cases)
BAND_CONST = 3e-4
BAND_SHAPE = 1e-7
BAND_LADDER = 0.12
BAND_IDEAL = 0.025


class _Const:
    """an 'interpolator' with known integral and derivative"""

    def __init__(self, c, d):
        self.c, self.d = c, d

    def __call__(self, x):
        return self.c

    def derivative(self, n):
        d = self.d
        return lambda x: d


def cp_elements(rnd):
    return [("R", "R{R=%r}" % (10 ** rnd.uniform(-2, 6)), 0.0),
            ("C", "C{C=%r}" % (10 ** rnd.uniform(-9, -1)), -1.0),
            ("L", "L{L=%r}" % (10 ** rnd.uniform(-9, -2)), 1.0),
            ("Q", None, None),
            ("W", "W{Y=%r}" % (10 ** rnd.uniform(-6, 0)), -0.5)]


def ladder(rnd, with_series=True):
    n = rnd.randint(1, 3)
    cdc = "R{R=%r}" % (10 ** rnd.uniform(0, 3))
    for _ in range(n):
        if rnd.random() < 0.5:
            cdc += "(R{R=%r}C{C=%r})" % (10 ** rnd.uniform(0, 3), 10 ** rnd.uniform(-7, -3))
        else:
            cdc += "(R{R=%r}Q{Y=%r,n=%r})" % (10 ** rnd.uniform(0, 3), 10 ** rnd.uniform(-7, -3), rnd.uniform(0.6, 1.0))
    return cdc


def valid_smoothing(rnd, sm, npts_max):
    """(num_points, polynomial_order) accepted by the smoother"""
    if sm == "modsinc":
        po = rnd.choice([2, 4])
        return rnd.randint(3 if po == 2 else 5, 9), po
    if sm in ("savgol", "whithend"):
        n = rnd.randint(3, 9)
        return n, rnd.randint(2, min(4, n - 1))
    return rnd.randint(3, 9), 2


def run(ctx):
    import warnings
    warnings.filterwarnings("ignore")
    from pyimpspec import DataSet, parse_cdc, perform_zhit
    import pyimpspec.analysis.zhit.reconstruction as RC
    import pyimpspec.analysis.zhit.offset as OF
    from pyimpspec.analysis.zhit.smoothing import _smooth_phase
    from pyimpspec.analysis.zhit.weights import _generate_weights, _initialize_window_functions, _WINDOW_FUNCTIONS
    from lmfit import Parameters
    from scipy.integrate import quad

    rnd = ctx.pyrandom(11)
    big = ctx.thorough
    ctx.rule = ("translator cross-check on random (integral, derivative) and (weight, reconstruction, ln|Z|, offset); oracle: constant-phase elements R C L Q W x parameters over decades x "
                "5 smoothers x 4 interpolators x {Z,Y} x num_points/polynomial_order x windows (named, any centre/width, custom arrays) x frequency grids; RC/RQ ladders; scale factors 1e-6..1e6; "
                "a case is non-trivial when its (circuit, options, grid) tuple is distinct")
    ctx.assumptions += ["scipy.integrate.quad, the SciPy interpolators, statsmodels' LOWESS, savgol_filter and lmfit are runtime: their accuracy is observed with frozen bands, not proved",
                        f"bands frozen after calibration on the unchanged tree: end-to-end {BAND_CONST:g} (the offset fit minimises a quartic objective and stops near 2e-5), shape {BAND_SHAPE:g}, ladders {BAND_LADDER:g}, "
                        f"ideal two-term formula {BAND_IDEAL:g}"]
    if not _WINDOW_FUNCTIONS:
        _initialize_window_functions()
    windows = sorted(_WINDOW_FUNCTIONS)

    _t0 = time.time()
    # ---- (a) translator cross-check: the real functions on inputs whose integral/derivative are known
    lines, real = [], []
    for _ in range(300 if big else 60):
        c, d = rnd.uniform(-1.6, 1.6), rnd.uniform(-2, 2)
        a, b = rnd.uniform(-5, 15), rnd.uniform(-5, 15)
        adm = rnd.random() < 0.5
        out = RC._reconstruct((np.array([a, b]), _Const(c, d), lambda x, d=d: d, "none", "akima", adm))[0]
        integral = quad(_Const(c, d), a=a, b=b, epsabs=1e-9, limit=100)[0]
        lines.append(f"kerc zhit_rec_{'Y' if adm else 'Z'} integral={fl(integral)};{fl(0.0)} derivative={fl(d)};{fl(0.0)}")
        real.append(float(out[1]))
        ctx.note_case(("rec", c, d, a, b, adm))
    for _ in range(300 if big else 60):
        w, r, m, o = rnd.uniform(0, 1), rnd.uniform(-5, 15), rnd.uniform(-5, 15), rnd.uniform(-3, 3)
        p = Parameters()
        p.add("offset", o)
        out = OF._offset_residual(p, np.array([r]), np.array([m]), np.array([w]))
        lines.append(f"kerc zhit_offset_residual weights={fl(w)};{fl(0.0)} reconstruction={fl(r)};{fl(0.0)} ln_modulus={fl(m)};{fl(0.0)} offset={fl(o)};{fl(0.0)}")
        real.append(float(out[0]))
        ctx.note_case(("off", w, r, m, o))
    out = common.run_driver(lines)
    nd = 0
    for l, r, o in zip(lines, real, out):
        t = o.split(" ")
        zm = from_bits(t[1], t[2]) if t[0] == "ok" else complex("nan")
        if not (relerr(complex(r), zm) <= 1e-12):
            nd += 1
            if nd <= 3:
                ctx.add_broken("correspondence", "translator/zhit-kernel", {"line": l, "python": repr(r), "term": o})
    ctx.counters["xcheck:lines"] = len(lines)
    ctx.counters["xcheck:diffs"] = nd
    ctx.sample({"line": lines[0], "reply": out[0]})

    def zhit(d, **kw):
        return perform_zhit(d, num_procs=1, **kw)

    def grid(rnd):
        hi, lo = rnd.uniform(3, 6), rnd.uniform(-3, 0)
        n = rnd.randint(20, 80)
        if rnd.random() < 0.3:
            # irregular grid
            x = sorted([rnd.uniform(lo, hi) for _ in range(n - 2)] + [lo, hi], reverse=True)
            x = [x[0]] + [b for a, b in zip(x, x[1:]) if a - b > 0.02]
            return 10 ** np.array(x)
        return np.logspace(hi, lo, n)

    def window_opts(rnd, f, for_ladder=False):
        lf = np.log10(f)
        r = rnd.random()
        if r < 0.25:
            w = np.array([rnd.choice([0.0, 0.0, 1.0, 0.5, rnd.random()]) for _ in f])
            if not (w > 0).any():
                w[rnd.randrange(len(w))] = 1.0
            return {"weights": w}
        c = rnd.uniform(lf.min() + 0.5, lf.max() - 0.5)
        return {"window": rnd.choice(windows if r < 0.7 else ["boxcar", "hann", "triang"]), "center": c, "width": rnd.uniform(1.0, 5.0)}

    ctx.counters['seconds:a'] = round(time.time() - _t0, 1); _t0 = time.time()
    # ---- (b) constant-phase elements: exact reconstruction
    combos = [(s, i, a) for s in SMOOTHERS for i in INTERPOLATORS for a in (False, True)]
    rnd.shuffle(combos)
    nrounds = 4 if big else 1
    for rd in range(nrounds):
        for j, (sm, ip, adm) in enumerate(combos):
            els = cp_elements(rnd)
            kind, cdc, alpha = els[(j + rd) % 5]
            if kind == "Q":
                n = rnd.uniform(0.05, 1.0)
                cdc, alpha = "Q{Y=%r,n=%r}" % (10 ** rnd.uniform(-8, -1), n), -n
            f = grid(rnd)
            Z = parse_cdc(cdc).get_impedances(f)
            npts, po = valid_smoothing(rnd, sm, len(f))
            wopt = window_opts(rnd, f)
            opts = dict(smoothing=sm, interpolation=ip, admittance=adm, num_points=npts, polynomial_order=po, num_iterations=rnd.randint(1, 4), **wopt)
            inp = {"cdc": cdc, "f": [float(f[0]), float(f[-1]), len(f)], "options": {k: (v if not isinstance(v, np.ndarray) else v.tolist()) for k, v in opts.items()}}
            ctx.count(f"cp:{kind}")
            ctx.count(f"sm:{sm}")
            ctx.count(f"ip:{ip}")
            ctx.count("rep:" + ("Y" if adm else "Z"))
            ctx.count("window:" + ("custom" if "weights" in wopt else "named"))
            ctx.note_case(("cp", cdc, sm, ip, adm, npts, po, len(f)))
            try:
                r = zhit(DataSet(f, Z), **opts)
            except Exception as x:  # noqa
                from pyimpspec.exceptions import ZHITError
                if isinstance(x, ZHITError) and "weight greater than zero" in str(x):
                    ctx.count("cp:no-weighted-point")
                    continue
                ctx.add_failing("constant-phase-raises", inp, observed=f"{type(x).__name__}: {x}"[:200], expected="a reconstruction", clause="for spectra with a frequency-independent phase the reconstructed modulus equals the true modulus")
                continue
            ratio = np.abs(r.get_impedances()) / np.abs(Z)
            e = float(np.max(np.abs(ratio - 1)))
            shape = float(np.max(ratio) / np.min(ratio) - 1)
            ctx.counters["cp:max-err"] = max(ctx.counters.get("cp:max-err", 0.0), e)
            ctx.counters["cp:max-shape-err"] = max(ctx.counters.get("cp:max-shape-err", 0.0), shape)
            if not (shape <= BAND_SHAPE):
                ctx.add_failing("constant-phase-shape", inp, observed=f"max|Z_fit|/|Z| over min|Z_fit|/|Z| - 1 = {shape:.3g}", expected=f"<= {BAND_SHAPE:g}",
                                clause="for spectra with a frequency-independent phase the reconstructed modulus equals the true modulus to numerical precision, for every smoothing and interpolation option and in both representations")
            elif not (e <= BAND_CONST):
                ctx.add_failing("constant-phase-modulus", inp, observed=f"max relative modulus error {e:.3g}", expected=f"<= {BAND_CONST:g}",
                                clause="for spectra with a frequency-independent phase the reconstructed modulus equals the true modulus to numerical precision")
            # phase is carried through
            pe = float(np.max(np.abs(np.angle(r.get_impedances() / Z))))
            if not (pe <= 1e-6):
                ctx.add_failing("constant-phase-phase", inp, observed=f"phase error {pe:.3g}", expected="<= 1e-6", clause="the reconstruction pairs the reconstructed modulus with the (smoothed) phase")
            if j == 0 and rd == 0:
                ctx.sample({"case": inp["cdc"], "options": {k: v for k, v in inp["options"].items() if k != "weights"}, "max_rel_err": e, "shape_err": shape})

    ctx.counters['seconds:b'] = round(time.time() - _t0, 1); _t0 = time.time()
    # ---- (c) ladders: few percent, and agreement with the ideal two-term formula on a dense grid
    nl = 60 if big else 14
    for j in range(nl):
        cdc = ladder(rnd)
        ppd = rnd.randint(5, 10)
        f = np.logspace(6, -3, 9 * ppd + 1)
        circ = parse_cdc(cdc)
        Z = circ.get_impedances(f)
        sm, ip, adm = rnd.choice(SMOOTHERS), rnd.choice(INTERPOLATORS), rnd.random() < 0.5
        npts, po = valid_smoothing(rnd, sm, len(f))
        opts = dict(smoothing=sm, interpolation=ip, admittance=adm, num_points=min(npts, 5), polynomial_order=min(po, 2) if sm != "modsinc" else 2)
        if sm == "modsinc":
            opts["num_points"] = max(opts["num_points"], 3)
        if sm == "savgol" and opts["num_points"] % 2 == 0:
            opts["num_points"] += 1      # even windows shift the phase by half a sample: known finding F32, reported by (f)
        inp = {"cdc": cdc, "points_per_decade": ppd, "options": opts}
        ctx.note_case(("ladder", cdc, sm, ip, adm, ppd))
        ctx.count("ladder")
        try:
            r = zhit(DataSet(f, Z), **opts)
        except Exception as x:  # noqa
            ctx.add_failing("ladder-raises", inp, observed=f"{type(x).__name__}: {x}"[:200], expected="a reconstruction", clause="for smooth Kramers-Kronig compliant spectra the reconstruction stays within a few percent")
            continue
        e = float(np.max(np.abs(np.abs(r.get_impedances()) / np.abs(Z) - 1)))
        ctx.counters["ladder:max-err"] = max(ctx.counters.get("ladder:max-err", 0.0), e)
        if not (e <= BAND_LADDER):
            ctx.add_failing("ladder-modulus", inp, observed=f"max relative modulus error {e:.3g}", expected=f"<= {BAND_LADDER:g}", clause="for smooth Kramers-Kronig compliant spectra (RC/RQ ladders) it stays within a few percent")
        # ideal formula on the analytic phase (smoothing none, dense grid): sign and size of the derivative term
        if j % 3 == 0:
            fd = np.logspace(6, -3, 9 * 10 + 1)
            Zd = circ.get_impedances(fd)
            lw = np.log(2 * np.pi * fd)

            # analytic phase on a 40x finer grid -> spline antiderivative / derivative (error << band)
            from scipy.interpolate import CubicSpline
            xf = np.linspace(lw[-1], lw[0], 40 * (len(lw) - 1) + 1)
            sp = CubicSpline(xf, np.angle(circ.get_impedances(np.exp(xf) / (2 * math.pi))))
            anti = sp.antiderivative()
            ideal = 2 / math.pi * (anti(lw) - anti(lw[0])) + (-math.pi / 6) * sp.derivative()(lw)
            for adm2 in (False, True):
                rr = zhit(DataSet(fd, Zd), smoothing="none", interpolation=ip, admittance=adm2, window="boxcar", center=1.5, width=9.5)
                got = np.log(np.abs(rr.get_impedances()))
                dev = (got - got[0]) - (ideal - ideal[0])
                # both are defined up to a constant: compare after removing the mean difference
                dev = float(np.max(np.abs(dev - np.mean(dev))))
                ctx.counters["ideal:max-dev"] = max(ctx.counters.get("ideal:max-dev", 0.0), dev)
                ctx.count("ideal")
                if not (dev <= BAND_IDEAL):
                    ctx.add_failing("two-term-formula", {"cdc": cdc, "interpolation": ip, "admittance": adm2}, observed=f"ln|Z| deviates by {dev:.3g} from 2/pi*int(phi) - pi/6*dphi/dln(w) on the analytic phase", expected=f"<= {BAND_IDEAL:g}",
                                    clause="reconstruction = 2/pi * integral of the phase over ln(omega) + gamma * dphi/dln(omega) with gamma = -pi/6 (sign and size of the derivative correction)")

    ctx.counters['seconds:c'] = round(time.time() - _t0, 1); _t0 = time.time()
    # ---- (d) scaling, zero-weight irrelevance
    ns = 40 if big else 10
    for j in range(ns):
        cdc = ladder(rnd) if j % 2 else rnd.choice([c for _, c, _ in cp_elements(rnd) if c])
        f = np.logspace(5, -2, rnd.randint(25, 60))
        Z = parse_cdc(cdc).get_impedances(f)
        sm, ip, adm = rnd.choice(SMOOTHERS), rnd.choice(INTERPOLATORS), rnd.random() < 0.5
        npts, po = valid_smoothing(rnd, sm, len(f))
        w = np.array([rnd.choice([0.0, 0.0, 1.0, rnd.random()]) for _ in f])
        w[rnd.randrange(len(w))] = 1.0
        opts = dict(smoothing=sm, interpolation=ip, admittance=adm, num_points=npts, polynomial_order=po, weights=w)
        c = 10 ** rnd.uniform(-6, 6)
        inp = {"cdc": cdc, "scale": c, "options": {k: (v if not isinstance(v, np.ndarray) else v.tolist()) for k, v in opts.items()}}
        ctx.note_case(("scale", cdc, sm, ip, adm, c))
        ctx.count("scale")
        try:
            r1 = zhit(DataSet(f, Z), **opts).get_impedances()
            r2 = zhit(DataSet(f, c * Z), **opts).get_impedances()
        except Exception as x:  # noqa
            ctx.add_failing("scale-raises", inp, observed=f"{type(x).__name__}: {x}"[:200], expected="a reconstruction", clause="scaling the impedance by a constant scales the reconstruction by the same constant")
            continue
        e = float(np.max(np.abs(r2 / (c * r1) - 1)))
        ctx.counters["scale:max-err"] = max(ctx.counters.get("scale:max-err", 0.0), e)
        if not (e <= BAND_CONST):
            ctx.add_failing("scale-equivariance", inp, observed=f"reconstruction of c*Z deviates from c*reconstruction(Z) by {e:.3g}", expected=f"<= {BAND_CONST:g}", clause="scaling the impedance by a constant scales the reconstruction by the same constant")
        # zero-weight points: change their modulus (phase kept) -> reconstruction unchanged
        Z3 = Z.copy()
        zero = np.where(w == 0.0)[0]
        if len(zero):
            Z3[zero] = Z3[zero] * np.array([10 ** rnd.uniform(-2, 2) for _ in zero])
            r3 = zhit(DataSet(f, Z3), **opts).get_impedances()
            e = float(np.max(np.abs(r3 / r1 - 1)))
            ctx.count("zero-weight")
            if not (e <= 1e-9):
                ctx.add_failing("zero-weight-points-matter", inp, observed=f"changing the modulus at zero-weight points changes the reconstruction by {e:.3g}", expected="unchanged", clause="the offset is determined only by points with non-zero weight")
        # the offset function itself
        rec, meas = np.array([rnd.uniform(-3, 3) for _ in f]), None
        o_true = rnd.uniform(-4, 4)
        meas = rec + o_true
        meas2 = meas.copy()
        meas2[zero] += np.array([rnd.uniform(-5, 5) for _ in zero])
        o1 = OF._calculate_modulus_offset(rec, meas, w)
        o2 = OF._calculate_modulus_offset(rec, meas2, w)
        ctx.count("offset-fn")
        if o1 != o2:
            ctx.add_failing("offset-depends-on-zero-weight", {"weights": w.tolist(), "offset": o_true}, observed=f"{o1!r} vs {o2!r}", expected="equal", clause="the offset is determined only by points with non-zero weight")
        if not (abs(o1 - o_true) <= 2e-3):
            ctx.add_failing("offset-not-recovered", {"weights": w.tolist(), "offset": o_true}, observed=repr(o1), expected=repr(o_true), clause="the offset adjustment recovers the offset between reconstruction and data (Props.C11.offset_unique_of_exact)")

    ctx.counters['seconds:d'] = round(time.time() - _t0, 1); _t0 = time.time()
    # ---- (e) named windows: weights in [0, 1], zero outside the window
    for j in range(200 if big else 40):
        lf = np.sort(np.array([rnd.uniform(-3, 6) for _ in range(rnd.randint(5, 40))]))[::-1]
        c, wd, name = rnd.uniform(-3, 6), rnd.uniform(0.2, 8), rnd.choice(windows)
        wts = _generate_weights(lf, name, c, wd)
        ctx.count("weights")
        ctx.note_case(("weights", name, c, wd, len(lf)))
        outside = (lf < c - wd / 2) | (lf > c + wd / 2)
        if wts.shape != lf.shape or (wts < 0).any() or (wts > 1).any() or (wts[outside] != 0).any() or not np.isfinite(wts).all():
            ctx.add_failing("window-weights", {"window": name, "center": c, "width": wd, "log_f": lf.tolist()}, observed=wts.tolist(), expected="weights in [0,1], zero outside [center-width/2, center+width/2]", clause="weight windows (named windows with any centre/width)")

    ctx.counters['seconds:e'] = round(time.time() - _t0, 1); _t0 = time.time()
    # ---- (f) smoothers on constant / linear data
    for j in range(400 if big else 80):
        sm = rnd.choice(SMOOTHERS)
        n = rnd.randint(25, 80)
        lw = np.linspace(rnd.uniform(8, 14), rnd.uniform(-5, 0), n)
        if sm == "modsinc":
            po = rnd.choice([2, 4, 6])
            npts = rnd.randint({2: 3, 4: 5, 6: 6}[po], 10)
        elif sm in ("savgol", "whithend"):
            npts = rnd.randint(2, 11)
            po = rnd.randint(1, min(5, npts - 1))
        else:
            npts, po = rnd.randint(3, 11), 2
        a, b = rnd.uniform(-1.5, 1.5), rnd.uniform(-0.05, 0.05)
        for kind, ph in (("constant", np.full(n, a)), ("linear", a + b * np.arange(n))):
            inp = {"smoothing": sm, "num_points": npts, "polynomial_order": po, "data": kind, "a": a, "b": b, "n": n}
            ctx.count(f"smooth:{sm}:{kind}")
            ctx.note_case(("smooth", sm, npts, po, kind, n))
            try:
                out = np.asarray(_smooth_phase(sm, npts, po, 3, lw, ph.copy()))
            except ValueError as x:
                ctx.count("smooth:refused")
                continue
            e = float(np.max(np.abs(out - ph)))
            if not (e <= 1e-9):
                ctx.add_failing("smoother-changes-" + kind, inp, observed=f"max change {e:.3g}", expected="<= 1e-9", clause="the smoothing filters leave constant and linear phase data unchanged")

    ctx.counters['seconds:f'] = round(time.time() - _t0, 1)


def search(ctx):
    pass


def replay(ctx, path):
    print(json.dumps(json.load(open(path)).get("failing", [])[:5], indent=1, default=str)[:4000])
    return 0

"""Small helpers around the real pyimpspec objects."""


def all_elements(x):
    """Every element object reachable from a circuit/connection/element, containers' sub-circuits included."""
    from pyimpspec.circuit.base import Connection, Container, Element
    from pyimpspec import Circuit

    out = []
    seen = set()

    def walk(o):
        if isinstance(o, Circuit):
            walk(o._elements)
        elif isinstance(o, Connection):
            for c in o._elements:
                walk(c)
        elif isinstance(o, Element):
            if id(o) in seen:
                return
            seen.add(id(o))
            out.append(o)
            if isinstance(o, Container):
                for c in o.get_subcircuits().values():
                    if c is not None:
                        walk(c)

    walk(x)
    return out


def values_within_limits(x):
    for e in all_elements(x):
        lo, hi = e.get_lower_limits(), e.get_upper_limits()
        for k, v in e.get_values().items():
            if not (lo[k] <= v <= hi[k]):
                return False
    return True


class TimeLimit:
    """sympy / schemdraw occasionally take minutes on pathological inputs: bound each call (main thread only)"""

    def __init__(self, seconds):
        self.seconds = seconds

    def __enter__(self):
        import signal

        def handler(signum, frame):
            raise TimeoutError()

        import time
        self.old = signal.signal(signal.SIGALRM, handler)
        self.t0 = time.time()
        self.outer = signal.alarm(self.seconds)     # seconds left on an enclosing alarm (the check's time budget), re-armed on exit

    def __exit__(self, *a):
        import signal
        import time
        signal.alarm(0)
        signal.signal(signal.SIGALRM, self.old)
        if self.outer:
            signal.alarm(max(1, int(self.outer - (time.time() - self.t0))))
        return False

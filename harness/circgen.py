"""Generators of circuits as abstract syntax trees and builders of the real objects (shared by C01, C02,
C03, C16, C20).  A tree is ('S', [children]) | ('P', [children]) | ('E', symbol, {param: value}, label,
{sub-circuit key: tree | None | 'short'} )."""
import itertools
import math

_OPEN_REGISTERED = False


def register_open_element():
    """A private user element whose impedance is infinite at every frequency (an open branch), so that the
    open-branch code of Parallel is reachable through the public API. Removed by unregister_open_element()."""
    global _OPEN_REGISTERED
    from numpy import full, inf
    from pyimpspec import Element, ElementDefinition, ParameterDefinition, register_element, get_elements

    if "Xo" in get_elements(private=True):
        _OPEN_REGISTERED = True
        return get_elements(private=True)["Xo"]

    class OpenBranch(Element):
        def _impedance(self, f, R):
            return full(f.shape, complex(inf, 0.0))

    register_element(
        ElementDefinition(
            Class=OpenBranch, symbol="Xo", name="Open branch", description="Infinite impedance at every frequency (verification harness).",
            equation="R*oo",
            parameters=[ParameterDefinition(symbol="R", unit="ohm", description="unused", value=1.0, lower_limit=0.0, upper_limit=inf, fixed=True)],
        ),
        private=True, validate_impedances=False,
    )
    class PartialShort(Element):
        # shorted above the cut-off frequency, R below it: reaches the partial-short code of Parallel
        def _impedance(self, f, R, fc):
            from numpy import where
            return where(f > fc, 0.0, R).astype(complex)

    class PartialOpen(Element):
        # open above the cut-off frequency only: Parallel must refuse it (InfiniteImpedance)
        def _impedance(self, f, R, fc):
            from numpy import where
            return where(f > fc, complex(inf, 0.0), complex(R, 0.0))

    for C, sym in ((PartialShort, "Xz"), (PartialOpen, "Xp")):
        register_element(
            ElementDefinition(
                Class=C, symbol=sym, name=sym, description="Verification harness element.", equation="R",
                parameters=[ParameterDefinition(symbol="R", unit="ohm", description="", value=1.0, lower_limit=0.0, upper_limit=inf, fixed=False),
                            ParameterDefinition(symbol="fc", unit="Hz", description="", value=1.0, lower_limit=0.0, upper_limit=inf, fixed=True)],
            ),
            private=True, validate_impedances=False,
        )
    _OPEN_REGISTERED = True
    return OpenBranch


def unregister_open_element():
    global _OPEN_REGISTERED
    from pyimpspec import get_elements
    from pyimpspec.circuit.registry import remove_elements

    els = get_elements(private=True)
    for sym in ("Xo", "Xz", "Xp"):
        if sym in els:
            remove_elements([els[sym]])
    _OPEN_REGISTERED = False


def topologies(nleaves, allow_degenerate=False):
    """All series/parallel nestings with exactly `nleaves` leaves ('L' placeholders), children ordered.
    Parser-normal forms only unless allow_degenerate: then also directly nested same-kind connections and
    (one at a time) singleton connections around any node — shapes only object construction can produce."""
    memo = {}

    def comps(n):
        out = []

        def rec(rem, acc):
            if rem == 0:
                if len(acc) >= 2:
                    out.append(list(acc))
                return
            for first in range(1, rem + 1):
                rec(rem - first, acc + [first])

        rec(n, [])
        return out

    def trees(n, kind):
        key = (n, kind)
        if key in memo:
            return memo[key]
        out = []
        if n == 1:
            out.append("L")
        for k in ("S", "P"):
            if k == kind and not allow_degenerate:
                continue
            for c in comps(n):
                for parts in itertools.product(*[trees(m, k) for m in c]):
                    out.append((k, list(parts)))
        memo[key] = out
        return out

    base = trees(nleaves, None)
    if not allow_degenerate:
        return base

    def wraps(t):
        """t with exactly one node wrapped in a singleton connection"""
        res = [("S", [t]), ("P", [t])]
        if t != "L":
            for i, c in enumerate(t[1]):
                for w in wraps(c):
                    res.append((t[0], t[1][:i] + [w] + t[1][i + 1:]))
        return res

    out = list(base)
    for t in base:
        out.extend(wraps(t))
    return out


def round6(v):
    if v == 0 or math.isinf(v) or math.isnan(v):
        return v
    return float(f"{v:.5e}")


def random_params(rnd, cls, shorts=0.0):
    """log-uniform inside the limit box, exponents uniform in (0, 1]; values have 6 significant digits"""
    ps = {}
    for k, d in cls.get_default_values().items():
        lo, hi = cls.get_default_lower_limit(k), cls.get_default_upper_limit(k)
        if hi <= 1.0 and lo >= 0.0 and d <= 1.0 and k in ("n", "a", "b", "n_B", "n_A"):
            v = rnd.uniform(0.05, 1.0) if rnd.random() < 0.85 else 1.0
        else:
            span = rnd.uniform(-3, 3)
            base = d if d > 0 else 1.0
            v = base * 10 ** span
            v = min(max(v, lo if lo > 0 else 0.0), hi)
        ps[k] = round6(v)
    if shorts and rnd.random() < shorts and cls.get_symbol() in ("R", "L"):
        for k in ps:
            ps[k] = 0.0
    return ps


def random_leaf(rnd, symbols, p_open=0.0, p_short=0.0, labels=None, containers=True, depth=0, nest=False):
    from pyimpspec import get_elements
    els = get_elements(private=True)
    if p_open and rnd.random() < p_open and "Xo" in els:
        r = rnd.random()
        if r < 0.6:
            return ("E", "Xo", {"R": 1.0}, "", {})
        if r < 0.9:
            return ("E", "Xz", {"R": round6(10 ** rnd.uniform(-2, 3)), "fc": round6(10 ** rnd.uniform(-6, 9))}, "", {})
        return ("E", "Xp", {"R": round6(10 ** rnd.uniform(-2, 3)), "fc": round6(10 ** rnd.uniform(-6, 9))}, "", {})
    sym = rnd.choice(symbols)
    cls = els[sym]
    label = ""
    if labels and rnd.random() < 0.4:
        label = rnd.choice(labels)
    subs = {}
    if sym == "Tlm":
        if not containers or depth > 1:
            sym, cls = "R", els["R"]
        else:
            # a valid configuration: X_1 finite, X_2 short|finite, Zeta finite, Z_A/Z_B open|short|finite
            def sub(kind):
                if kind == "open":
                    return None
                if kind == "short":
                    return "short"
                n = rnd.choice([1, 1, 2])
                # nest=True: a container may sit inside a sub-circuit of another container (one level)
                inner = nest and depth == 0
                ch = [random_leaf(rnd, ["R", "C", "Q", "W"] + (["Tlm"] if inner else []), labels=labels, containers=inner, depth=depth + 1) for _ in range(n)]
                if n == 1 or rnd.random() < 0.5:
                    return ("S", ch)
                return ("S", [("P", ch)])
            subs = {"X_1": sub("finite"), "X_2": sub(rnd.choice(["short", "finite"])), "Zeta": sub("finite"),
                    "Z_A": sub(rnd.choice(["open", "short", "finite"])), "Z_B": sub(rnd.choice(["open", "short", "finite"]))}
    return ("E", sym, random_params(rnd, cls, shorts=p_short), label, subs)


def fill(rnd, shape, symbols, **kw):
    if shape == "L":
        return random_leaf(rnd, symbols, **kw)
    return (shape[0], [fill(rnd, c, symbols, **kw) for c in shape[1]])


def random_shape(rnd, nleaves, allow_degenerate=False, kind=None):
    if nleaves == 1 and (kind is not None or rnd.random() < 0.3) and not (allow_degenerate and rnd.random() < 0.15):
        return "L"
    k = rnd.choice([x for x in ("S", "P") if allow_degenerate or x != kind])
    if nleaves == 1:
        return (k, ["L"]) if (allow_degenerate or k == "S") else "L"
    nparts = rnd.randint(2 if not (allow_degenerate and rnd.random() < 0.1) else 1, min(nleaves, 4))
    cuts = sorted(rnd.sample(range(1, nleaves), nparts - 1)) if nparts > 1 else []
    sizes = [b - a for a, b in zip([0] + cuts, cuts + [nleaves])]
    return (k, [random_shape(rnd, s, allow_degenerate, k) for s in sizes])


def build(t):
    """Real objects from a tree."""
    from pyimpspec import Series, Parallel, get_elements
    if t[0] == "S":
        return Series([build(c) for c in t[1]])
    if t[0] == "P":
        return Parallel([build(c) for c in t[1]])
    _, sym, ps, label, subs = t
    cls = get_elements(private=True)[sym]
    kw = dict(ps)
    for k, s in subs.items():
        kw[k] = None if s is None else (Series([]) if s == "short" else build(s))
    e = cls(**kw)
    if label:
        e.set_label(label)
    return e


def leaves(t):
    if t[0] == "E":
        return [t]
    return [l for c in t[1] for l in leaves(c)]


def shape_of(t):
    if t[0] == "E":
        return t[1]
    return ("[" if t[0] == "S" else "(") + "".join(shape_of(c) for c in t[1]) + ("]" if t[0] == "S" else ")")


def builder_circuit(t, rnd=None):
    """The same circuit through CircuitBuilder (only for builder-expressible trees).  With `rnd`, the builder (and its
    nested builders) are converted to text / circuits at random moments while they are still being filled: an intermediate
    conversion must not change what the finished builder yields."""
    from pyimpspec import CircuitBuilder

    tops = []

    def peek(b):
        if rnd is not None and rnd.random() < 0.3:
            try:
                (str if rnd.random() < 0.5 else (lambda x: x.to_circuit()))(rnd.choice([b] + tops))
            except Exception:  # noqa: a half-built builder may not be convertible
                pass

    def fill_b(b, node):
        for c in node[1]:
            peek(b)
            if c[0] == "E":
                b.add(build(c))
            elif c[0] == "S":
                with b.series() as s:
                    fill_b(s, c)
            else:
                with b.parallel() as p:
                    fill_b(p, c)
            peek(b)

    if t[0] == "E":
        t = ("S", [t])
    with CircuitBuilder(parallel=(t[0] == "P")) as top:
        tops.append(top)
        fill_b(top, t)
    return top.to_circuit()

"""Translator, part 2: numeric kernels and equation strings -> terms of `E` (lean/PyImpSpec/Expr.lean).

`impl` comes from the Python `ast` of `Class._impedance` (local assignments inlined), `eqn` from
`sympy.sympify(Class._equation)` — exactly the tree `Element.to_sympy` uses.  Anything outside the
translated subset is reported as `untranslatable` (handled like a broken proof obligation)."""
import ast
import inspect
import os
import textwrap
import warnings

warnings.filterwarnings("ignore")


class Untranslatable(Exception):
    pass


# names of the symbolic side of the transmission line model -> names of the numeric side
RENAME = {}


def lit(n):
    return f"(.num {n})"


def rat(p, q):
    if q == 1:
        return lit(p) if p >= 0 else f"(.neg {lit(-p)})"
    s = f"(.mul {lit(abs(p))} (.inv {lit(q)}))"
    return s if p >= 0 else f"(.neg {s})"


def from_float(x):
    import sympy
    fr = sympy.Rational(str(x))
    return rat(int(fr.p), int(fr.q))


FUN1 = {"sqrt": "sqrt", "tanh": "tanh", "coth": "coth", "cosh": "cosh", "sinh": "sinh",
        "sympy_sqrt": "sqrt", "sympy_tanh": "tanh", "sympy_coth": "coth", "sympy_cosh": "cosh", "sympy_sinh": "sinh"}


def py2e(node, env):
    if isinstance(node, ast.BinOp):
        a, b = py2e(node.left, env), py2e(node.right, env)
        if isinstance(node.op, ast.Add):
            return f"(.add {a} {b})"
        if isinstance(node.op, ast.Sub):
            return f"(.add {a} (.neg {b}))"
        if isinstance(node.op, ast.Mult):
            return f"(.mul {a} {b})"
        if isinstance(node.op, ast.Div):
            return f"(.mul {a} (.inv {b}))"
        if isinstance(node.op, ast.Pow):
            return f"(.pow {a} {b})"
        raise Untranslatable("operator " + type(node.op).__name__)
    if isinstance(node, ast.UnaryOp) and isinstance(node.op, ast.USub):
        return f"(.neg {py2e(node.operand, env)})"
    if isinstance(node, ast.UnaryOp) and isinstance(node.op, ast.UAdd):
        return py2e(node.operand, env)
    if isinstance(node, ast.Constant):
        v = node.value
        if isinstance(v, bool):
            raise Untranslatable("bool constant")
        if isinstance(v, complex):
            if v.real != 0:
                raise Untranslatable("complex constant with real part")
            return f"(.mul {from_float(v.imag)} .I)" if v.imag != 1 else ".I"
        if isinstance(v, int):
            return lit(v) if v >= 0 else f"(.neg {lit(-v)})"
        if isinstance(v, float):
            return from_float(v)
        raise Untranslatable("constant " + repr(v))
    if isinstance(node, ast.Attribute) and isinstance(node.value, ast.Name) and node.attr in ("expr", "impedances"):
        # `x1.expr` / `x1.impedances` of a Subcircuit record: the sub-circuit's impedance
        name = RENAME.get(node.value.id, node.value.id)
        return f'(.var "{name}")'
    if isinstance(node, ast.Name):
        if node.id in RENAME:
            return f'(.var "{RENAME[node.id]}")'
        if node.id in env:
            return env[node.id]
        if node.id == "pi":
            return ".pi"
        return f'(.var "{node.id}")'
    if isinstance(node, ast.Call):
        if isinstance(node.func, ast.Attribute) and node.func.attr == "astype":
            return py2e(node.func.value, env)  # dtype cast: identity on values
        if isinstance(node.func, ast.Name) and node.func.id in FUN1 and len(node.args) == 1 and not node.keywords:
            return f"(.{FUN1[node.func.id]} {py2e(node.args[0], env)})"
        raise Untranslatable("call " + ast.unparse(node.func))
    raise Untranslatable("node " + type(node).__name__)


def translate_function(fn_obj):
    src = textwrap.dedent(inspect.getsource(fn_obj))
    fn = ast.parse(src).body[0]
    env = {}
    for st in fn.body:
        if isinstance(st, ast.AnnAssign) and isinstance(st.target, ast.Name) and st.value is not None:
            env[st.target.id] = py2e(st.value, env)
        elif isinstance(st, ast.Assign) and len(st.targets) == 1 and isinstance(st.targets[0], ast.Name):
            env[st.targets[0].id] = py2e(st.value, env)
        elif isinstance(st, ast.Return):
            return py2e(st.value, env)
        elif isinstance(st, ast.Expr) and isinstance(st.value, ast.Constant):
            continue  # docstring
        else:
            raise Untranslatable("statement " + type(st).__name__)
    raise Untranslatable("no return statement")


def sym2e(e):
    import sympy
    if e.is_Symbol:
        return f'(.var "{e.name}")'
    if e is sympy.I:
        return ".I"
    if e is sympy.pi:
        return ".pi"
    if e.is_Integer:
        return lit(int(e)) if e >= 0 else f"(.neg {lit(-int(e))})"
    if e.is_Rational:
        return rat(int(e.p), int(e.q))
    if e.is_Float:
        return from_float(e)
    if e.is_Add or e.is_Mul:
        args = [sym2e(a) for a in e.args]
        r = args[0]
        for a in args[1:]:
            r = f"(.{'add' if e.is_Add else 'mul'} {r} {a})"
        return r
    if e.is_Pow:
        b, x = e.args
        if x == -1:
            return f"(.inv {sym2e(b)})"
        return f"(.pow {sym2e(b)} {sym2e(x)})"
    fn = type(e).__name__
    if fn in ("tanh", "coth", "cosh", "sinh") and len(e.args) == 1:
        return f"(.{fn} {sym2e(e.args[0])})"
    raise Untranslatable("sympy node " + fn)


def translate_tlm(out, names_out, untranslatable):
    """General transmission line model: the branch formulas `_eqNN` (numeric) and the return expressions of
    `_sympy` (symbolic), plus the shared auxiliaries lm, cs, ct, s."""
    global RENAME
    from pyimpspec.circuit.transmission_line_model import TransmissionLineModel as T
    eqs = ["_eq8", "_eq16", "_eq17", "_eq18", "_eq18_variant", "_eq19", "_eq20"]
    try:
        RENAME = {}
        for m in eqs:
            out.append(f"/-- `TransmissionLineModel.{m}` -/\ndef Tlm{m}_impl : E := {translate_function(getattr(T, m))}")
        # auxiliaries of `_impedance`
        src = textwrap.dedent(inspect.getsource(T._impedance))
        fn = ast.parse(src).body[0]
        aux = {}
        for st in ast.walk(fn):
            if isinstance(st, ast.AnnAssign) and isinstance(st.target, ast.Name) and st.target.id in ("lm", "cs", "ct", "s") and st.value is not None:
                RENAME = {"ze": "ze", "x1": "x1", "x2": "x2"}
                aux[st.target.id] = py2e(st.value, {})
        for k in ("lm", "cs", "ct", "s"):
            if k not in aux:
                raise Untranslatable(f"auxiliary {k} of Tlm._impedance not found")
            out.append(f"def Tlm_{k}_impl : E := {aux[k]}")
        # symbolic side
        src = textwrap.dedent(inspect.getsource(T._sympy))
        fn = ast.parse(src).body[0]
        RENAME = {"x": "X", "z": "Z", "Cs": "cs", "Ct": "ct", "S": "s"}
        auxs = {}
        for st in fn.body:
            if isinstance(st, ast.Assign) and len(st.targets) == 1 and isinstance(st.targets[0], ast.Name) and st.targets[0].id in ("lm", "Cs", "Ct", "S"):
                auxs[RENAME.get(st.targets[0].id, st.targets[0].id)] = py2e(st.value, {})
        for k in ("lm", "cs", "ct", "s"):
            if k not in auxs:
                raise Untranslatable(f"auxiliary {k} of Tlm._sympy not found")
            out.append(f"def Tlm_{k}_sym : E := {auxs[k]}")
        rets = [n for n in ast.walk(fn) if isinstance(n, ast.Return)]
        rets.sort(key=lambda n: n.lineno)
        order = ["_eq20", "_eq8", "_eq18_variant", "_eq18", "_eq17", "_eq19", "_eq16"]
        if len(rets) != len(order):
            raise Untranslatable(f"Tlm._sympy has {len(rets)} return statements, expected {len(order)}")
        for m, r in zip(order, rets):
            out.append(f"/-- return expression of `TransmissionLineModel._sympy` paired with `{m}` -/\ndef Tlm{m}_sym : E := {py2e(r.value, {})}")
        names_out.extend(eqs)
    except Untranslatable as ex:
        untranslatable.append({"what": "TransmissionLineModel", "detail": str(ex)})
    finally:
        RENAME = {}


def generate(gen_dir, untranslatable):
    from sympy import sympify
    from pyimpspec.circuit.registry import get_elements
    from pyimpspec.circuit.base import Container
    import translate

    out = ["-- GENERATED by harness/translate_kernels.py from /repo's element classes. Do not edit.",
           "import PyImpSpec.Expr", "", "namespace Gen.K", ""]
    names = []
    for sym, cls in get_elements(private=True).items():
        if issubclass(cls, Container):
            continue
        try:
            impl = translate_function(cls._impedance)
            eqn = sym2e(sympify(cls._equation))
        except Untranslatable as ex:
            untranslatable.append({"what": f"element {sym}", "detail": str(ex)})
            continue
        out.append(f"/-- `{cls.__name__}._impedance` -/\ndef {sym}_impl : E := {impl}")
        out.append(f"/-- sympify of the equation string `{cls._equation}` -/\ndef {sym}_eqn : E := {eqn}")
        names.append(sym)
    tlm_names = []
    translate_tlm(out, tlm_names, untranslatable)
    out.append("")
    out.append("def tlmBranches : List String := [" + ", ".join(f'"{n}"' for n in tlm_names) + "]")
    out.append("/-- the non-container element classes currently registered -/")
    out.append("def names : List String := [" + ", ".join(f'"{n}"' for n in names) + "]")
    out.append("def impls : List (String × E) := [" + ", ".join(f'("{n}", {n}_impl)' for n in names) + "]")
    out.append("def eqns : List (String × E) := [" + ", ".join(f'("{n}", {n}_eqn)' for n in names) + "]")
    out.append("")
    out.append("end Gen.K")
    changed = translate.write_if_changed(os.path.join(gen_dir, "Kernels.lean"), "\n".join(out) + "\n")
    return {"kernels": names, "changed": changed}

"""Translator, part 2: numeric kernels and equation strings -> terms of `E` (lean/PyImpSpec/Expr.lean).

`impl` comes from the Python `ast` of `Class._impedance` (local assignments inlined), `eqn` from
`sympy.sympify(Class._equation)` — exactly the tree `Element.to_sympy` uses.  Anything outside the
translated subset is reported as `untranslatable` (handled like a broken proof obligation)."""
import ast
import inspect
import os
import textwrap
import warnings

warnings.filterwarnings("ignore")


class Untranslatable(Exception):
    pass


# names of the symbolic side of the transmission line model -> names of the numeric side
RENAME = {}


def lit(n):
    return f"(.num {n})"


def rat(p, q):
    if q == 1:
        return lit(p) if p >= 0 else f"(.neg {lit(-p)})"
    s = f"(.mul {lit(abs(p))} (.inv {lit(q)}))"
    return s if p >= 0 else f"(.neg {s})"


def from_float(x):
    import sympy
    fr = sympy.Rational(str(x))
    return rat(int(fr.p), int(fr.q))


FUN1 = {"exp": "exp", "ln": "log", "sin": "sin", "cos": "cos", "sqrt": "sqrt", "tanh": "tanh", "coth": "coth", "cosh": "cosh", "sinh": "sinh",
        "sympy_sqrt": "sqrt", "sympy_tanh": "tanh", "sympy_coth": "coth", "sympy_cosh": "cosh", "sympy_sinh": "sinh"}


AMBIENT = []         # module globals of the modules a translate_* function reads statements from directly
GLOBALS_STACK = []   # module globals of the function being translated (innermost last)
COTH_BODY = '(.mul (.num 1) (.inv (.tanh (.var "x"))))'
PRIM_CHECKS = {"checked": 0}


def check_primitive(name):
    """The translation maps a called NAME to a primitive of `E` (exp, log, sqrt, tanh, coth, …).  That is only sound if the name is
    bound, in the module of the function being translated, to the function the primitive denotes: numpy's / sympy's / math's function
    of that meaning, or - for coth - a Python helper whose own translation is 1/tanh(x).  Anything else is untranslatable."""
    prim = FUN1[name]
    for g in ([GLOBALS_STACK[-1]] if GLOBALS_STACK else AMBIENT):
        if name in g:   # otherwise not a module-level name (a parameter or local alias): nothing to resolve
            check_binding(name, prim, g[name])


def check_named(name):
    """`pi`, `abs`, `array_sum`, `ones`, `len`, `float`: the same question for the other names the translation gives a fixed meaning"""
    import builtins
    import math
    import numpy
    want = {"pi": [numpy.pi, math.pi], "abs": [builtins.abs, numpy.abs, numpy.absolute], "array_sum": [numpy.sum], "ones": [numpy.ones],
            "len": [builtins.len], "float": [builtins.float]}[name]
    for g in ([GLOBALS_STACK[-1]] if GLOBALS_STACK else AMBIENT):
        if name in g:
            PRIM_CHECKS["checked"] += 1
            obj = g[name]
            if not any((obj is w) or (isinstance(w, float) and isinstance(obj, float) and obj == w) for w in want):
                raise Untranslatable(f"the name {name} is bound to {obj!r}, not to what the model assumes")


def check_binding(name, prim, obj):
    import math
    import numpy
    import sympy
    PRIM_CHECKS["checked"] += 1
    target = {"log": "log"}.get(prim, prim)
    for mod in (numpy, sympy, math):
        if getattr(mod, target, None) is obj:
            return
    if inspect.isfunction(obj) and prim == "coth":
        try:
            body = translate_function(obj)
        except Untranslatable as ex:
            raise Untranslatable(f"helper {name} ({obj.__module__}): {ex}")
        if body == COTH_BODY:
            return
        raise Untranslatable(f"helper {name} ({obj.__module__}) is no longer 1 / tanh(x): {body[:200]}")
    raise Untranslatable(f"the name {name} is bound to {getattr(obj, '__module__', '?')}.{getattr(obj, '__name__', repr(obj))}, not to the primitive {prim} the model assumes")


def py2e(node, env):
    if isinstance(node, ast.BinOp):
        a, b = py2e(node.left, env), py2e(node.right, env)
        if isinstance(node.op, ast.Add):
            return f"(.add {a} {b})"
        if isinstance(node.op, ast.Sub):
            return f"(.add {a} (.neg {b}))"
        if isinstance(node.op, ast.Mult):
            return f"(.mul {a} {b})"
        if isinstance(node.op, ast.Div):
            return f"(.mul {a} (.inv {b}))"
        if isinstance(node.op, ast.Pow):
            return f"(.pow {a} {b})"
        raise Untranslatable("operator " + type(node.op).__name__)
    if isinstance(node, ast.UnaryOp) and isinstance(node.op, ast.USub):
        return f"(.neg {py2e(node.operand, env)})"
    if isinstance(node, ast.UnaryOp) and isinstance(node.op, ast.UAdd):
        return py2e(node.operand, env)
    if isinstance(node, ast.Constant):
        v = node.value
        if isinstance(v, bool):
            raise Untranslatable("bool constant")
        if isinstance(v, complex):
            if v.real != 0:
                raise Untranslatable("complex constant with real part")
            return f"(.mul {from_float(v.imag)} .I)" if v.imag != 1 else ".I"
        if isinstance(v, int):
            return lit(v) if v >= 0 else f"(.neg {lit(-v)})"
        if isinstance(v, float):
            return from_float(v)
        raise Untranslatable("constant " + repr(v))
    if isinstance(node, ast.Attribute) and node.attr in ("real", "imag"):
        return f"(.{'re' if node.attr == 'real' else 'im'} {py2e(node.value, env)})"
    if isinstance(node, ast.Attribute) and isinstance(node.value, ast.Name) and node.attr in ("expr", "impedances"):
        # `x1.expr` / `x1.impedances` of a Subcircuit record: the sub-circuit's impedance
        name = RENAME.get(node.value.id, node.value.id)
        return f'(.var "{name}")'
    if isinstance(node, ast.IfExp) and ("?" + ast.unparse(node.test)) in env:
        return py2e(node.body if env["?" + ast.unparse(node.test)] else node.orelse, env)
    if isinstance(node, ast.Subscript) and isinstance(node.value, ast.Name) and isinstance(node.slice, ast.Constant) and f"{node.value.id}[{node.slice.value}]" in env:
        return env[f"{node.value.id}[{node.slice.value}]"]
    if isinstance(node, ast.Name):
        if node.id in RENAME:
            return f'(.var "{RENAME[node.id]}")'
        if node.id in env:
            return env[node.id]
        if node.id == "pi":
            check_named("pi")
            return ".pi"
        return f'(.var "{node.id}")'
    if isinstance(node, ast.Call) and isinstance(node.func, ast.Attribute) and isinstance(node.func.value, ast.Name) and node.func.value.id == "self" \
            and SELF_CLASS is not None and callable(getattr(SELF_CLASS, node.func.attr, None)):
        # a call of a sibling method (`self._eq18(...)`): inline its translation with the arguments bound
        global _INLINE_DEPTH
        callee = getattr(SELF_CLASS, node.func.attr)
        params = [a.arg for a in ast.parse(textwrap.dedent(inspect.getsource(callee))).body[0].args.args if a.arg != "self"]
        if len(node.args) > len(params) or any(k.arg not in params for k in node.keywords):
            raise Untranslatable("call self." + node.func.attr + " with unexpected arguments")
        binding = {p_: py2e(a_, env) for p_, a_ in zip(params, node.args)}
        binding.update({k.arg: py2e(k.value, env) for k in node.keywords})
        if set(binding) != set(params) or _INLINE_DEPTH > 4:
            raise Untranslatable("call self." + node.func.attr + ": arguments do not cover the parameters")
        _INLINE_DEPTH += 1
        try:
            saved = dict(RENAME)
            RENAME.clear()
            try:
                return translate_function(callee, binding)
            finally:
                RENAME.update(saved)
        finally:
            _INLINE_DEPTH -= 1
    if isinstance(node, ast.Call):
        if isinstance(node.func, ast.Attribute) and node.func.attr == "astype":
            return py2e(node.func.value, env)  # dtype cast: identity on values
        if isinstance(node.func, ast.Name) and node.func.id in ("abs", "float", "array_sum", "ones", "len"):
            check_named(node.func.id)
        if isinstance(node.func, ast.Name) and node.func.id == "abs" and len(node.args) == 1 and not node.keywords:
            return f"(.abs {py2e(node.args[0], env)})"
        if isinstance(node.func, ast.Name) and node.func.id in ("float", "array_sum") and len(node.args) == 1 and not node.keywords:
            # `float(array_sum(term))`: the translated term is the summand; the sum over the points is modelled by the list sum in Lean
            return py2e(node.args[0], env)
        if isinstance(node.func, ast.Name) and node.func.id == "ones" and not node.args and [k.arg for k in node.keywords] in (["shape", "dtype"], ["shape"]):
            return "(.num 1)"     # an array of ones: the value at every point
        if isinstance(node.func, ast.Name) and node.func.id == "len" and len(node.args) == 1 and not node.keywords:
            return '(.var "N")'   # the number of points
        if isinstance(node.func, ast.Name) and node.func.id in FUN1 and len(node.args) == 1 and not node.keywords:
            check_primitive(node.func.id)
            return f"(.{FUN1[node.func.id]} {py2e(node.args[0], env)})"
        raise Untranslatable("call " + ast.unparse(node.func))
    raise Untranslatable("node " + type(node).__name__)


INLINE = {}   # helper name -> (parameter names, python AST of its return expression)


def subst(node, binding):
    """translate `node` (an AST) with parameter names bound to already translated terms"""
    return py2e(node, dict(binding))


def return_expr(fn_obj):
    src = textwrap.dedent(inspect.getsource(fn_obj))
    fn = ast.parse(src).body[0]
    params = [a.arg for a in fn.args.args]
    for st in fn.body:
        if isinstance(st, ast.Return):
            return params, st.value
    raise Untranslatable("no return in " + fn.name)


SELF_CLASS = None   # class whose methods `self.<name>(...)` calls are inlined (set while a class is translated)
_INLINE_DEPTH = 0


def set_ambient(*mods):
    AMBIENT[:] = [vars(m) for m in mods]


def translate_function(fn_obj, binding=None):
    GLOBALS_STACK.append(getattr(inspect.unwrap(getattr(fn_obj, "__func__", fn_obj)), "__globals__", {}))
    try:
        return _translate_function(fn_obj, binding)
    finally:
        GLOBALS_STACK.pop()


def _translate_function(fn_obj, binding=None):
    src = textwrap.dedent(inspect.getsource(fn_obj))
    fn = ast.parse(src).body[0]
    env = dict(binding or {})
    for st in fn.body:
        if isinstance(st, ast.AnnAssign) and isinstance(st.target, ast.Name) and st.value is not None:
            env[st.target.id] = py2e(st.value, env)
        elif isinstance(st, ast.Assign) and len(st.targets) == 1 and isinstance(st.targets[0], ast.Name):
            env[st.targets[0].id] = py2e(st.value, env)
        elif isinstance(st, ast.Return):
            return py2e(st.value, env)
        elif isinstance(st, ast.Expr) and isinstance(st.value, ast.Constant):
            continue  # docstring
        elif isinstance(st, ast.If) and all(isinstance(b, ast.Raise) for b in st.body) and not st.orelse:
            continue  # argument validation: `if not ...: raise TypeError(...)`
        elif (isinstance(st, ast.If) and isinstance(st.test, ast.Compare) and isinstance(st.test.left, ast.Name)
              and len(st.test.ops) == 1 and isinstance(st.test.ops[0], ast.Is) and isinstance(st.test.comparators[0], ast.Constant)
              and st.test.comparators[0].value is None and len(st.body) == 1 and isinstance(st.body[0], ast.Assign) and not st.orelse
              and isinstance(st.body[0].value, ast.Call) and isinstance(st.body[0].value.func, ast.Name) and st.body[0].value.func.id in INLINE):
            # `if weight is None: weight = _boukamp_weight(Z_exp)`: the default branch, inlined
            tgt = st.body[0].targets[0].id
            call = st.body[0].value
            sub = INLINE[call.func.id]
            params, body = sub
            binding = {p: py2e(a, env) for p, a in zip(params, call.args)}
            env[tgt] = subst(body, binding)
        else:
            raise Untranslatable("statement " + type(st).__name__)
    raise Untranslatable("no return statement")


def sym2e(e):
    import sympy
    if e.is_Symbol:
        return f'(.var "{e.name}")'
    if e is sympy.I:
        return ".I"
    if e is sympy.pi:
        return ".pi"
    if e.is_Integer:
        return lit(int(e)) if e >= 0 else f"(.neg {lit(-int(e))})"
    if e.is_Rational:
        return rat(int(e.p), int(e.q))
    if e.is_Float:
        return from_float(e)
    if e.is_Add or e.is_Mul:
        args = [sym2e(a) for a in e.args]
        r = args[0]
        for a in args[1:]:
            r = f"(.{'add' if e.is_Add else 'mul'} {r} {a})"
        return r
    if e.is_Pow:
        b, x = e.args
        if x == -1:
            return f"(.inv {sym2e(b)})"
        return f"(.pow {sym2e(b)} {sym2e(x)})"
    fn = type(e).__name__
    if fn in ("tanh", "coth", "cosh", "sinh") and len(e.args) == 1:
        return f"(.{fn} {sym2e(e.args[0])})"
    raise Untranslatable("sympy node " + fn)


def translate_tlm(out, names_out, untranslatable):
    """General transmission line model: the branch formulas `_eqNN` (numeric) and the return expressions of
    `_sympy` (symbolic), plus the shared auxiliaries lm, cs, ct, s."""
    global RENAME, SELF_CLASS
    from pyimpspec.circuit.transmission_line_model import TransmissionLineModel as T
    import sys as _sys
    set_ambient(_sys.modules[T.__module__])
    eqs = ["_eq8", "_eq16", "_eq17", "_eq18", "_eq18_variant", "_eq19", "_eq20"]
    try:
        RENAME = {}
        SELF_CLASS = T
        for m in eqs:
            out.append(f"/-- `TransmissionLineModel.{m}` -/\ndef Tlm{m}_impl : E := {translate_function(getattr(T, m))}")
        # auxiliaries of `_impedance`
        src = textwrap.dedent(inspect.getsource(T._impedance))
        fn = ast.parse(src).body[0]
        aux = {}
        for st in ast.walk(fn):
            if isinstance(st, ast.AnnAssign) and isinstance(st.target, ast.Name) and st.target.id in ("lm", "cs", "ct", "s") and st.value is not None:
                RENAME = {"ze": "ze", "x1": "x1", "x2": "x2"}
                aux[st.target.id] = py2e(st.value, {})
        for k in ("lm", "cs", "ct", "s"):
            if k not in aux:
                raise Untranslatable(f"auxiliary {k} of Tlm._impedance not found")
            out.append(f"def Tlm_{k}_impl : E := {aux[k]}")
        # symbolic side
        src = textwrap.dedent(inspect.getsource(T._sympy))
        fn = ast.parse(src).body[0]
        RENAME = {"x": "X", "z": "Z", "Cs": "cs", "Ct": "ct", "S": "s"}
        auxs = {}
        for st in fn.body:
            if isinstance(st, ast.Assign) and len(st.targets) == 1 and isinstance(st.targets[0], ast.Name) and st.targets[0].id in ("lm", "Cs", "Ct", "S"):
                auxs[RENAME.get(st.targets[0].id, st.targets[0].id)] = py2e(st.value, {})
        for k in ("lm", "cs", "ct", "s"):
            if k not in auxs:
                raise Untranslatable(f"auxiliary {k} of Tlm._sympy not found")
            out.append(f"def Tlm_{k}_sym : E := {auxs[k]}")
        rets = [n for n in ast.walk(fn) if isinstance(n, ast.Return)]
        rets.sort(key=lambda n: n.lineno)
        order = ["_eq20", "_eq8", "_eq18_variant", "_eq18", "_eq17", "_eq19", "_eq16"]
        if len(rets) != len(order):
            raise Untranslatable(f"Tlm._sympy has {len(rets)} return statements, expected {len(order)}")
        for m, r in zip(order, rets):
            out.append(f"/-- return expression of `TransmissionLineModel._sympy` paired with `{m}` -/\ndef Tlm{m}_sym : E := {py2e(r.value, {})}")
        names_out.extend(eqs)
    except Untranslatable as ex:
        untranslatable.append({"what": "TransmissionLineModel", "detail": str(ex)})
    finally:
        RENAME = {}
        SELF_CLASS = None


def translate_analysis(out, names_out, untranslatable):
    """`_calculate_residuals`, `_boukamp_weight`, `_calculate_pseudo_chisqr` of analysis/utility.py (per point)."""
    import pyimpspec.analysis.utility as U
    set_ambient(U)
    try:
        INLINE["_boukamp_weight"] = return_expr(U._boukamp_weight)
        out.append(f"/-- `_calculate_residuals(Z_exp, Z_fit)`, one point -/\ndef residual : E := {translate_function(U._calculate_residuals)}")
        out.append(f"/-- `_boukamp_weight(Z_exp)`, one point -/\ndef boukampWeight : E := {translate_function(U._boukamp_weight)}")
        out.append(f"/-- the summand of `_calculate_pseudo_chisqr(Z_exp, Z_fit)` with the default (Boukamp) weight, one point -/\ndef chisqrTerm : E := {translate_function(U._calculate_pseudo_chisqr)}")
        names_out.extend(["residual", "boukampWeight", "chisqrTerm"])
    except Untranslatable as ex:
        untranslatable.append({"what": "analysis/utility.py kernels", "detail": str(ex)})


def branches_on(fn_obj, flag):
    """For a function of the form `if <flag>: return A else: return B`, or containing a conditional expression
    `A if <flag> else B`: the pair of translated terms (flag true, flag false)."""
    src = textwrap.dedent(inspect.getsource(fn_obj))
    fn = ast.parse(src).body[0]
    for st in ast.walk(fn):
        if isinstance(st, ast.If) and isinstance(st.test, ast.Name) and st.test.id == flag and len(st.body) == 1 and isinstance(st.body[0], ast.Return) \
                and len(st.orelse) == 1 and isinstance(st.orelse[0], ast.Return):
            return py2e(st.body[0].value, {}), py2e(st.orelse[0].value, {})
    exprs = [n for n in ast.walk(fn) if isinstance(n, ast.IfExp) and isinstance(n.test, ast.Name) and n.test.id == flag]
    if exprs:
        terms = {(py2e(n.body, {}), py2e(n.orelse, {})) for n in exprs}
        if len(terms) != 1:
            raise Untranslatable(f"{fn.name}: the conditional expressions on `{flag}` differ between the branches of the function")
        return terms.pop()
    raise Untranslatable(f"{fn.name}: no branch on `{flag}` found")


def translate_kk(out, names_out, untranslatable):
    """Columns of the design matrix of the linear Kramers-Kronig tests (least_squares.py), both representations."""
    import pyimpspec.analysis.kramers_kronig.least_squares as LS
    set_ambient(LS)
    try:
        for name, fn in (("kth", LS._calculate_kth_A_matrix_variables), ("cap", LS._add_capacitance_to_A_matrix), ("ind", LS._add_inductance_to_A_matrix)):
            y, z = branches_on(fn, "admittance")
            out.append(f"/-- `{fn.__name__}`, admittance branch -/\ndef kk_{name}_Y : E := {y}")
            out.append(f"/-- `{fn.__name__}`, impedance branch -/\ndef kk_{name}_Z : E := {z}")
            names_out.append(name)
    except Untranslatable as ex:
        untranslatable.append({"what": "Kramers-Kronig design matrix columns", "detail": str(ex)})


def translate_zhit(out, names_out, untranslatable):
    """Z-HIT: the reconstruction formula of `_reconstruct` (both representation branches) and the residual of
    the offset fit `_offset_residual`."""
    import pyimpspec.analysis.zhit.reconstruction as RC
    import pyimpspec.analysis.zhit.offset as OF
    set_ambient(RC, OF)
    try:
        src = textwrap.dedent(inspect.getsource(RC._reconstruct))
        fn = ast.parse(src).body[0]
        env = {}
        for st in ast.walk(fn):
            if isinstance(st, ast.Assign) and len(st.targets) == 1 and isinstance(st.targets[0], ast.Name) and st.targets[0].id == "gamma":
                env["gamma"] = py2e(st.value, {})
        if "gamma" not in env:
            raise Untranslatable("_reconstruct: gamma not found")
        found = None
        for st in ast.walk(fn):
            if isinstance(st, ast.If) and isinstance(st.test, ast.Name) and st.test.id == "admittance" and len(st.body) == 1 and len(st.orelse) == 1:
                a, b = st.body[0], st.orelse[0]
                ok = all(isinstance(x, ast.Expr) and isinstance(x.value, ast.Call) and isinstance(x.value.func, ast.Attribute) and x.value.func.attr == "append"
                         and len(x.value.args) == 1 for x in (a, b))
                if ok:
                    found = (py2e(a.value.args[0], env), py2e(b.value.args[0], env))
        if found is None:
            raise Untranslatable("_reconstruct: the `if admittance: ln_modulus.append(...)` statement was not found")
        out.append(f"/-- `_reconstruct`: value appended for one frequency, admittance branch -/\ndef zhit_rec_Y : E := {found[0]}")
        out.append(f"/-- `_reconstruct`: value appended for one frequency, impedance branch -/\ndef zhit_rec_Z : E := {found[1]}")
        # offset residual: parameters.valuesdict()["offset"] is the variable `offset`
        src = textwrap.dedent(inspect.getsource(OF._offset_residual))
        fn = ast.parse(src).body[0]
        env = {}
        for st in fn.body:
            if isinstance(st, ast.AnnAssign) and isinstance(st.target, ast.Name) and st.target.id == "offset":
                env["offset"] = '(.var "offset")'
            elif isinstance(st, ast.AnnAssign) and isinstance(st.target, ast.Name) and st.value is not None:
                env[st.target.id] = py2e(st.value, env)
            elif isinstance(st, ast.Return):
                out.append(f"/-- `_offset_residual`, one point -/\ndef zhit_offset_residual : E := {py2e(st.value, env)}")
        names_out.extend(["rec", "offset_residual"])
    except Untranslatable as ex:
        untranslatable.append({"what": "Z-HIT kernels", "detail": str(ex)})


def translate_fit(out, names_out, untranslatable):
    """C12: the two rows (real, imaginary) of the error term of `_residual` and of the four weight functions."""
    import pyimpspec.analysis.fitting as FT
    set_ambient(FT)
    try:
        src = textwrap.dedent(inspect.getsource(FT._residual))
        fn = ast.parse(src).body[0]
        rows = None
        for st in ast.walk(fn):
            if isinstance(st, ast.AnnAssign) and isinstance(st.target, ast.Name) and st.target.id == "errors" and isinstance(st.value, ast.Call) \
                    and isinstance(st.value.func, ast.Name) and st.value.func.id == "array" and isinstance(st.value.args[0], ast.List) and len(st.value.args[0].elts) == 2:
                rows = [py2e(e, {}) for e in st.value.args[0].elts]
        ret = [n for n in ast.walk(fn) if isinstance(n, ast.Return)]
        if rows is None or len(ret) != 1 or ast.unparse(ret[0].value) != "weight_func(Z_exp, Z_fit) * errors":
            raise Untranslatable("_residual: expected `errors = array([re, im])` and `return weight_func(Z_exp, Z_fit) * errors`")
        out.append(f"/-- `_residual`: squared error of the real part, one point -/\ndef fit_err_re : E := {rows[0]}")
        out.append(f"/-- `_residual`: squared error of the imaginary part, one point -/\ndef fit_err_im : E := {rows[1]}")
        if sorted(FT._WEIGHT_FUNCTIONS) != ["boukamp", "modulus", "proportional", "unity"]:
            raise Untranslatable(f"unexpected weight functions {sorted(FT._WEIGHT_FUNCTIONS)}")
        for wname, wfn in FT._WEIGHT_FUNCTIONS.items():
            src = textwrap.dedent(inspect.getsource(wfn))
            fn = ast.parse(src).body[0]
            env = {}
            row = None
            for st in fn.body:
                if isinstance(st, ast.AnnAssign) and isinstance(st.target, ast.Name) and st.value is not None:
                    t = py2e(st.value, env)
                    env[f"{st.target.id}[0]"] = t
                    env[f"{st.target.id}[1]"] = t
                    env[st.target.id] = None
                elif isinstance(st, ast.Assign) and len(st.targets) == 1 and isinstance(st.targets[0], ast.Subscript) and isinstance(st.targets[0].value, ast.Name) \
                        and isinstance(st.targets[0].slice, ast.Constant):
                    key = f"{st.targets[0].value.id}[{st.targets[0].slice.value}]"
                    env[key] = py2e(st.value, env)
                elif isinstance(st, ast.Return):
                    if isinstance(st.value, ast.Name) and f"{st.value.id}[0]" in env:
                        row = (env[f"{st.value.id}[0]"], env[f"{st.value.id}[1]"])
                    else:
                        t = py2e(st.value, env)
                        row = (t, t)
                elif isinstance(st, ast.Expr) and isinstance(st.value, ast.Constant):
                    continue
                else:
                    raise Untranslatable(f"{fn.name}: statement {ast.unparse(st)[:60]}")
            if row is None:
                raise Untranslatable(f"{fn.name}: no return")
            out.append(f"/-- `{fn.name}`, real row -/\ndef fit_w_{wname}_re : E := {row[0]}")
            out.append(f"/-- `{fn.name}`, imaginary row -/\ndef fit_w_{wname}_im : E := {row[1]}")
            names_out.append(wname)
    except Untranslatable as ex:
        untranslatable.append({"what": "fitting kernels", "detail": str(ex)})


def translate_drt(out, names_out, untranslatable):
    """C13: the entries of the TR-NNLS matrix (real / imaginary mode), the peak extraction of the Loewner method and
    the analytic distributions of m(RQ)fit."""
    import pyimpspec.analysis.drt.tr_nnls as TR
    import pyimpspec.analysis.drt.lm as LM
    import pyimpspec.analysis.drt.mrq_fit as MF
    set_ambient(TR, LM, MF)
    try:
        # ---- TR-NNLS
        fn = ast.parse(textwrap.dedent(inspect.getsource(TR._generate_A_matrix))).body[0]
        prod = [st for st in ast.walk(fn) if isinstance(st, ast.Assign) and isinstance(st.targets[0], ast.Name) and st.targets[0].id == "product"]
        row = [st for st in ast.walk(fn) if isinstance(st, ast.Assign) and isinstance(st.targets[0], ast.Subscript) and ast.unparse(st.targets[0]) == "A[i, :]"]
        if len(prod) != 1 or ast.unparse(prod[0].value) != "omega[i] * tau" or len(row) != 1:
            raise Untranslatable("_generate_A_matrix: expected `product = omega[i] * tau` and one assignment to `A[i, :]`")
        env = {"product": '(.mul (.var "omega") (.var "tau"))'}
        out.append(f"/-- `_generate_A_matrix`, entry (i, k), real mode -/\ndef trnnls_A_re : E := {py2e(row[0].value, dict(env, **{'?is_imaginary': False}))}")
        out.append(f"/-- `_generate_A_matrix`, entry (i, k), imaginary mode -/\ndef trnnls_A_im : E := {py2e(row[0].value, dict(env, **{'?is_imaginary': True}))}")
        fn = ast.parse(textwrap.dedent(inspect.getsource(TR._generate_b_vector))).body[0]
        ret = [n for n in ast.walk(fn) if isinstance(n, ast.Return)]
        if len(ret) != 1 or ast.unparse(ret[0].value) != "A.T @ (-Z_norm.imag if is_imaginary else Z_norm.real)":
            raise Untranslatable("_generate_b_vector: expected `A.T @ (-Z_norm.imag if is_imaginary else Z_norm.real)`")
        fn = ast.parse(textwrap.dedent(inspect.getsource(TR._normalize_impedance))).body[0]
        got = [ast.unparse(st) for st in fn.body if not isinstance(st, ast.Return)]
        want = ["R_inf: float = Z[0].real", "Z_norm: ComplexImpedances = Z - R_inf", "R_pol: float = Z_norm[-1].real - Z_norm[0].real", "Z_norm /= R_pol"]
        if got != want:
            raise Untranslatable(f"_normalize_impedance: statements differ from the modelled ones: {got}")
        names_out.extend(["trnnls_A", "trnnls_b(shape)", "trnnls_normalize(shape)"])
        # ---- Loewner method
        fn = ast.parse(textwrap.dedent(inspect.getsource(LM._extract_peaks))).body[0]
        env = {"eigenvalues": '(.var "lambda")', "residues": '(.var "residue")'}
        found = {}
        for st in ast.walk(fn):
            if isinstance(st, ast.AnnAssign) and isinstance(st.target, ast.Name) and st.target.id in ("time_constants", "gammas") and st.value is not None:
                found[st.target.id] = py2e(st.value, env)
        res = [ast.unparse(st.value) for st in ast.walk(fn) if isinstance(st, ast.AnnAssign) and isinstance(st.target, ast.Name) and st.target.id == "residues"]
        if set(found) != {"time_constants", "gammas"} or res != ["Bt * Ct.T"]:
            raise Untranslatable("_extract_peaks: expected assignments to time_constants, gammas and residues = Bt * Ct.T")
        out.append(f"/-- `_extract_peaks`: time constant of one pole -/\ndef lm_tau : E := {found['time_constants']}")
        out.append(f"/-- `_extract_peaks`: gamma of one pole -/\ndef lm_gamma : E := {found['gammas']}")
        names_out.append("lm_peaks")
        # ---- m(RQ)fit
        fn = ast.parse(textwrap.dedent(inspect.getsource(MF._calculate_tau_gamma))).body[0]
        ifs = [st for st in ast.walk(fn) if isinstance(st, ast.If) and ast.unparse(st.test) == "isclose(abs(n), 1.0, atol=0.01)"]
        t0 = [ast.unparse(st.value) for st in ast.walk(fn) if isinstance(st, ast.AnnAssign) and isinstance(st.target, ast.Name) and st.target.id == "tau_0"]
        if len(ifs) != 1 or t0 != ["(R * Y) ** (1.0 / n)"]:
            raise Untranslatable("_calculate_tau_gamma: expected `tau_0 = (R * Y) ** (1.0 / n)` and one branch on isclose(abs(n), 1.0, atol=0.01)")
        a, b = ifs[0].body, ifs[0].orelse
        if not (len(a) == 1 and len(b) == 1 and all(isinstance(x, ast.AugAssign) and isinstance(x.op, ast.Add) and ast.unparse(x.target) == "gamma" for x in (a[0], b[0]))):
            raise Untranslatable("_calculate_tau_gamma: expected `gamma += ...` in both branches")
        out.append(f"/-- `_calculate_tau_gamma`: contribution of an (RC) element (|n| within 0.01 of 1, n >= 0) -/\ndef mrq_gamma_rc : E := {py2e(a[0].value, {'?n < 0.0': False})}")
        out.append(f"/-- `_calculate_tau_gamma`: contribution of an (RQ) element -/\ndef mrq_gamma_rq : E := {py2e(b[0].value, {})}")
        out.append(f"/-- `_calculate_tau_gamma`: the characteristic time constant -/\ndef mrq_tau0 : E := {py2e(ast.parse(t0[0], mode='eval').body, {})}")
        names_out.append("mrq_gamma")
    except Untranslatable as ex:
        untranslatable.append({"what": "DRT kernels", "detail": str(ex)})


def translate_kkauto(out, names_out, untranslatable):
    """C10: the noise <-> pseudo chi-squared conversion of kramers_kronig/utility.py and the standard deviation of
    the mock data's noise model (`sd = noise / 100 * abs(Z_ideal)` in `_add_noise`)."""
    import pyimpspec.analysis.kramers_kronig.utility as KU
    import pyimpspec.mock_data as MD
    set_ambient(KU, MD)
    try:
        out.append(f"/-- `_estimate_pct_noise(Z, pseudo_chisqr)` with N = len(Z) -/\ndef est_pct_noise : E := {translate_function(KU._estimate_pct_noise)}")
        out.append(f"/-- `_estimate_pseudo_chisqr(Z, pct_noise)` with N = len(Z) -/\ndef est_pseudo_chisqr : E := {translate_function(KU._estimate_pseudo_chisqr)}")
        src = textwrap.dedent(inspect.getsource(MD._add_noise))
        fn = ast.parse(src).body[0]
        sd = None
        for st in ast.walk(fn):
            if isinstance(st, ast.AnnAssign) and isinstance(st.target, ast.Name) and st.target.id == "sd" and st.value is not None:
                sd = py2e(st.value, {})
        if sd is None:
            raise Untranslatable("_add_noise: the assignment of `sd` was not found")
        normal = [ast.unparse(n) for n in ast.walk(fn) if isinstance(n, ast.Call) and isinstance(n.func, ast.Attribute) and n.func.attr == "normal"]
        if sorted(normal) != ["rs.normal(0, sd)", "rs.normal(0, sd)"]:
            raise Untranslatable(f"_add_noise: expected two draws rs.normal(0, sd) (real and imaginary part), found {normal}")
        out.append(f"/-- `_add_noise`: standard deviation of the two independent zero-mean normal draws added to Re and Im -/\ndef noise_sd : E := {sd}")
        names_out.extend(["est_pct_noise", "est_pseudo_chisqr", "noise_sd"])
        # the target number of RC elements: where the extrapolated initial descent of log(chi2) reaches the lowest value.
        # `_calculate_intercept_of_lines` and its two call sites in `_estimate_target_num_RC` (arguments inlined)
        import pyimpspec.analysis.kramers_kronig.exploratory as EX
        import pyimpspec.analysis.kramers_kronig.algorithms.utility.pseudo_chi_squared as PC
        set_ambient(KU, MD, EX, PC)
        params, body = return_expr(PC._calculate_intercept_of_lines)
        if params != ["s1", "o1", "s2", "o2"]:
            raise Untranslatable(f"_calculate_intercept_of_lines: parameters {params}")
        out.append(f"/-- `_calculate_intercept_of_lines(s1, o1, s2, o2)` -/\ndef intercept_of_lines : E := {py2e(body, {})}")
        fn = ast.parse(textwrap.dedent(inspect.getsource(EX._estimate_target_num_RC))).body[0]
        calls = [n for n in ast.walk(fn) if isinstance(n, ast.Call) and isinstance(n.func, ast.Name) and n.func.id == "_calculate_intercept_of_lines"]
        calls.sort(key=lambda n: n.lineno)
        if len(calls) != 2 or any(len(c.args) != 4 or c.keywords for c in calls):
            raise Untranslatable("_estimate_target_num_RC: expected two positional calls of _calculate_intercept_of_lines")
        names = {"p[0]": "p0", "p[1]": "p1", "min(y)": "ymin", "slope": "slope", "intercept": "intercept", "xy[1]": "ybest"}

        def arg(a):
            t = ast.unparse(a)
            if t in names:
                return f'(.var "{names[t]}")'
            return py2e(a, {})
        for label, c in (("target_fallback", calls[0]), ("target_main", calls[1])):
            binding = dict(zip(params, [arg(a) for a in c.args]))
            out.append(f"/-- `_estimate_target_num_RC`: the call `{ast.unparse(c)}` with its arguments inlined -/\ndef {label} : E := {subst(body, binding)}")
        names_out.extend(["intercept_of_lines", "target_fallback", "target_main"])
    except Untranslatable as ex:
        untranslatable.append({"what": "KK noise kernels", "detail": str(ex)})


def generate(gen_dir, untranslatable):
    from sympy import sympify
    from pyimpspec.circuit.registry import get_elements
    from pyimpspec.circuit.base import Container
    import translate

    out = ["-- GENERATED by harness/translate_kernels.py from /repo's element classes. Do not edit.",
           "import PyImpSpec.Expr", "", "namespace Gen.K", ""]
    names = []
    for sym, cls in get_elements(private=True).items():
        if issubclass(cls, Container):
            continue
        try:
            impl = translate_function(cls._impedance)
            eqn = sym2e(sympify(cls._equation))
        except Untranslatable as ex:
            untranslatable.append({"what": f"element {sym}", "detail": str(ex)})
            continue
        out.append(f"/-- `{cls.__name__}._impedance` -/\ndef {sym}_impl : E := {impl}")
        out.append(f"/-- sympify of the equation string `{cls._equation}` -/\ndef {sym}_eqn : E := {eqn}")
        names.append(sym)
    tlm_names = []
    translate_tlm(out, tlm_names, untranslatable)
    ana = []
    translate_analysis(out, ana, untranslatable)
    zh = []
    translate_zhit(out, zh, untranslatable)
    out.append("def zhitKernels : List String := [" + ", ".join(f'"{n}"' for n in zh) + "]")
    dk = []
    translate_drt(out, dk, untranslatable)
    out.append("def drtKernels : List String := [" + ", ".join(f'"{n}"' for n in dk) + "]")
    fw = []
    translate_fit(out, fw, untranslatable)
    out.append("def fitWeights : List String := [" + ", ".join(f'"{n}"' for n in fw) + "]")
    ka = []
    translate_kkauto(out, ka, untranslatable)
    out.append("def kkAutoKernels : List String := [" + ", ".join(f'"{n}"' for n in ka) + "]")
    kk = []
    translate_kk(out, kk, untranslatable)
    out.append("def kkColumns : List String := [" + ", ".join(f'"{n}"' for n in kk) + "]")
    out.append("def analysisKernels : List String := [" + ", ".join(f'"{n}"' for n in ana) + "]")
    out.append("")
    out.append("def tlmBranches : List String := [" + ", ".join(f'"{n}"' for n in tlm_names) + "]")
    out.append("/-- the non-container element classes currently registered -/")
    out.append("def names : List String := [" + ", ".join(f'"{n}"' for n in names) + "]")
    out.append("def impls : List (String × E) := [" + ", ".join(f'("{n}", {n}_impl)' for n in names) + "]")
    out.append("def eqns : List (String × E) := [" + ", ".join(f'("{n}", {n}_eqn)' for n in names) + "]")
    # safety net: the model files and the driver refer to these definitions by name; when one could not be translated a
    # placeholder keeps the driver building (so the failing-input search can still run) while every theorem and
    # cross-check about it fails
    expected = ["residual", "boukampWeight", "chisqrTerm", "zhit_rec_Y", "zhit_rec_Z", "zhit_offset_residual", "trnnls_A_re", "trnnls_A_im", "lm_tau", "lm_gamma",
                "mrq_gamma_rc", "mrq_gamma_rq", "mrq_tau0", "fit_err_re", "fit_err_im", "fit_w_unity_re", "fit_w_unity_im", "fit_w_modulus_re", "fit_w_modulus_im",
                "fit_w_proportional_re", "fit_w_proportional_im", "fit_w_boukamp_re", "fit_w_boukamp_im", "est_pct_noise", "est_pseudo_chisqr", "noise_sd", "intercept_of_lines", "target_fallback", "target_main",
                "kk_kth_Y", "kk_kth_Z", "kk_cap_Y", "kk_cap_Z", "kk_ind_Y", "kk_ind_Z"]
    for m in ["_eq8", "_eq16", "_eq17", "_eq18", "_eq18_variant", "_eq19", "_eq20"]:
        expected += [f"Tlm{m}_impl", f"Tlm{m}_sym"]
    for k in ("lm", "cs", "ct", "s"):
        expected += [f"Tlm_{k}_impl", f"Tlm_{k}_sym"]
    import re as _re
    defined = set(_re.findall(r"^def (\w+) : E", "\n".join(out), flags=_re.M))
    for name in expected:
        if name not in defined:
            out.append(f"/-- PLACEHOLDER: this kernel could not be translated from the current source (see the translator report) -/\ndef {name} : E := .var \"__untranslatable__\"")
            untranslatable.append({"what": f"placeholder emitted for {name}", "detail": "definition missing after translation"})
    out.append("")
    out.append("end Gen.K")
    changed = translate.write_if_changed(os.path.join(gen_dir, "Kernels.lean"), "\n".join(out) + "\n")
    return {"kernels": names, "changed": changed, "primitive_bindings_checked": PRIM_CHECKS["checked"]}

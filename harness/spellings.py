"""Grammar-directed printer of circuit description codes: knows the intended syntax tree and prints it in
the alternative spellings the syntax allows (the generator is the oracle of C03).

Intended trees are circgen trees whose element nodes carry a full state:
  ('E', symbol, {key: (value, lower, upper, fixed)}, label, {sub key: tree | None | 'short'})"""
import math

LABELS = ["", "", "", "a", "ct", "a b", "x1", "R_2", "dl{1}", "a:b", "q=1/2", "p,q", "b(x)", "c[y]", "z!", "w%", "A-1", "e1e5", "F", "inf", "short"]
# labels set_label accepts but the tokenizer cannot read back (known finding F5)
BAD_LABELS = ["1abc", "(x)", "a}b", "_x", "-a"]


def fnum(rnd, x, style=None):
    """a decimal spelling of the double x that float() maps back to exactly x"""
    if math.isinf(x):
        return "inf"
    style = style or rnd.choice(["r", "e", "E17", "int"])
    if style == "int" and x == int(x) and abs(x) < 1e15:
        return str(int(x))
    if style == "e":
        s = repr(x)
        return s
    if style == "E17":
        return "%.17E" % x
    return repr(x)


def default_state(cls):
    return {k: (cls.get_default_value(k), cls.get_default_lower_limit(k), cls.get_default_upper_limit(k), cls.is_fixed_by_default(k)) for k in cls.get_default_values()}


def with_state(rnd, t, labels=True, move_limits=0.3):
    """Turn a circgen tree (values only) into a tree with full per-parameter state."""
    from pyimpspec import get_elements
    els = get_elements(private=True)
    if t[0] in "SP":
        return (t[0], [with_state(rnd, c, labels, move_limits) for c in t[1]])
    _, sym, ps, label, subs = t
    cls = els[sym]
    st = {}
    for k, v in ps.items():
        dlo, dhi, dfx = cls.get_default_lower_limit(k), cls.get_default_upper_limit(k), cls.is_fixed_by_default(k)
        lo, hi = dlo, dhi
        r = rnd.random()
        if r < move_limits:
            # limits around the value, possibly far outside the class defaults, possibly infinite
            m = rnd.choice(["tight", "wide", "inf-lo", "inf-hi", "both-inf", "beyond"])
            a = abs(v) if v != 0 else 1.0
            if m == "tight":
                lo, hi = v - 0.5 * a, v + 0.5 * a
            elif m == "wide":
                lo, hi = v - 1e3 * a, v + 1e3 * a
            elif m == "inf-lo":
                lo, hi = -math.inf, v + a
            elif m == "inf-hi":
                lo, hi = v - a, math.inf
            elif m == "both-inf":
                lo, hi = -math.inf, math.inf
            else:
                lo, hi = v, v * 2 + 1.0 if v >= 0 else v / 2 + 1.0
            lo, hi = float("%.5e" % lo) if not math.isinf(lo) else lo, float("%.5e" % hi) if not math.isinf(hi) else hi
            if not (lo <= v <= hi and lo < hi):
                lo, hi = dlo, dhi
        fx = dfx if rnd.random() < 0.6 else (rnd.random() < 0.5)
        st[k] = (v, lo, hi, fx)
    lab = rnd.choice(LABELS) if labels else ""
    return ("E", sym, st, lab, {k: (s if s in (None, "short") else with_state(rnd, s, labels, move_limits)) for k, s in subs.items()})


def build(t):
    """Real objects from a tree with full state, through the public API."""
    from pyimpspec import Series, Parallel, get_elements
    if t[0] == "S":
        return Series([build(c) for c in t[1]])
    if t[0] == "P":
        return Parallel([build(c) for c in t[1]])
    _, sym, st, label, subs = t
    cls = get_elements(private=True)[sym]
    kw = {k: v[0] for k, v in st.items()}
    for k, s in subs.items():
        kw[k] = None if s is None else (Series([]) if s == "short" else build(s))
    e = cls(**kw)
    for k, (v, lo, hi, fx) in st.items():
        # any order of setter calls that is valid: widen first
        if hi > e.get_lower_limit(k):
            e.set_upper_limits(k, hi) if hi != e.get_upper_limit(k) else None
            e.set_lower_limits(k, lo) if lo != e.get_lower_limit(k) else None
        else:
            e.set_lower_limits(k, lo)
            e.set_upper_limits(k, hi)
        e.set_values(k, v)
        e.set_fixed(k, fx)
    e.set_label(label)
    return e


def ws(rnd, p=0.15):
    return rnd.choice([" ", "  ", "\t", "\n"]) if rnd.random() < p else ""


def spell_element(rnd, t, allow_omit=True):
    from pyimpspec import get_elements
    _, sym, st, label, subs = t
    cls = get_elements(private=True)[sym]
    dflt = default_state(cls)
    entries = []
    for k, (v, lo, hi, fx) in st.items():
        dv, dlo, dhi, dfx = dflt[k]
        if allow_omit and (v, lo, hi, fx) == (dv, dlo, dhi, dfx) and rnd.random() < 0.7:
            continue
        s = f"{k}{ws(rnd)}={ws(rnd)}{fnum(rnd, v)}"
        if fx:
            s += rnd.choice(["F", "f"])
        omit_lo = lo == dlo and rnd.random() < 0.5
        omit_hi = hi == dhi and rnd.random() < 0.5
        if fx != dfx and not fx:
            pass  # unfixing cannot be spelled by omission: the marker's absence means "not fixed"
        if omit_lo and omit_hi:
            pass
        elif omit_lo:
            s += f"{ws(rnd)}/{ws(rnd)}/{ws(rnd)}{fnum(rnd, hi)}"
        else:
            lo_s = fnum(rnd, lo)
            if rnd.random() < 0.3 and v != 0 and not math.isinf(lo) and lo != 0:
                p_ = lo * 100 / v
                if p_ > 0 and v * p_ / 100 == lo and float(repr(p_)) == p_ and "e" not in repr(p_):
                    lo_s = repr(p_) + ws(rnd) + "%"
            s += f"{ws(rnd)}/{ws(rnd)}{lo_s}"
            if not omit_hi:
                s += f"{ws(rnd)}/{ws(rnd)}{fnum(rnd, hi)}"
        entries.append(s)
    # omitted fixed flag: the parser sets fixed from the marker whenever the parameter is listed; an omitted
    # parameter keeps the class default — handled by the omission rule above
    for k, s in subs.items():
        dsub = "default"
        if s is None:
            entries.append(f"{k}{ws(rnd)}={ws(rnd)}{rnd.choice(['open', 'inf'])}")
        elif s == "short":
            entries.append(f"{k}{ws(rnd)}={ws(rnd)}{rnd.choice(['short', 'zero'])}")
        else:
            bare = s[0] == "S" and rnd.random() < 0.4
            if bare:
                entries.append(f"{k}={''.join(spell(rnd, c) for c in s[1])}")
            else:
                entries.append(f"{k}={spell(rnd, s)}")
    rnd.shuffle(entries)
    body = (ws(rnd) + "," + ws(rnd)).join(entries)
    if label:
        body += f"{ws(rnd)}:{label}"
    if not body and rnd.random() < 0.7:
        return sym
    return f"{sym}{ws(rnd, 0.05)}{{{ws(rnd)}{body}{ws(rnd)}}}"


def spell(rnd, t, top=False):
    if t[0] == "E":
        return spell_element(rnd, t)
    inner = ws(rnd).join(spell(rnd, c) for c in t[1])
    if t[0] == "S":
        if top and rnd.random() < 0.5 and len(t[1]) >= 1:
            return inner
        return f"[{ws(rnd)}{inner}{ws(rnd)}]"
    return f"({ws(rnd)}{inner}{ws(rnd)})"


def spell_circuit(rnd, t):
    s = spell(rnd, t, top=True)
    if rnd.random() < 0.3:
        s = rnd.choice(["!V=1!", "!v=1!", "! V = 1 !"]) + s
    if rnd.random() < 0.2:
        s = " " + s + "\n"
    return s


def flat(x):
    """canonical structure up to merging directly nested same-kind connections and unwrapping singleton
    series (the property's equivalence); x is a real object"""
    from pyimpspec import Series, Parallel
    from pyimpspec.circuit.base import Container
    from canon import fval
    if isinstance(x, (Series, Parallel)):
        kind = "S" if isinstance(x, Series) else "P"
        items = []
        for c in x._elements:
            f = flat(c)
            if f[0] == kind:
                items.extend(f[1])
            else:
                items.append(f)
        if kind == "S" and len(items) == 1:
            return items[0]
        return (kind, items)
    lo, hi, fx = x.get_lower_limits(), x.get_upper_limits(), x.are_fixed()
    ps = tuple((k, fval(v), fval(lo[k]), fval(hi[k]), fx[k]) for k, v in x.get_values().items())
    subs = ()
    if isinstance(x, Container):
        def fs(c):
            if c is None:
                return "open"
            f = flat(c)
            if f == ("S", []):
                return "short"
            return f if f[0] == "S" else ("S", [f])
        subs = tuple((k, fs(c)) for k, c in sorted(x.get_subcircuits().items()))
    return ("E", x.get_symbol(), ps, x.get_label(), subs)


def flat_top(circuit):
    f = flat(circuit._elements)
    return f if f[0] == "S" else ("S", [f])

"""Predicates that classify failing inputs as instances of a known finding, and witness replays.
Known findings live in /verif/known_findings.json (committed; never written at run time).
A predicate receives the failing-input entry built by Ctx.add_failing; `witness_<id>()` returns True
when the listed witness still fails on the implementation."""
import warnings

warnings.filterwarnings("ignore")


# ---- F25 (C04): accepted codes whose Tlm sub-circuit configuration is refused with NotImplementedError
def tlm_config_not_implemented(entry):
    return entry.get("what") == "simulate" and entry.get("observed") == "NotImplementedError" and "Tlm" in str(entry.get("input"))


def witness_F25():
    from pyimpspec import parse_cdc

    try:
        parse_cdc("Tlm{X_1=open}").get_impedances([1.0])
    except NotImplementedError:
        return True
    except Exception:
        return False
    return False


# ---- F27 (C04): non-finite values are accepted and printed but cannot be read back
def nonfinite_value_not_reparsed(entry):
    obs = str(entry.get("observed"))
    return entry.get("what") == "reserialise" and ("INF" in obs or "NAN" in obs)


def witness_F27():
    from pyimpspec import parse_cdc

    try:
        parse_cdc(parse_cdc("R{R=1e999}").serialize())
    except Exception:
        return True
    return False


# ---- F28 (C01): nested all-open parallel raises instead of acting as an open branch
def nested_all_open_parallel(entry):
    i = entry.get("input")
    return (entry.get("what") in ("construction-independence", "composition-law") and isinstance(i, dict)
            and ("Xo{" in i.get("cdc", "") or "Xp{" in i.get("cdc", "")) and i.get("all_open_parallel") is True)


def witness_F28():
    import sys, os
    sys.path.insert(0, os.path.dirname(os.path.abspath(__file__)))
    import circgen
    import numpy as np
    from pyimpspec import Circuit, Parallel, Resistor
    from pyimpspec.exceptions import InfiniteImpedance
    Open = circgen.register_open_element()
    try:
        try:
            Circuit(Parallel([Resistor(), Parallel([Open(), Open()])])).get_impedances(np.array([1.0]))
        except InfiniteImpedance:
            return True
        return False
    finally:
        circgen.unregister_open_element()


# ---- F5 (C03): labels accepted by set_label that the tokenizer cannot read back
def label_not_tokenizable(entry):
    i = entry.get("input")
    return isinstance(i, dict) and i.get("bad_label") is True and entry.get("what") in ("spelling", "roundtrip-rejected", "roundtrip-differs", "reserialise-not-identical")


def witness_F5():
    from pyimpspec import Resistor, parse_cdc
    e = Resistor()
    e.set_label("1abc")
    try:
        parse_cdc(e.to_string(1))
    except Exception:
        return True
    return False


# ---- F24 (C03): limits closer than the printed precision
def limits_collapse_at_printed_precision(entry):
    i = entry.get("input")
    return isinstance(i, dict) and i.get("collapse") is True and entry.get("what") in ("roundtrip-rejected", "roundtrip-differs", "reserialise-not-identical")


def witness_F24():
    from pyimpspec import Resistor, parse_cdc
    e = Resistor(R=1.02)
    e.set_upper_limits(R=1.04)
    e.set_lower_limits(R=1.0)
    try:
        parse_cdc(e.to_string(1))
    except Exception:
        return True
    return False


# ---- F13 (C20): circuits outside the parser's normal form cannot be drawn
def outside_parser_normal_form(entry):
    i = entry.get("input")
    return isinstance(i, dict) and i.get("normal_form") is False and entry.get("what") in ("circuitikz-fails-outside-normal-form", "drawing-fails-outside-normal-form")


def witness_F13():
    from pyimpspec import Circuit, Parallel, Resistor
    try:
        Circuit(Parallel([Resistor()])).to_circuitikz()
    except ValueError:
        return True
    return False


# ---- F22/F21 (C18): tiny spectra are not refused up front
def tiny_spectrum_not_refused_up_front(entry):
    i = entry.get("input")
    if not (isinstance(i, dict) and entry.get("what") == "aborts"):
        return False
    opts = i.get("options", {})
    size = opts.get("data")
    ent = i.get("entry", "")
    obs = str(entry.get("observed"))
    table = {
        "calculate_drt[tr-nnls]": (("n1",), "IndexError"),
        "perform_kramers_kronig_test": (("n1", "n2", "n3", "tiny"), "ValueError"),
        "perform_zhit": (("n1",), "ValueError"),
        "calculate_drt[lm]": (("tiny", "n5"), "TypeError"),
    }
    if ent in table and size in table[ent][0] and obs.startswith(table[ent][1]):
        if ent == "calculate_drt[lm]" and opts.get("model_order_method") != "pseudo_chisqr":
            return False
        return True
    return False


def witness_F22():
    import numpy as np
    from pyimpspec import DataSet, calculate_drt
    try:
        calculate_drt(DataSet(np.array([1.0]), np.array([1 + 1j])), method="tr-nnls")
    except IndexError:
        return True
    except Exception:
        return False
    return False


# ---- F20 (C07): CNLS test, admittance representation
def cnls_admittance_not_exact(entry):
    i = entry.get("input")
    return isinstance(i, dict) and entry.get("what") == "own-model-not-reproduced" and i.get("test") == "cnls"


def witness_F20():
    import random
    import numpy as np
    import sys, os
    sys.path.insert(0, os.path.dirname(os.path.abspath(__file__)))
    from props.c07 import gen_spectrum
    from pyimpspec import DataSet, perform_kramers_kronig_test
    rnd = random.Random(1)
    f, Z, x, taus, c = gen_spectrum(rnd, True, False, True, 10, -0.2, 4.0, 8)
    r = perform_kramers_kronig_test(DataSet(f, Z), test="cnls", num_RC=10, add_capacitance=False, add_inductance=True, admittance=True, log_F_ext=-0.2,
                                    num_F_ext_evaluations=0, num_procs=1, max_nfev=2000)
    return bool(np.max(np.abs(r.residuals)) > 1e-3)


# ---- F31 (C11): a Whittaker-Henderson smoother of order 1 penalises first differences, so it flattens linear data
def whithend_order_one_linear(entry):
    i = entry.get("input")
    return (isinstance(i, dict) and entry.get("what") == "smoother-changes-linear" and i.get("smoothing") == "whithend" and i.get("polynomial_order") == 1)


def witness_F31():
    import numpy as np
    from pyimpspec.analysis.zhit.smoothing import _smooth_phase
    ph = 0.1 - 0.05 * np.arange(50)
    out = _smooth_phase("whithend", 5, 1, 3, np.linspace(12, -3, 50), ph.copy())
    return bool(np.max(np.abs(out - ph)) > 1e-6)


# ---- F32 (C11): Savitzky-Golay with an even num_points is evaluated half a sample off-centre
def savgol_even_window_linear(entry):
    i = entry.get("input")
    return (isinstance(i, dict) and entry.get("what") == "smoother-changes-linear" and i.get("smoothing") == "savgol" and isinstance(i.get("num_points"), int)
            and i.get("num_points") % 2 == 0)


def witness_F32():
    import numpy as np
    from pyimpspec.analysis.zhit.smoothing import _smooth_phase
    ph = 0.1 - 0.05 * np.arange(50)
    out = _smooth_phase("savgol", 4, 2, 3, np.linspace(12, -3, 50), ph.copy())
    return bool(abs(np.max(np.abs(out - ph)) - 0.025) < 1e-6)


# ---- F33 (C12): the limits of a constrained parameter clip the value of its constraint expression
def constraint_clipped_by_limits(entry):
    i = entry.get("input")
    if not (isinstance(i, dict) and entry.get("what") == "constraint-violated"):
        return False
    cs = i.get("constraint_values", {})
    lo, hi, lhs, rhs = cs.get("lo"), cs.get("hi"), cs.get("lhs"), cs.get("rhs")
    if None in (lo, hi, lhs, rhs):
        return False
    at_lo = abs(lhs - lo) <= 1e-9 * max(abs(lo), 1e-300) and rhs < lo
    at_hi = abs(lhs - hi) <= 1e-9 * max(abs(hi), 1e-300) and rhs > hi
    return at_lo or at_hi


def witness_F33():
    import numpy as np
    from pyimpspec import DataSet, fit_circuit, parse_cdc
    true = parse_cdc("R{R=10}(R{R=100}C{C=1e-5})")
    f = np.logspace(5, -1, 40)
    start = parse_cdc("R{R=10}(R{R=40/5/50}C{C=1e-5})")
    r = fit_circuit(start, DataSet(f, true.get_impedances(f)), method="least_squares", weight="boukamp", num_procs=1,
                    constraint_expressions={"R_1": "R_0 * ratio"}, constraint_variables={"ratio": dict(value=4.0, min=1e-6, max=1e6)})
    p = r.minimizer_result.params
    return bool(abs(p["R_1"].value - p["R_0"].value * p["ratio"].value) > 1e-6 * p["R_1"].value)


# ---- F34 (C09): real-inv with a capacitance nullifies it with the dimensional constant 1e-18 before its second stage
def real_inv_guard_constant(entry):
    i = entry.get("input")
    if not (isinstance(i, dict) and i.get("test") == "real-inv" and i.get("add_capacitance") is True and i.get("transformation") == "Zscale"):
        return False
    what = entry.get("what")
    try:
        if what == "residuals-not-invariant":
            return float(str(entry.get("observed")).split()[-1]) <= 1e-3
        if what == "chisqr-not-invariant":
            a, b = float(entry.get("observed")), float(entry.get("expected"))
            return abs(a - b) <= 1e-3 * max(abs(a), abs(b))
    except (TypeError, ValueError):
        return False
    return False


def witness_F34():
    import numpy as np
    from pyimpspec import DataSet, generate_mock_data, perform_kramers_kronig_test
    d = generate_mock_data("CIRCUIT_5", noise=1e-2, seed=1)[0]
    f, Z = d.get_frequencies(), d.get_impedances()
    kw = dict(test="real-inv", num_RC=4, add_capacitance=True, add_inductance=True, admittance=True, log_F_ext=0.0, num_F_ext_evaluations=0, num_procs=1)
    a = perform_kramers_kronig_test(DataSet(f, Z), **kw)
    b = perform_kramers_kronig_test(DataSet(f, 1e6 * Z), **kw)
    dev = float(np.max(np.abs(np.asarray(a.residuals) - np.asarray(b.residuals))))
    return bool(1e-9 < dev < 1e-2)

"""Shared machinery of the check driver (see DESIGN.md §0/§1).

Outcome logic of every check:
  1. regenerate Gen/*.lean from /repo, `lake build` the property's Props module, audit axioms and
     forbidden tokens, run the correspondence check (model driver vs real implementation).
  2. all green -> replay the witnesses of the known findings, print KNOWN-FINDING lines, exit 0.
  3. a proof obligation / the translator / the correspondence broke -> NOT a violation by itself:
     run the failing-input search on the implementation; report VIOLATION with the failing input as
     replay, or VIOLATION ... no-failing-input-found naming what no longer checks.
  4. infrastructure trouble -> exit 2, never a VIOLATION line.
"""
import fcntl
import json
import os
import re
import subprocess
import sys
import time
import traceback

VERIF = os.path.dirname(os.path.dirname(os.path.abspath(__file__)))
LEAN = os.path.join(VERIF, "lean")
HARNESS = os.path.join(VERIF, "harness")
EVIDENCE = os.path.join(VERIF, "evidence")
REPLAYS = os.path.join(EVIDENCE, "replays")
PY = "/venv/bin/python"
STD_AXIOMS = {"propext", "Classical.choice", "Quot.sound"}
FORBIDDEN = re.compile(r"\bsorry\b|\badmit\b|^axiom\s|\bnative_decide\b|\bbv_decide\b|implemented_by|\bunsafe\s|maxHeartbeats\s+0\b", re.M)


class Infra(Exception):
    """infrastructure trouble: exit 2, never a VIOLATION"""


def log(*a):
    print(*a, file=sys.stderr, flush=True)


# ----------------------------------------------------------------------------- build / audit


class BuildLock:
    def __enter__(self):
        os.makedirs(os.path.join(LEAN, ".lake"), exist_ok=True)
        self.fh = open(os.path.join(LEAN, ".lake", "verif.lock"), "w")
        fcntl.flock(self.fh, fcntl.LOCK_EX)
        return self

    def __exit__(self, *a):
        fcntl.flock(self.fh, fcntl.LOCK_UN)
        self.fh.close()


def run_translator():
    """Regenerate Gen/*.lean from /repo's working tree. Returns the translator's report."""
    r = subprocess.run([PY, os.path.join(HARNESS, "translate.py")], capture_output=True, text=True, cwd=VERIF)
    if r.returncode != 0:
        # the translator imports pyimpspec; if the package itself no longer imports that is a broken tie
        return {"untranslatable": [{"what": "translator crashed", "detail": (r.stderr or r.stdout)[-2000:]}]}
    try:
        return json.loads(r.stdout.strip().splitlines()[-1])
    except Exception:
        return {"untranslatable": [{"what": "translator output unreadable", "detail": r.stdout[-2000:]}]}


def lake_build(targets):
    """lake build of the given module targets. Returns (ok, log_text)."""
    cmd = ["lake", "build"] + list(targets)
    try:
        r = subprocess.run(cmd, cwd=LEAN, capture_output=True, text=True, timeout=3000)
    except FileNotFoundError:
        raise Infra("lake not found")
    except subprocess.TimeoutExpired:
        raise Infra("lake build timed out")
    out = r.stdout + r.stderr
    return r.returncode == 0, out


def strip_comments(src):
    # remove nested block comments and line comments
    out = []
    i, n, depth = 0, len(src), 0
    while i < n:
        if src.startswith("/-", i):
            depth += 1
            i += 2
        elif src.startswith("-/", i) and depth > 0:
            depth -= 1
            i += 2
        elif depth > 0:
            if src[i] == "\n":
                out.append("\n")
            i += 1
        elif src.startswith("--", i):
            while i < n and src[i] != "\n":
                i += 1
        else:
            out.append(src[i])
            i += 1
    return "".join(out)


def forbidden_tokens():
    hits = []
    for root, _d, files in os.walk(os.path.join(LEAN, "PyImpSpec")):
        for f in files:
            if f.endswith(".lean"):
                p = os.path.join(root, f)
                src = strip_comments(open(p).read())
                for m in FORBIDDEN.finditer(src):
                    line = src.count("\n", 0, m.start()) + 1
                    hits.append(f"{os.path.relpath(p, LEAN)}:{line}: {m.group(0).strip()}")
    return hits


def property_theorems(pid):
    """Names of the theorems stated in Props/<pid>.lean (the obligations of the property)."""
    path = os.path.join(LEAN, "PyImpSpec", "Props", f"{pid}.lean")
    src = strip_comments(open(path).read())
    ns = []
    names = []
    for line in src.splitlines():
        m = re.match(r"\s*namespace\s+(\S+)", line)
        if m:
            ns.append(m.group(1))
            continue
        m = re.match(r"\s*end\s+(\S+)", line)
        if m and ns and ns[-1] == m.group(1):
            ns.pop()
            continue
        m = re.match(r"\s*(?:@\[[^\]]*\]\s*)?(?:private\s+|protected\s+)?theorem\s+(\S+)", line)
        if m:
            names.append(".".join(ns + [m.group(1)]))
    return names


def audit_axioms(pid, names):
    """`#print axioms` for every property theorem. Returns {name: [axioms]} (missing name = not checked)."""
    os.makedirs(os.path.join(LEAN, ".lake", "audit"), exist_ok=True)
    path = os.path.join(LEAN, ".lake", "audit", f"Audit_{pid}_{os.getpid()}.lean")
    with open(path, "w") as fh:
        fh.write(f"import PyImpSpec.Props.{pid}\n")
        for n in names:
            fh.write(f"#print axioms {n}\n")
    try:
        r = subprocess.run(["lake", "env", "lean", path], cwd=LEAN, capture_output=True, text=True, timeout=1200)
    finally:
        try:
            os.remove(path)
        except OSError:
            pass
    out = r.stdout + r.stderr
    res = {}
    for m in re.finditer(r"'(\S+)' depends on axioms: \[([^\]]*)\]", out):
        res[m.group(1)] = [a.strip() for a in m.group(2).replace("\n", " ").split(",") if a.strip()]
    for m in re.finditer(r"'(\S+)' does not depend on any axioms", out):
        res[m.group(1)] = []
    return res, out


def broken_theorems(build_log):
    """Map `error:` lines of a failed build to the enclosing theorem names."""
    broken = []
    for m in re.finditer(r"error: (\S+?\.lean):(\d+):(\d+): (.*)", build_log):
        rel, line, msg = m.group(1), int(m.group(2)), m.group(4)
        name = "?"
        try:
            src = open(os.path.join(LEAN, rel)).read().splitlines()
            for i in range(min(line, len(src)) - 1, -1, -1):
                mm = re.match(r"\s*(?:@\[[^\]]*\]\s*)?(?:private\s+)?(?:theorem|lemma|def|example|instance|abbrev)\s+(\S+)?", src[i])
                if mm:
                    name = mm.group(1) or "example"
                    break
        except OSError:
            pass
        broken.append({"file": rel, "line": line, "decl": name, "message": msg[:300]})
    if not broken:
        for m in re.finditer(r"error: (.*)", build_log):
            broken.append({"file": "?", "line": 0, "decl": "?", "message": m.group(1)[:300]})
    return broken


# ----------------------------------------------------------------------------- model driver

_DRIVER_OK = None


def run_driver(lines, timeout=3000):
    """Pipe request lines to the Lean model driver, return the reply lines."""
    if not lines:
        return []
    inp = "".join(l + "\n" for l in lines)
    r = subprocess.run(["lake", "env", "lean", "--run", "Driver/Main.lean"], cwd=LEAN, input=inp,
                       capture_output=True, text=True, timeout=timeout)
    if r.returncode != 0:
        raise DriverBroken((r.stderr or r.stdout)[-3000:])
    out = r.stdout.splitlines()
    if len(out) != len(lines):
        raise DriverBroken(f"driver returned {len(out)} lines for {len(lines)} requests: {r.stderr[-1000:]}")
    return out


class DriverBroken(Exception):
    pass


def hexs(s):
    return s.encode("utf-8", "surrogatepass").hex()


# ----------------------------------------------------------------------------- context


class Ctx:
    def __init__(self, pid, tier, seed):
        self.pid = pid
        self.tier = tier
        self.seed = seed
        self.t0 = time.time()
        self.broken = []          # proof obligations / translator / correspondence streams that no longer check
        self.failing = []         # failing inputs found on the implementation: dicts {what, input, ...}
        self.known_hits = []      # known findings reproduced
        self.coverage = {}
        self.samples = []
        self.assumptions = []
        self.counters = {}
        self.evaluations = 0
        self.nontrivial = set()
        self.rule = ""
        self.undecided = []
        self._findings = load_findings()

    @property
    def thorough(self):
        return self.tier == "thorough"

    def rng(self, stream=0):
        import numpy as np

        return np.random.Generator(np.random.PCG64([self.seed, stream, sum(map(ord, self.pid))]))

    def pyrandom(self, stream=0):
        import random

        return random.Random(f"{self.seed}-{stream}-{self.pid}")

    def count(self, key, n=1):
        self.counters[key] = self.counters.get(key, 0) + n

    def sample(self, s, limit=12):
        if len(self.samples) < limit:
            self.samples.append(s)

    def note_case(self, key, nontrivial=True):
        self.evaluations += 1
        if nontrivial:
            self.nontrivial.add(repr(key))

    # -- results
    def add_broken(self, kind, name, detail):
        self.broken.append({"kind": kind, "name": name, "detail": detail})
        log(f"[{self.pid}] BROKEN {kind} {name}: {str(detail)[:400]}")

    def add_failing(self, what, inp, observed=None, expected=None, repro=None, clause=None):
        """A concrete input on which the IMPLEMENTATION violates the property."""
        entry = {"what": what, "input": inp, "observed": observed, "expected": expected, "repro_cmd": repro, "clause": clause}
        k = match_finding(self._findings, self.pid, entry)
        if k is not None:
            entry["known"] = k["id"]
            if k["id"] not in [h["id"] for h in self.known_hits]:
                self.known_hits.append({"id": k["id"], "what": k["what"]})
            return False
        self.failing.append(entry)
        log(f"[{self.pid}] FAILING INPUT {what}: {str(inp)[:300]} observed={str(observed)[:200]} expected={str(expected)[:200]}")
        return True


# ----------------------------------------------------------------------------- known findings


def load_findings():
    p = os.path.join(VERIF, "known_findings.json")
    try:
        return json.load(open(p))["findings"]
    except FileNotFoundError:
        return []


def match_finding(findings, pid, entry):
    import findings as F

    for k in findings:
        if k.get("status") != "known" or pid not in k.get("properties", [k.get("property")]):
            continue
        pred = getattr(F, k["match"]["predicate"], None)
        if pred is None:
            continue
        try:
            if pred(entry, **k["match"].get("args", {})):
                return k
        except Exception:
            continue
    return None


def replay_known(ctx):
    """Replay the witness of every `known` finding of this property on the implementation."""
    import findings as F

    for k in ctx._findings:
        if k.get("status") != "known" or ctx.pid not in k.get("properties", [k.get("property")]):
            continue
        fn = getattr(F, "witness_" + k["id"], None)
        still = True
        if fn is not None:
            try:
                still = bool(fn())
            except Exception as e:  # the witness itself crashing = still failing
                still = True
        if still:
            if k["id"] not in [h["id"] for h in ctx.known_hits]:
                ctx.known_hits.append({"id": k["id"], "what": k["what"]})
        else:
            ctx.known_hits = [h for h in ctx.known_hits if h["id"] != k["id"]]
            log(f"[{ctx.pid}] known finding {k['id']} no longer reproduces")


# ----------------------------------------------------------------------------- evidence + verdict


def write_replay(ctx, kind, payload):
    os.makedirs(REPLAYS, exist_ok=True)
    n = len([f for f in os.listdir(REPLAYS) if f.startswith(f"{ctx.pid}-{ctx.seed}-")])
    path = os.path.join(REPLAYS, f"{ctx.pid}-{ctx.seed}-{n}.json")
    payload = dict(payload)
    payload.update({"property": ctx.pid, "kind": kind, "seed": ctx.seed, "tier": ctx.tier})
    with open(path, "w") as fh:
        json.dump(payload, fh, indent=1, default=str)
    return os.path.relpath(path, VERIF)


def write_evidence(ctx, obligations, discharged, axioms, checker_cmd, violations):
    os.makedirs(EVIDENCE, exist_ok=True)
    cov = {
        "obligations": max(obligations, 0),
        "discharged": discharged,
        "checker_cmd": checker_cmd,
        "trusted_base": sorted(axioms) + [
            "Lean 4.33 kernel",
            "harness/translate.py (regenerates Gen/*.lean from /repo)",
            "correspondence check: Lean model driver vs real implementation on generated inputs (differential testing)",
        ],
        "evaluations": ctx.evaluations,
        "distinct_nontrivial": len(ctx.nontrivial),
        "rule": ctx.rule,
        "samples": ctx.samples or ["(no correspondence samples recorded)"],
        "correspondence": ctx.counters,
        "broken": ctx.broken,
        "known_findings_reproduced": ctx.known_hits,
        "undecided_clauses": ctx.undecided,
    }
    cov.update(ctx.coverage)
    ev = {
        "property_id": ctx.pid,
        "tier": ctx.tier,
        "seed": ctx.seed,
        "level": "proof",
        "coverage": cov,
        "assumptions": ctx.assumptions,
        "wall_s": round(time.time() - ctx.t0, 2),
        "violations": violations,
    }
    if obligations < 1 or discharged < 1:
        # the schema requires >= 1 for a proof claim; fall back to the generic keys
        cov.pop("obligations"), cov.pop("discharged")
        cov["obligations_total"] = obligations
        cov["discharged_total"] = discharged
        cov["evaluations"] = max(cov["evaluations"], 1)
        cov["distinct_nontrivial"] = max(cov["distinct_nontrivial"], 2)
    with open(os.path.join(EVIDENCE, f"{ctx.pid}.json"), "w") as fh:
        json.dump(ev, fh, indent=1, default=str)


def prepare(ctx, extra_targets=()):
    """Step 1 of the outcome logic, shared by all properties. Returns (theorems, axioms_used)."""
    with BuildLock():
        rep = run_translator()
        for u in rep.get("untranslatable", []):
            ctx.add_broken("translator", u.get("what", "untranslatable"), u.get("detail", ""))
        ctx.coverage["translator"] = {k: v for k, v in rep.items() if k != "untranslatable"}
        ok, blog = lake_build([f"PyImpSpec.Props.{ctx.pid}"] + list(extra_targets))
        if not ok:
            for b in broken_theorems(blog):
                ctx.add_broken("proof", f"{b['decl']} ({b['file']}:{b['line']})", b["message"])
    names = property_theorems(ctx.pid)
    axioms_used = set()
    discharged = 0
    if ok:
        res, out = audit_axioms(ctx.pid, names)
        for n in names:
            if n not in res:
                ctx.add_broken("audit", n, "no `#print axioms` output: " + out[-300:])
                continue
            extra = set(res[n]) - STD_AXIOMS
            if extra:
                ctx.add_broken("audit", n, f"depends on non-standard axioms {sorted(extra)}")
                continue
            axioms_used |= set(res[n])
            discharged += 1
        bad = forbidden_tokens()
        if bad:
            ctx.add_broken("audit", "forbidden-token", bad[:10])
            discharged = 0
    ctx.coverage["theorems"] = names
    return names, axioms_used, discharged


def finish(ctx, names, axioms_used, discharged):
    """Steps 2/3: verdict, evidence, exit code."""
    replay_known(ctx)
    for h in ctx.known_hits:
        print(f"KNOWN-FINDING: property={ctx.pid} {h['id']} {h['what']}")
    checker_cmd = f"cd lean && lake build PyImpSpec.Props.{ctx.pid} && lake env lean <#print axioms of {len(names)} theorems>"
    code = 0
    nviol = 0
    if ctx.failing:
        f0 = ctx.failing[0]
        path = write_replay(ctx, "failing-input", {"failing": ctx.failing[:20], "broken": ctx.broken})
        print(f"VIOLATION property={ctx.pid} replay={path}")
        nviol = len(ctx.failing)
        code = 1
    elif ctx.broken:
        path = write_replay(ctx, "no-failing-input-found", {"broken": ctx.broken,
                            "note": "a proof obligation, the translator or the model/implementation correspondence no longer checks; the failing-input search found no input on which the implementation violates the property"})
        print(f"VIOLATION property={ctx.pid} replay={path} no-failing-input-found")
        nviol = 1
        code = 1
    write_evidence(ctx, len(names), discharged if not ctx.broken else min(discharged, len(names) - 1 if any(b['kind'] in ('proof', 'audit') for b in ctx.broken) else discharged),
                   axioms_used, checker_cmd, nviol)
    log(f"[{ctx.pid}] tier={ctx.tier} seed={ctx.seed} theorems={len(names)} discharged={discharged} evals={ctx.evaluations} "
        f"broken={len(ctx.broken)} failing={len(ctx.failing)} known={len(ctx.known_hits)} wall={time.time() - ctx.t0:.1f}s exit={code}")
    return code

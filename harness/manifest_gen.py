"""Writes MANIFEST.json from the table below (kept as code so that it stays consistent)."""
import json
import os

VERIF = os.path.dirname(os.path.dirname(os.path.abspath(__file__)))
TECH_H = "Lean 4 theorems over a hand-written executable model + differential correspondence check against the implementation"
TECH_T = "Lean 4 theorems over a model regenerated from the source on every run (translator) + cross-check"
NOTE = ("Trusted: Lean 4.33 kernel; axioms propext, Classical.choice, Quot.sound only (audited with #print axioms on every run; no sorry/native_decide/bv_decide); "
        "harness/translate.py; the correspondence check (differential testing, generator quality bounds what it sees). ")

CHECKS = {
    "C11": dict(
        text="The reconstruction formula of _reconstruct (both representation branches) and the residual of the offset fit are re-translated from /repo on every run. Proved: the admittance and impedance branches are the same formula 2/pi*I + gamma*D with gamma = -pi/6 (rec_branches_agree, rec_Z_formula); for EVERY constant-phase immittance K*(j*omega)^alpha with K > 0 and -1 <= alpha <= 1 (R, C, L, Q, W; any parameters) and any two positive angular frequencies the formula applied to the exact phase returns exactly ln|Z(w0)| - ln|Z(ws)| (zhit_exact_constant_phase, via norm_Zcp / arg_Zcp); the offset objective only depends on points with non-zero weight (offset_ignores_zero_weights), its minimiser is unique and equals the exact offset whenever one exists and some weight is non-zero (offset_unique_of_exact), and adding ln c to the measured ln|Z| shifts the objective - hence the fitted offset and the reconstruction - by exactly ln c (offset_shift); a kernel with unit sum and vanishing first moment reproduces constant and linear data (conv_preserves_affine). Tie: the real _reconstruct / _offset_residual are run on inputs with known integral and derivative and compared with the translated terms. PARTIAL: quadrature, the four SciPy interpolators, the five smoothers as implemented, lmfit's minimisation and the 'few percent' clause for ladders are decided by the direct oracle on perform_zhit with frozen bands (incl. agreement with the ideal two-term formula on the analytic phase, which pins sign and size of the derivative term).",
        ref="§4 C11", tech=TECH_T,
        note=NOTE + "scipy.integrate.quad, scipy.interpolate, scipy.signal.savgol_filter, statsmodels LOWESS and lmfit are runtime; the integral of the phase is Mathlib's interval integral."),
    "C09": dict(
        text="Proved (on C07's regenerated design-matrix columns and the hand model of _generate_time_constants, whose Float instance is compared with the implementation): multiplying all frequencies by c > 0 divides every time constant by c (tau_closed_form, tau_scale) and multiplies each column by a fixed non-zero factor (kth_Z_scale … ind_Y_scale), i.e. A(c w, tau/c) = A(w, tau) D; least-squares problems are equivariant: scaling the right-hand side scales the minimisers (lsq_scale_rhs: impedance units), an invertible diagonal rescaling of the columns rescales the minimisers inversely (lsq_scale_columns: frequency units), permuting the rows leaves them unchanged (lsq_row_perm: point order); relative residuals are invariant under a common scaling of data and model (residual_scale_invariant). PARTIAL: that the numerical solvers return the equivariant minimiser (conditioning, SVD cut-offs, the dimensional guard constants of the matrix-inversion tests) is decided by the metamorphic oracle on the implementation with tolerances.",
        ref="§4 C09", tech=TECH_T,
        note=NOTE + "numpy.linalg (lstsq/pinv/inv) is replaced by its specification; runs whose design matrix has a condition number above 1e8 (before or after the transformation) are outside the quantifier."),
    "C07": dict(
        text="The design-matrix columns of least_squares.py and the element kernels R, K, Ky, C, L are re-translated from /repo on every run. Proved for ALL angular frequencies != 0, any number of RC elements and all variable vectors: every real / imaginary row of A.x is the real / imaginary part of the immittance of the circuit that _update_circuit builds from x, in the impedance representation (series R, K elements, C = 1/x_C, L = x_L: rows_represent_model_Z) and in the admittance representation (parallel R = 1/x_0, Ky elements, C = x_C, L = -1/x_L: rows_represent_model_Y) - this is where a wrong column, sign or reciprocal lives; a least-squares minimiser of a consistent system solves it exactly, recovers the generating variables under full column rank, and the normal equations of the matrix-inversion tests do (lsq_exact_of_consistent, lsq_recovers, normal_equations_exact). Ties: translator cross-check; the row statements re-checked on the real _generate_A_matrix/_generate_circuit/_update_circuit. PARTIAL: 'zero to numerical precision', parameter recovery, the two-stage real/imaginary procedures, the matrix-inversion variants' own matrices and the non-linear test are decided by the end-to-end oracle with tolerances (conditioning, lstsq/pinv/inv, lmfit are runtime).",
        ref="§4 C07", tech=TECH_T,
        note=NOTE + "numpy.linalg and lmfit are replaced by their specifications (least-squares minimiser) in the theorems."),
    "C06": dict(
        text="Proved on the model of _detect_columns: for EVERY header row in which each quantity occurs at most once and every header is a recognised alias, optionally preceded by '-' or U+2212 and optionally followed by a unit suffix starting (after at most one blank) with '(' '/' or '[' - any alias, any marker, any suffix text, any column order - every quantity is mapped to its own column and flagged sign-inverted exactly when marked (classify_header, detect_columns_correct; the finite core over 26 aliases x 3 markers x 6 suffix starts is decided by kernel evaluation, the arbitrary suffix tail by a prefix lemma); the CLI's own header row is detected (cli_header_is_detected). Proved on the model of _split_sweeps: the concatenation of k >= 1 strictly monotone runs whose junctions break the direction is split into exactly those runs (split_sweeps_concat). Ties: both functions compared with the model on generated and adversarial inputs. PARTIAL: separators, decimal marks, polar/cartesian extraction and the instrument layouts (.mpt .i2b .P00 .dfr .dta .z) are decided by the direct oracle on real temporary files.",
        ref="§4 C06", tech=TECH_H,
        note=NOTE + "pandas (read_csv, separator sniffing, dtype inference), str.lower/str.strip and file encodings are runtime."),
    "C15": dict(
        text="Proved on the model of the registry dictionaries: after ANY history of registrations (valid, inconsistent, duplicate-symbol, invalid-symbol, incomplete, built-in class; private or not), removals, resets and default-value changes the tables stay dictionaries, every built-in symbol is still registered and still maps to its original class (builtins_preserved), reset() makes the element table equal to the built-in table again (reset_restores_elements), a definition whose impedance contradicts its equation is refused without touching the table (inconsistent_refused), and a definition whose class is a built-in class is refused outright (builtin_class_refused). Tie: random histories compared step by step (get_elements with all four flag combinations and the built-in classes' default values) with the real registry. PARTIAL: 'the parser recognises exactly the registered symbols', longest-symbol tokenisation and restoration of the private-flag table / class default values after reset are checked on the implementation (and by the correspondence), not proved.",
        ref="§4 C15", tech=TECH_H,
        note=NOTE + "_validate_impedances is an abstract predicate of the definition; class objects are numbers."),
    "C08": dict(
        text="The residual, Boukamp-weight and pseudo-chi-squared kernels of analysis/utility.py are re-translated from /repo on every run and it is proved for ALL complex data/model values with Z_exp != 0 and any number of points that the pseudo chi-squared equals the sum of the squared moduli of the relative residuals (chisqrTerm_eq_normSq_residual, chisqr_eq_sum_normSq_residuals), and that the residual kernel is (Z_exp - Z_fit)/|Z_exp| (residual_formula). The translator is cross-checked on every run. PARTIAL: the assembly of each result object (frequencies = unmasked frequencies, which impedances/residuals/chi-squared go into which field, attached circuit), non-interference of masked points (garbage on masked points -> bit-identical results) and untouched inputs are decided by the direct oracle on every entry point, not by a model.",
        ref="§4 C08", tech=TECH_T,
        note=NOTE + "Division by |Z_exp| = 0 (inf/nan in numpy) is excluded by hypothesis; numerical code inside the analyses is runtime."),
    "C20": dict(
        text="Proved on the model of both phases of to_circuitikz (layout in exact quarter/whole units, one command per dictionary entry): for every circuit whose parallel connections have at least two branches - everything parse_cdc and the builder return - the source is produced, the start_y == end_y error branch is unreachable at any depth/width (tikz_total), and whenever the export succeeds the number of component commands equals the number of elements, containers counted once (component_count); a single-branch parallel does fail (single_branch_parallel_fails, known finding F13). Tie: every drawing command and coordinate of the real to_circuitikz compared with the model for exhaustive small topologies (incl. shapes only object construction can produce) and random larger circuits. PARTIAL: component names, begin/end balance, and the existence of to_sympy / to_latex / to_drawing and their variable sets are checked on the implementation only.",
        ref="§4 C20", tech=TECH_H,
        note=NOTE + "sympy, schemdraw and matplotlib are runtime."),
    "C16": dict(
        text="Proved on the model of the traversal and identifier generation: every element object reachable from the circuit, nested in containers at any depth, is visited exactly once (elements_nodup_complete); the running identifiers are exactly 0..N-1 in traversal order (running_ids_are_range); for every type the per-type identifiers are 1..k without gaps (type_counts_from_one); '{parameter}_{index}' names are injective for arbitrary parameter symbols and the index can be read back by splitting at the last underscore (param_names_injective). Tie: traversal order, both identifier maps and display names compared with the real methods for exhaustive small and random circuits (nested containers, repeated types, shared objects). PARTIAL: uniqueness of display names in the presence of labels and the use of the same maps by the consumers (fit identifiers; sympy variables and diagram labels via C20) are checked on the implementation.",
        ref="§4 C16", tech=TECH_H,
        note=NOTE + "Object identity is modelled by an integer per element object."),
    "C03": dict(
        text="PARTIAL. Proved for ALL trees of elements (any depth/branching) at token level: parsing the basic-syntax tokens of a circuit pushes exactly its normal form (same-kind nesting merged, singleton series unwrapped, order preserved) and leaves the rest of the parser stack untouched (roundtrip_structure, roundtrip_structure_registry against the current registry) - the reason sub-circuits cannot capture siblings. The remaining clauses (parameter lists, labels, limits, sub-circuits, numbers, alternative spellings, identical re-serialisation, deep copies) are decided by the generator-as-oracle stream: a grammar-directed printer that knows the intended tree prints every circuit in alternative spellings; parse_cdc must return the intended circuit; every text is also parsed by the Lean model of tokenizer+parser, which reproduces float() bit-exactly (round-to-nearest-even over exact rationals), so values are compared exactly.",
        ref="§4 C03", tech=TECH_H,
        note=NOTE + "'%.{d}E' formatting is not modelled (runtime)."),
    "C18": dict(
        text="Proved on the model of progress.py over exact rationals: from a valid state every operation either raises the bookkeeping ValueError exactly when the counter would exceed the total, or yields a valid state and a fraction in [0,1] (step_unit), hence every notification of every operation sequence carries a fraction in [0,1] (emitted_fractions_in_unit_interval); perform_zhit announces exactly as many steps as it performs for every combination of smoothing/interpolation/window/custom-weight options and any number of window functions (zhit_increments_eq_total; the old accounting overshoots: old_zhit_accounting_overshoots), likewise fit_circuit. Tie: Progress is wrapped from the harness; every analysis run of the option cross product replays its recorded operations in the model and compares totals, increments and emitted fractions. PARTIAL: completion of the numerical code for each option combination (the full cross product in the thorough tier, a seeded sample in the quick tier) and the step accounting of the Kramers-Kronig and DRT entry points are conformance testing on the implementation, classified by the oracle (no IndexError/KeyError/…, no bookkeeping abort, no TypeError/ValueError escaping from inside numpy/scipy/lmfit).",
        ref="§4 C18", tech=TECH_H,
        note=NOTE + "numerical failures inside numpy/scipy/lmfit and float accumulation in _RECENT_PROGRESS are runtime."),
    "C17": dict(
        text="Proved on the selection model (sorted(results, key)[0] as a stable merge sort): any two completion orders select the same winner when the minimal key is unique (pickBest_perm), the selected key is minimal whatever the order, so tied runs can only differ among equal keys (pickBest_key_minimal, pickBest_keys_agree), ordered collection (imap/map) is schedule-free outright, and the two unordered stages of Z-HIT compose (zhit_two_stage). Tie: the real entry points run with the Pool replaced by an in-process pool that permutes completion order; the keys actually collected are sent to the model and its winner compared with the returned result; the theorem's hypothesis (unique minimum, no NaN keys) is measured. PARTIAL: determinism of worker code across processes, the OS scheduler and repeatability of the numerical code are checked on the implementation only (permuted in-process pools, real pools with several process counts, repetition, mock-data seeds).",
        ref="§4 C17", tech=TECH_H,
        note=NOTE + "multiprocessing and the OS scheduler are runtime; observed, not modelled."),
    "C02": dict(
        text="For every registered non-container element the Python body of _impedance and the sympified equation string are re-translated from /repo on every run into terms of one expression language, and `evalC impl = evalC eqn` is proved for ALL complex parameter values and frequencies (22 theorems <Sym>_impl_eq_eqn; all_elements_covered fails when an element has no theorem). General transmission line: the seven branch formulas (_eqNN vs the return expressions of _sympy) and the auxiliaries lm/cs/ct/s are re-translated and proved equal, the two if/elif decision trees are modelled and proved to select the same formula with the same roles, hence numeric = symbolic for ALL 3^5 configurations and all values (tlm_numeric_eq_symbolic). Ties: translator cross-check on every run (generated terms evaluated by the Lean driver at complex floats vs the Python kernels and sympy); the Tlm model is run against the real _impedance and to_sympy on all 243 configurations. PARTIAL: whole-circuit symbolic composition and the 0 Hz / infinite-frequency limits are decided by the direct oracle on the implementation only.",
        ref="§4 C02", tech=TECH_T,
        note=NOTE + "numpy real powers/sqrt of non-negative reals are read as principal complex powers; IEEE rounding/overflow and sympy's evaluation and limit engines are runtime (sympy calls are time-limited; time-outs are skipped and counted)."),
    "C14": dict(
        text="Proved on the model of the setters/reset/copy: after ANY call history (valid/invalid arguments, keyword/positional forms, refused or half-refused calls) every parameter has lower < upper (step_inv, history_inv); accepted limits clamp the value exactly as stated (lower_clamps, upper_clamps); NaN limits are refused; a refused single update leaves the element unchanged; ANY valid pair of limits can be applied to ANY valid state (setBoth_succeeds), hence reset restores the class defaults from every valid state (reset_restores_defaults) and copies equal the original (copy_equals_original, container_copy_equals_original under the property's in-limits proviso); the defaults of the CURRENT registry are valid (decide over the generated table). Tie: random call histories on every registered class compared call by call with the real objects. PARTIAL: reset/copy exactness is proved per parameter; the list-level glue (dict iteration, key lookup) is covered by the correspondence and by the invariant theorems only; aliasing/independence is checked on the implementation only.",
        ref="§4 C14", tech=TECH_H,
        note=NOTE + "Floats are modelled as exact rationals of their shortest repr with +-inf and NaN; Python object aliasing cannot be expressed in a pure model."),
    "C05": dict(
        text="Proved for ALL inputs/histories on the DataSet model: ascending input + mask presents exactly the supplied (f,Z,mask) triples reversed and equals the descending construction with re-indexed mask (construct_asc_refines, construct_asc_eq_desc); representation invariant and frequency immutability over every operation history (step_inv, history_inv); low_pass/high_pass/subtract act on each point's own data (…_refines); unmasked+masked views partition the full view in every reachable state (views_partition_reachable); export->import is the identity, also without optional keys, and repeatable (from_dict_to_dict, from_dict_without_mask); caller's mask untouched. The model is tied to /repo by replaying thousands of random operation histories on the real DataSet and comparing every observation after every step; an independent list-of-triples reference is checked at the same time.",
        ref="§4 C05", tech=TECH_H,
        note=NOTE + "Frequencies are modelled as integers (any strict linear order; the harness sends ranks), impedances as integers with subtraction; numpy array aliasing and float formatting of JSON are exercised by the correspondence only."),
    "C04": dict(
        text="Totality of parse_cdc proved for ALL strings on the model of tokenizer+parser (no TypeError/IndexError/KeyError/AttributeError/OverflowError, all loops and the recursive descent terminate: theorems C04.parse_cdc_total, tokenizer_total, main_loop_pushes_one); the model is tied to /repo by running it and the real parser on every sequence of <=3 lexical atoms, mutations of valid codes and random strings. PARTIAL: 'accepted codes can be simulated / re-serialised' is decided by the direct oracle on the implementation only; CPython's recursion limit is not modelled.",
        ref="§4 C04", tech=TECH_H,
        note=NOTE + "Modelled rather than verified: float() of a literal (exact rationals), CPython recursion limit, numpy evaluation of accepted circuits."),
}


def main():
    checks = []
    for pid in sorted(CHECKS):
        c = CHECKS[pid]
        checks.append({
            "property_id": pid,
            "quick_cmd": f"./check {pid} --tier quick",
            "thorough_cmd": f"./check {pid} --tier thorough",
            "evidence_file": f"evidence/{pid}.json",
            "replay_cmd_template": f"./check {pid} --replay {{path}}",
            "engine": "lean-proof",
            "level_claimed": {"category": "proof", "text": c["text"], "design_ref": c["ref"]},
            "level_note": c["note"],
            "technique": c["tech"],
        })
    all_ids = [f"C{i:02d}" for i in range(1, 21)]
    na = [{"property_id": p, "reason": "check not built yet in this revision (work in progress; see DESIGN.md §4 for the plan)"} for p in all_ids if p not in CHECKS]
    m = {
        "version": 1,
        "setup_cmd": "./setup.sh",
        "hooks": {"guard": "PYIMPSPEC_VERIF", "enable": "no source hooks: the harness observes through the public API and importable private helpers; the guard variable is set by ./check but read by nothing in /repo",
                  "baseline_off_cmd": "cd /repo && /venv/bin/python -m pytest -q -p no:cacheprovider --timeout=900 --continue-on-collection-errors",
                  "source_commits": [], "add_only": True},
        "engines": [{"name": "lean-proof", "path": "lean/", "serves_properties": sorted(CHECKS),
                     "kind_free_text": "Lean 4.33 + Mathlib theorems (lean/PyImpSpec/Props), models tied to /repo by harness/translate.py and the line-protocol driver lean/Driver/Main.lean"}],
        "checks": checks,
        "not_applicable": na,
        "notes": "Every check: regenerate Gen/*.lean from /repo, lake build the property's theorems, audit axioms, run the model/implementation correspondence, run the direct oracle; see DESIGN.md §0 for the outcome logic. known_findings.json lists recorded and repaired defects.",
    }
    with open(os.path.join(VERIF, "MANIFEST.json"), "w") as fh:
        json.dump(m, fh, indent=1)


if __name__ == "__main__":
    main()

import PyImpSpec.Gen.Elements
import PyImpSpec.Cdc.Model

/-! Line-protocol driver: one request per line (`<model> <op> <args…>`), one canonical reply per line.
Run with `lake env lean --run Driver/Main.lean`.  The harness sends the same inputs to the real
implementation and diffs the replies (the correspondence check of DESIGN.md §1). -/

open Cdc

def hexVal (c : Char) : Nat :=
  if '0' ≤ c ∧ c ≤ '9' then c.toNat - '0'.toNat
  else if 'a' ≤ c ∧ c ≤ 'f' then c.toNat - 'a'.toNat + 10 else 0

def decodeHex (s : String) : String :=
  let rec go : List Char → List UInt8 → List UInt8
    | a :: b :: r, acc => go r ((UInt8.ofNat (hexVal a * 16 + hexVal b)) :: acc)
    | _, acc => acc.reverse
  let bytes := go s.toList []
  match String.fromUTF8? ⟨bytes.toArray⟩ with
  | some s => s
  | none => ""

def flagsOf (fl : String) : Flags :=
  { guard := fl.contains 'g', sub := fl.contains 's', version := fl.contains 'v' }

def cdcReply (fl : String) (input : String) : String :=
  match parseCdc Gen.elemTable (flagsOf fl) input with
  | .ok c => "ok " ++ c.canon Gen.elemTable
  | .error e => "err " ++ e.name

def step (line : String) : String :=
  match line.splitOn " " with
  | ["cdc", fl, hex] => cdcReply fl (decodeHex hex)
  | ["cdc", fl] => cdcReply fl ""
  | _ => "bad-op"

partial def loop (h : IO.FS.Stream) : IO Unit := do
  let line ← h.getLine
  if line.isEmpty then return ()
  IO.println (step line.trimAscii.toString)
  loop h

def main : IO Unit := do loop (← IO.getStdin)

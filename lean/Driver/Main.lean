import PyImpSpec.Gen.Elements
import PyImpSpec.Cdc.Model
import PyImpSpec.DataSet.Model
import PyImpSpec.Param.Model
import PyImpSpec.Impedance.CQ
import PyImpSpec.Gen.Kernels
import PyImpSpec.Tlm
import PyImpSpec.Select
import PyImpSpec.Progress
import PyImpSpec.Ident
import PyImpSpec.Tikz
import PyImpSpec.Registry
import PyImpSpec.Columns
import PyImpSpec.KKTau
import PyImpSpec.KKAuto
import PyImpSpec.Fit
import PyImpSpec.Drt
import PyImpSpec.Cli

/-! Line-protocol driver: one request per line (`<model> <op> <args…>`), one canonical reply per line.
Run with `lake env lean --run Driver/Main.lean`.  The harness sends the same inputs to the real
implementation and diffs the replies (the correspondence check of DESIGN.md §1). -/

open Cdc

def hexVal (c : Char) : Nat :=
  if '0' ≤ c ∧ c ≤ '9' then c.toNat - '0'.toNat
  else if 'a' ≤ c ∧ c ≤ 'f' then c.toNat - 'a'.toNat + 10 else 0

def decodeHex (s : String) : String :=
  let rec go : List Char → List UInt8 → List UInt8
    | a :: b :: r, acc => go r ((UInt8.ofNat (hexVal a * 16 + hexVal b)) :: acc)
    | _, acc => acc.reverse
  let bytes := go s.toList []
  match String.fromUTF8? ⟨bytes.toArray⟩ with
  | some s => s
  | none => ""

def flagsOf (fl : String) : Flags :=
  { guard := fl.contains 'g', sub := fl.contains 's', version := fl.contains 'v' }

def cdcReply (fl : String) (input : String) : String :=
  match parseCdc Gen.elemTable (flagsOf fl) input with
  | .ok c => "ok " ++ c.canon Gen.elemTable
  | .error e => "err " ++ e.name


/-! ### element parameter API -/

def parseVal (s : String) : Val :=
  if s = "inf" then .pinf else if s = "-inf" then .ninf else if s = "nan" then .nan
  else match s.splitOn "/" with
    | [n, d] => .num (mkRat n.toInt! d.toNat!)
    | [n] => .num (mkRat n.toInt! 1)
    | _ => .nan

def parseArg (s : String) : Param.Arg :=
  match s.splitOn ":" with
  | ["n", v] => .num (parseVal v)
  | ["b", v] => .bool (v = "1")
  | ["x", e] => .bad e
  | _ => .bad "TypeError"

def parsePairs (s : String) : Param.Pairs :=
  if s = "-" then [] else (s.splitOn ";").filterMap fun p =>
    match p.splitOn "=" with
    | [k, a] => some (decodeHex k, parseArg a)
    | _ => none

def showEl (e : Param.El) : String :=
  ",".intercalate (e.ps.map fun q => s!"{q.key}={q.value.show}/{q.lo.show}/{q.hi.show}/{if q.fixed then "F" else "v"}") ++ ":" ++ e.label

def classDefaults (sym : String) : List PV :=
  match Gen.elemTable.find? (·.sym = sym) with
  | some d => d.params.map fun pd => { key := pd.key, value := pd.value, lo := pd.lo, hi := pd.hi, fixed := pd.fixed }
  | none => []


/-! ### impedance composition (exact complex rationals) -/

def parseRat (s : String) : Rat :=
  match s.splitOn "/" with
  | [n, d] => mkRat n.toInt! d.toNat!
  | [n] => mkRat n.toInt! 1
  | _ => 0

def parseEntry (s : String) : Imp.XV Imp.CQ :=
  if s = "inf" then .inf
  else match s.splitOn "|" with
    | [a, b] => .fin ⟨parseRat a, parseRat b⟩
    | _ => .inf

def impReply (n : Nat) (toks : List String) : String :=
  match Imp.parseTree n parseEntry (toks.length + 1) toks with
  | some (t, []) =>
    match Imp.circuitImpl n t with
    | some v => "ok " ++ " ".intercalate (v.map Imp.CQ.show)
    | none => "err InfiniteImpedance"
  | _ => "bad-op"


/-! ### translated kernels at complex floats (translator cross-check) -/

/-- `s:m:e` ↦ ±m·10^e -/
def parseFloat (s : String) : Float :=
  match s.splitOn ":" with
  | [sg, m, e] =>
    let ex := e.toInt!
    let v := Float.ofScientific m.toNat! (ex < 0) ex.natAbs
    if sg = "-" then -v else v
  | _ => 0.0

/-! ### C10: limits and final selection of the automatic number of RC elements -/

def splitList (s : String) : List String := if s = "-" then [] else s.splitOn ","

/-- `lim lower upper delta minX maxX lenF single transLower transMax tests md` -/
def limReply (a : List String) : String :=
  match a with
  | [lower, upper, delta, minX, maxX, lenF, single, tl, tm, tests, md] =>
    let ts : List KKAuto.T := (splitList tests).filterMap fun t => match t.splitOn ":" with
      | [n, c] => some ⟨n.toInt!, c.toInt!⟩
      | _ => none
    let mds : List (Int × Bool) := (splitList md).filterMap fun t => match t.splitOn ":" with
      | [k, b] => some (k.toInt!, b = "1")
      | _ => none
    match KKAuto.limits ⟨lower.toInt!, upper.toInt!, delta.toInt!, ts, minX.toInt!, maxX.toInt!, lenF.toInt!, single = "1", tl.toInt!, tm.toInt!, mds⟩ with
    | .ok (lo, hi) => s!"ok {lo} {hi}"
    | .error e => s!"err {e}"
  | _ => "bad-op"

/-- `pick lo hi n:score:lchi:sc,…` -/
def pickReply (a : List String) : String :=
  match a with
  | [lo, hi, cands] =>
    let cs : List KKAuto.Cand := (splitList cands).filterMap fun t => match t.splitOn ":" with
      | [n, s, l, c] => some ⟨n.toInt!, s.toInt!, l.toInt!, c.toInt!⟩
      | _ => none
    match KKAuto.suggest (KKAuto.inside lo.toInt! hi.toInt! cs) with
    | some c => s!"ok {c.n}"
    | none => "err IndexError"
  | _ => "bad-op"

/-! ### C12: parameter bookkeeping of circuit fitting -/

def showRat (r : Rat) : String := if r.den = 1 then s!"{r.num}" else s!"{r.num}/{r.den}"
def parseBound (s : String) : Fit.Bound := if s = "inf" || s = "-inf" then none else some (parseRat s)
def showBound (neg : Bool) (b : Fit.Bound) : String := match b with | none => (if neg then "-inf" else "inf") | some r => showRat r

/-- `id;sym:value:lo:hi:fixed,…|id;…` -/
def parseCircuit (s : String) : Fit.Circuit :=
  (s.splitOn "|").filterMap fun es => match es.splitOn ";" with
    | [id, ps] => some ⟨id.toNat!, (splitList ps).filterMap fun p => match p.splitOn ":" with
        | [sym, v, lo, hi, fx] => some ⟨sym, parseRat v, parseBound lo, parseBound hi, fx = "1"⟩
        | _ => none⟩
    | _ => none

def fitReply (a : List String) : String :=
  match a with
  | ["tolmfit", c] =>
    (match Fit.toLmfit (parseCircuit c) with
     | .error e => s!"err {e}"
     | .ok lps => "ok " ++ ",".intercalate (lps.map fun lp => s!"{lp.name.str}:{showRat lp.value}:{showBound true lp.min}:{showBound false lp.max}:{if lp.vary then 1 else 0}"))
  | ["apply", c, sol] =>
    let circ := parseCircuit c
    let s : Fit.Sol := (splitList sol).filterMap fun kv => match kv.splitOn "=" with
      | [k, v] => (match k.splitOn "@" with
        | [sym, id] => some ((sym, id.toNat!), parseRat v)
        | _ => none)
      | _ => none
    (match Fit.toLmfit circ with
     | .error e => s!"err {e}"
     | .ok lps =>
       let c2 := Fit.fromLmfit s circ
       let tbl := Fit.extract (Fit.varNames lps) s c2
       "ok " ++ "|".intercalate (c2.map fun e => s!"{e.id};" ++ ",".intercalate (e.ps.map fun p => s!"{p.sym}:{showRat p.value}"))
         ++ " " ++ "|".intercalate (tbl.map fun (id, rows) => s!"{id};" ++ ",".intercalate (rows.map fun r => s!"{r.sym}:{showRat r.value}:{if r.fixed then 1 else 0}")))
  | ["best", chis] =>
    let l : List Fit.Res := (splitList chis).zipIdx.map fun (c, i) => ⟨i, if c = "-" then none else some c.toInt!⟩
    (match Fit.pick l with
     | .ok r => s!"ok {r.tag}"
     | .error e => s!"err {e}")
  | _ => "bad-op"

/-! ### C19: command-line glue -/

def hexDigit (n : Nat) : Char := if n < 10 then Char.ofNat (48 + n) else Char.ofNat (87 + n)
def encodeHex (s : String) : String :=
  String.ofList (s.toUTF8.toList.flatMap fun b => [hexDigit (b.toNat / 16), hexDigit (b.toNat % 16)])

def tkName : TK → String
  | .ident => "Identifier" | .label => "Label" | .number => "Number" | .fixedNumber => "FixedNumber"
  | .lbracket => "LBracket" | .rbracket => "RBracket" | .lparen => "LParen" | .rparen => "RParen"
  | .lcurly => "LCurly" | .rcurly => "RCurly" | .equals => "Equals" | .slash => "ForwardSlash"
  | .percent => "Percent" | .comma => "Comma" | .colon => "Colon" | .excl => "Exclamation"

/-- `tok <flags> <hex>`: the token stream (class names; text of identifiers and labels) -/
def tokReply (fl : String) (input : String) : String :=
  match tokenize (flagsOf fl).guard input.toList with
  | .ok ts => "ok " ++ ",".intercalate (ts.map fun t =>
      if t.kind = .ident ∨ t.kind = .label then tkName t.kind ++ ":" ++ encodeHex t.text else tkName t.kind)
  | .error e => "err " ++ e.name

/-- `cli filt f,f,… m,m,… low high i,i,…` / `cli ident <hex>` -/
def cliReply (a : List String) : String :=
  match a with
  | ["filt", fs, ms, low, high, excl] =>
    let f := (splitList fs).map String.toInt!
    let d : DataSet.DS := ⟨f, f.map fun _ => 0, (splitList ms).map (· = "1")⟩
    (match Cli.applyFilters d ⟨low.toInt!, high.toInt!, (splitList excl).map String.toInt!⟩ with
     | .ok d' => "ok " ++ ",".intercalate (d'.mask.map fun b => if b then "1" else "0")
     | .error e => s!"err {e}")
  | ["ident", h] =>
    let str := (decodeHex h).toList
    let tr := if Cli.hasArgs str then Cli.traceArgs (Cli.splitOn ',' (str.drop ((Cli.rfind ':' str).toNat + 1))) else []
    let trs := if tr.isEmpty then "-" else ",".intercalate (tr.map fun p => encodeHex (String.ofList p.1) ++ "=" ++ encodeHex (String.ofList p.2))
    trs ++ " " ++ (match Cli.parseIdentity str with
     | .ok (ident, kw) => s!"ok {encodeHex (String.ofList ident)} " ++
         (if kw.isEmpty then "-" else ",".intercalate (kw.map fun p => encodeHex (String.ofList p.1) ++ "=" ++ encodeHex (String.ofList p.2)))
     | .error e => s!"err {e}")
  | ["mock", h] => if Cli.isMockSpec (decodeHex h).toList then "ok 1" else "ok 0"
  | _ => "bad-op"

/-- analysis kernels on complex arguments: `kerc <name> Z_exp=re;im Z_fit=re;im` -/
def kercReply (name : String) (binds : List String) : String :=
  let tbl : List (String × E) := [("residual", Gen.K.residual), ("boukampWeight", Gen.K.boukampWeight), ("chisqrTerm", Gen.K.chisqrTerm),
    ("kk_kth_Y", Gen.K.kk_kth_Y), ("kk_kth_Z", Gen.K.kk_kth_Z), ("kk_cap_Y", Gen.K.kk_cap_Y), ("kk_cap_Z", Gen.K.kk_cap_Z),
    ("kk_ind_Y", Gen.K.kk_ind_Y), ("kk_ind_Z", Gen.K.kk_ind_Z),
    ("zhit_rec_Y", Gen.K.zhit_rec_Y), ("zhit_rec_Z", Gen.K.zhit_rec_Z), ("zhit_offset_residual", Gen.K.zhit_offset_residual),
    ("fit_err_re", Gen.K.fit_err_re), ("fit_err_im", Gen.K.fit_err_im), ("fit_w_unity_re", Gen.K.fit_w_unity_re), ("fit_w_unity_im", Gen.K.fit_w_unity_im),
    ("fit_w_modulus_re", Gen.K.fit_w_modulus_re), ("fit_w_modulus_im", Gen.K.fit_w_modulus_im), ("fit_w_proportional_re", Gen.K.fit_w_proportional_re),
    ("fit_w_proportional_im", Gen.K.fit_w_proportional_im), ("fit_w_boukamp_re", Gen.K.fit_w_boukamp_re), ("fit_w_boukamp_im", Gen.K.fit_w_boukamp_im),
    ("trnnls_A_re", Gen.K.trnnls_A_re), ("trnnls_A_im", Gen.K.trnnls_A_im), ("lm_tau", Gen.K.lm_tau), ("lm_gamma", Gen.K.lm_gamma),
    ("mrq_gamma_rc", Gen.K.mrq_gamma_rc), ("mrq_gamma_rq", Gen.K.mrq_gamma_rq), ("mrq_tau0", Gen.K.mrq_tau0),
    ("intercept_of_lines", Gen.K.intercept_of_lines), ("target_fallback", Gen.K.target_fallback), ("target_main", Gen.K.target_main),
    ("est_pct_noise", Gen.K.est_pct_noise), ("est_pseudo_chisqr", Gen.K.est_pseudo_chisqr), ("noise_sd", Gen.K.noise_sd)]
  match tbl.find? (·.1 = name) with
  | none => "err no-kernel"
  | some (_, e) =>
    let env : List (String × CF) := binds.filterMap fun b =>
      match b.splitOn "=" with
      | [k, v] => match v.splitOn ";" with
        | [re, im] => some (k, ⟨parseFloat re, parseFloat im⟩)
        | _ => none
      | _ => none
    let z := e.evalF fun k => match env.find? (·.1 = k) with | some (_, v) => v | none => ⟨0, 0⟩
    s!"ok {z.re.toBits} {z.im.toBits}"

def kerReply (which sym : String) (binds : List String) : String :=
  let tbl := if which = "impl" then Gen.K.impls else Gen.K.eqns
  match tbl.find? (·.1 = sym) with
  | none => "err no-kernel"
  | some (_, e) =>
    let env : List (String × Float) := binds.filterMap fun b =>
      match b.splitOn "=" with
      | [k, v] => some (k, parseFloat v)
      | _ => none
    let z := e.evalF fun k => match env.find? (·.1 = k) with | some (_, v) => ⟨v, 0⟩ | none => ⟨0, 0⟩
    s!"ok {z.re.toBits} {z.im.toBits}"


/-! ### general transmission line model: decision tree + regenerated branch formulas -/

def parseKind (s : String) : Tlm.Kind :=
  if s = "open" then .opn else if s = "short" then .short else .finite

def tlmReply (which : String) (ks : List String) (binds : List String) : String :=
  match ks.map parseKind with
  | [a, b, c, d, e] =>
    let env : List (String × CF) := binds.filterMap fun bnd =>
      match bnd.splitOn "=" with
      | [k, v] => match v.splitOn ";" with
        | [re, im] => some (k, ⟨parseFloat re, parseFloat im⟩)
        | _ => none
      | _ => none
    let base : String → CF := fun k => match env.find? (·.1 = k) with | some (_, v) => v | none => ⟨0, 0⟩
    match Tlm.value CF.ops (which = "impl") ⟨a, b, c, d, e⟩ base with
    | some z => s!"ok {z.re.toBits} {z.im.toBits}"
    | none => "err NotImplementedError"
  | _ => "bad-op"

/-! ### DataSet -/

def ints (s : String) : List Int :=
  if s = "-" then [] else (s.splitOn ",").filterMap String.toInt?

def pairs (s : String) : DataSet.MaskArg :=
  if s = "-" then [] else (s.splitOn ",").filterMap fun p =>
    match p.splitOn ":" with
    | [k, v] => (k.toInt?).map fun k => (k, v = "1")
    | _ => none

def showInts (l : List Int) : String := ",".intercalate (l.map toString)
def showView (v : List (Int × Int)) : String := ",".intercalate (v.map fun p => s!"{p.1}:{p.2}")
def showPairs (m : DataSet.MaskArg) : String := ",".intercalate (m.map fun p => s!"{p.1}:{if p.2 then 1 else 0}")

def obs (d : DataSet.DS) : String :=
  s!"f={showInts d.freqs};z={showInts d.imps};m={showPairs d.getMask};vn={showView (d.view none)};vf={showView (d.view (some false))};vt={showView (d.view (some true))}"

structure DState where
  ds : List (Nat × DataSet.DS) := []
  els : List (Nat × String × Param.El) := []
  reg : Registry.State := ⟨[], [], [], [], []⟩

def DState.get (st : DState) (k : Nat) : Option DataSet.DS := (st.ds.find? (·.1 = k)).map (·.2)
def DState.put (st : DState) (k : Nat) (d : DataSet.DS) : DState :=
  { st with ds := (k, d) :: st.ds.filter (·.1 ≠ k) }


/-! ### best-result selection -/

def selReply (keys : String) : String :=
  let ks := ints keys
  let items : List (Int × Nat) := ks.zipIdx.map fun p => (p.1, p.2)
  match Select.pickBest (fun p : Int × Nat => p.1) items with
  | some w => s!"ok {w.2}"
  | none => "err IndexError"


/-! ### progress bookkeeping -/

def parseOp (t : String) : Option Prog.Op :=
  match t.splitOn ":" with
  | ["E"] => some .enter
  | ["X"] => some .exit
  | ["M", f] => some (.setMessage (f = "1"))
  | ["I", k, f] => some (.increment k.toInt! (f = "1"))
  | _ => none

def progRun (npct : Rat) : Prog.PState → List Prog.Op → List String → List String
  | _, [], acc => acc.reverse
  | s, op :: rest, acc =>
    match Prog.step npct s op with
    | .error e => (("err:" ++ e) :: acc).reverse
    | .ok (s', e) => progRun npct s' rest ((match e with | some p => s!"{p.num}/{p.den}" | none => "-") :: acc)

def progReply (npct total recent : String) (toks : List String) : String :=
  let ops := toks.filterMap parseOp
  "ok " ++ " ".intercalate (progRun (parseRat npct) ⟨0, total.toInt!, parseRat recent⟩ ops [])

def zprogReply (args : List String) : String :=
  match args with
  | [sa, ia, wa, cw, nwf] =>
    let o : Prog.ZOpts := ⟨sa = "1", ia = "1", wa = "1", cw = "1", nwf.toNat!⟩
    s!"ok {o.total} {o.increments}"
  | _ => "bad-op"


/-! ### element traversal and identifiers -/

def parseTr : Nat → List String → Option (Ident.Tr × List String)
  | 0, _ => none
  | fuel + 1, toks =>
    match toks with
    | "E" :: oid :: sym :: label :: n :: rest =>
      (parseTrs fuel n.toNat! rest).map fun r => (.elem ⟨oid.toNat!, decodeHex sym, decodeHex label⟩ r.1, r.2)
    | "C" :: n :: rest => (parseTrs fuel n.toNat! rest).map fun r => (.conn r.1, r.2)
    | _ => none
where
  parseTrs (fuel : Nat) : Nat → List String → Option (List Ident.Tr × List String)
    | 0, toks => some ([], toks)
    | k + 1, toks =>
      match parseTr fuel toks with
      | none => none
      | some (t, rest) => (parseTrs fuel k rest).map fun r => (t :: r.1, r.2)

def identReply (toks : List String) : String :=
  match parseTr (toks.length + 1) toks with
  | some (t, []) =>
    let run := Ident.running t
    let per := Ident.perType t
    let f := fun (l : List (Ident.El × Nat)) => ",".intercalate (l.map fun p => s!"{p.1.oid}:{p.2}")
    let names := ",".intercalate (per.map fun p => (Ident.name p.1 p.2))
    s!"ok {f run} {f per} {names}"
  | _ => "bad-op"


/-! ### CircuiTikZ layout -/

def parseTikz : Nat → List String → Option (Tikz.T × List String)
  | 0, _ => none
  | fuel + 1, toks =>
    match toks with
    | "E" :: oid :: rest => some (.elem oid.toNat!, rest)
    | "S" :: n :: rest => (parseTikzs fuel n.toNat! rest).map fun r => (.series r.1, r.2)
    | "P" :: n :: rest => (parseTikzs fuel n.toNat! rest).map fun r => (.parallel r.1, r.2)
    | _ => none
where
  parseTikzs (fuel : Nat) : Nat → List String → Option (List Tikz.T × List String)
    | 0, toks => some ([], toks)
    | k + 1, toks =>
      match parseTikz fuel toks with
      | none => none
      | some (t, rest) => (parseTikzs fuel k rest).map fun r => (t :: r.1, r.2)

def showCmd : Tikz.Cmd → String
  | .component oid x y w => s!"c:{oid}:{x}:{y}:{w}"
  | .short x y => s!"s:{x}:{y}"
  | .vertical x t b => s!"v:{x}:{t}:{b}"
  | .connector x y xe => s!"k:{x}:{y}:{xe}"

def tikzReply (toks : List String) : String :=
  match parseTikz (toks.length + 2) ("S" :: toks) with
  | some (.series cs, []) =>
    match Tikz.render cs with
    | some (cmds, w) => s!"ok {w} " ++ " ".intercalate (cmds.map showCmd)
    | none => "err ValueError"
  | _ => "bad-op"


/-! ### column detection and sweep splitting -/

def keyName : Cols.Key → String
  | .frequency => "frequency" | .imaginary => "imaginary" | .real => "real" | .magnitude => "magnitude" | .phase => "phase"

def colsReply (cols : List String) : String :=
  match Cols.detect (cols.map fun c => (if c = "-" then "" else decodeHex c).toList) with
  | .ok r => "ok " ++ ",".intercalate (r.map fun f => s!"{keyName f.key}:{f.index}:{if f.negative then 1 else 0}")
  | .error e => "err " ++ e

def sweepsReply (fs : String) : String :=
  match Cols.splitSweeps (ints fs) with
  | .ok r => "ok " ++ ",".intercalate (r.map fun l => toString l.length)
  | .error e => "err " ++ e

def dsStep (st : DState) (args : List String) : DState × String :=
  match args with
  | ["reset"] => ({ st with ds := [] }, "ok")
  | ["new", k, fs, zs, m] =>
    match DataSet.construct (ints fs) (ints zs) (pairs m) with
    | .ok (d, m') => (st.put k.toNat! d, s!"ok {obs d}|{showPairs m'}")
    | .error e => (st, "err " ++ e)
  | ["old", k, fs, zs, m] =>
    match DataSet.constructOld (ints fs) (ints zs) (pairs m) with
    | .ok (d, m') => (st.put k.toNat! d, s!"ok {obs d}|{showPairs m'}")
    | .error e => (st, "err " ++ e)
  | ["avg", n, ks] =>
    let ds := (ks.splitOn ",").filterMap fun k => st.get k.toNat!
    match DataSet.average ds with
    | .ok d' => (st.put n.toNat! d', "ok " ++ obs d')
    | .error e => (st, "err " ++ e)
  | [op, k, a] =>
    match st.get k.toNat! with
    | none => (st, "err no-slot")
    | some d =>
      match op with
      | "setmask" => let d' := d.setMask (pairs a); (st.put k.toNat! d', "ok " ++ obs d')
      | "lowpass" => let d' := d.lowPass a.toInt!; (st.put k.toNat! d', "ok " ++ obs d')
      | "highpass" => let d' := d.highPass a.toInt!; (st.put k.toNat! d', "ok " ++ obs d')
      | "sub" =>
        match d.subtract (ints a) with
        | .ok d' => (st.put k.toNat! d', "ok " ++ obs d')
        | .error e => (st, "err " ++ e)
      | "dup" =>
        match d.duplicate with
        | .ok d' => (st.put a.toNat! d', "ok " ++ obs d')
        | .error e => (st, "err " ++ e)
      | _ => (st, "bad-op")
  | ["rt", k, n, dm, dv] =>
    match st.get k.toNat! with
    | none => (st, "err no-slot")
    | some d =>
      let x := d.toDict
      let x' : DataSet.Dict := { x with mask := if dm = "1" then none else x.mask, version := if dv = "1" then none else x.version }
      match DataSet.fromDict x' with
      | .ok (d', x'') => (st.put n.toNat! d', s!"ok {obs d'}|{decide (x'' = x')}")
      | .error e => (st, "err " ++ e)
  | ["obs", k] =>
    match st.get k.toNat! with
    | none => (st, "err no-slot")
    | some d => (st, "ok " ++ obs d)
  | _ => (st, "bad-op")


def DState.getEl (st : DState) (k : Nat) : Option (String × Param.El) := (st.els.find? (·.1 = k)).map (·.2)
def DState.putEl (st : DState) (k : Nat) (sym : String) (e : Param.El) : DState :=
  { st with els := (k, sym, e) :: st.els.filter (·.1 ≠ k) }

def paReply (r : Param.El × Option String) : String :=
  match r.2 with
  | none => "ok " ++ showEl r.1
  | some x => s!"err {x} {showEl r.1}"

def paStep (st : DState) (args : List String) : DState × String :=
  match args with
  | ["reset"] => ({ st with els := [] }, "ok")
  | ["init", k, sym] =>
    let e : Param.El := { ps := classDefaults sym, label := "" }
    (st.putEl k.toNat! sym e, "ok " ++ showEl e)
  | [op, k, kw, pos, odd] =>
    match st.getEl k.toNat! with
    | none => (st, "err no-slot")
    | some (sym, e) =>
      let f := match op with
        | "sv" => Param.setValues | "sl" => Param.setLowerLimits | "su" => Param.setUpperLimits | _ => Param.setFixed
      let r := f e (parsePairs kw) (parsePairs pos) (odd = "1")
      (st.putEl k.toNat! sym r.1, paReply r)
  | ["label", k, l] =>
    match st.getEl k.toNat! with
    | none => (st, "err no-slot")
    | some (sym, e) =>
      let r := Param.setLabelOp e (if l = "NONE" then none else some (decodeHex l))
      (st.putEl k.toNat! sym r.1, paReply r)
  | ["resetp", k, keys] =>
    match st.getEl k.toNat! with
    | none => (st, "err no-slot")
    | some (sym, e) =>
      let r := Param.resetParameters (classDefaults sym) e (if keys = "-" then [] else (keys.splitOn ",").map decodeHex)
      (st.putEl k.toNat! sym r.1, paReply r)
  | ["reset1", k, key] =>
    match st.getEl k.toNat! with
    | none => (st, "err no-slot")
    | some (sym, e) =>
      let r := Param.resetParameter (classDefaults sym) e (decodeHex key)
      (st.putEl k.toNat! sym r.1, paReply r)
  | ["copy", k, n, kind] =>
    match st.getEl k.toNat! with
    | none => (st, "err no-slot")
    | some (sym, e) =>
      match (if kind = "c" then Param.copyContainer else Param.copyElement) (classDefaults sym) e with
      | .ok e' => (st.putEl n.toNat! sym e', "ok " ++ showEl e')
      | .error x => (st, "err " ++ x)
  | ["obs", k] =>
    match st.getEl k.toNat! with
    | none => (st, "err no-slot")
    | some (_, e) => (st, "ok " ++ showEl e)
  | _ => (st, "bad-op")


/-! ### element registry -/

def parseKV (s : String) : List (String × Int) :=
  if s = "-" then [] else (s.splitOn ";").filterMap fun p =>
    match p.splitOn ":" with
    | [k, v] => some (decodeHex k, v.toInt!)
    | _ => none

def parseSymCls (s : String) : List (String × Nat) :=
  if s = "-" then [] else (s.splitOn ",").filterMap fun p =>
    match p.splitOn ":" with
    | [k, v] => some (decodeHex k, v.toNat!)
    | _ => none

def showSymCls (l : List (String × Nat)) : String := ",".intercalate (l.map fun p => s!"{p.1}:{p.2}")

def regObs (st : Registry.State) : String :=
  let o := Registry.observe st
  "|".intercalate (o.1.map showSymCls) ++ " " ++
    "|".intercalate (o.2.map fun p => s!"{p.1}=" ++ ";".intercalate (p.2.map fun kv => s!"{kv.1}:{kv.2}"))

def regStep (st : DState) (args : List String) : DState × String :=
  let fin := fun (r : Registry.State × Option String) =>
    ({ st with reg := r.1 }, (match r.2 with | none => "ok " | some e => s!"err {e} ") ++ regObs r.1)
  match args with
  | ["init", defaults, privates, params] =>
    let ds := parseSymCls defaults
    let cp : List (Nat × List (String × Int)) := if params = "-" then [] else (params.splitOn "|").filterMap fun p =>
      match p.splitOn "=" with
      | [c, kv] => some (c.toNat!, parseKV kv)
      | _ => none
    let dp := ds.map fun kc => (kc.1, ((cp.find? (·.1 = kc.2)).map (·.2)).getD [])
    let r : Registry.State := ⟨ds, ds, (parseSymCls privates), dp, cp⟩
    ({ st with reg := r }, "ok " ++ regObs r)
  | ["register", cls, sym, sok, cons, priv, validate, params] =>
    fin (Registry.register st.reg ⟨cls.toNat!, decodeHex sym, sok = "1", cons = "1", parseKV params⟩ (priv = "1") (validate = "1"))
  | ["remove", cs] => fin (Registry.remove st.reg (if cs = "-" then [] else (cs.splitOn ",").map String.toNat!))
  | ["reset", e, d] => fin (Registry.reset st.reg (e = "1") (d = "1"), none)
  | ["setdefault", cls, key, v] => fin (Registry.setDefault st.reg cls.toNat! (decodeHex key) v.toInt!)
  | ["obs"] => (st, "ok " ++ regObs st.reg)
  | _ => (st, "bad-op")

def step (st : DState) (line : String) : DState × String :=
  match line.splitOn " " with
  | ["cdc", fl, hex] => (st, cdcReply fl (decodeHex hex))
  | ["cdc", fl] => (st, cdcReply fl "")
  | ["tok", fl, hex] => (st, tokReply fl (decodeHex hex))
  | ["tok", fl] => (st, tokReply fl "")
  | "ds" :: args => dsStep st args
  | "pa" :: args => paStep st args
  | "reg" :: args => regStep st args
  | "prog" :: npct :: total :: recent :: toks => (st, progReply npct total recent toks)
  | "zprog" :: args => (st, zprogReply args)
  | ["fprog", m, w] => (st, s!"ok {Prog.fitTotal m.toNat! w.toNat!} {Prog.fitIncrements m.toNat! w.toNat!}")
  | "tikz" :: toks => (st, tikzReply toks)
  | "ident" :: toks => (st, identReply toks)
  | "cols" :: cols => (st, colsReply cols)
  | ["sweeps", fs] => (st, sweepsReply fs)
  | ["sel", keys] => (st, selReply keys)
  | "tlm" :: which :: a :: b :: c :: d :: e :: binds => (st, tlmReply which [a, b, c, d, e] binds)
  | ["tau", wmin, wmax, fext, n, k] => (st, s!"ok {(KKTau.tau KKTau.floatOps (parseFloat wmin) (parseFloat wmax) (parseFloat fext) n.toNat! k.toNat!).toBits}")
  | "kerc" :: name :: binds => (st, kercReply name binds)
  | "dlt" :: xs =>
    (st, match Drt.deltas (0.5 : Float) (xs.map parseFloat) with
      | some d => "ok " ++ " ".intercalate (d.map fun x => toString x.toBits)
      | none => "err IndexError")
  | "cli" :: a => (st, cliReply a)
  | "lim" :: a => (st, limReply a)
  | "fit" :: a => (st, fitReply a)
  | "pick" :: a => (st, pickReply a)
  | "ker" :: which :: sym :: binds => (st, kerReply which sym binds)
  | "imp" :: n :: toks => (st, impReply n.toNat! toks)
  | _ => (st, "bad-op")

partial def loop (h : IO.FS.Stream) (st : DState) : IO Unit := do
  let line ← h.getLine
  if line.isEmpty then return ()
  let (st', out) := step st line.trimAscii.toString
  IO.println out
  loop h st'

def main : IO Unit := do loop (← IO.getStdin) {}

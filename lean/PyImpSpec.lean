-- Root of the `PyImpSpec` library: models, proofs and property theorems.
import PyImpSpec.Gen.Elements
import PyImpSpec.Cdc.Model
import PyImpSpec.Cdc.TokProof
import PyImpSpec.Cdc.ParProof
import PyImpSpec.Cdc.TopProof
import PyImpSpec.Cdc.RT

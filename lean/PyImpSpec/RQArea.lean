import Mathlib.Analysis.SpecialFunctions.Trigonometric.ArctanDeriv
import Mathlib.Analysis.SpecialFunctions.Trigonometric.DerivHyp
import Mathlib.MeasureTheory.Integral.IntervalIntegral.FundThmCalculus
import Mathlib.Tactic.Linarith

/-! Proof support for C13: the analytic (RQ) distribution of relaxation times integrates to R (antiderivative
`(2/n)·arctan((e^{nx} + cos nπ)/sin nπ)`, fundamental theorem of calculus, limits at ±∞). -/

open Real Filter Topology

namespace RQ

/-- the (RQ) distribution on the ln τ axis -/
noncomputable def g (R n : ℝ) (x : ℝ) : ℝ := R / (2 * π) * sin ((1 - n) * π) / (cosh (n * x) - cos ((1 - n) * π))

/-- an antiderivative -/
noncomputable def F (R n : ℝ) (x : ℝ) : ℝ := R / (2 * π) * (2 / n) * arctan ((exp (n * x) + cos (n * π)) / sin (n * π))

theorem trig (n : ℝ) : sin ((1 - n) * π) = sin (n * π) ∧ cos ((1 - n) * π) = -cos (n * π) := by
  constructor
  · rw [show (1 - n) * π = π - n * π by ring, sin_pi_sub]
  · rw [show (1 - n) * π = π - n * π by ring, cos_pi_sub]

theorem sin_pos' (n : ℝ) (h0 : 0 < n) (h1 : n < 1) : 0 < sin (n * π) :=
  sin_pos_of_pos_of_lt_pi (by positivity) (by nlinarith [pi_pos])

theorem den_pos (n x : ℝ) (h0 : 0 < n) (h1 : n < 1) : 0 < cosh (n * x) + cos (n * π) := by
  have h := one_le_cosh (n * x)
  have hc : -1 < cos (n * π) := by
    have := neg_one_le_cos (n * π)
    rcases this.lt_or_eq with h | h
    · exact h
    · exfalso
      have hs := sin_pos' n h0 h1
      have := sin_sq_add_cos_sq (n * π)
      rw [← h] at this
      nlinarith
  linarith

theorem hasDerivAt_F (R n x : ℝ) (h0 : 0 < n) (h1 : n < 1) : HasDerivAt (F R n) (g R n x) x := by
  have hs := sin_pos' n h0 h1
  have hd := den_pos n x h0 h1
  have hexp : HasDerivAt (fun y => exp (n * y)) (exp (n * x) * n) x := by
    simpa using ((hasDerivAt_id x).const_mul n).exp
  have hin : HasDerivAt (fun y => (exp (n * y) + cos (n * π)) / sin (n * π)) (exp (n * x) * n / sin (n * π)) x :=
    (hexp.add_const _).div_const _
  have hat := hin.arctan
  have hF : HasDerivAt (F R n) (R / (2 * π) * (2 / n) * (1 / (1 + ((exp (n * x) + cos (n * π)) / sin (n * π)) ^ 2) * (exp (n * x) * n / sin (n * π)))) x :=
    hat.const_mul _
  convert hF using 1
  unfold g
  obtain ⟨t1, t2⟩ := trig n
  rw [t1, t2]
  have hy : 0 < exp (n * x) := exp_pos _
  have hcosh : cosh (n * x) = (exp (n * x) + (exp (n * x))⁻¹) / 2 := by rw [cosh_eq, exp_neg]
  have hsc := sin_sq_add_cos_sq (n * π)
  rw [hcosh] at hd ⊢
  generalize exp (n * x) = y at *
  generalize sin (n * π) = s at *
  generalize cos (n * π) = c at *
  have hD : 0 < y ^ 2 + 2 * c * y + 1 := by
    have : y ^ 2 + 2 * c * y + 1 = 2 * y * ((y + y⁻¹) / 2 + c) := by field_simp; ring
    rw [this]; positivity
  have e1 : (y + y⁻¹) / 2 - -c = (y ^ 2 + 2 * c * y + 1) / (2 * y) := by field_simp; ring
  have e2 : 1 + ((y + c) / s) ^ 2 = (y ^ 2 + 2 * c * y + 1) / s ^ 2 := by
    field_simp
    linear_combination hsc
  rw [e1, e2]
  have hpi : π ≠ 0 := pi_ne_zero
  field_simp

theorem continuous_g (R n : ℝ) (h0 : 0 < n) (h1 : n < 1) : Continuous (g R n) := by
  unfold g
  apply Continuous.div continuous_const
  · exact (continuous_cosh.comp (continuous_const.mul continuous_id)).sub continuous_const
  · intro x
    have := den_pos n x h0 h1
    rw [(trig n).2]
    linarith

theorem F_top (R n : ℝ) (h0 : 0 < n) (h1 : n < 1) : Tendsto (F R n) atTop (𝓝 (R / (2 * π) * (2 / n) * (π / 2))) := by
  have hs := sin_pos' n h0 h1
  unfold F
  apply Tendsto.const_mul
  have hin : Tendsto (fun x => (exp (n * x) + cos (n * π)) / sin (n * π)) atTop atTop := by
    apply Tendsto.atTop_div_const hs
    apply tendsto_atTop_add_const_right
    exact tendsto_exp_atTop.comp (tendsto_id.const_mul_atTop h0)
  exact (tendsto_nhds_of_tendsto_nhdsWithin tendsto_arctan_atTop).comp hin

theorem arctan_cot (φ : ℝ) (h0 : 0 < φ) (h1 : φ < π) : arctan (cos φ / sin φ) = π / 2 - φ := by
  have : cos φ / sin φ = tan (π / 2 - φ) := by
    rw [tan_pi_div_two_sub, tan_eq_sin_div_cos, inv_div]
  rw [this, arctan_tan (by linarith) (by linarith)]

theorem F_bot (R n : ℝ) (h0 : 0 < n) (h1 : n < 1) : Tendsto (fun T => F R n (-T)) atTop (𝓝 (R / (2 * π) * (2 / n) * (π / 2 - n * π))) := by
  unfold F
  apply Tendsto.const_mul
  rw [← arctan_cot (n * π) (by positivity) (by nlinarith [pi_pos])]
  apply (continuous_arctan.tendsto _).comp
  apply Tendsto.div_const
  have : Tendsto (fun T : ℝ => exp (n * -T)) atTop (𝓝 0) := by
    apply tendsto_exp_atBot.comp
    have h := tendsto_neg_atTop_atBot.comp (tendsto_id.const_mul_atTop h0)
    refine h.congr (fun T => ?_)
    simp
  simpa using this.add_const (cos (n * π))

/-- **The (RQ) distribution integrates over ln τ to the element's resistance**: the area over
`[τ₀e^{-T}, τ₀e^{T}]` tends to `R` as the window grows. -/
theorem area_tendsto (R n : ℝ) (h0 : 0 < n) (h1 : n < 1) :
    Tendsto (fun T : ℝ => ∫ x in (-T)..T, g R n x) atTop (𝓝 R) := by
  have hint : ∀ T : ℝ, ∫ x in (-T)..T, g R n x = F R n T - F R n (-T) := by
    intro T
    apply intervalIntegral.integral_eq_sub_of_hasDerivAt
    · intro x _; exact hasDerivAt_F R n x h0 h1
    · exact (continuous_g R n h0 h1).intervalIntegrable _ _
  simp_rw [hint]
  have := (F_top R n h0 h1).sub (F_bot R n h0 h1)
  convert this using 2
  have hpi : π ≠ 0 := pi_ne_zero
  field_simp
  ring

end RQ

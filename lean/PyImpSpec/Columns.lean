/-! # Column detection and sweep splitting of `pyimpspec/data/data_set.py` (C06) — import-free

`_detect_columns`: headers are lower-cased and stripped, then every column is given to the first
quantity (in the fixed order frequency, imaginary, real, magnitude, phase) that is not identified yet and
one of whose aliases is a prefix of the header, optionally after a leading `-` / `−`.
`_split_sweeps`: consecutive monotone runs become one data set each. -/

namespace Cols

inductive Key where
  | frequency | imaginary | real | magnitude | phase
deriving DecidableEq, Repr

def keysInOrder : List Key := [.frequency, .imaginary, .real, .magnitude, .phase]

/-- the alias table, in the order of the source -/
def aliases : Key → List (List Char)
  | .frequency => ["frequency".toList, "freq".toList, "f".toList]
  | .imaginary => ["z\"".toList, "z''".toList, "z im".toList, "z_im".toList, "zim".toList, "imaginary".toList, "imag".toList, "im".toList]
  | .real => ["z'".toList, "z re".toList, "z_re".toList, "zre".toList, "real".toList, "re".toList]
  | .magnitude => ["|z|".toList, "z".toList, "magnitude".toList, "modulus".toList, "mag".toList, "mod".toList]
  | .phase => ["phase".toList, "phz".toList, "phi".toList]

/-- U+2212 MINUS SIGN -/
def minusSign : Char := Char.ofNat 0x2212

/-- `col.startswith(alt) or col.startswith("-" + alt) or col.startswith("−" + alt)` -/
def matchesAlt (col alt : List Char) : Bool :=
  alt.isPrefixOf col || ('-' :: alt).isPrefixOf col || (minusSign :: alt).isPrefixOf col

def matchesKey (col : List Char) (k : Key) : Bool := (aliases k).any (matchesAlt col)

/-- `col[0] in ("-", "−")` -/
def isNegative (col : List Char) : Bool :=
  match col with
  | c :: _ => c = '-' || c = minusSign
  | [] => false

structure Found where
  key : Key
  index : Nat
  negative : Bool
deriving DecidableEq, Repr

/-- the body of the loop over the columns for one column: the first not yet identified quantity that
matches takes the column -/
def classify (identified : List Key) (col : List Char) : Option Key :=
  keysInOrder.find? fun k => !identified.contains k && matchesKey col k

def detectLoop : List (List Char) → Nat → List Found → List Found
  | [], _, acc => acc
  | col :: rest, i, acc =>
    match classify (acc.map (·.key)) col with
    | some k => detectLoop rest (i + 1) (acc ++ [⟨k, i, isNegative col⟩])
    | none => detectLoop rest (i + 1) acc

/-- `_detect_columns` on the (already lower-cased and stripped) headers -/
def detect (cols : List (List Char)) : Except String (List Found) :=
  let r := detectLoop cols 0 []
  if r.length < 3 then .error "ValueError"
  else if !r.any (·.key = .frequency) then .error "KeyError"
  else .ok r

/-! ## sweeps -/

/-- `_split_sweeps` on the frequency column: lengths of the consecutive sweeps, or `ValueError` when two
successive frequencies are equal.  Frequencies are integers here (any strict order). -/
def sweepLen (decreasing : Bool) : Int → List Int → Except String Nat
  | _, [] => .ok 1
  | prev, f :: rest =>
    if decreasing then
      (if prev > f then (sweepLen decreasing f rest).map (· + 1) else if prev < f then .ok 1 else .error "ValueError")
    else
      (if prev < f then (sweepLen decreasing f rest).map (· + 1) else if prev > f then .ok 1 else .error "ValueError")

def splitLoop (decreasing : Bool) : Nat → List Int → Except String (List (List Int))
  | 0, _ => .ok []
  | _, [] => .ok []
  | fuel + 1, f :: rest =>
    match sweepLen decreasing f rest with
    | .error e => .error e
    | .ok n =>
      (splitLoop decreasing fuel ((f :: rest).drop n)).map fun t => (f :: rest).take n :: t

/-- `_split_sweeps(frequency, …)`: the direction is taken from the first two points (a single point
counts as decreasing) -/
def splitSweeps (fs : List Int) : Except String (List (List Int)) :=
  match fs with
  | [] => .ok []
  | [f] => .ok [[f]]
  | a :: b :: rest => splitLoop (decide (a > b)) (fs.length) (a :: b :: rest)

end Cols

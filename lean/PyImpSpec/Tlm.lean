import PyImpSpec.Expr
import PyImpSpec.Gen.Kernels

/-! # The general transmission line model `Tlm` (C02): the two decision trees of
`TransmissionLineModel._impedance` (numeric) and `._sympy` (symbolic) — hand-modelled, tied by the
correspondence stream `tlm` over all 3⁵ configurations — on top of the branch formulas regenerated from
`/repo` (`Gen.K.Tlm_eqNN_impl/_sym`).  Import-free; generic in the number type. -/

namespace Tlm

inductive Kind where | opn | short | finite
deriving DecidableEq, Repr

structure Flags where
  x1 : Kind
  x2 : Kind
  za : Kind
  zb : Kind
  ze : Kind
deriving DecidableEq, Repr

/-- which formula is used, and which sub-circuits play the roles `X` and `Z` in it -/
inductive Branch where
  | notImplemented
  | eq8 | eq16
  | eq17 (zIsZb : Bool)
  | eq18 (xIsX2 zIsZb : Bool)
  | eq18v (xIsX2 : Bool)
  | eq19 (xIsX2 : Bool)
  | eq20 (xIsX2 : Bool)
deriving DecidableEq, Repr

def isOpen (k : Kind) : Bool := k == .opn
def isShort (k : Kind) : Bool := k == .short

/-- the `if/elif` cascade of `TransmissionLineModel._impedance` -/
def implBranch (fl : Flags) : Branch :=
  if isOpen fl.x1 then .notImplemented
  else if isOpen fl.x2 then .notImplemented
  else if isShort fl.x1 && isShort fl.x2 then .notImplemented
  else if isOpen fl.ze then .notImplemented
  else if isShort fl.ze then .notImplemented
  else if isOpen fl.za && isOpen fl.zb then
    (if isShort fl.x1 || isShort fl.x2 then .eq20 (isShort fl.x1) else .eq8)
  else if isOpen fl.za || isOpen fl.zb then
    (if isShort fl.x1 || isShort fl.x2 then
      (if (if isOpen fl.za then isShort fl.zb else isShort fl.za) then .eq18v (isShort fl.x1)
       else .eq18 (isShort fl.x1) (isOpen fl.za))
     else .eq17 (isOpen fl.za))
  else if isShort fl.x1 || isShort fl.x2 then .eq19 (isShort fl.x1)
  else .eq16

/-- the `if/elif` cascade of `TransmissionLineModel._sympy` -/
def symBranch (fl : Flags) : Branch :=
  if isOpen fl.x1 then .notImplemented
  else if isOpen fl.x2 then .notImplemented
  else if isShort fl.x1 && isShort fl.x2 then .notImplemented
  else if isOpen fl.ze then .notImplemented
  else if isShort fl.ze then .notImplemented
  else if isOpen fl.za && isOpen fl.zb then
    (if isShort fl.x1 || isShort fl.x2 then .eq20 (isShort fl.x1) else .eq8)
  else if isOpen fl.za || isOpen fl.zb then
    (if isShort fl.x1 || isShort fl.x2 then
      (if isShort (if isOpen fl.za then fl.zb else fl.za) then .eq18v (isShort fl.x1)
       else .eq18 (isShort fl.x1) (isOpen fl.za))
     else .eq17 (isOpen fl.za))
  else if isShort fl.x1 || isShort fl.x2 then .eq19 (isShort fl.x1)
  else .eq16

/-- the formula term of a branch, numeric (`impl = true`) or symbolic side -/
def formula (impl : Bool) : Branch → Option E
  | .notImplemented => none
  | .eq8 => some (if impl then Gen.K.Tlm_eq8_impl else Gen.K.Tlm_eq8_sym)
  | .eq16 => some (if impl then Gen.K.Tlm_eq16_impl else Gen.K.Tlm_eq16_sym)
  | .eq17 _ => some (if impl then Gen.K.Tlm_eq17_impl else Gen.K.Tlm_eq17_sym)
  | .eq18 _ _ => some (if impl then Gen.K.Tlm_eq18_impl else Gen.K.Tlm_eq18_sym)
  | .eq18v _ => some (if impl then Gen.K.Tlm_eq18_variant_impl else Gen.K.Tlm_eq18_variant_sym)
  | .eq19 _ => some (if impl then Gen.K.Tlm_eq19_impl else Gen.K.Tlm_eq19_sym)
  | .eq20 _ => some (if impl then Gen.K.Tlm_eq20_impl else Gen.K.Tlm_eq20_sym)

/-- the roles `X`, `Z` of a branch -/
def roleX : Branch → Option Bool
  | .eq18 x _ | .eq18v x | .eq19 x | .eq20 x => some x
  | _ => none
def roleZ : Branch → Option Bool
  | .eq17 z | .eq18 _ z => some z
  | _ => none

variable {α : Type}

/-- the environment in which a branch formula is evaluated: the sub-circuit impedances, `L`, the shared
auxiliaries `lm`, `cs`, `ct`, `s` (computed with the side's own definitions) and the role bindings -/
def envOf (o : NumOps α) (impl : Bool) (b : Branch) (base : String → α) : String → α :=
  let lm := (if impl then Gen.K.Tlm_lm_impl else Gen.K.Tlm_lm_sym).eval o base
  let e1 : String → α := fun k => if k = "lm" then lm else base k
  let cs := (if impl then Gen.K.Tlm_cs_impl else Gen.K.Tlm_cs_sym).eval o e1
  let ct := (if impl then Gen.K.Tlm_ct_impl else Gen.K.Tlm_ct_sym).eval o e1
  let s := (if impl then Gen.K.Tlm_s_impl else Gen.K.Tlm_s_sym).eval o e1
  fun k =>
    if k = "lm" then lm else if k = "cs" then cs else if k = "ct" then ct else if k = "s" then s
    else if k = "X" then (match roleX b with | some true => base "x2" | _ => base "x1")
    else if k = "Z" then (match roleZ b with | some true => base "zb" | _ => base "za")
    else base k

/-- the value computed for a configuration: `none` = `NotImplementedError` -/
def value (o : NumOps α) (impl : Bool) (fl : Flags) (base : String → α) : Option α :=
  let b := if impl then implBranch fl else symBranch fl
  (formula impl b).map fun e => e.eval o (envOf o impl b base)

end Tlm

/-! # Progress bookkeeping (C18) — import-free

`Progress` / `_update_every_N_percent` of `pyimpspec/progress.py` over exact rationals, and the step
accounting (`total` vs number of `increment()` calls) of `perform_zhit` and `fit_circuit` as functions of
their options. -/

namespace Prog

/-- the module-level `_RECENT_PROGRESS` (`< 0` = unset) and one `Progress` object -/
structure PState where
  i : Int
  total : Int
  recent : Rat
deriving Repr

/-- `_update_every_N_percent(i, total, N, force)`: new `_RECENT_PROGRESS` and the emitted fraction -/
def updateEvery (i total : Int) (recent npct : Rat) (force : Bool) : Rat × Option Rat :=
  let recent0 : Rat := if i = 0 then -1 else recent
  let step : Rat := npct / 100
  let progress : Rat := (i : Rat) / (total : Rat)
  let r : Rat × Option Rat :=
    if recent0 < 0 ∨ progress ≥ recent0 + step then
      (if recent0 < 0 then ((0 : Rat), some (0 : Rat)) else (recent0 + step, some (recent0 + step)))
    else if force then (recent0, some progress)
    else (recent0, none)
  (if i ≥ total then -1 else r.1, r.2)

inductive Op where
  | enter
  | increment (step : Int) (force : Bool)
  | setMessage (force : Bool)          -- `set_message(message)`: message only, as every analysis uses it
  | exit
deriving Repr

/-- one operation: new state and emitted fraction, or the `ValueError` of `increment` -/
def step (npct : Rat) (s : PState) : Op → Except String (PState × Option Rat)
  | .enter => let r := updateEvery s.i s.total s.recent npct false; .ok ({ s with recent := r.1 }, r.2)
  | .increment k force =>
    if ¬ (s.i + k ≤ s.total) then .error "ValueError"
    else let r := updateEvery (s.i + k) s.total s.recent npct force; .ok ({ s with i := s.i + k, recent := r.1 }, r.2)
  | .setMessage force => let r := updateEvery s.i s.total s.recent npct force; .ok ({ s with recent := r.1 }, r.2)
  | .exit =>
    if ¬ (s.i + 1 ≤ s.total) then .error "ValueError"
    else let r := updateEvery (s.i + 1) s.total s.recent npct false; .ok ({ s with i := s.i + 1, recent := r.1 }, r.2)

/-! ## step accounting of `perform_zhit` -/

structure ZOpts where
  smoothingAuto : Bool
  interpAuto : Bool
  windowAuto : Bool
  customWeights : Bool
  numWindowFns : Nat          -- `len(_WINDOW_FUNCTIONS)` in the running environment

def ZOpts.ns (o : ZOpts) : Nat := if o.smoothingAuto then 5 else 1
def ZOpts.ni (o : ZOpts) : Nat := if o.interpAuto then 4 else 1
/-- `num_window` as computed by `perform_zhit` -/
def ZOpts.nwCounted (o : ZOpts) : Nat := if o.windowAuto && !o.customWeights then o.numWindowFns else 1
/-- `num_window` of the tree before the `fix:` commit -/
def ZOpts.nwCountedOld (o : ZOpts) : Nat := if o.windowAuto then o.numWindowFns else 1
/-- number of entries `_generate_window_options` really produces -/
def ZOpts.nwActual (o : ZOpts) : Nat :=
  if o.customWeights then 1 else if o.windowAuto then o.numWindowFns else 1

/-- `total=num_steps + 1` -/
def ZOpts.total (o : ZOpts) : Nat :=
  (o.nwCounted + o.ns + o.ns * o.ni + o.ns * o.ni + o.nwCounted * (o.ns * o.ni)) + 1
def ZOpts.totalOld (o : ZOpts) : Nat :=
  (o.nwCountedOld + o.ns + o.ns * o.ni + o.ns * o.ni + o.nwCountedOld * (o.ns * o.ni)) + 1
/-- increments inside the `with` block (weights, smoothing, interpolation, reconstruction, offset
adjustment) plus the one in `__exit__` -/
def ZOpts.increments (o : ZOpts) : Nat :=
  (o.nwActual + o.ns + o.ns * o.ni + o.ns * o.ni + o.nwActual * (o.ns * o.ni)) + 1

/-! ## step accounting of `fit_circuit` -/

/-- `total = num_methods * num_weights + 1`; one increment per (method, weight) fit plus `__exit__` -/
def fitTotal (numMethods numWeights : Nat) : Nat := numMethods * numWeights + 1
def fitIncrements (numMethods numWeights : Nat) : Nat := numMethods * numWeights + 1

end Prog

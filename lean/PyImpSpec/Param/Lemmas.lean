import PyImpSpec.Param.Model
import Mathlib.Algebra.Order.Ring.Rat
import Mathlib.Tactic.Linarith

/-! Order facts about `Cdc.Val` (floats as exact rationals with ±inf and NaN) and the one-parameter
lemmas behind C14. -/

namespace Param
open Cdc

theorem lt_notNan {a b : Val} (h : a.lt b = true) : a.isNan = false ∧ b.isNan = false := by
  cases a <;> cases b <;> simp_all [Val.lt, Val.isNan]

theorem lt_irrefl (a : Val) : a.lt a = false := by
  cases a <;> simp [Val.lt]

theorem lt_trans {a b c : Val} (h1 : a.lt b = true) (h2 : b.lt c = true) : a.lt c = true := by
  cases a <;> cases b <;> cases c <;> simp_all [Val.lt]
  exact _root_.lt_trans h1 h2

theorem le_iff (a b : Val) (ha : a.isNan = false) (hb : b.isNan = false) :
    a.le b = true ↔ (a.lt b = true ∨ a = b) := by
  cases a <;> cases b <;> simp_all [Val.le, Val.isNan]

theorem lt_of_not_le {a b : Val} (ha : a.isNan = false) (hb : b.isNan = false) (h : a.le b = false) :
    b.lt a = true := by
  cases a <;> cases b <;> simp_all [Val.le, Val.lt, Val.isNan]
  rename_i x y
  rcases lt_trichotomy x y with h1 | h1 | h1
  · exact absurd h1 (not_lt.mpr h.1)
  · exact absurd h1 h.2
  · exact h1

theorem lt_of_lt_of_le {a b c : Val} (h1 : a.lt b = true) (h2 : b.le c = true) : a.lt c = true := by
  have hb := (lt_notNan h1).2
  have hc : c.isNan = false := by cases b <;> cases c <;> simp_all [Val.le, Val.isNan]
  rcases (le_iff b c hb hc).mp h2 with h | h
  · exact lt_trans h1 h
  · subst h; exact h1

theorem not_lt_of_lt {a b : Val} (h : a.lt b = true) : b.lt a = false := by
  cases a <;> cases b <;> simp_all [Val.lt]
  exact le_of_lt h

theorem not_lt_of_le {a b : Val} (h : a.le b = true) : b.lt a = false := by
  cases a <;> cases b <;> simp_all [Val.le, Val.lt]
  rcases h with h | h
  · exact le_of_lt h
  · exact le_of_eq h

/-- the invariant of one parameter: lower limit strictly below the upper limit (hence neither is NaN) -/
def PInv (p : PV) : Prop := p.lo.lt p.hi = true

theorem toFloat_num (v : Val) : toFloat (.num v) = .ok v := rfl

/-- `set_lower_limits` on one parameter, spelled out -/
theorem setLowerF_cases (p : PV) (a : Arg) (hp : PInv p) :
    (∃ x, setLowerF p a = .error x) ∨
    (∃ v, toFloat a = .ok v ∧ v.isNan = false ∧ v.lt p.hi = true ∧
      setLowerF p a = .ok { p with value := if p.value.lt v then v else p.value, lo := v }) := by
  unfold setLowerF
  cases ha : toFloat a with
  | error x => left; exact ⟨x, rfl⟩
  | ok v =>
    simp only [bind, Except.bind]
    by_cases hn : v.isNan = true
    · left; simp [hn]
    · have hn' : v.isNan = false := by simpa using hn
      simp only [hn', Bool.false_eq_true, ↓reduceIte]
      unfold applyLower
      by_cases hle : p.hi.le v = true
      · left; simp [hle, liftV]
      · right
        have hle' : p.hi.le v = false := by simpa using hle
        refine ⟨v, rfl, hn', lt_of_not_le (lt_notNan hp).2 hn' hle', ?_⟩
        simp [hle', liftV]

theorem setUpperF_cases (p : PV) (a : Arg) (hp : PInv p) :
    (∃ x, setUpperF p a = .error x) ∨
    (∃ v, toFloat a = .ok v ∧ v.isNan = false ∧ p.lo.lt v = true ∧
      setUpperF p a = .ok { p with value := if v.lt p.value then v else p.value, hi := v }) := by
  unfold setUpperF
  cases ha : toFloat a with
  | error x => left; exact ⟨x, rfl⟩
  | ok v =>
    simp only [bind, Except.bind]
    by_cases hn : v.isNan = true
    · left; simp [hn]
    · have hn' : v.isNan = false := by simpa using hn
      simp only [hn', Bool.false_eq_true, ↓reduceIte]
      unfold applyUpper
      by_cases hle : v.le p.lo = true
      · left; simp [hle, liftV]
      · right
        have hle' : v.le p.lo = false := by simpa using hle
        refine ⟨v, rfl, hn', lt_of_not_le hn' (lt_notNan hp).1 hle', ?_⟩
        simp [hle', liftV]

theorem setLowerF_inv (p q : PV) (a : Arg) (hp : PInv p) (h : setLowerF p a = .ok q) : PInv q ∧ q.key = p.key := by
  rcases setLowerF_cases p a hp with ⟨x, hx⟩ | ⟨v, _, _, hlt, hq⟩
  · rw [hx] at h; cases h
  · rw [hq] at h; cases h; exact ⟨hlt, rfl⟩

theorem setUpperF_inv (p q : PV) (a : Arg) (hp : PInv p) (h : setUpperF p a = .ok q) : PInv q ∧ q.key = p.key := by
  rcases setUpperF_cases p a hp with ⟨x, hx⟩ | ⟨v, _, _, hlt, hq⟩
  · rw [hx] at h; cases h
  · rw [hq] at h; cases h; exact ⟨hlt, rfl⟩

theorem setValueF_inv (p q : PV) (a : Arg) (hp : PInv p) (h : setValueF p a = .ok q) : PInv q ∧ q.key = p.key := by
  unfold setValueF at h
  cases ha : toFloat a with
  | error x => simp [ha, Except.map] at h
  | ok v => simp only [ha, Except.map, Except.ok.injEq] at h; subst h; exact ⟨hp, rfl⟩

theorem setFixedF_inv (p q : PV) (a : Arg) (hp : PInv p) (h : setFixedF p a = .ok q) : PInv q ∧ q.key = p.key := by
  unfold setFixedF at h
  split at h
  · cases h; exact ⟨hp, rfl⟩
  · cases h

/-- the invariant of a whole element: every parameter has `lower < upper` -/
def AllInv (ps : List PV) : Prop := ∀ p ∈ ps, PInv p

/-- the shared `for key, value in pairs.items()` loop preserves the invariant and the key list —
whether it completes or stops at a refused pair -/
theorem applyPairs_inv (f : PV → Arg → Except String PV)
    (hf : ∀ p q a, PInv p → f p a = .ok q → PInv q ∧ q.key = p.key)
    (ps : List PV) (pairs : Pairs) (h : AllInv ps) :
    AllInv (applyPairs f ps pairs).1 ∧ (applyPairs f ps pairs).1.map (·.key) = ps.map (·.key) := by
  induction pairs generalizing ps with
  | nil => exact ⟨h, rfl⟩
  | cons ka rest ih =>
    obtain ⟨k, a⟩ := ka
    cases hfind : ps.find? (·.key = k) with
    | none =>
      have : applyPairs f ps ((k, a) :: rest) = (ps, some "KeyError") := by simp [applyPairs, hfind]
      rw [this]; exact ⟨h, rfl⟩
    | some p =>
      have hpm : p ∈ ps := List.mem_of_find?_eq_some hfind
      have hpk : p.key = k := by simpa using List.find?_some hfind
      cases hfa : f p a with
      | error e =>
        have : applyPairs f ps ((k, a) :: rest) = (ps, some e) := by simp [applyPairs, hfind, hfa]
        rw [this]; exact ⟨h, rfl⟩
      | ok p' =>
        have : applyPairs f ps ((k, a) :: rest) = applyPairs f (ps.map fun q => if q.key = k then p' else q) rest := by
          simp [applyPairs, hfind, hfa]
        rw [this]
        obtain ⟨hq, hk⟩ := hf p p' a (h p hpm) hfa
        have h' : AllInv (ps.map fun q => if q.key = k then p' else q) := by
          intro q hqm
          obtain ⟨r, hr, rfl⟩ := List.mem_map.mp hqm
          split
          · exact hq
          · exact h r hr
        have hkeys : (ps.map fun q => if q.key = k then p' else q).map (·.key) = ps.map (·.key) := by
          rw [List.map_map]
          apply List.map_congr_left
          intro q _
          simp only [Function.comp]
          split
          · rename_i hqk; rw [hk, hpk, hqk]
          · rfl
        obtain ⟨i1, i2⟩ := ih _ h'
        exact ⟨i1, by rw [i2, hkeys]⟩

end Param

import PyImpSpec.Cdc.Model

/-! # Model of the element parameter API (C14): `set_values`, `set_lower_limits`, `set_upper_limits`,
`set_fixed`, `set_label`, `reset_parameter(s)`, `__copy__` of `pyimpspec.circuit.base.Element`
(and `Container.__copy__`) — import-free apart from the CDC model whose `Val`, `PV`, `applyLower`,
`applyUpper`, `applyLowerSafe`, `setLabel` it shares (the parser builds elements through the same setters).

Every operation returns the state *after* the call together with the exception class if the call
raised: a refused call keeps the pairs that were applied before the refusal, as the Python loops do. -/

namespace Param
open Cdc

/-- an argument value as the setters see it -/
inductive Arg where
  | num (v : Val)          -- anything `float()` accepts (ints, floats, numpy scalars)
  | bool (b : Bool)        -- `float(True) = 1.0`; the only thing `set_fixed` accepts
  | bad (exc : String)     -- `float(x)` raises `exc` (`None` → TypeError, `"abc"` → ValueError)
deriving Repr

def toFloat : Arg → Except String Val
  | .num v => .ok v
  | .bool b => .ok (.num (if b then 1 else 0))
  | .bad e => .error e

structure El where
  ps : List PV
  label : String
deriving Repr

abbrev Pairs := List (String × Arg)

/-- `pairs = kwargs.copy()`, then the positional pairs; an odd number of positional arguments is a
`ValueError`, a positional key that is already present a `KeyError` — both before anything is applied -/
def mergeArgs (kw pos : Pairs) (odd : Bool) : Except String Pairs :=
  if odd then .error "ValueError"
  else pos.foldlM (fun acc p => if acc.any (·.1 = p.1) then .error "KeyError" else .ok (acc ++ [p])) kw

/-- the `for key, value in pairs.items():` loop shared by the setters -/
def applyPairs (f : PV → Arg → Except String PV) (ps : List PV) : Pairs → List PV × Option String
  | [] => (ps, none)
  | (k, a) :: rest =>
    match ps.find? (·.key = k) with
    | none => (ps, some "KeyError")
    | some p =>
      match f p a with
      | .error e => (ps, some e)
      | .ok p' => applyPairs f (ps.map fun q => if q.key = k then p' else q) rest

def liftV (r : PyM PV) : Except String PV :=
  match r with
  | .ok p => .ok p
  | .error e => .error e.name

def setValueF (p : PV) (a : Arg) : Except String PV := (toFloat a).map fun v => { p with value := v }
def setLowerF (p : PV) (a : Arg) : Except String PV :=
  toFloat a >>= fun v => if v.isNan then .error "ValueError" else liftV (applyLower p v)
def setUpperF (p : PV) (a : Arg) : Except String PV :=
  toFloat a >>= fun v => if v.isNan then .error "ValueError" else liftV (applyUpper p v)
def setFixedF (p : PV) (a : Arg) : Except String PV :=
  match a with
  | .bool b => .ok { p with fixed := b }
  | _ => .error "TypeError"

/-- a setter call with keyword and positional arguments -/
def call (f : PV → Arg → Except String PV) (e : El) (kw pos : Pairs) (odd : Bool) : El × Option String :=
  match mergeArgs kw pos odd with
  | .error x => (e, some x)
  | .ok pairs => let r := applyPairs f e.ps pairs; ({ e with ps := r.1 }, r.2)

def setValues := call setValueF
def setLowerLimits := call setLowerF
def setUpperLimits := call setUpperF
def setFixed := call setFixedF

/-- `set_label`; `none` = a non-string argument -/
def setLabelOp (e : El) (l : Option String) : El × Option String :=
  match l with
  | none => (e, some "TypeError")
  | some l =>
    match setLabel l with
    | .ok l' => ({ e with label := l' }, none)
    | .error x => (e, some x.name)

/-- one key of the first loop of `Element._set_limits`: when the new lower limit is not below the current
upper limit and a new upper limit is given too, the upper limit is moved first; then the lower limit -/
def lowerSafe (upper : List (String × Val)) (p : PV) (k : String) (v : Val) : PV × Option String :=
  let pre : Except String PV :=
    match (upper.find? (·.1 = k)).map (·.2) with
    | some uv => if p.hi.le v then setUpperF p (.num uv) else .ok p
    | none => .ok p
  match pre with
  | .error x => (p, some x)
  | .ok q =>
    match setLowerF q (.num v) with
    | .error x => (q, some x)       -- the upper limit may already have been moved
    | .ok r => (r, none)

def stepLower (upper : List (String × Val)) (acc : List PV × Option String) (kv : String × Val) : List PV × Option String :=
  match acc.2 with
  | some _ => acc
  | none =>
    match acc.1.find? (·.key = kv.1) with
    | none => (acc.1, some "KeyError")
    | some p =>
      let r := lowerSafe upper p kv.1 kv.2
      (acc.1.map fun q => if q.key = kv.1 then r.1 else q, r.2)

/-- `Element._set_limits(lower, upper)` on the parameter list: per lower-limit key the safe order, then
all upper limits -/
def setLimits (ps : List PV) (lower upper : List (String × Val)) : List PV × Option String :=
  let r := lower.foldl (stepLower upper) (ps, none)
  match r.2 with
  | some x => (r.1, some x)
  | none => applyPairs setUpperF r.1 (upper.map fun kv => (kv.1, Arg.num kv.2))

/-- `reset_parameters(*keys)` (`keys = []`: all parameters) against the class defaults `d` -/
def resetParameters (d : List PV) (e : El) (keys : List String) : El × Option String :=
  if keys.any (fun k => ¬ d.any (·.key = k)) then (e, some "KeyError")
  else
    let sel := if keys.isEmpty then d else d.filter (fun p => keys.contains p.key)
    let r1 := applyPairs setValueF e.ps (sel.map fun p => (p.key, Arg.num p.value))
    match r1.2 with
    | some x => ({ e with ps := r1.1 }, some x)
    | none =>
      let r2 := setLimits r1.1 (sel.map fun p => (p.key, p.lo)) (sel.map fun p => (p.key, p.hi))
      match r2.2 with
      | some x => ({ e with ps := r2.1 }, some x)
      | none =>
        let r3 := applyPairs setFixedF r2.1 (sel.map fun p => (p.key, Arg.bool p.fixed))
        ({ e with ps := r3.1 }, r3.2)

/-- `reset_parameter(key)` -/
def resetParameter (d : List PV) (e : El) (key : String) : El × Option String := resetParameters d e [key]

/-- `Element.__copy__`: a fresh instance with the class defaults `d`, then limits (safe order), values,
fixed flags, label -/
def copyElement (d : List PV) (e : El) : Except String El :=
  let r1 := setLimits d (e.ps.map fun p => (p.key, p.lo)) (e.ps.map fun p => (p.key, p.hi))
  match r1.2 with
  | some x => .error x
  | none =>
    let r2 := applyPairs setValueF r1.1 (e.ps.map fun p => (p.key, Arg.num p.value))
    match r2.2 with
    | some x => .error x
    | none =>
      let r3 := applyPairs setFixedF r2.1 (e.ps.map fun p => (p.key, Arg.bool p.fixed))
      match r3.2 with
      | some x => .error x
      | none =>
        match setLabel e.label with
        | .ok l => .ok { ps := r3.1, label := l }
        | .error x => .error x.name

/-- `Container.__copy__` / `__deepcopy__`: the values go through the constructor, the limits are
applied afterwards (and clamp values that lie outside them) -/
def copyContainer (d : List PV) (e : El) : Except String El :=
  let ps0 := d.map fun dp => match e.ps.find? (·.key = dp.key) with
    | some p => { dp with value := p.value }
    | none => dp
  let r1 := setLimits ps0 (e.ps.map fun p => (p.key, p.lo)) (e.ps.map fun p => (p.key, p.hi))
  match r1.2 with
  | some x => .error x
  | none =>
    let r3 := applyPairs setFixedF r1.1 (e.ps.map fun p => (p.key, Arg.bool p.fixed))
    match r3.2 with
    | some x => .error x
    | none =>
      match setLabel e.label with
      | .ok l => .ok { ps := r3.1, label := l }
      | .error x => .error x.name

end Param

/-! # Parameter bookkeeping of circuit fitting (C12) — import-free

`pyimpspec/analysis/fitting.py`: `generate_fit_identifiers`, `_to_lmfit`, `_from_lmfit`,
`_extract_parameters` and the choice of the best (method, weight) combination in `fit_circuit`.
The minimiser (lmfit) is a parameter: it returns a value for every name it was given. -/

namespace Fit

/-- an extended real bound: `none` is −∞ for lower and +∞ for upper limits -/
abbrev Bound := Option Rat

structure P where
  sym : String
  value : Rat
  lo : Bound
  hi : Bound
  fixed : Bool
deriving Repr, DecidableEq

/-- an element with its running identifier (`generate_element_identifiers(running=True)`) -/
structure El where
  id : Nat
  ps : List P
deriving Repr, DecidableEq

abbrev Circuit := List El

/-- the identifier given to lmfit: `f"{symbol}_{ident}"` -/
abbrev Name := String × Nat

def Name.str (n : Name) : String := n.1 ++ "_" ++ toString n.2

def loOk (lo : Bound) (v : Rat) : Bool := match lo with | none => true | some l => l ≤ v
def hiOk (hi : Bound) (v : Rat) : Bool := match hi with | none => true | some h => v ≤ h

/-- what `_to_lmfit` hands to `Parameters.add` -/
structure LP where
  name : Name
  value : Rat
  min : Bound
  max : Bound
  vary : Bool
deriving Repr, DecidableEq

def elemLPs (e : El) : Except String (List LP) :=
  e.ps.foldr (fun p acc =>
    if loOk p.lo p.value && hiOk p.hi p.value then acc.map (⟨(p.sym, e.id), p.value, p.lo, p.hi, !p.fixed⟩ :: ·)
    else .error "ValueError") (.ok [])

/-- `_to_lmfit(identifiers, {}, {})`: one lmfit parameter per element parameter, in order; a value outside
its limits is refused -/
def toLmfit : Circuit → Except String (List LP)
  | [] => .ok []
  | e :: rest =>
    match elemLPs e with
    | .error x => .error x
    | .ok l => (toLmfit rest).map (l ++ ·)

/-- the values lmfit reports: a value for (some) names -/
abbrev Sol := List (Name × Rat)

def Sol.get (s : Sol) (n : Name) : Option Rat := (s.find? (·.1 = n)).map (·.2)

/-- `_from_lmfit(parameters, identifiers)`: every element parameter whose identifier is reported takes the
reported value, every other parameter is left alone -/
def fromLmfit (s : Sol) (c : Circuit) : Circuit :=
  c.map fun e => { e with ps := e.ps.map fun p => match s.get (p.sym, e.id) with
    | some v => { p with value := v }
    | none => p }

/-- one row of the table of fitted parameters -/
structure Row where
  sym : String
  value : Rat
  fixed : Bool
deriving Repr, DecidableEq

/-- `_extract_parameters(circuit, fit)` for one element: first the varied parameters in the order of
`fit.var_names` (value taken from `fit.params`), then the remaining parameters of the element as fixed -/
def extractEl (varNames : List Name) (s : Sol) (e : El) : List Row :=
  let varied := (varNames.filter (·.2 = e.id)).filterMap fun n => (s.get n).map fun v => (⟨n.1, v, false⟩ : Row)
  let rest := e.ps.filterMap fun p => if varied.any (·.sym = p.sym) then none else some (⟨p.sym, p.value, true⟩ : Row)
  varied ++ rest

def extract (varNames : List Name) (s : Sol) (c : Circuit) : List (Nat × List Row) :=
  c.map fun e => (e.id, extractEl varNames s e)

/-- `fit.var_names`: the names lmfit varies -/
def varNames (lps : List LP) : List Name := (lps.filter (·.vary)).map (·.name)

/-! ## choice of the best combination -/

/-- an intermediate result of `_fit_process`: rank of the pseudo chi-squared (`none`: the fit failed) -/
structure Res where
  tag : Nat
  chi : Option Int
deriving Repr, DecidableEq

/-- `key = log(chi) if fit is not None else inf` compared: `a` strictly before `b` -/
def Res.lt (a b : Res) : Bool :=
  match a.chi, b.chi with
  | some x, some y => x < y
  | some _, none => true
  | none, _ => false

/-- `fits.sort(key=…); fits[0]`: the first minimal element (the sort is stable) -/
def best : List Res → Option Res
  | [] => none
  | r :: rest => some (rest.foldl (fun b t => if t.lt b then t else b) r)

/-- `fit_circuit`'s result: the best combination, or `FittingError` when even that one failed -/
def pick (l : List Res) : Except String Res :=
  match best l with
  | none => .error "FittingError"
  | some r => if r.chi.isSome then .ok r else .error "FittingError"

end Fit

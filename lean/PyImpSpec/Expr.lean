/-! # Expression type for translated numeric kernels (C02, C07, C08 …) — import-free

`E` is the small language the translator (`harness/translate_kernels.py`) emits for straight-line numeric
Python code and for sympy expression trees.  One evaluator `E.eval`, parameterised by a record of
operations: instantiated at complex floats (`CF`) in the driver (translator cross-check) and at `ℂ` in
the proofs (`ExprC.lean`) — the same definition. -/

inductive E where
  | var : String → E
  | num : Nat → E
  | I : E
  | pi : E
  | add : E → E → E
  | mul : E → E → E
  | neg : E → E
  | inv : E → E
  | pow : E → E → E
  | sqrt : E → E
  | tanh : E → E
  | coth : E → E
  | cosh : E → E
  | sinh : E → E
  | re : E → E          -- `x.real` (as a complex number with zero imaginary part)
  | im : E → E          -- `x.imag`
  | abs : E → E         -- `abs(x)`
  | exp : E → E
  | log : E → E         -- natural logarithm
  | sin : E → E
  | cos : E → E
deriving Repr, Inhabited

structure NumOps (α : Type) where
  ofNat : Nat → α
  I : α
  pi : α
  add : α → α → α
  mul : α → α → α
  neg : α → α
  inv : α → α
  pow : α → α → α
  sqrt : α → α
  tanh : α → α
  cosh : α → α
  sinh : α → α
  re : α → α
  im : α → α
  abs : α → α
  exp : α → α
  log : α → α
  sin : α → α
  cos : α → α

def E.eval {α : Type} (o : NumOps α) (env : String → α) : E → α
  | .var s => env s
  | .num n => o.ofNat n
  | .I => o.I
  | .pi => o.pi
  | .add a b => o.add (a.eval o env) (b.eval o env)
  | .mul a b => o.mul (a.eval o env) (b.eval o env)
  | .neg a => o.neg (a.eval o env)
  | .inv a => o.inv (a.eval o env)
  | .pow a b => o.pow (a.eval o env) (b.eval o env)
  | .sqrt a => o.sqrt (a.eval o env)
  | .tanh a => o.tanh (a.eval o env)
  | .coth a => o.inv (o.tanh (a.eval o env))      -- `coth(x) = 1 / tanh(x)` (circuit/functions.py)
  | .cosh a => o.cosh (a.eval o env)
  | .sinh a => o.sinh (a.eval o env)
  | .re a => o.re (a.eval o env)
  | .im a => o.im (a.eval o env)
  | .abs a => o.abs (a.eval o env)
  | .exp a => o.exp (a.eval o env)
  | .log a => o.log (a.eval o env)
  | .sin a => o.sin (a.eval o env)
  | .cos a => o.cos (a.eval o env)

/-! ## complex floats -/

structure CF where
  re : Float
  im : Float

namespace CF
def add (a b : CF) : CF := ⟨a.re + b.re, a.im + b.im⟩
def mul (a b : CF) : CF := ⟨a.re * b.re - a.im * b.im, a.re * b.im + a.im * b.re⟩
def neg (a : CF) : CF := ⟨-a.re, -a.im⟩
def inv (a : CF) : CF :=
  -- Smith's algorithm (as numpy / C99 do) to avoid overflow of re² + im²
  if a.im.abs ≤ a.re.abs then
    let r := a.im / a.re
    let d := a.re + a.im * r
    ⟨1 / d, -r / d⟩
  else
    let r := a.re / a.im
    let d := a.re * r + a.im
    ⟨r / d, -1 / d⟩
def abs (a : CF) : Float := Float.sqrt (a.re * a.re + a.im * a.im)
def log (a : CF) : CF := ⟨Float.log (abs a), Float.atan2 a.im a.re⟩
def exp (a : CF) : CF := let m := Float.exp a.re; ⟨m * Float.cos a.im, m * Float.sin a.im⟩
def pow (a b : CF) : CF :=
  if a.re == 0 && a.im == 0 then
    (if b.re == 0 && b.im == 0 then ⟨1, 0⟩ else if b.re < 0 then ⟨1 / 0, 0 / 0⟩ else ⟨0, 0⟩)
  else exp (mul b (log a))
def sqrt (a : CF) : CF := pow a ⟨0.5, 0⟩
def sinh (a : CF) : CF := ⟨Float.sinh a.re * Float.cos a.im, Float.cosh a.re * Float.sin a.im⟩
def cosh (a : CF) : CF := ⟨Float.cosh a.re * Float.cos a.im, Float.sinh a.re * Float.sin a.im⟩
def tanh (a : CF) : CF :=
  -- for large |re| the quotient sinh/cosh overflows; tanh → ±1 there
  if a.re.abs > 20 then ⟨if a.re > 0 then 1 else -1, 0⟩ else mul (sinh a) (inv (cosh a))
def sin (a : CF) : CF := ⟨Float.sin a.re * Float.cosh a.im, Float.cos a.re * Float.sinh a.im⟩
def cos (a : CF) : CF := ⟨Float.cos a.re * Float.cosh a.im, -(Float.sin a.re * Float.sinh a.im)⟩
def ops : NumOps CF :=
  { ofNat := fun n => ⟨n.toFloat, 0⟩, I := ⟨0, 1⟩, pi := ⟨3.141592653589793, 0⟩, add := add, mul := mul, neg := neg,
    inv := inv, pow := pow, sqrt := sqrt, tanh := tanh, cosh := cosh, sinh := sinh,
    re := fun z => ⟨z.re, 0⟩, im := fun z => ⟨z.im, 0⟩, abs := fun z => ⟨abs z, 0⟩,
    exp := exp, log := log, sin := sin, cos := cos }
end CF

def E.evalF (env : String → CF) (e : E) : CF := e.eval CF.ops env

/-! # The element registry (C15) — import-free

`pyimpspec/circuit/registry.py`: the module-level dictionaries `_ELEMENTS`, `_DEFAULT_ELEMENTS`,
`_PRIVATE_ELEMENTS`, `_DEFAULT_ELEMENT_PARAMETERS` and the class-level default values, under
`register_element`, `remove_elements`, `reset`, `Class.set_default_values`,
`reset_default_parameter_values`, observed through `get_elements(default_only, private)`.
Classes are identified by a number; a definition carries the facts the code inspects. -/

namespace Registry

abbrev ClassId := Nat

/-- `_validate_element_symbol`: first character an upper-case ASCII letter, the rest lower-case
letters, digits or `_` -/
def validSymbol (s : String) : Bool :=
  match s.toList with
  | [] => false
  | c :: cs => ('A' ≤ c ∧ c ≤ 'Z') && cs.all fun d => ('a' ≤ d ∧ d ≤ 'z') || ('0' ≤ d ∧ d ≤ '9') || d = '_'

/-- what `register_element` looks at in a definition -/
structure Definition where
  cls : ClassId
  symbol : String               -- already stripped
  staticOk : Bool               -- name/description/equation present, parameter symbols unique and identifiers
  impedancesConsistent : Bool   -- `_validate_impedances`: numeric impedance agrees with the declared equation at the defaults
  params : List (String × Int)  -- parameter defaults (as the harness encodes them)
deriving Repr

structure State where
  elements : List (String × ClassId)                -- `_ELEMENTS`, insertion order
  defaults : List (String × ClassId)                -- `_DEFAULT_ELEMENTS`
  privates : List (String × ClassId)                -- `_PRIVATE_ELEMENTS`
  defaultParams : List (String × List (String × Int))   -- `_DEFAULT_ELEMENT_PARAMETERS`
  classParams : List (ClassId × List (String × Int))    -- each class's current `_parameter_default_value`
deriving Repr

def lookup {α : Type} (l : List (String × α)) (k : String) : Option α := (l.find? (·.1 = k)).map (·.2)
def setKey {α : Type} (l : List (String × α)) (k : String) (v : α) : List (String × α) :=
  if l.any (·.1 = k) then l.map (fun p => if p.1 = k then (k, v) else p) else l ++ [(k, v)]

def isDefaultClass (st : State) (c : ClassId) : Bool := st.defaults.any (·.2 = c)

def addPrivate (st : State) (d : Definition) (priv : Bool) : State :=
  if priv then { st with privates := setKey st.privates d.symbol d.cls } else st

/-- the last part of `register_element`: duplicate-symbol check, table update, private flag -/
def registerEntry (st : State) (d : Definition) (priv : Bool) : State × Option String :=
  match lookup st.elements d.symbol with
  | some c =>
    if c ≠ d.cls then (st, some "KeyError") else (addPrivate st d priv, none)
  | none => (addPrivate { st with elements := st.elements ++ [(d.symbol, d.cls)] } d priv, none)

/-- the class attributes (symbol, defaults, …) of the definition's class are rewritten -/
def rewriteClass (st : State) (d : Definition) : State :=
  { st with classParams := (d.cls, d.params) :: st.classParams.filter (·.1 ≠ d.cls) }

/-- `register_element(definition, private=…, validate_impedances=…)`; returns the state after the call
and the exception class if it raised -/
def register (st : State) (d : Definition) (priv validate : Bool) : State × Option String :=
  if !validSymbol d.symbol then (st, some "ValueError")
  else if isDefaultClass st d.cls then (st, some "ValueError")
  else if !d.staticOk then (st, some "ValueError")
  else if validate && !d.impedancesConsistent then (rewriteClass st d, some "ValueError")
  else registerEntry (rewriteClass st d) d priv

/-- one class of `remove_elements`: drop the first entry whose value is the class, and its private flag -/
def removeOne (s : State) (c : ClassId) : State :=
  match s.elements.find? (·.2 = c) with
  | none => s
  | some kc =>
    { s with elements := s.elements.erase kc,
             privates := if s.privates.any (fun p => p.1 = kc.1 ∧ p.2 = c) then s.privates.filter (·.1 ≠ kc.1) else s.privates }

/-- `remove_elements([classes])` -/
def remove (st : State) (cs : List ClassId) : State × Option String :=
  if cs.isEmpty then (st, some "ValueError")
  else if cs.any (isDefaultClass st) then (st, some "ValueError")
  else (cs.foldl removeOne st, none)

/-- `reset_default_parameter_values()` for all default elements -/
def resetDefaultParams (st : State) : State :=
  { st with classParams := st.defaults.foldl (fun cp kc =>
      match lookup st.defaultParams kc.1 with
      | some ps => (kc.2, ps) :: cp.filter (·.1 ≠ kc.2)
      | none => cp) st.classParams }

/-- `reset(elements, default_parameters)` -/
def reset (st : State) (elements defaultParameters : Bool) : State :=
  let st1 := if elements then
      { st with elements := st.defaults, privates := st.privates.filter (fun p => st.defaults.any (·.1 = p.1)) }
    else st
  if defaultParameters then resetDefaultParams st1 else st1

/-- `Class.set_default_values(key=value)` (unknown key: `KeyError`) -/
def setDefault (st : State) (c : ClassId) (key : String) (v : Int) : State × Option String :=
  match st.classParams.find? (·.1 = c) with
  | none => (st, some "KeyError")
  | some (_, ps) =>
    if !ps.any (·.1 = key) then (st, some "KeyError")
    else ({ st with classParams := (c, ps.map fun p => if p.1 = key then (key, v) else p) :: st.classParams.filter (·.1 ≠ c) }, none)

/-- `get_elements(default_only, private)`: sorted symbols → classes -/
def getElements (st : State) (defaultOnly priv : Bool) : List (String × ClassId) :=
  let keys := ((if defaultOnly then st.defaults else st.elements).map (·.1)).mergeSort (fun a b => decide (a ≤ b))
  let keys := if priv then keys else keys.filter fun k => !st.privates.any (·.1 = k)
  keys.filterMap fun k => (lookup st.elements k).map fun c => (k, c)

/-- everything a user can observe about the registry and the built-in defaults -/
def observe (st : State) : List (List (String × ClassId)) × List (ClassId × List (String × Int)) :=
  ([getElements st false false, getElements st false true, getElements st true false, getElements st true true],
   st.defaults.map fun kc => (kc.2, (lookup (st.classParams.map fun p => (toString p.1, p.2)) (toString kc.2)).getD []))

end Registry

import PyImpSpec.Cdc.RenderProof
import PyImpSpec.Cdc.TopProof

/-! Proof support for C03: the round trip on TEXT.  `parseCdc` applied to the characters of a printable tree's basic-syntax code
returns that tree's normal form - strip, empty-form shortcut, tokenizer, header migration, main loops and the final fold included. -/

namespace Cdc

/-- the characters Python's `str.strip()` removes (as in `pyStrip`) -/
def isSp (c : Char) : Bool := isWs c || c = '\x1c' || c = '\x1d' || c = '\x1e' || c = '\x1f' || c = '\x85' || c = '\xa0'

theorem pyStrip_eq (cs : List Char) : pyStrip cs = ((cs.dropWhile isSp).reverse.dropWhile isSp).reverse := rfl

def spList : List Char := [' ', '\t', '\n', '\r', '\x0b', '\x0c', '\x1c', '\x1d', '\x1e', '\x1f', '\x85', '\xa0']

theorem isSp_mem (c : Char) (h : isSp c = true) : c ∈ spList := by
  unfold isSp isWs at h
  simp only [Bool.or_eq_true, decide_eq_true_eq, Bool.decide_or] at h
  simp only [spList, List.mem_cons, List.not_mem_nil, or_false]
  grind

/-- the characters a basic-syntax code can begin or end with -/
def okEnd (c : Char) : Bool := isUpper c || symTail c || isBracket c

theorem okEnd_spList : ∀ c ∈ spList, okEnd c = false := by decide

theorem okEnd_not_sp (c : Char) (h : okEnd c = true) : isSp c = false := by
  cases hs : isSp c with
  | false => rfl
  | true => have := okEnd_spList c (isSp_mem c hs); rw [h] at this; cases this

theorem okEnd_not_excl (c : Char) (h : okEnd c = true) : c ≠ '!' := by
  intro e; subst e; revert h; decide

theorem dropWhile_id (p : Char → Bool) (l : List Char) (h : ∀ c, l.head? = some c → p c = false) : l.dropWhile p = l := by
  cases l with
  | nil => rfl
  | cons c r => simp [List.dropWhile_cons, h c rfl]

theorem pyStrip_id (cs : List Char) (h1 : ∀ c, cs.head? = some c → okEnd c = true) (h2 : ∀ c, cs.getLast? = some c → okEnd c = true) :
    pyStrip cs = cs := by
  rw [pyStrip_eq, dropWhile_id isSp cs (fun c hc => okEnd_not_sp c (h1 c hc)),
    dropWhile_id isSp cs.reverse (fun c hc => okEnd_not_sp c (h2 c (by rwa [List.head?_reverse] at hc))), List.reverse_reverse]

/-! ### first and last character of a rendered run of basic tokens -/

theorem basic_chars (t : Token) (h : Basic t) :
    ∃ c r, chars t = c :: r ∧ okEnd c = true ∧ (∀ d, (c :: r).getLast? = some d → okEnd d = true) ∧ (isUpper c = true ∨ isBracket c = true) := by
  rcases h with ⟨s, ⟨c, cs, rfl, hu, ht⟩, rfl⟩ | ⟨c, k, hb, _, rfl⟩
  · refine ⟨c, cs, by simp [chars, identTok, String.toList_ofList], by simp [okEnd, hu], ?_, Or.inl hu⟩
    intro d hd
    have hm : d ∈ c :: cs := List.mem_of_getLast? hd
    rcases List.mem_cons.mp hm with rfl | hm
    · simp [okEnd, hu]
    · simp [okEnd, ht d hm]
  · refine ⟨c, [], by simp [chars, String.toList_ofList], by simp [okEnd, hb], ?_, Or.inr hb⟩
    intro d hd
    simp only [List.getLast?_singleton, Option.some.injEq] at hd
    subst hd; simp [okEnd, hb]

theorem render_head (ts : List Token) (h : ∀ t ∈ ts, Basic t) : ∀ c, ((ts.map chars).flatten).head? = some c → okEnd c = true := by
  intro c hc
  cases ts with
  | nil => simp at hc
  | cons t r =>
    obtain ⟨c', r', hch, hok, _, _⟩ := basic_chars t (h t List.mem_cons_self)
    simp only [List.map_cons, List.flatten_cons, hch, List.cons_append, List.head?_cons, Option.some.injEq] at hc
    subst hc; exact hok

theorem render_last (ts : List Token) (h : ∀ t ∈ ts, Basic t) : ∀ c, ((ts.map chars).flatten).getLast? = some c → okEnd c = true := by
  induction ts with
  | nil => intro c hc; simp at hc
  | cons t r ih =>
    intro c hc
    obtain ⟨c', r', hch, _, hlast, _⟩ := basic_chars t (h t List.mem_cons_self)
    simp only [List.map_cons, List.flatten_cons] at hc
    by_cases hr : (r.map chars).flatten = []
    · rw [hr, List.append_nil, hch] at hc; exact hlast c hc
    · rw [List.getLast?_append] at hc
      cases hl : ((r.map chars).flatten).getLast? with
      | none => exact absurd (List.getLast?_eq_none_iff.mp hl) hr
      | some d =>
        rw [hl] at hc
        have hc' : d = c := by simpa using hc
        subst hc'
        exact ih (fun y hy => h y (List.mem_cons_of_mem _ hy)) d hl

/-! ### the empty-form shortcut does not fire on a printable tree -/

theorem printTs_ne_nil (cs : List T) (h : cs ≠ []) : 1 ≤ (printTs cs).length := by
  cases cs with
  | nil => exact absurd rfl h
  | cons t r => simp only [printTs, List.length_append]; have := printTs_length_pos t; omega

theorem render_not_empty_form (tbl : List ElemDef) (t : T) (hp : Printable tbl t) (hv : LeavesValid t) : isEmptyForm (renderT t) = false := by
  have hb := printT_basic t hv
  have hlen := flatten_chars_length_ge (printT t) hb
  have hpos := printTs_length_pos t
  have hhead := render_head (printT t) hb
  unfold isEmptyForm
  have h1 : (renderT t == []) = false := by
    cases hr : renderT t with
    | nil => unfold renderT at hr; rw [hr] at hlen; simp only [List.length_nil] at hlen; omega
    | cons c r => rfl
  have h2 : (renderT t == ['[', ']']) = false := by
    cases t with
    | leaf sym =>
      obtain ⟨c, cs, hs, hu, _⟩ := (show ValidSym sym.toList from hv)
      have : renderT (.leaf sym) = c :: cs := by simp [renderT, printT, chars, tkOf, hs]
      rw [this]
      have hne : c ≠ '[' := by intro e; subst e; revert hu; decide
      simp [hne]
    | series cs =>
      have h3 : 3 ≤ (printT (.series cs)).length := by
        have := printTs_ne_nil cs hp.1
        simp only [printT, List.length_cons, List.length_append, List.length_nil]; omega
      have h3' : 3 ≤ (renderT (.series cs)).length := Nat.le_trans h3 hlen
      cases hr : renderT (.series cs) with
      | nil => rw [hr] at h3'; simp at h3'
      | cons a r1 =>
        cases r1 with
        | nil => rw [hr] at h3'; simp at h3'
        | cons b r2 =>
          cases r2 with
          | nil => rw [hr] at h3'; simp at h3'
          | cons c r3 => simp
    | parallel cs =>
      have : renderT (.parallel cs) = '(' :: ((printTs cs ++ [tkOf .rparen ")"]).map chars).flatten := by
        simp [renderT, printT, chars, tkOf]
      rw [this]; simp
  have h3 : ((renderT t).head? == some '!') = false := by
    cases hr : (renderT t).head? with
    | none => rfl
    | some c =>
      have := okEnd_not_excl c (hhead c hr)
      simp [this]
  rw [h1, h2, h3]; rfl

/-! ### the whole pipeline -/

/-- the top-level series `Parser.process` returns for a parsed item -/
def top (c : Ckt) : Ckt :=
  match c with
  | .series cs => .series cs
  | c => .series [c]

theorem foldStack_single (c : Ckt) : foldStack ⟨[], [.ckt c]⟩ = .ok (top c) := by
  unfold foldStack
  simp only [List.length_singleton, Nat.lt_irrefl, ↓reduceIte, PS.popStack, bind, Except.bind, List.isEmpty_nil, not_true_eq_false, top]
  cases c <;> rfl

theorem migrate_no_header (toks : List Token) (tk : Token) (r : List Token) (h : toks = tk :: r) (hk : tk.kind ≠ .excl) :
    migrate true ⟨toks, []⟩ = .ok ⟨toks, []⟩ := by
  unfold migrate
  have : (⟨toks, []⟩ : PS).accept .excl = false := by
    unfold PS.accept; rw [h]; simp [hk]
  simp [this, pure, Except.pure]

/-- **C03 on text.** For every printable tree whose leaves carry well-formed symbols, `parse_cdc` applied to the characters of its
basic-syntax code returns the tree's normal form (as the top-level series): nothing is lost or reordered between the text and
the circuit - strip, empty-form shortcut, tokenizer, header migration, main loops and final fold included. -/
theorem parseCdc_renderT (tbl : List ElemDef) (t : T) (hp : Printable tbl t) (hv : LeavesValid t) :
    parseCdc tbl fixedFlags (String.ofList (renderT t)) = .ok (top (norm tbl t)) := by
  have hb := printT_basic t hv
  unfold parseCdc
  rw [String.toList_ofList, pyStrip_id (renderT t) (render_head _ hb) (render_last _ hb)]
  unfold parseBody
  rw [render_not_empty_form tbl t hp hv]
  simp only [Bool.false_eq_true, ↓reduceIte, fixedFlags, tokenize_renderT t hv, bind, Except.bind]
  obtain ⟨tk, r, hpr, hk⟩ := printT_head t
  have hne : (printT t).isEmpty = false := by rw [hpr]; rfl
  have hexcl : tk.kind ≠ .excl := by rcases hk with h | h | h <;> rw [h] <;> decide
  simp only [hne, Bool.false_eq_true, ↓reduceIte, migrate_no_header (printT t) tk r hpr hexcl]
  have hmain := parse_printT tbl t hp [] [] (8 * ((printT t).length + 2)) (by intro a b h; cases h) (by simp; omega)
  rw [List.append_nil] at hmain
  unfold mainLoops
  simp only [hne, Bool.false_eq_true, ↓reduceIte, hmain, bind, Except.bind]
  have hdone : ∀ f, mainLoops tbl true f ⟨[], [.ckt (norm tbl t)]⟩ = .ok ⟨[], [.ckt (norm tbl t)]⟩ := by
    intro f; cases f <;> simp [mainLoops, pure, Except.pure]
  rw [hdone]
  exact foldStack_single _

end Cdc

namespace Cdc

/-- **An unregistered symbol is refused.** `parse_cdc` of a well-formed symbol that is not in the table raises
`InvalidElementSymbol` (whatever else is registered, including symbols it is a prefix or an extension of). -/
theorem parseCdc_unregistered (tbl : List ElemDef) (sym : String) (hv : ValidSym sym.toList)
    (hn : tbl.find? (fun d => d.sym = sym) = none) :
    parseCdc tbl fixedFlags sym = .error (.lib "InvalidElementSymbol") := by
  have hlv : LeavesValid (.leaf sym) := hv
  have hb := printT_basic (.leaf sym) hlv
  have hrender : renderT (.leaf sym) = sym.toList := by simp [renderT, printT, chars, tkOf]
  have hhead := render_head _ hb
  have hlast := render_last _ hb
  have htok := tokenize_renderT (.leaf sym) hlv
  rw [show (printT (.leaf sym)) = [tkOf .ident sym] from rfl] at htok
  simp only [show ((printT (.leaf sym)).map chars).flatten = renderT (.leaf sym) from rfl, hrender] at hhead hlast
  rw [hrender] at htok
  obtain ⟨c, cs, hs, hu, _⟩ := hv
  unfold parseCdc
  rw [pyStrip_id sym.toList hhead hlast]
  unfold parseBody
  have hef : isEmptyForm sym.toList = false := by
    unfold isEmptyForm
    rw [hs]
    have h1 : c ≠ '[' := by intro e; subst e; revert hu; decide
    have h2 : c ≠ '!' := by intro e; subst e; revert hu; decide
    simp [h1, h2]
  rw [hef]
  simp only [Bool.false_eq_true, ↓reduceIte, fixedFlags, htok, bind, Except.bind, List.isEmpty_cons]
  rw [migrate_no_header [tkOf .ident sym] (tkOf .ident sym) [] rfl (by simp [tkOf])]
  simp only [mainLoops, List.isEmpty_cons, Bool.false_eq_true, ↓reduceIte, List.length_singleton, bind, Except.bind]
  have : mainLoop tbl true (8 * (1 + 2)) ⟨[tkOf .ident sym], []⟩ = .error (.lib "InvalidElementSymbol") := by
    simp [mainLoop, PS.accept, tkOf, element, PS.popTok, hn, bind, Except.bind, throw, throwThe, MonadExceptOf.throw]
  rw [this]

end Cdc

import PyImpSpec.Cdc.Model
import PyImpSpec.Cdc.ParProof

namespace Cdc
/-! Prototype for C03 (structural heart): parsing the basic-syntax text of any printable tree of
plain elements yields exactly its normal form (same-kind nesting spliced, singleton series unwrapped). -/

/-- source trees (what `to_string()` without decimals prints) -/
inductive T where
  | leaf (sym : String) : T
  | series (cs : List T) : T
  | parallel (cs : List T) : T

def tkOf (k : TK) (s : String) : Token := { kind := k, text := s }

mutual
def printT : T → List Token
  | .leaf sym => [tkOf .ident sym]
  | .series cs => tkOf .lbracket "[" :: (printTs cs ++ [tkOf .rbracket "]"])
  | .parallel cs => tkOf .lparen "(" :: (printTs cs ++ [tkOf .rparen ")"])
def printTs : List T → List Token
  | [] => []
  | t :: ts => printT t ++ printTs ts
end

/-- splice same-kind children (what `popItems` does) -/
def splice (isSeries : Bool) (cs : List Ckt) : List Ckt :=
  cs.flatMap fun c =>
    match isSeries, c with
    | true, .series l => l
    | false, .parallel l => l
    | _, c => [c]

/-- the element object the parser builds for a bare symbol -/
def defaultElem (d : ElemDef) : Ckt :=
  .elem d.sym "" (d.params.map fun pd => { key := pd.key, value := pd.value, lo := pd.lo, hi := pd.hi, fixed := pd.fixed })
    (d.subs.map fun q => (q.1, none))

mutual
def norm (tbl : List ElemDef) : T → Ckt
  | .leaf sym => match tbl.find? (fun d => d.sym = sym) with
      | some d => defaultElem d
      | none => .series []
  | .series cs => mkConn true (splice true (norms tbl cs))
  | .parallel cs => mkConn false (splice false (norms tbl cs))
def norms (tbl : List ElemDef) : List T → List Ckt
  | [] => []
  | t :: ts => norm tbl t :: norms tbl ts
end

mutual
/-- what the parser accepts: known symbols, non-empty series, parallels with ≥ 2 children -/
def Printable (tbl : List ElemDef) : T → Prop
  | .leaf sym => (tbl.find? (fun d => d.sym = sym)).isSome = true
  | .series cs => cs ≠ [] ∧ Printables tbl cs
  | .parallel cs => 2 ≤ cs.length ∧ Printables tbl cs
def Printables (tbl : List ElemDef) : List T → Prop
  | [] => True
  | t :: ts => Printable tbl t ∧ Printables tbl ts
end

mutual
def T.size : T → Nat
  | .leaf _ => 1
  | .series cs => 1 + T.sizes cs
  | .parallel cs => 1 + T.sizes cs
def T.sizes : List T → Nat
  | [] => 0
  | t :: ts => t.size + T.sizes ts
end

#eval (printT (.series [.leaf "R", .parallel [.leaf "C", .series [.leaf "R", .leaf "W"]]])).map (·.text)

/-! ### `popItems` computes the splice -/

def spliceRev (isSeries : Bool) (c : Ckt) : List Ckt :=
  match isSeries, c with
  | true, .series l => l.reverse
  | false, .parallel l => l.reverse
  | _, c => [c]

theorem popItems_exact_rev (op : TK) (b : Bool) (l : List Ckt) (t : Token) (rest acc : List Item) (ht : t.kind = op) :
    popItems op b (l.map Item.ckt ++ .tok t :: rest) acc = (acc ++ (l.flatMap (spliceRev b)).map Item.ckt, rest) := by
  induction l generalizing acc with
  | nil => simp [popItems_tok _ _ _ _ _ ht]
  | cons c l ih =>
    simp only [List.map_cons, List.cons_append, List.flatMap_cons, List.map_append]
    cases c with
    | elem x y z w =>
      rw [popItems_elem, ih]
      cases b <;> simp [spliceRev]
    | series cs =>
      rw [popItems_series]
      cases b
      · simp only [Bool.false_eq_true, ↓reduceIte]; rw [ih]; simp [spliceRev]
      · simp only [↓reduceIte]; rw [ih]; simp [spliceRev]
    | parallel cs =>
      rw [popItems_parallel]
      cases b
      · simp only [Bool.false_eq_true, not_false_eq_true, ↓reduceIte]; rw [ih]; simp [spliceRev]
      · simp only [not_true_eq_false, ↓reduceIte]; rw [ih]; simp [spliceRev]

theorem flatMap_spliceRev_reverse (b : Bool) (cs : List Ckt) :
    (cs.reverse.flatMap (spliceRev b)) = (splice b cs).reverse := by
  induction cs with
  | nil => rfl
  | cons c cs ih =>
    simp only [List.reverse_cons, List.flatMap_append, List.flatMap_cons, List.flatMap_nil, List.append_nil, ih,
      splice, List.reverse_append]
    congr 1
    cases b <;> cases c <;> simp [spliceRev]

theorem itemsToCkts_map (cs : List Ckt) : itemsToCkts (cs.map Item.ckt) = cs := by
  induction cs with
  | nil => rfl
  | cons c cs ih => simp [itemsToCkts, List.filterMap_cons] at ih ⊢; exact ih

/-- closing a connection whose frame holds the (already normalised) children `cs` in source order -/
theorem connFinish_exact (op : TK) (b : Bool) (s : PS) (cs : List Ckt) (t : Token) (rest : List Item)
    (ht : t.kind = op) (hs : s.stack = cs.reverse.map Item.ckt ++ .tok t :: rest)
    (h1 : 1 ≤ (splice b cs).length) (h2 : b = false → 2 ≤ (splice b cs).length) :
    connFinish op b s = .ok { s with stack := .ckt (mkConn b (splice b cs)) :: rest } := by
  unfold connFinish
  rw [hs, popItems_exact_rev op b cs.reverse t rest [] ht, flatMap_spliceRev_reverse]
  simp only [List.nil_append, List.length_map, List.length_reverse]
  have hn1 : ¬ ((splice b cs).length < 1) := by omega
  rw [if_neg hn1]
  have hn2 : ¬ (¬ b = true ∧ (splice b cs).length < 2) := by
    intro ⟨hb, hlt⟩
    have := h2 (by simpa using hb)
    omega
  rw [if_neg hn2]
  have hn3 : ¬ (¬ ((splice b cs).reverse.map Item.ckt).all isCkt = true) := by
    intro hne; apply hne; rw [List.all_eq_true]; exact allCkt_map _
  rw [if_neg hn3]
  rw [← List.map_reverse, List.reverse_reverse, itemsToCkts_map]
  rfl

/-! ### a bare element symbol -/

theorem buildElement_default (d : ElemDef) : buildElement d {} = .ok (defaultElem d) := by
  simp [buildElement, setLabel, pyStrip, defaultElem, bind, Except.bind, pure, Except.pure]

def NoCurly (rest : List Token) : Prop := ∀ t ts, rest = t :: ts → t.kind ≠ .lcurly

theorem element_leaf (tbl : List ElemDef) (f : Nat) (sym : String) (d : ElemDef) (rest : List Token) (st : List Item)
    (hd : tbl.find? (fun d => d.sym = sym) = some d) (hr : NoCurly rest) :
    element tbl true (f + 2) ⟨tkOf .ident sym :: rest, st⟩ = .ok ⟨rest, .ckt (defaultElem d) :: st⟩ := by
  have hacc : (PS.accept ⟨rest, st⟩ .lcurly) = false := by
    unfold PS.accept
    cases rest with
    | nil => rfl
    | cons t ts => simp; exact hr t ts rfl
  simp [element, PS.popTok, tkOf, hd, parameters, hacc, buildElement_default, PS.pushStack, bind, Except.bind, pure, Except.pure]

/-- first token of a printed tree is never a closing token -/
theorem printT_head (t : T) : ∃ tk r, printT t = tk :: r ∧ (tk.kind = .ident ∨ tk.kind = .lbracket ∨ tk.kind = .lparen) := by
  cases t with
  | leaf s => exact ⟨tkOf .ident s, [], by simp [printT], Or.inl rfl⟩
  | series cs => exact ⟨tkOf .lbracket "[", printTs cs ++ [tkOf .rbracket "]"], by simp [printT], Or.inr (Or.inl rfl)⟩
  | parallel cs => exact ⟨tkOf .lparen "(", printTs cs ++ [tkOf .rparen ")"], by simp [printT], Or.inr (Or.inr rfl)⟩

/-! ### normal forms have no empty connections -/

mutual
def ne : Ckt → Bool
  | .elem .. => true
  | .series l => !l.isEmpty && nes l
  | .parallel l => !l.isEmpty && nes l
def nes : List Ckt → Bool
  | [] => true
  | c :: cs => ne c && nes cs
end

theorem nes_append (a b : List Ckt) : nes (a ++ b) = (nes a && nes b) := by
  induction a with
  | nil => simp [nes]
  | cons c a ih => simp [nes, ih, Bool.and_assoc]

theorem nes_splice (b : Bool) (cs : List Ckt) (h : nes cs = true) : nes (splice b cs) = true := by
  induction cs with
  | nil => rfl
  | cons c cs ih =>
    simp only [nes, Bool.and_eq_true] at h
    simp only [splice, List.flatMap_cons] at ih ⊢
    rw [nes_append, Bool.and_eq_true]
    refine ⟨?_, ih h.2⟩
    cases b <;> cases c <;> simp_all [ne, nes]

theorem splice_length_ge (b : Bool) (cs : List Ckt) (h : nes cs = true) : cs.length ≤ (splice b cs).length := by
  induction cs with
  | nil => simp [splice]
  | cons c cs ih =>
    simp only [nes, Bool.and_eq_true] at h
    simp only [splice, List.flatMap_cons, List.length_append, List.length_cons] at ih ⊢
    have := ih h.2
    have hc : 1 ≤ (match b, c with | true, .series l => l | false, .parallel l => l | _, c => [c]).length := by
      cases b <;> cases c <;> simp_all [ne] <;> exact List.length_pos_iff.mpr (by simp_all)
    omega

theorem ne_mkConn (b : Bool) (cs : List Ckt) (h : nes cs = true) (hne : cs ≠ []) : ne (mkConn b cs) = true := by
  unfold mkConn
  cases b
  · simp [ne, h, hne]
  · cases cs with
    | nil => exact absurd rfl hne
    | cons c t =>
      cases t with
      | nil => simp only [nes, Bool.and_true] at h; simpa using h
      | cons c' t' => simp [ne, h]

mutual
theorem ne_norm (tbl : List ElemDef) : (t : T) → Printable tbl t → ne (norm tbl t) = true
  | .leaf sym, h => by
    simp only [Printable] at h
    simp only [norm]
    cases hf : tbl.find? (fun d => d.sym = sym) with
    | none => simp [hf] at h
    | some d => rfl
  | .series cs, h => by
    simp only [Printable] at h
    simp only [norm]
    have hn := nes_norms tbl cs h.2
    have hl := splice_length_ge true _ hn
    apply ne_mkConn _ _ (nes_splice true _ hn)
    intro hnil
    have hlen : (norms tbl cs).length = cs.length := norms_length tbl cs
    have hpos : 0 < cs.length := List.length_pos_iff.mpr h.1
    rw [hnil, List.length_nil] at hl; omega
  | .parallel cs, h => by
    simp only [Printable] at h
    simp only [norm]
    have hn := nes_norms tbl cs h.2
    have hl := splice_length_ge false _ hn
    apply ne_mkConn _ _ (nes_splice false _ hn)
    intro hnil
    have hlen : (norms tbl cs).length = cs.length := norms_length tbl cs
    have h2 := h.1
    rw [hnil, List.length_nil] at hl; omega
theorem nes_norms (tbl : List ElemDef) : (cs : List T) → Printables tbl cs → nes (norms tbl cs) = true
  | [], _ => rfl
  | t :: ts, h => by
    simp only [Printables] at h
    simp only [norms, nes, Bool.and_eq_true]
    exact ⟨ne_norm tbl t h.1, nes_norms tbl ts h.2⟩
theorem norms_length (tbl : List ElemDef) : (cs : List T) → (norms tbl cs).length = cs.length
  | [] => rfl
  | t :: ts => by simp [norms, norms_length tbl ts]
end

def demoTblRT : List ElemDef := [⟨"R", [⟨"R", .num 1000, .num 0, .pinf, false⟩], []⟩, ⟨"C", [⟨"C", .num 1, .num 0, .pinf, false⟩], []⟩]

/-! ### the round trip -/

theorem printTs_length_pos (t : T) : 1 ≤ (printT t).length := by
  obtain ⟨tk, r, h, _⟩ := printT_head t; rw [h]; simp

theorem noCurly_of_head (tk : Token) (r : List Token) (h : tk.kind ≠ .lcurly) : NoCurly (tk :: r) := by
  intro t ts heq; cases heq; exact h

theorem noCurly_printT_append (t : T) (r : List Token) : NoCurly (printT t ++ r) := by
  obtain ⟨tk, r', h, hk⟩ := printT_head t
  rw [h]; apply noCurly_of_head
  rcases hk with h | h | h <;> rw [h] <;> decide

theorem popClosing_exact (cl : TK) (ctok : Token) (rest : List Token) (stk : List Item) (h : ctok.kind = cl) :
    popClosing cl ⟨ctok :: rest, stk⟩ = .ok ⟨rest, stk⟩ := by
  simp [popClosing, PS.expect, PS.popTok, h, bind, Except.bind, pure, Except.pure]

/-- a whole bracketed group, given what the loop over its children does -/
theorem connection_exact (tbl : List ElemDef) (b : Bool) (op cl : TK) (otok ctok : Token) (cs : List Ckt)
    (toks rest : List Token) (st : List Item) (f : Nat)
    (hop : otok.kind = op) (hcl : ctok.kind = cl)
    (hfirst : PS.accept ⟨toks ++ ctok :: rest, .tok otok :: st⟩ cl = false)
    (hu : untilClosing tbl true f ⟨toks ++ ctok :: rest, .tok otok :: st⟩ cl
            = .ok ⟨ctok :: rest, cs.reverse.map Item.ckt ++ .tok otok :: st⟩)
    (h1 : 1 ≤ (splice b cs).length) (h2 : b = false → 2 ≤ (splice b cs).length) :
    connection tbl true (f + 1) ⟨otok :: (toks ++ ctok :: rest), st⟩ op cl b
      = .ok ⟨rest, .ckt (mkConn b (splice b cs)) :: st⟩ := by
  unfold connection
  simp only [PS.popTok, bind, Except.bind, PS.pushStack]
  simp only [hfirst, Bool.false_eq_true, ↓reduceIte, hu, popClosing_exact cl ctok rest _ hcl]
  exact connFinish_exact op b ⟨rest, cs.reverse.map Item.ckt ++ .tok otok :: st⟩ cs otok st hop rfl h1 h2

theorem accept_cons (tk : Token) (r : List Token) (stk : List Item) (k : TK) :
    PS.accept ⟨tk :: r, stk⟩ k = decide (tk.kind = k) := rfl

mutual
/-- parsing the printed form of a printable tree pushes exactly its normal form -/
theorem parse_printT (tbl : List ElemDef) : (t : T) → Printable tbl t → ∀ (rest : List Token) (st : List Item) (f : Nat),
    NoCurly rest → 2 + 8 * (printT t ++ rest).length ≤ f →
    mainLoop tbl true f ⟨printT t ++ rest, st⟩ = .ok ⟨rest, .ckt (norm tbl t) :: st⟩
  | .leaf sym, hp, rest, st, f, hr, hf => by
    simp only [Printable] at hp
    cases hfind : tbl.find? (fun d => d.sym = sym) with
    | none => simp [hfind] at hp
    | some d =>
      simp only [printT, List.cons_append, List.nil_append, List.length_cons] at hf ⊢
      obtain ⟨f', rfl⟩ : ∃ f', f = f' + 3 := ⟨f - 3, by omega⟩
      have h := element_leaf tbl f' sym d rest st hfind hr
      unfold mainLoop
      simp only [accept_cons, tkOf]
      simp only [norm, hfind]
      exact h
  | .series cs, hp, rest, st, f, hr, hf => by
    simp only [Printable] at hp
    simp only [printT, List.cons_append, List.length_cons, List.length_append, List.append_assoc, List.singleton_append] at hf ⊢
    obtain ⟨f', rfl⟩ : ∃ f', f = f' + 2 := ⟨f - 2, by omega⟩
    have hu := parse_printTs tbl cs hp.2 .rbracket (tkOf .rbracket "]") rest
      (.tok (tkOf .lbracket "[") :: st) f' rfl (Or.inl rfl) (by simp only [List.length_append, List.length_cons]; omega)
    have hn := nes_norms tbl cs hp.2
    have hlen := norms_length tbl cs
    have hsp := splice_length_ge true _ hn
    have hpos : 0 < cs.length := List.length_pos_iff.mpr hp.1
    have hfirst : PS.accept ⟨printTs cs ++ tkOf .rbracket "]" :: rest, .tok (tkOf .lbracket "[") :: st⟩ .rbracket = false := by
      cases cs with
      | nil => exact absurd rfl hp.1
      | cons c cs' =>
        obtain ⟨tk, r, hhead, hk⟩ := printT_head c
        simp only [printTs, hhead, List.cons_append, accept_cons]
        rcases hk with h | h | h <;> simp [h]
    have hc := connection_exact tbl true .lbracket .rbracket (tkOf .lbracket "[") (tkOf .rbracket "]")
      (norms tbl cs) (printTs cs) rest st f' rfl rfl hfirst hu (by omega) (by intro h; cases h)
    unfold mainLoop
    simp only [accept_cons, tkOf, norm]
    exact hc
  | .parallel cs, hp, rest, st, f, hr, hf => by
    simp only [Printable] at hp
    simp only [printT, List.cons_append, List.length_cons, List.length_append, List.append_assoc, List.singleton_append] at hf ⊢
    obtain ⟨f', rfl⟩ : ∃ f', f = f' + 2 := ⟨f - 2, by omega⟩
    have hu := parse_printTs tbl cs hp.2 .rparen (tkOf .rparen ")") rest
      (.tok (tkOf .lparen "(") :: st) f' rfl (Or.inr rfl) (by simp only [List.length_append, List.length_cons]; omega)
    have hn := nes_norms tbl cs hp.2
    have hlen := norms_length tbl cs
    have hsp := splice_length_ge false _ hn
    have hfirst : PS.accept ⟨printTs cs ++ tkOf .rparen ")" :: rest, .tok (tkOf .lparen "(") :: st⟩ .rparen = false := by
      cases cs with
      | nil => simp at hp
      | cons c cs' =>
        obtain ⟨tk, r, hhead, hk⟩ := printT_head c
        simp only [printTs, hhead, List.cons_append, accept_cons]
        rcases hk with h | h | h <;> simp [h]
    have hc := connection_exact tbl false .lparen .rparen (tkOf .lparen "(") (tkOf .rparen ")")
      (norms tbl cs) (printTs cs) rest st f' rfl rfl hfirst hu (by omega) (by intro _; omega)
    unfold mainLoop
    simp only [accept_cons, tkOf, norm]
    exact hc
/-- … and a run of siblings up to the closing token pushes their normal forms in order -/
theorem parse_printTs (tbl : List ElemDef) : (cs : List T) → Printables tbl cs →
    ∀ (cl : TK) (ctok : Token) (rest : List Token) (st : List Item) (f : Nat),
    ctok.kind = cl → (cl = .rbracket ∨ cl = .rparen) → 3 + 8 * (printTs cs ++ ctok :: rest).length ≤ f →
    untilClosing tbl true f ⟨printTs cs ++ ctok :: rest, st⟩ cl
      = .ok ⟨ctok :: rest, (norms tbl cs).reverse.map Item.ckt ++ st⟩
  | [], _, cl, ctok, rest, st, f, hk, _, hf => by
    obtain ⟨f', rfl⟩ : ∃ f', f = f' + 1 := ⟨f - 1, by omega⟩
    simp only [printTs, List.nil_append, norms, List.reverse_nil, List.map_nil]
    unfold untilClosing
    simp only [accept_cons, hk, decide_true, ↓reduceIte]
    rfl
  | t :: ts, hp, cl, ctok, rest, st, f, hk, hcl, hf => by
    simp only [Printables] at hp
    obtain ⟨f', rfl⟩ : ∃ f', f = f' + 1 := ⟨f - 1, by omega⟩
    obtain ⟨tk, r, hhead, hkind⟩ := printT_head t
    have hnacc : PS.accept ⟨printTs (t :: ts) ++ ctok :: rest, st⟩ cl = false := by
      simp only [printTs, hhead, PS.accept, List.cons_append, List.append_assoc]
      rcases hcl with rfl | rfl <;> rcases hkind with h | h | h <;> simp [h]
    have hlen1 := printTs_length_pos t
    have h1 := parse_printT tbl t hp.1 (printTs ts ++ ctok :: rest) st f'
      (by
        cases ts with
        | nil => simp only [printTs, List.nil_append]; apply noCurly_of_head; rcases hcl with rfl | rfl <;> rw [hk] <;> decide
        | cons t' ts' => simp only [printTs, List.append_assoc]; exact noCurly_printT_append t' _)
      (by simp only [printTs, List.append_assoc, List.length_append, List.length_cons] at hf ⊢; omega)
    have h2 := parse_printTs tbl ts hp.2 cl ctok rest (.ckt (norm tbl t) :: st) f' hk hcl
      (by simp only [printTs, List.append_assoc, List.length_append, List.length_cons] at hf ⊢; omega)
    unfold untilClosing
    rw [hnacc]
    simp only [Bool.false_eq_true, ↓reduceIte, printTs, List.append_assoc]
    rw [h1]
    show untilClosing tbl true f' ⟨printTs ts ++ ctok :: rest, .ckt (norm tbl t) :: st⟩ cl = _
    rw [h2]
    simp [norms]
end

/-- **C03, structural heart.** For every printable tree `t` of plain elements — any nesting depth,
any branching — running the (repaired) parser's `main_loop` on the basic-syntax tokens of `t`,
followed by any continuation that does not start with `{`, consumes exactly those tokens and pushes
exactly `norm t`: same-kind nesting spliced, singleton series unwrapped, element order preserved. -/
theorem roundtrip_structure (tbl : List ElemDef) (t : T) (hp : Printable tbl t) (rest : List Token) (st : List Item)
    (hr : NoCurly rest) :
    mainLoop tbl true (2 + 8 * (printT t ++ rest).length) ⟨printT t ++ rest, st⟩ = .ok ⟨rest, .ckt (norm tbl t) :: st⟩ :=
  parse_printT tbl t hp rest st _ hr (Nat.le_refl _)
-- non-vacuity
example : Printable demoTblRT (.series [.leaf "R", .parallel [.leaf "C", .series [.leaf "R", .leaf "C"]]]) := by
  simp [Printable, Printables, demoTblRT]

end Cdc

namespace Cdc
/-! Prototype: faithful model of pyimpspec's CDC tokenizer and parser with Python failure semantics. -/

inductive PyExc where
  | typeError | valueError | indexError | keyError | attributeError | overflowError | outOfFuel
  | lib (name : String)
deriving Repr, DecidableEq

abbrev PyM := Except PyExc

def PyExc.name : PyExc → String
  | .typeError => "TypeError" | .valueError => "ValueError" | .indexError => "IndexError"
  | .keyError => "KeyError" | .attributeError => "AttributeError" | .overflowError => "OverflowError"
  | .outOfFuel => "OUT-OF-FUEL" | .lib n => n

/-! ## numbers: exact rationals with ±inf (what `float(literal)` denotes, up to rounding) -/

inductive Val where | num (q : Rat) | pinf | ninf | nan
deriving DecidableEq, Repr

def Val.lt : Val → Val → Bool
  | .nan, _ | _, .nan => false
  | .num a, .num b => decide (a < b)
  | .ninf, .ninf => false | .ninf, _ => true
  | _, .ninf => false
  | .pinf, _ => false
  | _, .pinf => true
def Val.le (a b : Val) : Bool := match a, b with
  | .nan, _ | _, .nan => false
  | _, _ => a.lt b || a == b
def Val.isNan : Val → Bool | .nan => true | _ => false
def Val.show : Val → String
  | .num q => s!"{q.num}/{q.den}" | .pinf => "inf" | .ninf => "-inf" | .nan => "nan"

/-! ## element table -/

structure ParamDef where
  key : String
  value : Val
  lo : Val
  hi : Val
  fixed : Bool
deriving Repr

structure ElemDef where
  sym : String
  params : List ParamDef
  subs : List (String × String)   -- key, canonical form of the class default
deriving Repr

/-! ## tokens -/

inductive TK where
  | ident | label | number | fixedNumber | lbracket | rbracket | lparen | rparen | lcurly | rcurly
  | equals | slash | percent | comma | colon | excl
deriving DecidableEq, Repr

structure Token where
  kind : TK
  text : String
  num : Val := .nan
deriving Repr

def special (c : Char) : Option TK :=
  match c with
  | '[' => some .lbracket | ']' => some .rbracket | '(' => some .lparen | ')' => some .rparen
  | '{' => some .lcurly | '}' => some .rcurly | '=' => some .equals | '/' => some .slash
  | '%' => some .percent | ',' => some .comma | ':' => some .colon | '!' => some .excl
  | _ => none

def isAsciiLetter (c : Char) : Bool := ('a' ≤ c ∧ c ≤ 'z') ∨ ('A' ≤ c ∧ c ≤ 'Z')
def isLower (c : Char) : Bool := 'a' ≤ c ∧ c ≤ 'z'
def isDigit (c : Char) : Bool := '0' ≤ c ∧ c ≤ '9'
/-- `string.whitespace` -/
def isWs (c : Char) : Bool := c = ' ' ∨ c = '\t' ∨ c = '\n' ∨ c = '\r' ∨ c = '\x0b' ∨ c = '\x0c'

/-- Python `x in "<chars>"` where `x` may be `None` (→ TypeError) -/
def pyIn (c : Option Char) (p : Char → Bool) : PyM Bool :=
  match c with
  | none => .error .typeError
  | some c => .ok (p c)

structure TS where
  chars : List Char
  toks : List Token        -- reversed: head is the most recent token
  value : List Char

def TS.peek (s : TS) (n : Nat) : Option Char := s.chars[n]?
def TS.last (s : TS) : Option Token := s.toks.head?
def TS.pop (s : TS) : PyM (Char × TS) :=
  match s.chars with
  | [] => .error .valueError
  | c :: cs => .ok (c, { s with chars := cs })
/-- `self.consume(self.pop())` -/
def TS.take (s : TS) : PyM TS := do
  let (c, s) ← s.pop
  pure { s with value := s.value ++ [c] }

/-- `2^k` for integer `k` -/
def pow2 (k : Int) : Rat := if k ≥ 0 then ((2 ^ k.toNat : Nat) : Rat) else 1 / ((2 ^ (-k).toNat : Nat) : Rat)

/-- round a rational to the nearest IEEE-754 double (ties to even; overflow to ±inf; subnormals): what
`float()` and every floating-point operation do -/
def roundDouble (q : Rat) : Val :=
  if q = 0 then .num 0
  else
    let a : Rat := if q < 0 then -q else q
    let e0 : Int := (Nat.log2 a.num.natAbs : Int) - (Nat.log2 a.den : Int)
    let e1 : Int := if a < pow2 e0 then e0 - 1 else e0
    let e : Int := if e1 < -1022 then -1022 else e1
    let scale : Rat := pow2 (e - 52)
    let t : Rat := a / scale
    let fl : Int := t.floor
    let frac : Rat := t - (fl : Rat)
    let m : Int := if frac > 1 / 2 then fl + 1 else if frac < 1 / 2 then fl else (if fl % 2 = 0 then fl else fl + 1)
    let r : Rat := (m : Rat) * scale
    if r ≥ pow2 1024 then (if q < 0 then .ninf else .pinf)
    else .num (if q < 0 then -r else r)

/-! `float(text)` for the shapes the scanner can produce: `-?d+(.d*)?([eE][+-]?d*)?` -/
def digitsToNat (ds : List Char) : Nat := ds.foldl (fun n c => 10 * n + (c.toNat - '0'.toNat)) 0

def pyFloat? (txt : List Char) : Option Val := do
  let (neg, r) := match txt with | '-' :: r => (true, r) | r => (false, r)
  let ip := r.takeWhile isDigit
  let r := r.dropWhile isDigit
  let (fp, r) := match r with
    | '.' :: r' => (r'.takeWhile isDigit, r'.dropWhile isDigit)
    | _ => ([], r)
  if ip.isEmpty ∧ fp.isEmpty then none
  let mant : Nat := digitsToNat (ip ++ fp)
  let (eneg, ed, r) := match r with
    | c :: r' => if c = 'e' ∨ c = 'E' then
        match r' with
        | '-' :: r'' => (true, some (r''.takeWhile isDigit), r''.dropWhile isDigit)
        | '+' :: r'' => (false, some (r''.takeWhile isDigit), r''.dropWhile isDigit)
        | _ => (false, some (r'.takeWhile isDigit), r'.dropWhile isDigit)
      else (false, none, c :: r')
    | [] => (false, none, [])
  if ¬ r.isEmpty then none
  let e10 : Int ← match ed with
    | none => pure 0
    | some [] => none          -- "1e", "1e+": float() refuses
    | some ds =>
      -- cap so that 10^e stays computable; doubles overflow long before
      let e := if ds.length > 5 then 100000 else digitsToNat ds
      pure (if eneg then -(e : Int) else (e : Int))
  let e10 := e10 - fp.length
  if mant = 0 then return .num 0
  if e10 > 400 then return (if neg then .ninf else .pinf)
  if e10 < -2000 then return .num 0
  let q : Rat := if e10 ≥ 0 then (mant : Rat) * (10 : Rat) ^ e10.toNat else (mant : Rat) / (10 : Rat) ^ (-e10).toNat
  return roundDouble (if neg then -q else q)

def pyFloat (txt : List Char) : PyM Val :=
  match pyFloat? txt with
  | some v => .ok v
  | none => .error .valueError

def TS.push (s : TS) (k : TK) : PyM TS := do
  let v ← if k = .number ∨ k = .fixedNumber then pyFloat s.value else pure Val.nan
  pure { s with toks := { kind := k, text := String.ofList s.value, num := v } :: s.toks, value := [] }

def digitsLoop : Nat → TS → PyM TS
  | 0, s => pure s
  | f + 1, s =>
    match s.peek 0 with
    | some c => if isDigit c then do digitsLoop f (← s.take) else pure s
    | none => pure s

def numFrac (fuel : Nat) (s : TS) : PyM TS :=
  if s.peek 0 = some '.' then s.take >>= digitsLoop fuel else pure s
def numExpSign (s : TS) : PyM TS :=
  if s.peek 0 = some '-' ∨ s.peek 0 = some '+' then s.take else pure s
def numExp (fuel : Nat) (s : TS) : PyM TS :=
  match s.peek 0 with
  | some c => if c = 'e' ∨ c = 'E' then s.take >>= numExpSign >>= digitsLoop fuel else pure s
  | none => pure s
def numFinish (s : TS) : PyM TS :=
  match s.peek 0 with
  | some c => if c = 'f' ∨ c = 'F' then s.pop >>= fun p => p.2.push .fixedNumber else s.push .number
  | none => s.push .number
/-- `Tokenizer.number`, one stage per function so that every stage has its own safety lemma -/
def number (s : TS) : PyM TS :=
  s.take >>= digitsLoop (s.chars.length + 1) >>= numFrac (s.chars.length + 1) >>= numExp (s.chars.length + 1) >>= numFinish

def labelLoop : Nat → Nat → TS → PyM TS
  | 0, _, s => pure s
  | f + 1, scopes, s =>
    match s.peek 0 with
    | none => pure s
    | some c =>
      if c = '{' then do labelLoop f (scopes + 1) (← s.take)
      else if c = '}' then
        if scopes = 0 then pure s else do labelLoop f (scopes - 1) (← s.take)
      else do labelLoop f scopes (← s.take)

def identLoop (valid : Char → Bool) : Nat → TS → PyM TS
  | 0, s => pure s
  | f + 1, s =>
    match s.peek 0 with
    | some c => if valid c then do identLoop valid f (← s.take) else pure s
    | none => pure s

def identValid (prev : Option Token) : Char → Bool :=
  match prev with
  | some { kind := .lcurly, .. } | some { kind := .comma, .. } => fun c => isAsciiLetter c || isDigit c || c = '_'
  | _ => fun c => isLower c || isDigit c || c = '_'
def identifierOrLabelBody (fuel : Nat) (s : TS) : PyM TS :=
  match s.last with
  | some { kind := .colon, .. } => labelLoop fuel 0 s >>= fun s => s.push .label
  | prev => identLoop (identValid prev) fuel s >>= fun s => s.push .ident
def identifierOrLabel (s : TS) : PyM TS :=
  s.take >>= identifierOrLabelBody (s.chars.length + 1)

/-- `fixed = true` models the repaired guard; `false` today's `self.peek() in digits` -/
def startsNumber (fixedGuard : Bool) (s : TS) (c : Char) : PyM Bool :=
  if isDigit c then pure true
  else if c = '-' then
    (if fixedGuard then pure (match s.peek 1 with | some d => isDigit d | none => false)
     else pyIn (s.peek 1) isDigit)
  else pure false
def ignoreWs (s : TS) : PyM TS := s.pop >>= fun p => pure { p.2 with value := [] }
def tokDispatch (s : TS) (c : Char) (isNum : Bool) : PyM TS :=
  if isNum then number s
  else if isWs c then ignoreWs s
  else throw (.lib "UnexpectedCharacter")
def tokMainLoop (fixedGuard : Bool) (s : TS) : PyM TS :=
  match s.peek 0 with
  | none => throw .indexError
  | some c =>
    match special c with
    | some k => s.take >>= fun s => s.push k
    | none =>
      if isAsciiLetter c then identifierOrLabel s
      else startsNumber fixedGuard s c >>= tokDispatch s c

def tokLoop (fixedGuard : Bool) : Nat → TS → PyM TS
  | 0, s => if s.chars.isEmpty then pure s else throw .outOfFuel
  | f + 1, s => if s.chars.isEmpty then pure s else do tokLoop fixedGuard f (← tokMainLoop fixedGuard s)

def tokenize (fixedGuard : Bool) (str : List Char) : PyM (List Token) := do
  let s ← tokLoop fixedGuard (str.length + 1) { chars := str, toks := [], value := [] }
  pure s.toks.reverse

/-! ## circuits -/

structure PV where
  key : String
  value : Val
  lo : Val
  hi : Val
  fixed : Bool
deriving Repr

inductive Ckt where
  | elem (sym : String) (label : String) (ps : List PV) (subs : List (String × Option (Option Ckt))) : Ckt
      -- subs: none = class default, some none = open, some (some c) = given
  | series (cs : List Ckt) : Ckt
  | parallel (cs : List Ckt) : Ckt
deriving Repr

inductive Item where | tok (t : Token) | ckt (c : Ckt)
deriving Repr

structure PS where
  toks : List Token
  stack : List Item      -- head = top (`insert(0, …)` / `pop(0)`)

def PS.accept (s : PS) (k : TK) : Bool := match s.toks with | t :: _ => t.kind = k | [] => false
def PS.popTok (s : PS) : PyM (Token × PS) :=
  match s.toks with
  | [] => .error (.lib "InsufficientTokens")
  | t :: ts => .ok (t, { s with toks := ts })
def PS.expect (s : PS) (k : TK) : PyM Unit :=
  match s.toks with
  | [] => .error (.lib "InsufficientTokens")
  | t :: _ => if t.kind = k then .ok () else .error (.lib "UnexpectedToken")
def PS.pushStack (s : PS) (i : Item) : PS := { s with stack := i :: s.stack }
def PS.popStack (s : PS) : PyM (Item × PS) :=
  match s.stack with
  | [] => .error .valueError
  | i :: r => .ok (i, { s with stack := r })

/-! `Element.set_label` -/
def pyStrip (cs : List Char) : List Char :=
  let isSp := fun (c : Char) => isWs c || c = '\x1c' || c = '\x1d' || c = '\x1e' || c = '\x1f' || c = '\x85' || c = '\xa0'
  ((cs.dropWhile isSp).reverse.dropWhile isSp).reverse
def setLabel (l : String) : PyM String := do
  let cs := pyStrip l.toList
  if cs.isEmpty then return ""
  if ¬ cs.all (fun c => c.toNat < 128) then throw .valueError
  if cs.all (fun c => isDigit c) then throw .valueError
  return String.ofList cs

/-- `set_lower_limits(key=v)`: refuse `v >= upper`, clamp the value up -/
def applyLower (p : PV) (v : Val) : PyM PV :=
  if p.hi.le v then .error .valueError          -- value >= upper  ⇔  upper <= value
  else .ok { p with value := if p.value.lt v then v else p.value, lo := v }
def applyUpper (p : PV) (v : Val) : PyM PV :=
  if v.le p.lo then .error .valueError
  else .ok { p with value := if v.lt p.value then v else p.value, hi := v }

/-- one key of `Element._set_limits`: when the new lower limit is not below the *current* upper
limit and a new upper limit is given as well, the upper limit is moved first -/
def applyLowerSafe (l u : Val) (p : PV) : PyM PV :=
  (if ¬ u.isNan ∧ p.hi.le l then applyUpper p u else pure p) >>= fun q => applyLower q l

def updKey (ps : List PV) (key : String) (f : PV → PyM PV) : PyM (List PV) :=
  ps.mapM fun p => if p.key = key then f p else pure p

structure Parsed where
  label : String := ""
  params : List (String × Val × Val × Val × Bool) := []   -- key, value, lower, upper, fixed (parse order)
  subs : List (String × Option Ckt) := []

def mulDiv100 (a b : Val) : Val :=
  match a, b with
  | .num x, .num y =>
    -- `value * limit.value / 100` in doubles: two roundings
    match roundDouble (x * y) with
    | .num p => roundDouble (p / 100)
    | .pinf => .pinf
    | .ninf => .ninf
    | .nan => .nan
  | .nan, _ | _, .nan => .nan
  | a, b =>
    -- an operand is infinite (a literal beyond the double range is a Number token with value inf): IEEE signs, 0 * inf = nan
    let sign : Val → Int := fun v => match v with
      | .num x => if x > 0 then 1 else if x < 0 then -1 else 0
      | .pinf => 1 | .ninf => -1 | .nan => 0
    if sign a * sign b > 0 then .pinf else if sign a * sign b < 0 then .ninf else .nan

/-- `Parser.param_limit` -/
def paramLimit (s : PS) (value : Val) (upper : Bool) : PyM (Val × PS) :=
  if ¬ s.accept .number then
    s.expect .ident >>= fun _ => s.popTok >>= fun p =>
      if p.1.text ≠ "inf" then throw .valueError else pure (if upper then .pinf else .ninf, p.2)
  else s.popTok >>= fun p =>
    if p.2.accept .percent then p.2.popTok >>= fun q => pure (mulDiv100 value p.1.num, q.2)
    else pure (p.1.num, p.2)

def expectNumber (s : PS) : PyM Unit :=
  match s.toks with
  | [] => throw (.lib "ExpectedNumericValue")
  | t :: _ => if t.kind ≠ .number ∧ t.kind ≠ .fixedNumber then throw (.lib "ExpectedNumericValue") else pure ()

def paramUpperOnly (v : Val) (fixed : Bool) (s : PS) : PyM ((Val × Val × Val × Bool) × PS) :=
  paramLimit s v true >>= fun u => pure ((v, .nan, u.1, fixed), u.2)
def paramLowerThen (v : Val) (fixed : Bool) (s : PS) : PyM ((Val × Val × Val × Bool) × PS) :=
  paramLimit s v false >>= fun l =>
    if l.2.accept .slash then
      l.2.popTok >>= fun q => paramLimit q.2 v true >>= fun u => pure ((v, l.1, u.1, fixed), u.2)
    else pure ((v, l.1, .nan, fixed), l.2)
def paramAfterValue (v : Token) (s : PS) : PyM ((Val × Val × Val × Bool) × PS) :=
  if s.accept .slash then
    s.popTok >>= fun q =>
      if q.2.accept .slash then q.2.popTok >>= fun r => paramUpperOnly v.num (v.kind = .fixedNumber) r.2
      else paramLowerThen v.num (v.kind = .fixedNumber) q.2
  else pure ((v.num, .nan, .nan, v.kind = .fixedNumber), s)
/-- `Parser.param` -/
def param (s : PS) : PyM ((Val × Val × Val × Bool) × PS) :=
  expectNumber s >>= fun _ => s.popTok >>= fun v => paramAfterValue v.1 v.2

def isCkt : Item → Bool | .ckt _ => true | _ => false

/-- build the element object: constructor, `set_label`, `_set_limits` (lower limits in the safe
order, then all upper limits), fixed flags -/
def buildElement (d : ElemDef) (p : Parsed) : PyM Ckt := do
  let ps0 : List PV := d.params.map fun pd =>
    match p.params.find? (fun q => q.1 = pd.key) with
    | some (_, v, _, _, _) => { key := pd.key, value := v, lo := pd.lo, hi := pd.hi, fixed := pd.fixed }
    | none => { key := pd.key, value := pd.value, lo := pd.lo, hi := pd.hi, fixed := pd.fixed }
  let label ← setLabel p.label
  let ps1 ← p.params.foldlM (fun ps (k, _, l, u, _) =>
      if l.isNan then pure ps else updKey ps k (applyLowerSafe l u)) ps0
  let ps2 ← p.params.foldlM (fun ps (k, _, _, u, _) =>
      if u.isNan then pure ps else updKey ps k (fun q => applyUpper q u)) ps1
  let ps3 ← p.params.foldlM (fun ps (k, _, _, _, f) => updKey ps k (fun q => pure { q with fixed := f })) ps2
  let subs := d.subs.map fun (k, _) =>
    match p.subs.find? (fun q => q.1 = k) with
    | some (_, c) => (k, some c)
    | none => (k, none)
  pure (.elem d.sym label ps3 subs)

/-- `while self._stack: item = pop_stack(); if type(item) is Opening: break; …` with same-kind splicing -/
def popItems (opening : TK) (isSeries : Bool) : List Item → List Item → List Item × List Item
  | [], items => (items, [])
  | i :: r, items =>
    match i with
    | .tok tk => if tk.kind = opening then (items, r) else popItems opening isSeries r (items ++ [i])
    | .ckt (.series cs) =>
      if isSeries then popItems opening isSeries r (items ++ (cs.reverse.map Item.ckt))
      else popItems opening isSeries r (items ++ [i])
    | .ckt (.parallel cs) =>
      if ¬ isSeries then popItems opening isSeries r (items ++ (cs.reverse.map Item.ckt))
      else popItems opening isSeries r (items ++ [i])
    | _ => popItems opening isSeries r (items ++ [i])

def itemsToCkts (items : List Item) : List Ckt :=
  items.filterMap fun i => match i with | .ckt c => some c | _ => none

def mkConn (isSeries : Bool) (cs : List Ckt) : Ckt :=
  match isSeries, cs with
  | true, [c] => c
  | true, cs => .series cs
  | false, cs => .parallel cs

/-- the tail of `Parser.connection`, after the closing token was popped -/
def connFinish (opening : TK) (isSeries : Bool) (s : PS) : PyM PS :=
  let r := popItems opening isSeries s.stack []
  if r.1.length < 1 then throw .valueError
  else if ¬ isSeries ∧ r.1.length < 2 then throw (.lib "InsufficientElementsInParallelConnection")
  else if ¬ r.1.all isCkt then throw .typeError
  else pure ({ s with stack := .ckt (mkConn isSeries (itemsToCkts r.1.reverse)) :: r.2 })

def popClosing (closing : TK) (s : PS) : PyM PS :=
  s.expect closing >>= fun _ => s.popTok >>= fun p => pure p.2

/-- `subcircuit`, keyword / bare-list / bracketed forms, after the recursive part has run -/
def bareFinishFixed (depth : Nat) (s : PS) : PyM (Option Ckt × PS) :=
  let n := s.stack.length - depth
  if ¬ (s.stack.take n).all isCkt then throw .typeError
  else pure (some (.series (itemsToCkts (s.stack.take n).reverse)), { s with stack := s.stack.drop n })
def isElemItem : Item → Bool | .ckt (.elem ..) => true | _ => false
def bareFinishOld (s : PS) : PyM (Option Ckt × PS) :=
  if ¬ s.stack.all isElemItem then throw .typeError
  else pure (some (.series (itemsToCkts s.stack)), { s with stack := [] })
def subFromConn (s : PS) : PyM (Option Ckt × PS) :=
  s.popStack >>= fun p =>
    match p.1 with
    | .tok _ => throw .typeError
    | .ckt (.elem a b c d) => pure (some (.series [.elem a b c d]), p.2)
    | .ckt c => pure (some c, p.2)

def checkLimits (key : String) (r : (Val × Val × Val × Bool) × PS) (p : Parsed) : PyM (Parsed × PS) :=
  if ¬ r.1.2.1.isNan ∧ r.1.1.lt r.1.2.1 then throw (.lib "InvalidParameterLowerLimit")
  else if ¬ r.1.2.2.1.isNan ∧ r.1.2.2.1.lt r.1.1 then throw (.lib "InvalidParameterUpperLimit")
  else pure ({ p with params := p.params ++ [(key, r.1.1, r.1.2.1, r.1.2.2.1, r.1.2.2.2)] }, r.2)

def labelPart (p : Parsed) (s : PS) : PyM (Parsed × PS) :=
  if s.accept .colon then
    s.popTok >>= fun q => q.2.expect .label >>= fun _ => q.2.popTok >>= fun l =>
      pure ({ p with label := l.1.text }, l.2)
  else pure (p, s)

def closeCurly (r : Parsed × PS) : PyM (Parsed × PS) :=
  r.2.expect .rcurly >>= fun _ => r.2.popTok >>= fun q => pure (r.1, q.2)

/-- one `key=…` entry of the parameter list; `subc` is the (recursive) sub-circuit parser -/
def paramMid (subc : PS → PyM (Option Ckt × PS)) (s : PS) (key : String) (pk sk : List String) (p : Parsed) :
    PyM ((Parsed × PS) × List String × List String) :=
  if s.accept .lbracket ∨ s.accept .lparen ∨ s.accept .ident then
    if p.subs.any (fun q => q.1 = key) then throw (.lib "DuplicateParameterDefinition")
    else if ¬ sk.contains key then throw (.lib "InvalidParameterDefinition")
    else subc s >>= fun c => pure (({ p with subs := p.subs ++ [(key, c.1)] }, c.2), pk, sk.erase key)
  else
    if p.params.any (fun q => q.1 = key) then throw (.lib "DuplicateParameterDefinition")
    else if ¬ pk.contains key then throw (.lib "InvalidParameterDefinition")
    else param s >>= fun r => checkLimits key r p >>= fun pr => pure (pr, pk.erase key, sk)

/-- after an entry: a comma continues the loop (`cont`), anything else ends it -/
def paramNext (cont : PS → List String → List String → Parsed → PyM (Parsed × PS))
    (st : (Parsed × PS) × List String × List String) : PyM (Parsed × PS) :=
  if st.1.2.accept .comma then
    if st.2.1.isEmpty ∧ st.2.2.isEmpty then throw (.lib "TooManyParameterDefinitions")
    else st.1.2.popTok >>= fun c => cont c.2 st.2.1 st.2.2 st.1.1
  else pure st.1

mutual

/-- `Parser.main_loop` -/
def mainLoop (tbl : List ElemDef) (fixedSub : Bool) : Nat → PS → PyM PS
  | 0, _ => throw .outOfFuel
  | f + 1, s =>
    if s.accept .lbracket then connection tbl fixedSub f s .lbracket .rbracket true
    else if s.accept .lparen then connection tbl fixedSub f s .lparen .rparen false
    else if s.accept .ident then element tbl fixedSub f s
    else if ¬ s.toks.isEmpty then throw (.lib "UnexpectedToken")
    else throw (.lib "InsufficientTokens")

/-- `while not self.accept(Closing): self.main_loop()` -/
def untilClosing (tbl : List ElemDef) (fixedSub : Bool) : Nat → PS → TK → PyM PS
  | 0, _, _ => throw .outOfFuel
  | f + 1, s, closing =>
    if s.accept closing then pure s
    else mainLoop tbl fixedSub f s >>= fun s => untilClosing tbl fixedSub f s closing

/-- `Parser.connection` -/
def connection (tbl : List ElemDef) (fixedSub : Bool) : Nat → PS → TK → TK → Bool → PyM PS
  | 0, _, _, _, _ => throw .outOfFuel
  | f + 1, s, opening, closing, isSeries =>
    s.popTok >>= fun p =>
      if (p.2.pushStack (.tok p.1)).accept closing then throw (.lib "ConnectionWithoutElements")
      else untilClosing tbl fixedSub f (p.2.pushStack (.tok p.1)) closing >>= popClosing closing
            >>= connFinish opening isSeries

/-- `Parser.element` -/
def element (tbl : List ElemDef) (fixedSub : Bool) : Nat → PS → PyM PS
  | 0, _ => throw .outOfFuel
  | f + 1, s =>
    s.popTok >>= fun p =>
      match tbl.find? (fun d => d.sym = p.1.text) with
      | none => throw (.lib "InvalidElementSymbol")
      | some d =>
        parameters tbl fixedSub f p.2 d >>= fun r =>
          buildElement d r.1 >>= fun e => pure (r.2.pushStack (.ckt e))

/-- `Parser.parameters` -/
def parameters (tbl : List ElemDef) (fixedSub : Bool) : Nat → PS → ElemDef → PyM (Parsed × PS)
  | 0, _, _ => throw .outOfFuel
  | f + 1, s, d =>
    if ¬ s.accept .lcurly then pure ({}, s)
    else s.popTok >>= fun q =>
      (if ¬ q.2.accept .colon then paramLoop tbl fixedSub f q.2 d (d.params.map (·.key)) (d.subs.map (·.1)) {}
       else pure ({}, q.2))
      >>= fun r => labelPart r.1 r.2 >>= closeCurly

/-- the `while parameter_keys or subcircuit_keys:` loop -/
def paramLoop (tbl : List ElemDef) (fixedSub : Bool) : Nat → PS → ElemDef → List String → List String → Parsed → PyM (Parsed × PS)
  | 0, _, _, _, _, _ => throw .outOfFuel
  | f + 1, s, d, pkeys, skeys, p =>
    if pkeys.isEmpty ∧ skeys.isEmpty then pure (p, s)
    else if ¬ s.accept .ident then throw (.lib "ExpectedParameterIdentifier")
    else s.popTok >>= fun kt => kt.2.expect .equals >>= fun _ => kt.2.popTok >>= fun eq =>
      paramMid (subcircuit tbl fixedSub f) eq.2 kt.1.text pkeys skeys p
        >>= paramNext (fun s' pk sk p' => paramLoop tbl fixedSub f s' d pk sk p')

/-- the bare-list loop `while type(self.peek(0)) not in [Comma, Colon, RCurly]` -/
def bareLoop (tbl : List ElemDef) (fixedSub : Bool) : Nat → PS → PyM PS
  | 0, _ => throw .outOfFuel
  | f + 1, s =>
    match s.toks with
    | [] => throw (.lib "InsufficientTokens")
    | t :: _ =>
      if t.kind = .comma ∨ t.kind = .colon ∨ t.kind = .rcurly then pure s
      else mainLoop tbl fixedSub f s >>= fun s => bareLoop tbl fixedSub f s

/-- `Parser.subcircuit`; `fixedSub = false` is today's code (pops the whole stack, reverses twice) -/
def subcircuit (tbl : List ElemDef) (fixedSub : Bool) : Nat → PS → PyM (Option Ckt × PS)
  | 0, _ => throw .outOfFuel
  | f + 1, s =>
    if s.accept .ident then
      match s.toks with
      | [] => throw .typeError
      | t :: _ =>
        if t.text = "zero" ∨ t.text = "short" then s.popTok >>= fun p => pure (some (.series []), p.2)
        else if t.text = "inf" ∨ t.text = "open" then s.popTok >>= fun p => pure (none, p.2)
        else bareLoop tbl fixedSub f s >>= fun s' =>
          if fixedSub then bareFinishFixed s.stack.length s' else bareFinishOld s'
    else if s.accept .lbracket then connection tbl fixedSub f s .lbracket .rbracket true >>= subFromConn
    else connection tbl fixedSub f s .lparen .rparen false >>= subFromConn

end

/-- `int(token.value)` and the range check of the version header -/
def versionOk (fixedVersion : Bool) (v : Val) : PyM Unit :=
  match v with
  | .num q =>
    if ¬ (0 < (if q ≥ 0 then q.floor else -((-q).floor)) ∧ (if q ≥ 0 then q.floor else -((-q).floor)) ≤ 1)
    then throw (.lib "InvalidNumericValue") else pure ()
  | .pinf | .ninf => if fixedVersion then throw (.lib "InvalidNumericValue") else throw .overflowError
  | .nan => throw .valueError
def migrateTail (fixedVersion : Bool) (s : PS) : PyM PS :=
  expectNumber s >>= fun _ => s.popTok >>= fun t => versionOk fixedVersion t.1.num >>= fun _ =>
    t.2.expect .excl >>= fun _ => t.2.popTok >>= fun q => pure q.2
/-- `Parser.migrate` for `version = -1` -/
def migrate (fixedVersion : Bool) (s : PS) : PyM PS :=
  if ¬ s.accept .excl then pure s
  else s.popTok >>= fun p => p.2.expect .ident >>= fun _ => p.2.popTok >>= fun t =>
    if t.1.text.toUpper ≠ "V" then throw (.lib "UnexpectedIdentifier")
    else t.2.expect .equals >>= fun _ => t.2.popTok >>= fun e => migrateTail fixedVersion e.2

def mainLoops (tbl : List ElemDef) (fixedSub : Bool) : Nat → PS → PyM PS
  | 0, s => if s.toks.isEmpty then pure s else throw .outOfFuel
  | f + 1, s => if s.toks.isEmpty then pure s else
      mainLoop tbl fixedSub (8 * (s.toks.length + 2)) s >>= mainLoops tbl fixedSub f

structure Flags where
  guard : Bool := false      -- F2 repaired?
  sub : Bool := false        -- F1 repaired?
  version : Bool := false    -- F3 repaired?

def isEmptyForm (cs : List Char) : Bool :=
  cs == [] || cs == ['[', ']'] ||
    (cs.head? == some '!' &&
      (match (cs.drop 1).idxOf? '!' with
       | some i => cs.drop (i + 2) == ['[', ']']
       | none => false))

/-- the part of `process` that runs the tokenizer, the header migration and the main loops -/
def parseBody (tbl : List ElemDef) (fl : Flags) (cs : List Char) : PyM PS :=
  if isEmptyForm cs then pure ({ toks := [], stack := [.ckt (.series [])] } : PS)
  else tokenize fl.guard cs >>= fun toks =>
    if toks.isEmpty then pure ({ toks := toks, stack := [] } : PS)
    else migrate fl.version { toks := toks, stack := [] } >>= fun s => mainLoops tbl fl.sub (s.toks.length + 1) s

/-- the final folding of the stack into the top-level series -/
def foldStack (s : PS) : PyM Ckt :=
  if s.stack.length > 1 then
    if ¬ s.stack.all isCkt then throw .typeError
    else pure (.series (itemsToCkts s.stack.reverse))
  else s.popStack >>= fun p =>
    if ¬ p.2.stack.isEmpty then throw .valueError
    else match p.1 with
      | .ckt (.series cs) => pure (.series cs)
      | .ckt c => pure (.series [c])
      | .tok _ => throw .attributeError   -- Series([token]) would only fail later

/-- `Parser.process` -/
def parseCdc (tbl : List ElemDef) (fl : Flags) (input : String) : PyM Ckt :=
  parseBody tbl fl (pyStrip input.toList) >>= foldStack

/-! ## canonical printing -/

partial def Ckt.canon (tbl : List ElemDef) : Ckt → String
  | .elem sym label ps subs =>
    let p := ps.map fun q => s!"{q.key}={q.value.show}/{q.lo.show}/{q.hi.show}/{if q.fixed then "F" else "v"}"
    let dflt := fun (k : String) => match tbl.find? (fun d => d.sym = sym) with
      | some d => (match d.subs.find? (fun (q : String × String) => q.1 = k) with | some q => q.2 | none => "?")
      | none => "?"
    let sb := subs.map fun (k, c) => match c with
      | none => s!"{k}={dflt k}"
      | some none => s!"{k}=open"
      | some (some c) => s!"{k}={c.canon tbl}"
    s!"{sym}\{{",".intercalate (p ++ sb)}:{label}}"
  | .series cs => "[" ++ " ".intercalate (cs.map (Ckt.canon tbl)) ++ "]"
  | .parallel cs => "(" ++ " ".intercalate (cs.map (Ckt.canon tbl)) ++ ")"

end Cdc

import PyImpSpec.Cdc.Model

namespace Cdc
/-! Prototype for C04: the tokenizer (with the repaired `-` guard) never raises anything but
`UnexpectedCharacter` / `ValueError`, and never runs out of fuel (= the real loop terminates). -/

def Allowed (e : PyExc) : Prop := e = .valueError ∨ e = .lib "UnexpectedCharacter"

/-- result is an allowed error, or a state with at most `n` characters left -/
def SafeLe (m : PyM TS) (n : Nat) : Prop :=
  match m with
  | .ok s => s.chars.length ≤ n
  | .error e => Allowed e

theorem SafeLe.mono {m : PyM TS} {a b : Nat} (h : SafeLe m a) (hab : a ≤ b) : SafeLe m b := by
  unfold SafeLe at *; split <;> simp_all; omega

theorem SafeLe.bind {m : PyM TS} {f : TS → PyM TS} {a b : Nat}
    (hm : SafeLe m a) (hf : ∀ s, s.chars.length ≤ a → SafeLe (f s) b) : SafeLe (m >>= f) b := by
  cases m with
  | error e => exact hm
  | ok s => exact hf s hm

theorem SafeLe.andThen {m : PyM TS} {f : TS → PyM TS} {n : Nat}
    (hm : SafeLe m n) (hf : ∀ s, SafeLe (f s) s.chars.length) : SafeLe (m >>= f) n :=
  SafeLe.bind hm (fun s h => (hf s).mono h)

theorem take_safe (s : TS) : SafeLe s.take (s.chars.length - 1) := by
  unfold TS.take TS.pop
  cases h : s.chars with
  | nil => simp [SafeLe, Allowed, bind, Except.bind]
  | cons c cs => simp [SafeLe, bind, Except.bind, pure, Except.pure]

theorem take_ok_lt (s s' : TS) (h : s.take = .ok s') : s'.chars.length + 1 = s.chars.length := by
  unfold TS.take TS.pop at h
  cases hc : s.chars with
  | nil => simp [hc, bind, Except.bind] at h
  | cons c cs =>
    simp [hc, bind, Except.bind, pure, Except.pure] at h
    subst h; simp

theorem pyFloat_err (t : List Char) (e : PyExc) (h : pyFloat t = .error e) : e = .valueError := by
  unfold pyFloat at h
  split at h
  · cases h
  · cases h; rfl

theorem push_safe (s : TS) (k : TK) : SafeLe (s.push k) s.chars.length := by
  unfold TS.push
  simp only [bind, Except.bind, pure, Except.pure]
  split
  · cases hf : pyFloat s.value with
    | error e => simp [SafeLe, Allowed, pyFloat_err _ _ hf]
    | ok v => simp [SafeLe]
  · simp [SafeLe]

theorem ok_safe (s : TS) (n : Nat) (h : s.chars.length ≤ n) : SafeLe (pure s : PyM TS) n := h

theorem digitsLoop_safe (f : Nat) (s : TS) : SafeLe (digitsLoop f s) s.chars.length := by
  induction f generalizing s with
  | zero => exact Nat.le_refl _
  | succ f ih =>
    unfold digitsLoop
    split
    · split
      · exact SafeLe.bind (take_safe s) (fun s' h' => (ih s').mono (by omega))
      · exact Nat.le_refl _
    · exact Nat.le_refl _

theorem identLoop_safe (v : Char → Bool) (f : Nat) (s : TS) : SafeLe (identLoop v f s) s.chars.length := by
  induction f generalizing s with
  | zero => exact Nat.le_refl _
  | succ f ih =>
    unfold identLoop
    split
    · split
      · exact SafeLe.bind (take_safe s) (fun s' h' => (ih s').mono (by omega))
      · exact Nat.le_refl _
    · exact Nat.le_refl _

theorem labelLoop_safe (f k : Nat) (s : TS) : SafeLe (labelLoop f k s) s.chars.length := by
  induction f generalizing s k with
  | zero => exact Nat.le_refl _
  | succ f ih =>
    unfold labelLoop
    split
    · exact Nat.le_refl _
    · split
      · exact SafeLe.bind (take_safe s) (fun s' h' => (ih _ s').mono (by omega))
      · split
        · split
          · exact Nat.le_refl _
          · exact SafeLe.bind (take_safe s) (fun s' h' => (ih _ s').mono (by omega))
        · exact SafeLe.bind (take_safe s) (fun s' h' => (ih _ s').mono (by omega))

theorem pop_cases (s : TS) : (∃ c s', s.pop = .ok (c, s') ∧ s'.chars.length + 1 = s.chars.length) ∨ s.pop = .error .valueError := by
  unfold TS.pop
  cases s.chars with
  | nil => right; rfl
  | cons c cs => left; exact ⟨c, _, rfl, rfl⟩

theorem numFrac_safe (f : Nat) (s : TS) : SafeLe (numFrac f s) s.chars.length := by
  unfold numFrac
  split
  · exact SafeLe.bind (take_safe s) (fun s' h' => (digitsLoop_safe _ s').mono (by omega))
  · exact Nat.le_refl _

theorem numExpSign_safe (s : TS) : SafeLe (numExpSign s) s.chars.length := by
  unfold numExpSign
  split
  · exact (take_safe s).mono (by omega)
  · exact Nat.le_refl _

theorem numExp_safe (f : Nat) (s : TS) : SafeLe (numExp f s) s.chars.length := by
  unfold numExp
  split
  · split
    · exact (((take_safe s).andThen numExpSign_safe).andThen (digitsLoop_safe _)).mono (Nat.sub_le _ _)
    · exact Nat.le_refl _
  · exact Nat.le_refl _

theorem numFinish_safe (s : TS) : SafeLe (numFinish s) s.chars.length := by
  unfold numFinish
  split
  · split
    · rcases pop_cases s with ⟨c, s', h, hl⟩ | h
      · rw [h]; exact (push_safe s' TK.fixedNumber).mono (by omega)
      · rw [h]; left; rfl
    · exact push_safe s _
  · exact push_safe s _

theorem number_safe (s : TS) : SafeLe (number s) (s.chars.length - 1) := by
  unfold number
  exact ((((take_safe s).andThen (digitsLoop_safe _)).andThen (numFrac_safe _)).andThen (numExp_safe _)).andThen numFinish_safe

theorem identifierOrLabel_safe (s : TS) : SafeLe (identifierOrLabel s) (s.chars.length - 1) := by
  unfold identifierOrLabel
  refine SafeLe.bind (take_safe s) (fun s' h' => ?_)
  unfold identifierOrLabelBody
  split
  · exact SafeLe.bind ((labelLoop_safe _ _ s').mono h') (fun s'' h'' => (push_safe s'' _).mono h'')
  · exact SafeLe.bind ((identLoop_safe _ _ s').mono h') (fun s'' h'' => (push_safe s'' _).mono h'')

theorem ignoreWs_safe (s : TS) : SafeLe (ignoreWs s) (s.chars.length - 1) := by
  unfold ignoreWs
  rcases pop_cases s with ⟨c, s', h, hl⟩ | h
  · rw [h]; show s'.chars.length ≤ _; omega
  · rw [h]; left; rfl

/-- with the repaired guard, deciding whether a number starts here cannot fail -/
theorem startsNumber_ok (s : TS) (c : Char) : ∃ b, startsNumber true s c = .ok b := by
  unfold startsNumber
  split
  · exact ⟨_, rfl⟩
  · split
    · exact ⟨_, rfl⟩
    · exact ⟨_, rfl⟩

/-- one iteration of the tokenizer's main loop on a non-empty buffer: an allowed error,
or strictly fewer characters -/
theorem tokMainLoop_safe (s : TS) (hne : s.chars ≠ []) : SafeLe (tokMainLoop true s) (s.chars.length - 1) := by
  unfold tokMainLoop
  obtain ⟨c, cs, hc⟩ := List.exists_cons_of_ne_nil hne
  have hp : s.peek 0 = some c := by simp [TS.peek, hc]
  rw [hp]
  simp only
  · split
    · exact (take_safe s).andThen (fun s' => push_safe s' _)
    · split
      · exact identifierOrLabel_safe s
      · obtain ⟨b, hb⟩ := startsNumber_ok s c
        rw [hb]
        show SafeLe (tokDispatch s c b) _
        unfold tokDispatch
        split
        · exact number_safe s
        · split
          · exact ignoreWs_safe s
          · right; rfl

theorem tokLoop_safe (f : Nat) (s : TS) (hf : s.chars.length ≤ f) : SafeLe (tokLoop true f s) 0 := by
  induction f generalizing s with
  | zero =>
    unfold tokLoop
    have : s.chars = [] := List.eq_nil_of_length_eq_zero (by omega)
    simp [this, SafeLe, pure, Except.pure]
  | succ f ih =>
    unfold tokLoop
    cases hc : s.chars with
    | nil => simp [SafeLe, pure, Except.pure, hc]
    | cons c cs =>
      simp only [List.isEmpty_cons, Bool.false_eq_true, ↓reduceIte]
      have hne : s.chars ≠ [] := by simp [hc]
      refine SafeLe.bind (tokMainLoop_safe s hne) (fun s' h' => ih s' (by simp [hc] at hf h'; omega))

/-- **C04, lexical half.** For every input string the (repaired) tokenizer terminates — the fuel
`length + 1` is never exhausted — and either returns tokens or raises `UnexpectedCharacter` or
`ValueError`; `TypeError`, `IndexError` are unreachable. -/
theorem tokenize_total (str : List Char) :
    match tokenize true str with
    | .ok _ => True
    | .error e => e = .valueError ∨ e = .lib "UnexpectedCharacter" := by
  unfold tokenize
  have := tokLoop_safe (str.length + 1) { chars := str, toks := [], value := [] } (by simp)
  cases h : tokLoop true (str.length + 1) { chars := str, toks := [], value := [] } with
  | error e => rw [h] at this; exact this
  | ok s => simp [bind, Except.bind, pure, Except.pure]

/-- and today's guard does crash: -/
example : tokenize false "R-".toList = .error .typeError := by rfl

end Cdc

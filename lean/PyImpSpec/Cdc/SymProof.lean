import PyImpSpec.Cdc.Model

/-! Proof support for C15/C03: how the tokenizer splits a run of element symbols.

An element identifier is an upper-case ASCII letter followed by the longest run of lower-case letters,
digits and underscores; the next upper-case letter starts the next identifier.  Hence a code that is the
concatenation of symbols of that shape is tokenized into exactly those symbols ("longest symbol wins":
`LLaLs` is `L`, `La`, `Ls`, whatever else is registered). -/

namespace Cdc

def isUpper (c : Char) : Bool := 'A' ≤ c ∧ c ≤ 'Z'
def symTail (c : Char) : Bool := isLower c || isDigit c || c = '_'

/-- the shape `_validate_element_symbol` enforces -/
def ValidSym (s : List Char) : Prop := ∃ c cs, s = c :: cs ∧ isUpper c = true ∧ ∀ d ∈ cs, symTail d = true

def identTok (s : List Char) : Token := { kind := .ident, text := String.ofList s, num := .nan }

/-- the previous token does not switch the scanner into label or parameter mode -/
def PrevOk (t : Option Token) : Prop := t = none ∨ ∃ tok, t = some tok ∧ tok.kind ≠ .colon ∧ tok.kind ≠ .lcurly ∧ tok.kind ≠ .comma

theorem special_upper (c : Char) (h : isUpper c = true) : special c = none := by
  unfold special
  split <;> first | rfl | (exfalso; revert h; decide)

theorem upper_letter (c : Char) (h : isUpper c = true) : isAsciiLetter c = true := by
  unfold isUpper at h; unfold isAsciiLetter
  simp only [decide_eq_true_eq] at h
  simp [h]

theorem upper_not_tail (c : Char) (h : isUpper c = true) : symTail c = false := by
  unfold isUpper at h
  simp only [decide_eq_true_eq] at h
  unfold symTail isLower isDigit
  have h1 : c.val ≤ 'Z'.val := h.2
  have h2 : 'A'.val ≤ c.val := h.1
  have e1 : ¬ ('a' ≤ c) := by
    intro h3; have : 'a'.val ≤ c.val := h3
    have hz : 'Z'.val < 'a'.val := by decide
    exact absurd (Nat.lt_of_lt_of_le hz this) (Nat.not_lt.mpr h1)
  have e2 : ¬ (c ≤ '9') := by
    intro h3; have : c.val ≤ '9'.val := h3
    have hz : '9'.val < 'A'.val := by decide
    exact absurd (Nat.lt_of_lt_of_le hz h2) (Nat.not_lt.mpr this)
  have e3 : c ≠ '_' := by
    intro h3; subst h3; revert h1; decide
  simp [e1, e2, e3]

theorem identLoop_run (v : Char → Bool) (cs rest : List Char) :
    ∀ (f : Nat) (s : TS), s.chars = cs ++ rest → (∀ d ∈ cs, v d = true) → (∀ r, rest.head? = some r → v r = false) → cs.length < f →
      identLoop v f s = .ok { s with chars := rest, value := s.value ++ cs } := by
  induction cs with
  | nil =>
    intro f s hc _ hr hf
    cases f with
    | zero => omega
    | succ f =>
      have hc' : s.chars = rest := by simpa using hc
      unfold identLoop
      have hp : s.peek 0 = rest.head? := by unfold TS.peek; rw [hc']; cases rest <;> rfl
      rw [hp]
      cases hh : rest.head? with
      | none => simp only []; cases s; simp_all [pure, Except.pure]
      | some r => simp only [hr r hh]; cases s; simp_all [pure, Except.pure]
  | cons d cs ih =>
    intro f s hc hv hr hf
    cases f with
    | zero => omega
    | succ f =>
      unfold identLoop
      have hp : s.peek 0 = some d := by unfold TS.peek; rw [hc]; rfl
      rw [hp]
      simp only [hv d List.mem_cons_self, ↓reduceIte]
      have htake : s.take = .ok { s with chars := cs ++ rest, value := s.value ++ [d] } := by
        unfold TS.take TS.pop; rw [hc]; rfl
      rw [htake]
      simp only [bind, Except.bind]
      rw [ih f _ rfl (fun x hx => hv x (List.mem_cons_of_mem _ hx)) hr (by simp only [List.length_cons] at hf; omega)]
      simp

/-- one symbol at the head of the input becomes one identifier token -/
theorem symbol_step (c : Char) (cs rest : List Char) (s : TS) (hc : s.chars = c :: cs ++ rest) (hv : s.value = [])
    (hu : isUpper c = true) (ht : ∀ d ∈ cs, symTail d = true) (hr : ∀ r, rest.head? = some r → symTail r = false)
    (hp : PrevOk s.last) :
    tokMainLoop true s = .ok { chars := rest, toks := identTok (c :: cs) :: s.toks, value := [] } := by
  unfold tokMainLoop
  have hpk : s.peek 0 = some c := by unfold TS.peek; rw [hc]; rfl
  rw [hpk]
  simp only [special_upper c hu, upper_letter c hu, ↓reduceIte]
  unfold identifierOrLabel
  have htake : s.take = .ok { s with chars := cs ++ rest, value := [c] } := by
    unfold TS.take TS.pop; rw [hc, hv]; rfl
  rw [htake]
  simp only [bind, Except.bind]
  unfold identifierOrLabelBody
  -- the previous token is absent or an identifier: identifier mode with the element character class
  have hlast : ({ s with chars := cs ++ rest, value := [c] } : TS).last = s.last := rfl
  rw [hlast]
  have hvalid : identValid s.last = fun c => isLower c || isDigit c || c = '_' := by
    rcases hp with h | ⟨tok, h, hk1, hk2, hk3⟩
    · rw [h]; rfl
    · rw [h]; cases tok with | mk kind text num => simp only at hk1 hk2 hk3; cases kind <;> first | rfl | contradiction
  have hrun := identLoop_run (identValid s.last) cs rest (s.chars.length + 1) { s with chars := cs ++ rest, value := [c] } rfl
    (by rw [hvalid]; intro d hd; have := ht d hd; unfold symTail at this; simpa using this)
    (by rw [hvalid]; intro r hh; have := hr r hh; unfold symTail at this; simpa using this)
    (by rw [hc]; simp; omega)
  have hfin : (identLoop (identValid s.last) (s.chars.length + 1) { s with chars := cs ++ rest, value := [c] } >>= fun s => s.push .ident)
      = .ok { chars := rest, toks := identTok (c :: cs) :: s.toks, value := [] } := by
    rw [hrun]
    simp only [bind, Except.bind, TS.push]
    simp [identTok, pure, Except.pure]
  rcases hp with h | ⟨tok, h, hk1, hk2, hk3⟩
  · rw [h] at hfin ⊢
    exact hfin
  · rw [h] at hfin ⊢
    cases tok with
    | mk kind text num =>
      simp only at hk1 hk2 hk3
      cases kind <;> first | exact hfin | contradiction

/-- **A run of element symbols is tokenized into exactly those symbols.** -/
theorem tokLoop_symbols (syms : List (List Char)) :
    ∀ (f : Nat) (s : TS), s.chars = syms.flatten → s.value = [] → PrevOk s.last → (∀ x ∈ syms, ValidSym x) → syms.length < f →
      ∃ s', tokLoop true f s = .ok s' ∧ s'.toks = (syms.map identTok).reverse ++ s.toks := by
  induction syms with
  | nil =>
    intro f s hc _ _ _ hf
    cases f with
    | zero => simp at hf
    | succ f =>
      refine ⟨s, ?_, by simp⟩
      unfold tokLoop
      simp [hc, pure, Except.pure]
  | cons x rest ih =>
    intro f s hc hv hp hall hf
    cases f with
    | zero => simp at hf
    | succ f =>
      obtain ⟨c, cs, rfl, hu, ht⟩ := hall _ List.mem_cons_self
      have hrest : ∀ r, rest.flatten.head? = some r → symTail r = false := by
        intro r hr
        -- the next character, if any, is the upper-case letter that starts the next symbol
        cases rest with
        | nil => simp at hr
        | cons y ys =>
          obtain ⟨c', cs', rfl, hu', _⟩ := hall _ (List.mem_cons_of_mem _ List.mem_cons_self)
          simp only [List.flatten_cons, List.cons_append, List.head?_cons, Option.some.injEq] at hr
          subst hr
          exact upper_not_tail _ hu'
      have hc' : s.chars = c :: cs ++ rest.flatten := by simpa using hc
      have hstep := symbol_step c cs rest.flatten s hc' hv hu ht hrest hp
      unfold tokLoop
      have hne : s.chars.isEmpty = false := by rw [hc']; rfl
      simp only [hne, Bool.false_eq_true, ↓reduceIte, bind, Except.bind, hstep]
      obtain ⟨s', h1, h2⟩ := ih f { chars := rest.flatten, toks := identTok (c :: cs) :: s.toks, value := [] } rfl rfl
        (Or.inr ⟨identTok (c :: cs), rfl, by simp [identTok], by simp [identTok], by simp [identTok]⟩) (fun y hy => hall y (List.mem_cons_of_mem _ hy)) (by simp only [List.length_cons] at hf; omega)
      exact ⟨s', h1, by rw [h2]; simp⟩

theorem flatten_length_ge (syms : List (List Char)) (h : ∀ x ∈ syms, ValidSym x) : syms.length ≤ syms.flatten.length := by
  induction syms with
  | nil => simp
  | cons x t ih =>
    obtain ⟨c, cs, rfl, _, _⟩ := h _ List.mem_cons_self
    have := ih (fun y hy => h y (List.mem_cons_of_mem _ hy))
    simp only [List.length_cons, List.flatten_cons, List.length_append]
    omega

/-- **`tokenize` of a concatenation of well-formed symbols yields one identifier per symbol** — the longest
symbol wins by construction, independently of which symbols are registered. -/
theorem tokenize_symbols (syms : List (List Char)) (h : ∀ x ∈ syms, ValidSym x) :
    tokenize true syms.flatten = .ok (syms.map identTok) := by
  unfold tokenize
  obtain ⟨s', h1, h2⟩ := tokLoop_symbols syms (syms.flatten.length + 1) { chars := syms.flatten, toks := [], value := [] } rfl rfl
    (Or.inl rfl) h (by have := flatten_length_ge syms h; omega)
  simp only [bind, Except.bind, h1, pure, Except.pure]
  rw [h2]; simp

end Cdc

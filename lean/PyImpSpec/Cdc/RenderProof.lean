import PyImpSpec.Cdc.SymProof
import PyImpSpec.Cdc.RT

/-! Proof support for C03: the characters of a basic-syntax code are tokenized into exactly the tokens they were rendered from
(element symbols and the four brackets), so the token-level round trip of `RT.lean` is a round trip on text. -/

namespace Cdc

/-- the four bracket characters -/
def isBracket (c : Char) : Bool := c = '[' || c = ']' || c = '(' || c = ')'

theorem bracket_special (c : Char) (h : isBracket c = true) :
    ∃ k, special c = some k ∧ k ≠ .number ∧ k ≠ .fixedNumber ∧ k ≠ .colon ∧ k ≠ .lcurly ∧ k ≠ .comma := by
  unfold isBracket at h
  simp only [Bool.or_eq_true, decide_eq_true_eq] at h
  rcases h with ((rfl | rfl) | rfl) | rfl
  · exact ⟨.lbracket, rfl, by decide, by decide, by decide, by decide, by decide⟩
  · exact ⟨.rbracket, rfl, by decide, by decide, by decide, by decide, by decide⟩
  · exact ⟨.lparen, rfl, by decide, by decide, by decide, by decide, by decide⟩
  · exact ⟨.rparen, rfl, by decide, by decide, by decide, by decide, by decide⟩

theorem bracket_not_tail (c : Char) (h : isBracket c = true) : symTail c = false := by
  unfold isBracket at h
  simp only [Bool.or_eq_true, decide_eq_true_eq] at h
  rcases h with ((rfl | rfl) | rfl) | rfl <;> decide

/-- one bracket character at the head of the input becomes one token of its kind -/
theorem bracket_step (c : Char) (k : TK) (rest : List Char) (s : TS) (hc : s.chars = c :: rest) (hv : s.value = [])
    (hk : special c = some k) (hn1 : k ≠ .number) (hn2 : k ≠ .fixedNumber) :
    tokMainLoop true s = .ok { chars := rest, toks := { kind := k, text := String.ofList [c], num := .nan } :: s.toks, value := [] } := by
  unfold tokMainLoop
  have hpk : s.peek 0 = some c := by unfold TS.peek; rw [hc]; rfl
  rw [hpk]
  simp only [hk]
  have htake : s.take = .ok { s with chars := rest, value := [c] } := by
    unfold TS.take TS.pop; rw [hc, hv]; rfl
  rw [htake]
  simp only [bind, Except.bind, TS.push]
  simp [hn1, hn2, pure, Except.pure]

/-- a token of the basic syntax: an element symbol of the valid shape, or a bracket -/
def Basic (t : Token) : Prop :=
  (∃ s, ValidSym s ∧ t = identTok s) ∨ (∃ c k, isBracket c = true ∧ special c = some k ∧ t = { kind := k, text := String.ofList [c], num := .nan })

/-- the text a basic token was rendered as -/
def chars (t : Token) : List Char := t.text.toList

theorem basic_head_not_tail (t : Token) (h : Basic t) (rest : List Char) : ∀ r, (chars t ++ rest).head? = some r → symTail r = false := by
  intro r hr
  rcases h with ⟨s, ⟨c, cs, rfl, hu, _⟩, rfl⟩ | ⟨c, k, hb, _, rfl⟩
  · simp only [chars, identTok, String.toList_ofList, List.cons_append, List.head?_cons, Option.some.injEq] at hr
    subst hr; exact upper_not_tail _ hu
  · simp only [chars, String.toList_ofList, List.cons_append, List.head?_cons, Option.some.injEq] at hr
    subst hr; exact bracket_not_tail _ hb

/-- **A rendered run of basic tokens is tokenized into exactly those tokens.** -/
theorem tokLoop_basic (ts : List Token) :
    ∀ (f : Nat) (s : TS), s.chars = (ts.map chars).flatten → s.value = [] → PrevOk s.last → (∀ t ∈ ts, Basic t) → ts.length < f →
      ∃ s', tokLoop true f s = .ok s' ∧ s'.toks = ts.reverse ++ s.toks := by
  induction ts with
  | nil =>
    intro f s hc _ _ _ hf
    cases f with
    | zero => simp at hf
    | succ f =>
      refine ⟨s, ?_, by simp⟩
      unfold tokLoop
      simp [hc, pure, Except.pure]
  | cons t rest ih =>
    intro f s hc hv hp hall hf
    cases f with
    | zero => simp at hf
    | succ f =>
      have hnext : ∀ r, (rest.map chars).flatten.head? = some r → symTail r = false := by
        intro r hr
        cases rest with
        | nil => simp at hr
        | cons y ys =>
          simp only [List.map_cons, List.flatten_cons] at hr
          exact basic_head_not_tail y (hall y (List.mem_cons_of_mem _ List.mem_cons_self)) _ r hr
      have hstep : tokMainLoop true s = .ok { chars := (rest.map chars).flatten, toks := t :: s.toks, value := [] } ∧ PrevOk (some t) := by
        rcases hall t List.mem_cons_self with ⟨sy, ⟨c, cs, rfl, hu, ht⟩, rfl⟩ | ⟨c, k, hb, hk, rfl⟩
        · have hc' : s.chars = c :: cs ++ (rest.map chars).flatten := by
            simpa [chars, identTok, String.toList_ofList] using hc
          exact ⟨symbol_step c cs _ s hc' hv hu ht hnext hp, Or.inr ⟨_, rfl, by simp [identTok], by simp [identTok], by simp [identTok]⟩⟩
        · obtain ⟨k', hk', h1, h2, h3, h4, h5⟩ := bracket_special c hb
          have : k' = k := by rw [hk] at hk'; exact (Option.some.inj hk').symm
          subst this
          have hc' : s.chars = c :: (rest.map chars).flatten := by
            simpa [chars, String.toList_ofList] using hc
          exact ⟨bracket_step c k' _ s hc' hv hk h1 h2, Or.inr ⟨_, rfl, h3, h4, h5⟩⟩
      have hne : s.chars.isEmpty = false := by
        rcases hall t List.mem_cons_self with ⟨sy, ⟨c, cs, rfl, _, _⟩, rfl⟩ | ⟨c, k, _, _, rfl⟩ <;>
          (rw [hc]; simp [chars, identTok, String.toList_ofList])
      unfold tokLoop
      simp only [hne, Bool.false_eq_true, ↓reduceIte, bind, Except.bind, hstep.1]
      obtain ⟨s', h1, h2⟩ := ih f { chars := (rest.map chars).flatten, toks := t :: s.toks, value := [] } rfl rfl
        hstep.2 (fun y hy => hall y (List.mem_cons_of_mem _ hy)) (by simp only [List.length_cons] at hf; omega)
      exact ⟨s', h1, by rw [h2]; simp⟩

theorem basic_chars_pos (t : Token) (h : Basic t) : 1 ≤ (chars t).length := by
  rcases h with ⟨s, ⟨c, cs, rfl, _, _⟩, rfl⟩ | ⟨c, k, _, _, rfl⟩ <;> simp [chars, identTok, String.toList_ofList]

theorem flatten_chars_length_ge (ts : List Token) (h : ∀ t ∈ ts, Basic t) : ts.length ≤ ((ts.map chars).flatten).length := by
  induction ts with
  | nil => simp
  | cons t r ih =>
    have := ih (fun y hy => h y (List.mem_cons_of_mem _ hy))
    have := basic_chars_pos t (h t List.mem_cons_self)
    simp only [List.length_cons, List.map_cons, List.flatten_cons, List.length_append]
    omega

/-- **`tokenize` inverts rendering on the basic syntax.** -/
theorem tokenize_basic (ts : List Token) (h : ∀ t ∈ ts, Basic t) : tokenize true ((ts.map chars).flatten) = .ok ts := by
  unfold tokenize
  obtain ⟨s', h1, h2⟩ := tokLoop_basic ts (((ts.map chars).flatten).length + 1) { chars := (ts.map chars).flatten, toks := [], value := [] } rfl rfl
    (Or.inl rfl) h (by have := flatten_chars_length_ge ts h; omega)
  simp only [bind, Except.bind, h1, pure, Except.pure]
  rw [h2]; simp

/-! ### the tokens `printT` prints are basic when the leaves carry valid symbols -/

mutual
/-- every leaf symbol has the shape `_validate_element_symbol` enforces -/
def LeavesValid : T → Prop
  | .leaf sym => ValidSym sym.toList
  | .series cs => LeavesValids cs
  | .parallel cs => LeavesValids cs
def LeavesValids : List T → Prop
  | [] => True
  | t :: ts => LeavesValid t ∧ LeavesValids ts
end

theorem basic_bracket (c : Char) (k : TK) (s : String) (hb : isBracket c = true) (hk : special c = some k) (hs : s = String.ofList [c]) : Basic (tkOf k s) :=
  Or.inr ⟨c, k, hb, hk, by rw [hs]; rfl⟩

mutual
theorem printT_basic : (t : T) → LeavesValid t → ∀ tok ∈ printT t, Basic tok
  | .leaf sym, h => by
    intro tok ht
    simp only [printT, List.mem_singleton] at ht
    subst ht
    exact Or.inl ⟨sym.toList, h, by simp [tkOf, identTok, String.ofList_toList]⟩
  | .series cs, h => by
    intro tok ht
    simp only [printT, List.mem_cons, List.mem_append, List.not_mem_nil, or_false] at ht
    rcases ht with rfl | ht | rfl
    · exact basic_bracket '[' .lbracket "[" (by decide) rfl (by decide)
    · exact printTs_basic cs h tok ht
    · exact basic_bracket ']' .rbracket "]" (by decide) rfl (by decide)
  | .parallel cs, h => by
    intro tok ht
    simp only [printT, List.mem_cons, List.mem_append, List.not_mem_nil, or_false] at ht
    rcases ht with rfl | ht | rfl
    · exact basic_bracket '(' .lparen "(" (by decide) rfl (by decide)
    · exact printTs_basic cs h tok ht
    · exact basic_bracket ')' .rparen ")" (by decide) rfl (by decide)
theorem printTs_basic : (cs : List T) → LeavesValids cs → ∀ tok ∈ printTs cs, Basic tok
  | [], _ => by intro tok ht; simp [printTs] at ht
  | t :: ts, h => by
    intro tok ht
    simp only [printTs, List.mem_append] at ht
    rcases ht with ht | ht
    · exact printT_basic t h.1 tok ht
    · exact printTs_basic ts h.2 tok ht
end

/-- the text of a tree in the basic syntax -/
def renderT (t : T) : List Char := ((printT t).map chars).flatten

/-- **Text level.** The characters of a tree's basic-syntax code are tokenized into exactly the tokens `printT` prints. -/
theorem tokenize_renderT (t : T) (h : LeavesValid t) : tokenize true (renderT t) = .ok (printT t) :=
  tokenize_basic (printT t) (printT_basic t h)

end Cdc

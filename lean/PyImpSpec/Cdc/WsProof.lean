import PyImpSpec.Cdc.RenderProof

/-! Proof support for C03: white space between the tokens of the basic syntax does not change the token stream. -/

namespace Cdc

def wsList : List Char := [' ', '\t', '\n', '\r', '\x0b', '\x0c']

theorem isWs_mem (c : Char) (h : isWs c = true) : c ∈ wsList := by
  unfold isWs at h
  simp only [decide_eq_true_eq] at h
  simp only [wsList, List.mem_cons, List.not_mem_nil, or_false]
  grind

theorem wsList_props : ∀ c ∈ wsList, special c = none ∧ isAsciiLetter c = false ∧ isDigit c = false ∧ (c = '-') = False ∧ symTail c = false := by
  decide

/-- one white-space character is skipped -/
theorem ws_step (c : Char) (rest : List Char) (s : TS) (hc : s.chars = c :: rest) (hw : isWs c = true) :
    tokMainLoop true s = .ok { s with chars := rest, value := [] } := by
  obtain ⟨h1, h2, h3, h4, _⟩ := wsList_props c (isWs_mem c hw)
  unfold tokMainLoop
  have hpk : s.peek 0 = some c := by unfold TS.peek; rw [hc]; rfl
  rw [hpk]
  simp only [h1, h2, Bool.false_eq_true, ↓reduceIte]
  have hne : c ≠ '-' := by intro e; rw [e] at h4; simp at h4
  simp only [startsNumber, h3, Bool.false_eq_true, ↓reduceIte, hne, bind, Except.bind, pure, Except.pure, tokDispatch, hw, ignoreWs, TS.pop, hc]

/-- a run of white space is skipped, at the cost of one unit of fuel per character -/
theorem ws_run (w : List Char) (hw : ∀ c ∈ w, isWs c = true) :
    ∀ (f : Nat) (rest : List Char) (toks : List Token), tokLoop true (f + w.length) { chars := w ++ rest, toks := toks, value := [] }
      = tokLoop true f { chars := rest, toks := toks, value := [] } := by
  induction w with
  | nil => intro f rest toks; rfl
  | cons c cs ih =>
    intro f rest toks
    have : f + (c :: cs).length = (f + cs.length) + 1 := by simp only [List.length_cons]; omega
    rw [this]
    conv => lhs; unfold tokLoop
    have hstep := ws_step c (cs ++ rest) { chars := c :: cs ++ rest, toks := toks, value := [] } rfl (hw c List.mem_cons_self)
    simp only [List.cons_append, List.isEmpty_cons, Bool.false_eq_true, ↓reduceIte, bind, Except.bind] at hstep ⊢
    rw [hstep]
    exact ih (fun d hd => hw d (List.mem_cons_of_mem _ hd)) f rest toks

theorem tokLoop_succ_nonempty (f : Nat) (s : TS) (h : s.chars.isEmpty = false) :
    tokLoop true (f + 1) s = (tokMainLoop true s >>= tokLoop true f) := by
  rw [tokLoop]; simp [h]

/-- the text of a run of tokens, each preceded by arbitrary white space, followed by trailing white space -/
def spaced (ts : List (List Char × Token)) (trail : List Char) : List Char :=
  (ts.map fun p => p.1 ++ chars p.2).flatten ++ trail

/-- units of fuel the scanner needs for a spaced text: one per white-space character and one per token -/
def need (ts : List (List Char × Token)) : Nat := (ts.map fun p => p.1.length + 1).sum

theorem spaced_head_not_tail (ts : List (List Char × Token)) (trail : List Char)
    (hb : ∀ p ∈ ts, Basic p.2 ∧ ∀ c ∈ p.1, isWs c = true) (ht : ∀ c ∈ trail, isWs c = true) :
    ∀ r, (spaced ts trail).head? = some r → symTail r = false := by
  intro r hr
  cases ts with
  | nil =>
    simp only [spaced, List.map_nil, List.flatten_nil, List.nil_append] at hr
    have hm : r ∈ trail := List.mem_of_head? hr
    exact (wsList_props r (isWs_mem r (ht r hm))).2.2.2.2
  | cons p ps =>
    obtain ⟨hbp, hwp⟩ := hb p List.mem_cons_self
    simp only [spaced, List.map_cons, List.flatten_cons, List.append_assoc] at hr
    cases hw : p.1 with
    | nil =>
      rw [hw, List.nil_append] at hr
      exact basic_head_not_tail p.2 hbp _ r hr
    | cons c cs =>
      rw [hw] at hr
      simp only [List.cons_append, List.head?_cons, Option.some.injEq] at hr
      subst hr
      exact (wsList_props c (isWs_mem c (hwp c (by rw [hw]; exact List.mem_cons_self)))).2.2.2.2

/-- **White space between tokens is immaterial (scanner loop).** -/
theorem tokLoop_spaced (ts : List (List Char × Token)) (trail : List Char) (ht : ∀ c ∈ trail, isWs c = true) :
    ∀ (f : Nat) (toks : List Token), (∀ p ∈ ts, Basic p.2 ∧ ∀ c ∈ p.1, isWs c = true) → PrevOk toks.head? →
      ∃ s', tokLoop true (f + 1 + trail.length + need ts) { chars := spaced ts trail, toks := toks, value := [] } = .ok s' ∧
        s'.toks = (ts.map (·.2)).reverse ++ toks := by
  induction ts with
  | nil =>
    intro f toks _ _
    refine ⟨{ chars := [], toks := toks, value := [] }, ?_, by simp⟩
    have := ws_run trail ht (f + 1) [] toks
    simp only [spaced, need, List.map_nil, List.flatten_nil, List.nil_append, List.sum_nil, Nat.add_zero, List.append_nil] at this ⊢
    rw [this]
    unfold tokLoop
    simp [pure, Except.pure]
  | cons p ps ih =>
    intro f toks hb hp
    obtain ⟨hbp, hwp⟩ := hb p List.mem_cons_self
    have hps : ∀ q ∈ ps, Basic q.2 ∧ ∀ c ∈ q.1, isWs c = true := fun q hq => hb q (List.mem_cons_of_mem _ hq)
    -- skip the white space in front of the token
    have hfuel : f + 1 + trail.length + need (p :: ps) = (f + 1 + trail.length + need ps + 1) + p.1.length := by
      simp only [need, List.map_cons, List.sum_cons]; omega
    have hchars : spaced (p :: ps) trail = p.1 ++ (chars p.2 ++ spaced ps trail) := by
      simp [spaced, List.append_assoc]
    rw [hfuel, hchars, ws_run p.1 hwp]
    -- the token itself
    have hnext := spaced_head_not_tail ps trail hps ht
    have hstep : tokMainLoop true { chars := chars p.2 ++ spaced ps trail, toks := toks, value := [] }
        = .ok { chars := spaced ps trail, toks := p.2 :: toks, value := [] } ∧ PrevOk (some p.2) := by
      rcases hbp with ⟨sy, ⟨c, cs, rfl, hu, htl⟩, he⟩ | ⟨c, k, hbr, hk, he⟩
      · rw [he]
        have hc' : ({ chars := chars (identTok (c :: cs)) ++ spaced ps trail, toks := toks, value := [] } : TS).chars = c :: cs ++ spaced ps trail := by
          simp [chars, identTok, String.toList_ofList]
        exact ⟨symbol_step c cs _ _ hc' rfl hu htl hnext hp, Or.inr ⟨_, rfl, by simp [identTok], by simp [identTok], by simp [identTok]⟩⟩
      · rw [he]
        obtain ⟨k', hk', h1, h2, h3, h4, h5⟩ := bracket_special c hbr
        have : k' = k := by rw [hk] at hk'; exact (Option.some.inj hk').symm
        subst this
        have hc' : ({ chars := chars ({ kind := k', text := String.ofList [c], num := .nan } : Token) ++ spaced ps trail, toks := toks, value := [] } : TS).chars = c :: spaced ps trail := by
          simp [chars, String.toList_ofList]
        exact ⟨bracket_step c k' _ _ hc' rfl hk h1 h2, Or.inr ⟨_, rfl, h3, h4, h5⟩⟩
    have hne : (chars p.2 ++ spaced ps trail).isEmpty = false := by
      have := basic_chars_pos p.2 hbp
      cases hch : chars p.2 with
      | nil => rw [hch] at this; simp at this
      | cons c r => rfl
    obtain ⟨s', h1, h2⟩ := ih f (p.2 :: toks) hps hstep.2
    refine ⟨s', ?_, by rw [h2]; simp⟩
    rw [tokLoop_succ_nonempty _ _ hne, hstep.1]
    exact h1

theorem spaced_length (ts : List (List Char × Token)) (trail : List Char) (hb : ∀ p ∈ ts, Basic p.2) :
    trail.length + need ts ≤ (spaced ts trail).length := by
  induction ts with
  | nil => simp [spaced, need]
  | cons p ps ih =>
    have := ih (fun q hq => hb q (List.mem_cons_of_mem _ hq))
    have hpos := basic_chars_pos p.2 (hb p List.mem_cons_self)
    simp only [spaced, need, List.map_cons, List.flatten_cons, List.sum_cons, List.length_append] at this ⊢
    omega

theorem tokLoop_fuel_mono_ok (f : Nat) : ∀ (s s' : TS), tokLoop true f s = .ok s' → ∀ g, f ≤ g → tokLoop true g s = .ok s' := by
  induction f with
  | zero =>
    intro s s' h g _
    unfold tokLoop at h
    cases g with
    | zero => unfold tokLoop; exact h
    | succ g =>
      unfold tokLoop
      by_cases he : s.chars.isEmpty = true
      · simp only [he, ↓reduceIte] at h ⊢; exact h
      · simp only [he, Bool.false_eq_true, ↓reduceIte] at h; cases h
  | succ f ih =>
    intro s s' h g hg
    cases g with
    | zero => omega
    | succ g =>
      unfold tokLoop at h ⊢
      by_cases he : s.chars.isEmpty = true
      · simp only [he, ↓reduceIte] at h ⊢; exact h
      · simp only [he, Bool.false_eq_true, ↓reduceIte, bind, Except.bind] at h ⊢
        cases hm : tokMainLoop true s with
        | error e => rw [hm] at h; cases h
        | ok s1 =>
          rw [hm] at h
          simp only at h ⊢
          exact ih s1 s' h g (by omega)

/-- **White space between tokens is immaterial.** A basic-syntax code whose tokens are separated (preceded, followed) by any amount
of white space is tokenized into the same tokens as the code without it. -/
theorem tokenize_spaced (ts : List (List Char × Token)) (trail : List Char) (ht : ∀ c ∈ trail, isWs c = true)
    (hb : ∀ p ∈ ts, Basic p.2 ∧ ∀ c ∈ p.1, isWs c = true) :
    tokenize true (spaced ts trail) = .ok (ts.map (·.2)) := by
  unfold tokenize
  obtain ⟨s', h1, h2⟩ := tokLoop_spaced ts trail ht 0 [] hb (Or.inl rfl)
  have hlen := spaced_length ts trail (fun p hp => (hb p hp).1)
  have h1' := tokLoop_fuel_mono_ok _ _ _ h1 ((spaced ts trail).length + 1) (by omega)
  simp only [bind, Except.bind, h1', pure, Except.pure]
  rw [h2]; simp

end Cdc

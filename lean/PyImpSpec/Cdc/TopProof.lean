import PyImpSpec.Cdc.Model
import PyImpSpec.Cdc.TokProof
import PyImpSpec.Cdc.ParProof

namespace Cdc
/-! Prototype for C04: `parse_cdc` (repaired F1–F3) on *every* string either returns a circuit or
raises a parsing/tokenizing error or `ValueError`; the fuel the model gives itself is never
exhausted, i.e. the real loops and the recursive descent terminate. -/

def fixedFlags : Flags := { guard := true, sub := true, version := true }

/-- state predicate for the top level: the stack holds circuit items only -/
def StackCkts (s : PS) : Prop := ∃ cs : List Ckt, s.stack = cs.map Item.ckt

/-- `PS → PyM PS` functions that only consume tokens -/
def KeepS (s : PS) (r : PyM PS) : Prop :=
  match r with
  | .error e => AllowedP e
  | .ok s' => s'.toks.length ≤ s.toks.length ∧ s'.stack = s.stack

theorem versionOk_allowed (v : Val) : ∀ e, versionOk true v = .error e → AllowedP e := by
  intro e h
  cases v with
  | num q =>
    unfold versionOk at h
    simp only at h
    by_cases hc : ¬ (0 < (if q ≥ 0 then q.floor else -((-q).floor)) ∧ (if q ≥ 0 then q.floor else -((-q).floor)) ≤ 1)
    · rw [if_pos hc] at h; cases h; exact allowed_lib _
    · rw [if_neg hc] at h; cases h
  | pinf => cases h; exact allowed_lib _
  | ninf => cases h; exact allowed_lib _
  | nan => cases h; exact allowed_value

theorem migrateTail_keep (s : PS) : KeepS s (migrateTail true s) := by
  unfold migrateTail
  rcases expectNumber_cases s with h | h
  · rw [h]
    rcases popTok_cases s with ⟨t, ts, h1, h2⟩ | ⟨h1, h2⟩
    · rw [h2]
      show KeepS s (versionOk true t.num >>= fun _ => _)
      cases hv : versionOk true t.num with
      | error e => exact versionOk_allowed _ e hv
      | ok u =>
        show KeepS s (PS.expect { s with toks := ts } .excl >>= fun _ => _)
        rcases expect_cases { s with toks := ts } .excl with he | ⟨n, he⟩
        · rw [he]
          rcases popTok_cases { s with toks := ts } with ⟨t', ts', h1', h2'⟩ | ⟨h1', h2'⟩
          · rw [h2']
            refine ⟨?_, rfl⟩
            simp only at h1'
            show ts'.length ≤ s.toks.length
            rw [h1, h1']; simp; omega
          · rw [h2']; exact allowed_lib _
        · rw [he]; exact allowed_lib n
    · rw [h2]; exact allowed_lib _
  · rw [h]; exact allowed_lib _

theorem KeepS.trans {s s1 : PS} {r : PyM PS} (h1 : s1.toks.length ≤ s.toks.length) (h2 : s1.stack = s.stack)
    (h : KeepS s1 r) : KeepS s r := by
  cases r with
  | error e => exact h
  | ok s2 => exact ⟨Nat.le_trans h.1 h1, h.2.trans h2⟩

theorem migrate_keep (s : PS) : KeepS s (migrate true s) := by
  unfold migrate
  split
  · exact ⟨Nat.le_refl _, rfl⟩
  · rcases popTok_cases s with ⟨t, ts, h1, h2⟩ | ⟨h1, h2⟩
    · rw [h2]
      show KeepS s (PS.expect { s with toks := ts } .ident >>= fun _ => _)
      rcases expect_cases { s with toks := ts } .ident with he | ⟨n, he⟩
      · rw [he]
        rcases popTok_cases { s with toks := ts } with ⟨t', ts', h1', h2'⟩ | ⟨h1', h2'⟩
        · rw [h2']
          show KeepS s (if _ then _ else _)
          split
          · exact allowed_lib _
          · show KeepS s (PS.expect { s with toks := ts' } .equals >>= fun _ => _)
            rcases expect_cases { s with toks := ts' } .equals with he2 | ⟨n, he2⟩
            · rw [he2]
              rcases popTok_cases { s with toks := ts' } with ⟨t'', ts'', h1'', h2''⟩ | ⟨h1'', h2''⟩
              · rw [h2'']
                show KeepS s (migrateTail true { toks := ts'', stack := s.stack })
                refine KeepS.trans (s1 := { toks := ts'', stack := s.stack }) ?_ rfl (migrateTail_keep _)
                simp only at h1' h1''
                show ts''.length ≤ s.toks.length
                rw [h1, h1', h1'']; simp; omega
              · rw [h2'']; exact allowed_lib _
            · rw [he2]; exact allowed_lib n
        · rw [h2']; exact allowed_lib _
      · rw [he]; exact allowed_lib n
    · rw [h2]; exact allowed_lib _

def BodyOk (r : PyM PS) : Prop :=
  match r with
  | .error e => AllowedP e
  | .ok s => StackCkts s
def ResOk (r : PyM Ckt) : Prop :=
  match r with
  | .ok _ => True
  | .error e => AllowedP e

theorem mainLoops_spec (tbl : List ElemDef) (f : Nat) (s : PS) (hs : StackCkts s) (hf : s.toks.length ≤ f) :
    BodyOk (mainLoops tbl true f s) := by
  induction f generalizing s with
  | zero =>
    unfold mainLoops
    have : s.toks = [] := List.eq_nil_of_length_eq_zero (by omega)
    simp only [this, List.isEmpty_nil, ↓reduceIte]
    exact hs
  | succ f ih =>
    unfold mainLoops
    split
    · exact hs
    · have hm := mainLoop_pushes_one tbl (8 * (s.toks.length + 2)) s (by omega)
      cases hml : mainLoop tbl true (8 * (s.toks.length + 2)) s with
      | error e => rw [hml] at hm; exact hm
      | ok s1 =>
        rw [hml] at hm
        obtain ⟨hlt, c, hc⟩ := hm
        obtain ⟨cs, hcs⟩ := hs
        show BodyOk (mainLoops tbl true f s1)
        exact ih s1 ⟨c :: cs, by rw [hc, hcs]; rfl⟩ (by omega)

theorem foldStack_allowed (s : PS) (hs : StackCkts s) : ∀ e, foldStack s = .error e → AllowedP e := by
  intro e h
  obtain ⟨cs, hcs⟩ := hs
  unfold foldStack at h
  split at h
  · have hall : ¬ (¬ s.stack.all isCkt = true) := by
      intro hne; apply hne; rw [hcs, List.all_eq_true]; exact allCkt_map cs
    rw [if_neg hall] at h
    cases h
  · unfold PS.popStack at h
    cases cs with
    | nil => rw [hcs] at h; cases h; exact allowed_value
    | cons c t =>
      rw [hcs] at h
      simp only [List.map_cons, bind, Except.bind] at h
      split at h
      · cases h; exact allowed_value
      · cases c <;> cases h

theorem parseBody_ok (tbl : List ElemDef) (cs : List Char) : BodyOk (parseBody tbl fixedFlags cs) := by
  unfold parseBody
  split
  · exact ⟨[.series []], rfl⟩
  · have ht := tokenize_total cs
    show BodyOk (tokenize true cs >>= fun toks => _)
    cases htk : tokenize true cs with
    | error e =>
      rw [htk] at ht
      rcases ht with h | h
      · exact Or.inl h
      · exact h ▸ allowed_lib _
    | ok toks =>
      show BodyOk (if toks.isEmpty then _ else _)
      split
      · exact ⟨[], rfl⟩
      · have hm := migrate_keep { toks := toks, stack := [] }
        show BodyOk (migrate true { toks := toks, stack := [] } >>= fun s => _)
        cases hmg : migrate true { toks := toks, stack := [] } with
        | error e => rw [hmg] at hm; exact hm
        | ok s1 =>
          rw [hmg] at hm
          exact mainLoops_spec tbl _ s1 ⟨[], hm.2⟩ (by omega)

/-- **C04 (prototype).** For every input string the repaired parser returns a circuit or fails with a
tokenizing/parsing error or `ValueError`: no `TypeError`, `IndexError`, `KeyError`, `AttributeError`,
`OverflowError`. -/
theorem parseCdc_no_crash (tbl : List ElemDef) (input : String) : ResOk (parseCdc tbl fixedFlags input) := by
  unfold parseCdc
  have hbody := parseBody_ok tbl (pyStrip input.toList)
  cases hb : parseBody tbl fixedFlags (pyStrip input.toList) with
  | error e => rw [hb] at hbody; exact hbody
  | ok s =>
    rw [hb] at hbody
    show ResOk (foldStack s)
    cases hf : foldStack s with
    | ok c => trivial
    | error e => exact foldStack_allowed s hbody e hf

/-- today's code violates it (evaluated, not kernel-reduced: `String`/`Rat` arithmetic) -/
def demoTbl : List ElemDef := [⟨"R", [⟨"R", .num 1000, .num 0, .pinf, false⟩], []⟩]
#eval (parseCdc demoTbl {} "R-" |>.toOption.isSome, match parseCdc demoTbl {} "R-" with | .error e => e.name | _ => "ok")
#eval (match parseCdc demoTbl {} "!V=1e999!R" with | .error e => e.name | _ => "ok")
#eval (match parseCdc demoTbl fixedFlags "R-" with | .error e => e.name | _ => "ok")

end Cdc

import PyImpSpec.Cdc.Model

namespace Cdc
/-! Prototype for C03/C04: stack discipline of the (repaired) parser — every successful
`main_loop` consumes at least one token and pushes exactly one circuit item; no `TypeError`. -/

def AllowedP (e : PyExc) : Prop := e = .valueError ∨ ∃ n, e = .lib n

theorem allowed_lib (n : String) : AllowedP (.lib n) := Or.inr ⟨n, rfl⟩
theorem allowed_value : AllowedP .valueError := Or.inl rfl

def PushOne (s : PS) (r : PyM PS) : Prop :=
  match r with
  | .error e => AllowedP e
  | .ok s' => s'.toks.length < s.toks.length ∧ ∃ c, s'.stack = .ckt c :: s.stack

def PushMany (s : PS) (r : PyM PS) : Prop :=
  match r with
  | .error e => AllowedP e
  | .ok s' => s'.toks.length ≤ s.toks.length ∧ ∃ cs : List Ckt, s'.stack = cs.map Item.ckt ++ s.stack

def KeepStack {α : Type} (s : PS) (r : PyM (α × PS)) : Prop :=
  match r with
  | .error e => AllowedP e
  | .ok p => p.2.toks.length ≤ s.toks.length ∧ p.2.stack = s.stack

/-! ### token-level helpers -/

theorem popTok_cases (s : PS) :
    (∃ t ts, s.toks = t :: ts ∧ s.popTok = .ok (t, { s with toks := ts })) ∨
    (s.toks = [] ∧ s.popTok = .error (.lib "InsufficientTokens")) := by
  unfold PS.popTok
  cases h : s.toks with
  | nil => right; exact ⟨rfl, rfl⟩
  | cons t ts => left; exact ⟨t, ts, rfl, rfl⟩

theorem expect_cases (s : PS) (k : TK) : s.expect k = .ok () ∨ ∃ n, s.expect k = .error (.lib n) := by
  unfold PS.expect
  cases s.toks with
  | nil => right; exact ⟨_, rfl⟩
  | cons t ts =>
    by_cases h : t.kind = k
    · left; simp [h]
    · right; exact ⟨"UnexpectedToken", by simp [h]⟩

theorem accept_head (s : PS) (k : TK) (h : s.accept k = true) : ∃ t ts, s.toks = t :: ts ∧ t.kind = k := by
  unfold PS.accept at h
  cases hs : s.toks with
  | nil => simp [hs] at h
  | cons t ts => simp [hs] at h; exact ⟨t, ts, rfl, h⟩

/-! ### `popItems` on a well-formed frame -/

def AllCkt (l : List Item) : Prop := ∀ i ∈ l, isCkt i = true

theorem allCkt_map (cs : List Ckt) : AllCkt (cs.map Item.ckt) := by
  intro i hi; simp at hi; obtain ⟨c, _, rfl⟩ := hi; rfl

theorem allCkt_append {a b : List Item} (ha : AllCkt a) (hb : AllCkt b) : AllCkt (a ++ b) := by
  intro i hi; rcases List.mem_append.mp hi with h | h
  · exact ha i h
  · exact hb i h

theorem allCkt_single (c : Ckt) : AllCkt [Item.ckt c] := by
  intro i hi; simp at hi; subst hi; rfl

theorem popItems_tok (o : TK) (b : Bool) (t : Token) (r acc : List Item) (h : t.kind = o) :
    popItems o b (.tok t :: r) acc = (acc, r) := by simp [popItems, h]
theorem popItems_elem (o : TK) (b : Bool) (x y : String) (z : List PV) (w) (r acc : List Item) :
    popItems o b (.ckt (.elem x y z w) :: r) acc = popItems o b r (acc ++ [.ckt (.elem x y z w)]) := by
  simp [popItems]
theorem popItems_series (o : TK) (b : Bool) (l : List Ckt) (r acc : List Item) :
    popItems o b (.ckt (.series l) :: r) acc =
      if b then popItems o b r (acc ++ l.reverse.map Item.ckt) else popItems o b r (acc ++ [.ckt (.series l)]) := by
  simp [popItems]
theorem popItems_parallel (o : TK) (b : Bool) (l : List Ckt) (r acc : List Item) :
    popItems o b (.ckt (.parallel l) :: r) acc =
      if ¬ b then popItems o b r (acc ++ l.reverse.map Item.ckt) else popItems o b r (acc ++ [.ckt (.parallel l)]) := by
  simp [popItems]

theorem popItems_frame (opening : TK) (isSeries : Bool) (cs : List Ckt) (t : Token) (rest acc : List Item)
    (ht : t.kind = opening) (hacc : AllCkt acc) :
    ∃ items, popItems opening isSeries (cs.map Item.ckt ++ .tok t :: rest) acc = (items, rest) ∧ AllCkt items := by
  induction cs generalizing acc with
  | nil => exact ⟨acc, by simp [popItems_tok _ _ _ _ _ ht], hacc⟩
  | cons c cs ih =>
    simp only [List.map_cons, List.cons_append]
    cases c with
    | elem a b c d =>
      rw [popItems_elem]
      exact ih _ (allCkt_append hacc (allCkt_single _))
    | series l =>
      rw [popItems_series]
      split
      · exact ih _ (allCkt_append hacc (allCkt_map _))
      · exact ih _ (allCkt_append hacc (allCkt_single _))
    | parallel l =>
      rw [popItems_parallel]
      split
      · exact ih _ (allCkt_append hacc (allCkt_map _))
      · exact ih _ (allCkt_append hacc (allCkt_single _))

/-! ### functions that only consume tokens -/

theorem KeepStack.bind {α β : Type} {s : PS} {m : PyM (α × PS)} {f : α × PS → PyM (β × PS)}
    (hm : KeepStack s m)
    (hf : ∀ p : α × PS, p.2.toks.length ≤ s.toks.length → p.2.stack = s.stack → KeepStack p.2 (f p)) :
    KeepStack s (m >>= f) := by
  cases m with
  | error e => exact hm
  | ok p =>
    have h := hf p hm.1 hm.2
    show KeepStack s (f p)
    cases hfp : f p with
    | error e => rw [hfp] at h; exact h
    | ok q => rw [hfp] at h; exact ⟨Nat.le_trans h.1 hm.1, h.2.trans hm.2⟩

theorem KeepStack.pure {α : Type} (s s' : PS) (a : α) (h1 : s'.toks.length ≤ s.toks.length) (h2 : s'.stack = s.stack) :
    KeepStack s (pure (a, s') : PyM (α × PS)) := ⟨h1, h2⟩

theorem popTok_keep (s : PS) : KeepStack s s.popTok := by
  rcases popTok_cases s with ⟨t, ts, h1, h2⟩ | ⟨h1, h2⟩
  · rw [h2]; exact ⟨by simp [h1], rfl⟩
  · rw [h2]; exact allowed_lib _

/-- `expect k >>= f` either fails with a library error or continues with `f ()` -/
theorem expect_bind {α : Type} (s s0 : PS) (k : TK) (f : Unit → PyM (α × PS)) (hf : KeepStack s0 (f ())) :
    KeepStack s0 (s.expect k >>= f) := by
  rcases expect_cases s k with h | ⟨n, h⟩
  · rw [h]; exact hf
  · rw [h]; exact allowed_lib n

theorem paramLimit_keep (s : PS) (v : Val) (u : Bool) : KeepStack s (paramLimit s v u) := by
  unfold paramLimit
  split
  · refine expect_bind s s .ident _ ?_
    refine KeepStack.bind (popTok_keep s) (fun p h1 h2 => ?_)
    split
    · exact allowed_value
    · exact ⟨Nat.le_refl _, rfl⟩
  · refine KeepStack.bind (popTok_keep s) (fun p h1 h2 => ?_)
    split
    · exact KeepStack.bind (popTok_keep p.2) (fun q h1' h2' => ⟨Nat.le_refl _, rfl⟩)
    · exact ⟨Nat.le_refl _, rfl⟩

theorem paramUpperOnly_keep (v : Val) (fx : Bool) (s : PS) : KeepStack s (paramUpperOnly v fx s) := by
  unfold paramUpperOnly
  exact KeepStack.bind (paramLimit_keep s v true) (fun p _ _ => ⟨Nat.le_refl _, rfl⟩)

theorem paramLowerThen_keep (v : Val) (fx : Bool) (s : PS) : KeepStack s (paramLowerThen v fx s) := by
  unfold paramLowerThen
  refine KeepStack.bind (paramLimit_keep s v false) (fun l _ _ => ?_)
  split
  · refine KeepStack.bind (popTok_keep l.2) (fun q _ _ => ?_)
    exact KeepStack.bind (paramLimit_keep q.2 v true) (fun p _ _ => ⟨Nat.le_refl _, rfl⟩)
  · exact ⟨Nat.le_refl _, rfl⟩

theorem paramAfterValue_keep (v : Token) (s : PS) : KeepStack s (paramAfterValue v s) := by
  unfold paramAfterValue
  split
  · refine KeepStack.bind (popTok_keep s) (fun q _ _ => ?_)
    split
    · exact KeepStack.bind (popTok_keep q.2) (fun r _ _ => paramUpperOnly_keep _ _ r.2)
    · exact paramLowerThen_keep _ _ q.2
  · exact ⟨Nat.le_refl _, rfl⟩

theorem expectNumber_cases (s : PS) : expectNumber s = .ok () ∨ expectNumber s = .error (.lib "ExpectedNumericValue") := by
  unfold expectNumber
  split
  · right; rfl
  · split
    · right; rfl
    · left; rfl

theorem param_keep (s : PS) : KeepStack s (param s) := by
  unfold param
  rcases expectNumber_cases s with h | h
  · rw [h]
    exact KeepStack.bind (popTok_keep s) (fun v _ _ => paramAfterValue_keep v.1 v.2)
  · rw [h]; exact allowed_lib _

theorem checkLimits_keep (key : String) (r : (Val × Val × Val × Bool) × PS) (p : Parsed) :
    KeepStack r.2 (checkLimits key r p) := by
  unfold checkLimits
  split
  · exact allowed_lib _
  · split
    · exact allowed_lib _
    · exact ⟨Nat.le_refl _, rfl⟩

theorem labelPart_keep (p : Parsed) (s : PS) : KeepStack s (labelPart p s) := by
  unfold labelPart
  split
  · refine KeepStack.bind (popTok_keep s) (fun q _ _ => ?_)
    refine expect_bind q.2 q.2 .label _ ?_
    exact KeepStack.bind (popTok_keep q.2) (fun l _ _ => ⟨Nat.le_refl _, rfl⟩)
  · exact ⟨Nat.le_refl _, rfl⟩

theorem closeCurly_keep (r : Parsed × PS) : KeepStack r.2 (closeCurly r) := by
  unfold closeCurly
  refine expect_bind r.2 r.2 .rcurly _ ?_
  exact KeepStack.bind (popTok_keep r.2) (fun q _ _ => ⟨Nat.le_refl _, rfl⟩)

/-! ### building the element object can only raise `ValueError` -/

def OnlyValue {α : Type} (m : PyM α) : Prop := ∀ e, m = .error e → e = .valueError

theorem OnlyValue.pure {α : Type} (a : α) : OnlyValue (pure a : PyM α) := by
  intro e h; cases h
theorem OnlyValue.bind {α β : Type} {m : PyM α} {f : α → PyM β} (hm : OnlyValue m) (hf : ∀ a, OnlyValue (f a)) :
    OnlyValue (m >>= f) := by
  intro e h
  cases m with
  | error e' =>
    have h' : (Except.error e' : PyM β) = Except.error e := h
    cases h'
    exact hm _ rfl
  | ok a => exact hf a e h

theorem mapM_onlyValue {α β : Type} (f : α → PyM β) (hf : ∀ a, OnlyValue (f a)) (l : List α) :
    OnlyValue (l.mapM f) := by
  induction l with
  | nil => simp only [List.mapM_nil]; exact OnlyValue.pure _
  | cons a t ih =>
    rw [List.mapM_cons]
    exact OnlyValue.bind (hf a) (fun b => OnlyValue.bind ih (fun bs => OnlyValue.pure _))

theorem foldlM_onlyValue {α β : Type} (f : β → α → PyM β) (hf : ∀ b a, OnlyValue (f b a)) (l : List α) (b : β) :
    OnlyValue (l.foldlM f b) := by
  induction l generalizing b with
  | nil => simp only [List.foldlM_nil]; exact OnlyValue.pure _
  | cons a t ih =>
    rw [List.foldlM_cons]
    exact OnlyValue.bind (hf b a) (fun b' => ih b')

theorem applyLower_onlyValue (p : PV) (v : Val) : OnlyValue (applyLower p v) := by
  intro e h; unfold applyLower at h; split at h
  · cases h; rfl
  · cases h
theorem applyUpper_onlyValue (p : PV) (v : Val) : OnlyValue (applyUpper p v) := by
  intro e h; unfold applyUpper at h; split at h
  · cases h; rfl
  · cases h

theorem applyLowerSafe_onlyValue (l u : Val) (p : PV) : OnlyValue (applyLowerSafe l u p) := by
  unfold applyLowerSafe
  refine OnlyValue.bind ?_ (fun q => applyLower_onlyValue _ _)
  split
  · exact applyUpper_onlyValue _ _
  · exact OnlyValue.pure _

theorem updKey_onlyValue (ps : List PV) (k : String) (f : PV → PyM PV) (hf : ∀ p, OnlyValue (f p)) :
    OnlyValue (updKey ps k f) := by
  unfold updKey
  apply mapM_onlyValue
  intro p
  split
  · exact hf p
  · exact OnlyValue.pure _

theorem setLabel_onlyValue (l : String) : OnlyValue (setLabel l) := by
  intro e h
  unfold setLabel at h
  simp only [bind, Except.bind, pure, Except.pure, throw, throwThe, MonadExceptOf.throw] at h
  repeat' split at h
  all_goals (first | (cases h; done) | (cases h; rfl) | skip)

theorem buildElement_onlyValue (d : ElemDef) (p : Parsed) : OnlyValue (buildElement d p) := by
  unfold buildElement
  refine OnlyValue.bind (setLabel_onlyValue _) (fun _ => ?_)
  refine OnlyValue.bind (foldlM_onlyValue _ ?_ _ _) (fun _ => ?_)
  · intro ps q
    obtain ⟨k, v, l, u, fx⟩ := q
    show OnlyValue (if l.isNan then _ else _)
    split
    · exact OnlyValue.pure _
    · exact updKey_onlyValue _ _ _ (fun p => applyLowerSafe_onlyValue _ _ _)
  refine OnlyValue.bind (foldlM_onlyValue _ ?_ _ _) (fun _ => ?_)
  · intro ps q
    obtain ⟨k, v, l, u, fx⟩ := q
    show OnlyValue (if u.isNan then _ else _)
    split
    · exact OnlyValue.pure _
    · exact updKey_onlyValue _ _ _ (fun p => applyUpper_onlyValue _ _)
  refine OnlyValue.bind (foldlM_onlyValue _ ?_ _ _) (fun _ => OnlyValue.pure _)
  intro ps q
  exact updKey_onlyValue _ _ _ (fun p => OnlyValue.pure _)

/-! ### closing a connection -/

theorem popClosing_spec (closing : TK) (s : PS) :
    match popClosing closing s with
    | .error e => AllowedP e
    | .ok s' => s'.toks.length < s.toks.length ∧ s'.stack = s.stack := by
  unfold popClosing
  rcases expect_cases s closing with h | ⟨n, h⟩
  · rw [h]
    rcases popTok_cases s with ⟨t, ts, h1, h2⟩ | ⟨h1, h2⟩
    · rw [h2]; exact ⟨by simp [h1], rfl⟩
    · rw [h2]; exact allowed_lib _
  · rw [h]; exact allowed_lib n

theorem connFinish_spec (opening : TK) (isSeries : Bool) (s : PS) (cs : List Ckt) (t : Token) (rest : List Item)
    (ht : t.kind = opening) (hs : s.stack = cs.map Item.ckt ++ .tok t :: rest) :
    match connFinish opening isSeries s with
    | .error e => AllowedP e
    | .ok s' => s'.toks = s.toks ∧ ∃ c, s'.stack = .ckt c :: rest := by
  obtain ⟨items, hpop, hall⟩ := popItems_frame opening isSeries cs t rest [] ht (by intro i hi; cases hi)
  unfold connFinish
  rw [hs, hpop]
  simp only
  by_cases h1 : items.length < 1
  · rw [if_pos h1]; exact allowed_value
  · rw [if_neg h1]
    by_cases h2 : ¬ isSeries = true ∧ items.length < 2
    · rw [if_pos h2]; exact allowed_lib _
    · rw [if_neg h2]
      have h3 : ¬ (¬ items.all isCkt = true) := by
        intro hne; apply hne; rw [List.all_eq_true]; exact hall
      rw [if_neg h3]
      exact ⟨rfl, _, rfl⟩

theorem subFromConn_spec (s : PS) (c : Ckt) (rest : List Item) (hs : s.stack = .ckt c :: rest) :
    match subFromConn s with
    | .error e => AllowedP e
    | .ok p => p.2.toks = s.toks ∧ p.2.stack = rest := by
  unfold subFromConn PS.popStack
  rw [hs]
  cases c <;> exact ⟨rfl, rfl⟩

theorem bareFinishFixed_spec (s0 s : PS) (cs : List Ckt) (hs : s.stack = cs.map Item.ckt ++ s0.stack) :
    match bareFinishFixed s0.stack.length s with
    | .error e => AllowedP e
    | .ok p => p.2.toks = s.toks ∧ p.2.stack = s0.stack := by
  unfold bareFinishFixed
  have hn : s.stack.length - s0.stack.length = cs.length := by simp [hs]
  have htake : s.stack.take (s.stack.length - s0.stack.length) = cs.map Item.ckt := by
    rw [hn, hs]; simp
  have hdrop : s.stack.drop (s.stack.length - s0.stack.length) = s0.stack := by
    rw [hn, hs]; simp
  simp only [htake, hdrop]
  have h3 : ¬ (¬ (cs.map Item.ckt).all isCkt = true) := by
    intro hne; apply hne; rw [List.all_eq_true]; exact allCkt_map cs
  rw [if_neg h3]
  exact ⟨rfl, rfl⟩

def SubPre (s : PS) : Prop := s.accept .lbracket = true ∨ s.accept .lparen = true ∨ s.accept .ident = true

/-! ### one parameter-list entry and the continuation -/

theorem paramMid_spec (subc : PS → PyM (Option Ckt × PS)) (s : PS) (key : String) (pk sk : List String) (p : Parsed)
    (hsub : SubPre s → KeepStack s (subc s)) :
    match paramMid subc s key pk sk p with
    | .error e => AllowedP e
    | .ok st => st.1.2.toks.length ≤ s.toks.length ∧ st.1.2.stack = s.stack := by
  unfold paramMid
  by_cases hpre : (s.accept .lbracket = true ∨ s.accept .lparen = true ∨ s.accept .ident = true)
  · rw [if_pos hpre]
    by_cases h1 : (p.subs.any fun q => decide (q.1 = key)) = true
    · rw [if_pos h1]; exact allowed_lib _
    · rw [if_neg h1]
      by_cases h2 : ¬ sk.contains key = true
      · rw [if_pos h2]; exact allowed_lib _
      · rw [if_neg h2]
        have hs := hsub hpre
        cases hsc : subc s with
        | error e => rw [hsc] at hs; exact hs
        | ok c => rw [hsc] at hs; exact hs
  · rw [if_neg hpre]
    by_cases h1 : (p.params.any fun q => decide (q.1 = key)) = true
    · rw [if_pos h1]; exact allowed_lib _
    · rw [if_neg h1]
      by_cases h2 : ¬ pk.contains key = true
      · rw [if_pos h2]; exact allowed_lib _
      · rw [if_neg h2]
        have hp := param_keep s
        cases hpar : param s with
        | error e => rw [hpar] at hp; exact hp
        | ok r =>
          rw [hpar] at hp
          have hc := checkLimits_keep key r p
          show match (checkLimits key r p >>= fun pr => pure (pr, pk.erase key, sk)) with
            | .error e => AllowedP e
            | .ok st => st.1.2.toks.length ≤ s.toks.length ∧ st.1.2.stack = s.stack
          cases hcl : checkLimits key r p with
          | error e => rw [hcl] at hc; exact hc
          | ok pr => rw [hcl] at hc; exact ⟨Nat.le_trans hc.1 hp.1, hc.2.trans hp.2⟩

theorem paramMidNext_keep (subc : PS → PyM (Option Ckt × PS))
    (cont : PS → List String → List String → Parsed → PyM (Parsed × PS))
    (s : PS) (key : String) (pk sk : List String) (p : Parsed)
    (hsub : SubPre s → KeepStack s (subc s))
    (hcont : ∀ s' pk' sk' p', s'.toks.length < s.toks.length → KeepStack s' (cont s' pk' sk' p')) :
    KeepStack s (paramMid subc s key pk sk p >>= paramNext cont) := by
  have hm := paramMid_spec subc s key pk sk p hsub
  cases hmid : paramMid subc s key pk sk p with
  | error e => rw [hmid] at hm; exact hm
  | ok st =>
    rw [hmid] at hm
    obtain ⟨hle, hst⟩ := hm
    show KeepStack s (paramNext cont st)
    unfold paramNext
    by_cases hc : st.1.2.accept .comma = true
    · rw [if_pos hc]
      by_cases he : (st.2.1.isEmpty = true ∧ st.2.2.isEmpty = true)
      · rw [if_pos he]; exact allowed_lib _
      · rw [if_neg he]
        rcases popTok_cases st.1.2 with ⟨t, ts, h1, h2⟩ | ⟨h1, h2⟩
        · rw [h2]
          have hlt : ts.length < s.toks.length := by
            have : st.1.2.toks.length = ts.length + 1 := by rw [h1]; rfl
            omega
          have hl := hcont { st.1.2 with toks := ts } st.2.1 st.2.2 st.1.1 hlt
          show KeepStack s (cont { st.1.2 with toks := ts } st.2.1 st.2.2 st.1.1)
          cases hpl : cont { st.1.2 with toks := ts } st.2.1 st.2.2 st.1.1 with
          | error e => rw [hpl] at hl; exact hl
          | ok r =>
            rw [hpl] at hl
            exact ⟨Nat.le_trans hl.1 (Nat.le_of_lt hlt), hl.2.trans hst⟩
        · rw [h2]; exact allowed_lib _
    · rw [if_neg hc]; exact ⟨hle, hst⟩

/-! ### the mutual induction over the fuel -/


/-- fuel needed by each function: `offset + 8 * (remaining tokens)` -/
structure AllSafe (tbl : List ElemDef) (f : Nat) : Prop where
  main : ∀ s, 2 + 8 * s.toks.length ≤ f → PushOne s (mainLoop tbl true f s)
  untl : ∀ s cl, 3 + 8 * s.toks.length ≤ f → PushMany s (untilClosing tbl true f s cl)
  conn : ∀ s op cl b, s.accept op = true → 1 + 8 * s.toks.length ≤ f → PushOne s (connection tbl true f s op cl b)
  elem : ∀ s, 1 + 8 * s.toks.length ≤ f → PushOne s (element tbl true f s)
  params : ∀ s d, 1 + 8 * s.toks.length ≤ f → KeepStack s (parameters tbl true f s d)
  ploop : ∀ s d pk sk p, 1 + 8 * s.toks.length ≤ f → KeepStack s (paramLoop tbl true f s d pk sk p)
  bare : ∀ s, 3 + 8 * s.toks.length ≤ f → PushMany s (bareLoop tbl true f s)
  sub : ∀ s, SubPre s → 4 + 8 * s.toks.length ≤ f → KeepStack s (subcircuit tbl true f s)

theorem allSafe_zero (tbl : List ElemDef) : AllSafe tbl 0 := by
  refine ⟨?_, ?_, ?_, ?_, ?_, ?_, ?_, ?_⟩ <;> intros <;> omega

/-- a loop that repeatedly runs a `PushOne` step keeps pushing circuit items -/
theorem pushOne_then_many (s : PS) (m : PyM PS) (g : PS → PyM PS)
    (hm : PushOne s m) (hg : ∀ s', s'.toks.length < s.toks.length → PushMany s' (g s')) : PushMany s (m >>= g) := by
  cases m with
  | error e => exact hm
  | ok s1 =>
    obtain ⟨hlt, c, hc⟩ := hm
    show PushMany s (g s1)
    have h2 := hg s1 hlt
    cases hgs : g s1 with
    | error e => rw [hgs] at h2; exact h2
    | ok s2 =>
      rw [hgs] at h2
      obtain ⟨hle, cs, hcs⟩ := h2
      refine ⟨by omega, cs ++ [c], ?_⟩
      rw [hcs, hc]; simp

/-- `popTok` then continue: the continuation sees strictly fewer tokens -/
theorem popTok_then {α : Type} (s : PS) (g : Token × PS → PyM (α × PS))
    (hg : ∀ t ts, s.toks = t :: ts → KeepStack { s with toks := ts } (g (t, { s with toks := ts }))) :
    KeepStack s (s.popTok >>= g) := by
  rcases popTok_cases s with ⟨t, ts, h1, h2⟩ | ⟨h1, h2⟩
  · rw [h2]
    have := hg t ts h1
    show KeepStack s (g (t, { s with toks := ts }))
    cases hgt : g (t, { s with toks := ts }) with
    | error e => rw [hgt] at this; exact this
    | ok r => rw [hgt] at this; exact ⟨Nat.le_trans this.1 (by simp [h1]), this.2⟩
  · rw [h2]; exact allowed_lib _

theorem allSafe_succ (tbl : List ElemDef) (f : Nat) (ih : AllSafe tbl f) : AllSafe tbl (f + 1) := by
  refine ⟨?_, ?_, ?_, ?_, ?_, ?_, ?_, ?_⟩
  · -- main_loop
    intro s hf
    unfold mainLoop
    split
    · rename_i h; exact ih.conn s _ _ _ h (by omega)
    · split
      · rename_i h; exact ih.conn s _ _ _ h (by omega)
      · split
        · exact ih.elem s (by omega)
        · split
          · exact allowed_lib _
          · exact allowed_lib _
  · -- while not accept(Closing): main_loop()
    intro s cl hf
    unfold untilClosing
    split
    · exact ⟨Nat.le_refl _, [], rfl⟩
    · exact pushOne_then_many s _ _ (ih.main s (by omega)) (fun s' hlt => ih.untl s' cl (by omega))
  · -- connection
    intro s op cl b hacc hf
    obtain ⟨t, ts, hts, hk⟩ := accept_head s op hacc
    unfold connection
    have hpop : s.popTok = .ok (t, { s with toks := ts }) := by
      unfold PS.popTok; rw [hts]
    rw [hpop]
    show PushOne s (if _ then _ else _)
    have hlen : s.toks.length = ts.length + 1 := by rw [hts]; rfl
    split
    · exact allowed_lib _
    · have hu := ih.untl (PS.pushStack { s with toks := ts } (.tok t)) cl (by simp [PS.pushStack]; omega)
      cases hun : untilClosing tbl true f (PS.pushStack { s with toks := ts } (.tok t)) cl with
      | error e => rw [hun] at hu; exact hu
      | ok s2 =>
        rw [hun] at hu
        obtain ⟨hle, cs, hcs⟩ := hu
        show PushOne s (popClosing cl s2 >>= connFinish op b)
        have hc := popClosing_spec cl s2
        cases hpc : popClosing cl s2 with
        | error e => rw [hpc] at hc; exact hc
        | ok s3 =>
          rw [hpc] at hc
          obtain ⟨hlt3, hst3⟩ := hc
          show PushOne s (connFinish op b s3)
          have hf' := connFinish_spec op b s3 cs t s.stack hk (by rw [hst3, hcs]; rfl)
          cases hcf : connFinish op b s3 with
          | error e => rw [hcf] at hf'; exact hf'
          | ok s4 =>
            rw [hcf] at hf'
            obtain ⟨ht4, c, hc4⟩ := hf'
            refine ⟨?_, c, hc4⟩
            rw [ht4]
            simp [PS.pushStack] at hle
            omega
  · -- element
    intro s hf
    unfold element
    rcases popTok_cases s with ⟨t, ts, hts, hpop⟩ | ⟨hts, hpop⟩
    · rw [hpop]
      have hlen : s.toks.length = ts.length + 1 := by rw [hts]; rfl
      show PushOne s (match tbl.find? _ with | none => _ | some d => _)
      split
      · exact allowed_lib _
      · rename_i d _
        have hp := ih.params { s with toks := ts } d (by simp; omega)
        cases hpar : parameters tbl true f { s with toks := ts } d with
        | error e => rw [hpar] at hp; exact hp
        | ok r =>
          rw [hpar] at hp
          obtain ⟨hle, hst⟩ := hp
          show PushOne s (buildElement d r.1 >>= fun e => pure (r.2.pushStack (.ckt e)))
          cases hb : buildElement d r.1 with
          | error e => exact Or.inl (buildElement_onlyValue d r.1 e hb)
          | ok e =>
            refine ⟨?_, e, ?_⟩
            · show r.2.toks.length < s.toks.length
              simp at hle; omega
            · show Item.ckt e :: r.2.stack = _
              rw [hst]
    · rw [hpop]; exact allowed_lib _
  · -- parameters
    intro s d hf
    unfold parameters
    split
    · exact ⟨Nat.le_refl _, rfl⟩
    · refine popTok_then s _ (fun t ts hts => ?_)
      have hlen : s.toks.length = ts.length + 1 := by rw [hts]; rfl
      refine KeepStack.bind ?_ (fun r _ _ => KeepStack.bind (labelPart_keep r.1 r.2) (fun r' _ _ => closeCurly_keep r'))
      split
      · exact ih.ploop _ d _ _ _ (by simp; omega)
      · exact ⟨Nat.le_refl _, rfl⟩
  · -- the parameter loop
    intro s d pk sk p hf
    unfold paramLoop
    split
    · exact ⟨Nat.le_refl _, rfl⟩
    · split
      · exact allowed_lib _
      · refine popTok_then s _ (fun t ts hts => ?_)
        have hlen : s.toks.length = ts.length + 1 := by rw [hts]; rfl
        refine expect_bind _ _ .equals _ ?_
        refine popTok_then _ _ (fun t' ts' hts' => ?_)
        have hlen' : ts.length = ts'.length + 1 := by
          have : ({ s with toks := ts } : PS).toks = t' :: ts' := hts'
          simp at this; rw [this]; rfl
        refine paramMidNext_keep _ _ _ t.text pk sk p ?_ ?_
        · intro hpre'
          exact ih.sub _ hpre' (by simp; omega)
        · intro s' pk' sk' p' hlt
          exact ih.ploop s' d pk' sk' p' (by simp at hlt; omega)
  · -- bare element list
    intro s hf
    unfold bareLoop
    split
    · exact allowed_lib _
    · split
      · exact ⟨Nat.le_refl _, [], rfl⟩
      · exact pushOne_then_many s _ _ (ih.main s (by omega)) (fun s' hlt => ih.bare s' (by omega))
  · -- subcircuit
    intro s hpre hf
    unfold subcircuit
    split
    · rename_i hid
      obtain ⟨t, ts, hts, _⟩ := accept_head s .ident hid
      rw [hts]
      simp only
      split
      · exact KeepStack.bind (popTok_keep s) (fun p _ _ => ⟨Nat.le_refl _, rfl⟩)
      · split
        · exact KeepStack.bind (popTok_keep s) (fun p _ _ => ⟨Nat.le_refl _, rfl⟩)
        · have hb := ih.bare s (by omega)
          cases hbl : bareLoop tbl true f s with
          | error e => rw [hbl] at hb; exact hb
          | ok s' =>
            rw [hbl] at hb
            obtain ⟨hle, cs, hcs⟩ := hb
            show KeepStack s (bareFinishFixed s.stack.length s')
            have hf' := bareFinishFixed_spec s s' cs hcs
            cases hbf : bareFinishFixed s.stack.length s' with
            | error e => rw [hbf] at hf'; exact hf'
            | ok p => rw [hbf] at hf'; exact ⟨by rw [hf'.1]; exact hle, hf'.2⟩
    · have conn_case : ∀ op cl b, s.accept op = true →
          KeepStack s (connection tbl true f s op cl b >>= subFromConn) := by
        intro op cl b hop
        have hc := ih.conn s op cl b hop (by omega)
        cases hcn : connection tbl true f s op cl b with
        | error e => rw [hcn] at hc; exact hc
        | ok s1 =>
          rw [hcn] at hc
          obtain ⟨hlt, c, hst⟩ := hc
          show KeepStack s (subFromConn s1)
          have hs := subFromConn_spec s1 c s.stack hst
          cases hsf : subFromConn s1 with
          | error e => rw [hsf] at hs; exact hs
          | ok p => rw [hsf] at hs; exact ⟨by rw [hs.1]; omega, hs.2⟩
      split
      · rename_i hlb; exact conn_case _ _ _ hlb
      · rename_i hnid hnlb
        have hlp : s.accept .lparen = true := by
          rcases hpre with h | h | h
          · exact absurd h hnlb
          · exact h
          · exact absurd h hnid
        exact conn_case _ _ _ hlp

theorem allSafe (tbl : List ElemDef) : ∀ f, AllSafe tbl f
  | 0 => allSafe_zero tbl
  | f + 1 => allSafe_succ tbl f (allSafe tbl f)

/-- **Stack discipline of the repaired parser.** Whatever the tokens and the stack, with fuel
`≥ 2 + 8·(number of tokens)`: `main_loop` either fails with a library error / `ValueError`, or it
consumes at least one token and pushes exactly one circuit item, leaving the rest of the stack
untouched; `TypeError`, `IndexError`, `KeyError`, `AttributeError` **and the fuel marker** are
unreachable — the last one is the termination of the real recursive descent. -/
theorem mainLoop_pushes_one (tbl : List ElemDef) (f : Nat) (s : PS) (hf : 2 + 8 * s.toks.length ≤ f) :
    PushOne s (mainLoop tbl true f s) :=
  (allSafe tbl f).main s hf

end Cdc

import PyImpSpec.Impedance.Model
import Mathlib.Algebra.Field.Basic
import Mathlib.Algebra.BigOperators.Group.List.Basic

/-! `Parallel._impedance` refines the pointwise reciprocal-sum rule (C01). -/

namespace Imp
variable {K : Type} [Field K] [DecidableEq K]

def Good (n : Nat) (cs : List (Vec K)) : Res K → Prop
  | .ok v => v.length = n ∧ ∀ j, j < n → specPoint (col cs j) = some (v.getD j 0)
  | .infiniteImpedance => ∀ j, j < n → specPoint (col cs j) = none

omit [Field K] [DecidableEq K] in
theorem getD_of_lt {α : Type} (l : List α) (j : Nat) (d : α) (h : j < l.length) : l.getD j d = l[j] := by
  simp [List.getD_eq_getElem?_getD, h]
omit [Field K] [DecidableEq K] in
theorem getD_of_ge {α : Type} (l : List α) (j : Nat) (d : α) (h : l.length ≤ j) : l.getD j d = d := by
  simp [List.getD_eq_getElem?_getD, h]

omit [Field K] [DecidableEq K] in
theorem countP_inf_eq (n : Nat) (Z : Vec K) (hl : Z.length = n) :
    (Z.countP XV.isInf = n) ↔ isOpen Z = true := by
  subst hl
  simp [isOpen, List.countP_eq_length]

omit [Field K] [DecidableEq K] in
theorem countP_inf_zero (Z : Vec K) (h : Z.any XV.isInf = false) : Z.countP XV.isInf = 0 := by
  rw [List.countP_eq_zero]
  intro z hz
  simp only [List.any_eq_false] at h
  simpa using h z hz

omit [Field K] [DecidableEq K] in
theorem getD_inf_of_open (Z : Vec K) (j : Nat) (h : isOpen Z = true) : (Z.getD j .inf).isInf = true := by
  unfold isOpen at h
  rw [List.all_eq_true] at h
  by_cases hj : j < Z.length
  · rw [getD_of_lt _ _ _ hj]; exact h _ (List.getElem_mem hj)
  · rw [getD_of_ge _ _ _ (by omega)]; rfl

omit [Field K] [DecidableEq K] in
theorem getD_notInf_of_noInf (Z : Vec K) (j : Nat) (hj : j < Z.length) (h : Z.any XV.isInf = false) :
    (Z.getD j .inf).isInf = false := by
  rw [List.any_eq_false] at h
  rw [getD_of_lt _ _ _ hj]
  simpa using h _ (List.getElem_mem hj)

omit [Field K] [DecidableEq K] in
/-- under uniformity "open child" and "infinite at frequency j" coincide -/
theorem open_iff_inf_at (n : Nat) (Z : Vec K) (hu : Uniform n Z) (j : Nat) (hj : j < n) :
    (Z.getD j .inf).isInf = isOpen Z := by
  obtain ⟨hl, h | h⟩ := hu
  · rw [h]; exact getD_inf_of_open Z j h
  · have : isOpen Z = false := by
      unfold isOpen
      rw [List.all_eq_false]
      have hpos : 0 < Z.length := by omega
      refine ⟨Z[0], List.getElem_mem hpos, ?_⟩
      rw [List.any_eq_false] at h
      simpa using h _ (List.getElem_mem hpos)
    rw [this]; exact getD_notInf_of_noInf Z j (by omega) h

theorem spec_zero (zs : List (XV K)) (h : zs.any XV.isZero = true) : specPoint zs = some 0 := by
  simp [specPoint, h]

theorem zeros_good (n : Nat) (cs : List (Vec K))
    (h : ∀ j, j < n → (col cs j).any XV.isZero = true) : Good n cs (.ok (zeros n)) := by
  refine ⟨by simp [zeros], ?_⟩
  intro j hj
  rw [spec_zero _ (h j hj)]
  rw [getD_of_lt _ _ _ (by simp [zeros, hj])]
  simp [zeros]

/-- loop invariant after the children in `pre` were processed without returning -/
structure LoopInv (n : Nat) (pre : List (Vec K)) (s : St K) : Prop where
  len : s.shorted.length = n
  sh : ∀ j, j < n → s.shorted.getD j false = (col pre j).any XV.isZero
  paths : s.paths = pre.filter (fun Z => !isOpen Z)
  nopen : s.numOpen = pre.countP isOpen
  notAll : s.shorted.all id = false

omit [Field K] [DecidableEq K] in
theorem col_append (a b : List (Vec K)) (j : Nat) : col (a ++ b) j = col a j ++ col b j := by
  simp [col]

theorem any_col_snoc (pre : List (Vec K)) (Z : Vec K) (j : Nat) :
    (col (pre ++ [Z]) j).any XV.isZero = ((col pre j).any XV.isZero || (Z.getD j .inf).isZero) := by
  simp [col_append, col]

theorem zipWith_or_getD (n : Nat) (sh : List Bool) (Z : Vec K) (hs : sh.length = n) (hz : Z.length = n)
    (j : Nat) (hj : j < n) :
    (List.zipWith (fun b z => b || z.isZero) sh Z).getD j false = (sh.getD j false || (Z.getD j .inf).isZero) := by
  rw [getD_of_lt _ _ _ (by simp [hs, hz, hj]), getD_of_lt _ _ _ (by omega), getD_of_lt _ _ _ (by omega)]
  simp

theorem noZero_of_countP_zero (Z : Vec K) (h : Z.countP XV.isZero = 0) (j : Nat) :
    (Z.getD j .inf).isZero = false := by
  rw [List.countP_eq_zero] at h
  by_cases hj : j < Z.length
  · rw [getD_of_lt _ _ _ hj]; simpa using h _ (List.getElem_mem hj)
  · rw [getD_of_ge _ _ _ (by omega)]; rfl

omit [Field K] [DecidableEq K] in
theorem all_id_getD (n : Nat) (sh : List Bool) (hs : sh.length = n) (h : sh.all id = true) (j : Nat) (hj : j < n) :
    sh.getD j false = true := by
  rw [List.all_eq_true] at h
  rw [getD_of_lt _ _ _ (by omega)]
  exact h _ (List.getElem_mem (by omega))

theorem loopBody_spec (n : Nat) (hn : 0 < n) (pre : List (Vec K)) (Z : Vec K) (s : St K)
    (hu : Uniform n Z) (hI : LoopInv n pre s) :
    (∃ s', loopBody n s Z = .cont s' ∧ LoopInv n (pre ++ [Z]) s') ∨
    (loopBody n s Z = .ret (.ok (zeros n)) ∧ ∀ j, j < n → (col (pre ++ [Z]) j).any XV.isZero = true) := by
  obtain ⟨hl, hopen⟩ := hu
  unfold loopBody
  by_cases ho : isOpen Z = true
  · -- open branch: skipped and counted
    left
    have hc : Z.countP XV.isInf = n := (countP_inf_eq n Z hl).mpr ho
    refine ⟨{ s with numOpen := s.numOpen + 1 }, by simp [hc], ?_⟩
    refine ⟨hI.len, ?_, ?_, ?_, hI.notAll⟩
    · intro j hj
      rw [any_col_snoc, ← hI.sh j hj]
      have : (Z.getD j .inf).isZero = false := by
        have := getD_inf_of_open Z j ho
        cases hz : Z.getD j .inf <;> simp_all [XV.isInf, XV.isZero]
      rw [this, Bool.or_false]
    · simp [List.filter_append, ho, hI.paths]
    · simp [List.countP_append, ho, hI.nopen]
  · -- not open, hence (uniformity) finite at every frequency
    have hno : Z.any XV.isInf = false := by
      rcases hopen with h | h
      · exact absurd h ho
      · exact h
    have hc0 : Z.countP XV.isInf = 0 := countP_inf_zero Z hno
    have hne : ¬ (Z.countP XV.isInf = n) := by omega
    have hng : ¬ (Z.countP XV.isInf > 0) := by omega
    simp only [hne, hng, ↓reduceIte]
    by_cases hz : Z.countP XV.isZero = n
    · right
      refine ⟨by simp [hz], ?_⟩
      intro j hj
      rw [any_col_snoc]
      have : Z.countP XV.isZero = Z.length := by omega
      rw [List.countP_eq_length] at this
      have hj' : j < Z.length := by omega
      rw [getD_of_lt _ _ _ hj']
      simp [this _ (List.getElem_mem hj')]
    · simp only [hz, ↓reduceIte]
      -- in both sub-cases the new `shorted` is the pointwise `or`
      have hsh : ∀ j, j < n →
          (if Z.countP XV.isZero > 0 then List.zipWith (fun b z => b || z.isZero) s.shorted Z else s.shorted).getD j false
            = (s.shorted.getD j false || (Z.getD j .inf).isZero) := by
        intro j hj
        split
        · exact zipWith_or_getD n s.shorted Z hI.len hl j hj
        · rw [noZero_of_countP_zero Z (by omega) j]; simp
      have hlen : (if Z.countP XV.isZero > 0 then List.zipWith (fun b z => b || z.isZero) s.shorted Z else s.shorted).length = n := by
        split
        · simp [hI.len, hl]
        · exact hI.len
      by_cases hret : Z.countP XV.isZero > 0 ∧
          (if Z.countP XV.isZero > 0 then List.zipWith (fun b z => b || z.isZero) s.shorted Z else s.shorted).all id = true
      · right
        refine ⟨by rw [if_pos hret], ?_⟩
        intro j hj
        rw [any_col_snoc, ← hI.sh j hj, ← hsh j hj]
        exact all_id_getD n _ hlen hret.2 j hj
      · left
        refine ⟨_, by rw [if_neg hret], ?_⟩
        refine ⟨hlen, ?_, ?_, ?_, ?_⟩
        · intro j hj
          rw [hsh j hj, any_col_snoc, hI.sh j hj]
        · simp [List.filter_append, ho, hI.paths]
        · simp [List.countP_append, ho, hI.nopen]
        · by_cases hp : Z.countP XV.isZero > 0
          · have : ¬ ((if Z.countP XV.isZero > 0 then List.zipWith (fun b z => b || z.isZero) s.shorted Z else s.shorted).all id = true) :=
              fun h => hret ⟨hp, h⟩
            simpa using this
          · simp only [hp, ↓reduceIte]; exact hI.notAll

theorem any_col_mono (pre rest : List (Vec K)) (j : Nat)
    (h : (col pre j).any XV.isZero = true) : (col (pre ++ rest) j).any XV.isZero = true := by
  simp only [col_append, List.any_append, h, Bool.true_or]

theorem runLoop_spec (n : Nat) (hn : 0 < n) (rest pre : List (Vec K)) (s : St K)
    (hu : ∀ Z ∈ rest, Uniform n Z) (hI : LoopInv n pre s) :
    (∃ s', runLoop n s rest = .cont s' ∧ LoopInv n (pre ++ rest) s') ∨
    (runLoop n s rest = .ret (.ok (zeros n)) ∧ ∀ j, j < n → (col (pre ++ rest) j).any XV.isZero = true) := by
  induction rest generalizing pre s with
  | nil => left; exact ⟨s, rfl, by simpa using hI⟩
  | cons Z t ih =>
    unfold runLoop
    rcases loopBody_spec n hn pre Z s (hu Z (by simp)) hI with ⟨s', h1, h2⟩ | ⟨h1, h2⟩
    · rw [h1]
      have := ih (pre ++ [Z]) s' (fun W hW => hu W (by simp [hW])) h2
      simpa using this
    · right
      rw [h1]
      refine ⟨rfl, fun j hj => ?_⟩
      have := any_col_mono (pre ++ [Z]) t j (h2 j hj)
      simpa using this

/-- the sum over the kept paths is the sum over the finite entries of the column -/
theorem paths_sum_eq (n : Nat) (cs : List (Vec K)) (hu : ∀ Z ∈ cs, Uniform n Z) (j : Nat) (hj : j < n) :
    ((cs.filter (fun Z => !isOpen Z)).map (fun Z => ((Z.getD j .inf).val)⁻¹)).sum
      = (((col cs j).filter (fun z => !z.isInf)).map (fun z => z.val⁻¹)).sum := by
  unfold col
  rw [List.filter_map, List.map_map]
  congr 2
  apply List.filter_congr
  intro Z hZ
  simp only [Function.comp]
  rw [open_iff_inf_at n Z (hu Z hZ) j hj]

theorem finish_spec (n : Nat) (hn : 0 < n) (cs : List (Vec K)) (s : St K)
    (hu : ∀ Z ∈ cs, Uniform n Z) (hI : LoopInv n cs s) : Good n cs (finish n cs.length s) := by
  unfold finish
  rw [hI.notAll]
  simp only [Bool.false_eq_true, ↓reduceIte]
  by_cases hopen : s.numOpen = cs.length
  · -- every child is open: infinite impedance
    simp only [hopen, ↓reduceIte, Good]
    intro j hj
    have hall : ∀ Z ∈ cs, isOpen Z = true := by
      have := hI.nopen ▸ hopen
      rw [List.countP_eq_length] at this
      exact this
    have h1 : (col cs j).any XV.isZero = false := by
      rw [List.any_eq_false]
      intro z hz
      simp only [col, List.mem_map] at hz
      obtain ⟨Z, hZ, rfl⟩ := hz
      have := getD_inf_of_open Z j (hall Z hZ)
      cases h : Z.getD j .inf <;> simp_all [XV.isInf, XV.isZero]
    have h2 : (col cs j).all XV.isInf = true := by
      rw [List.all_eq_true]
      intro z hz
      simp only [col, List.mem_map] at hz
      obtain ⟨Z, hZ, rfl⟩ := hz
      exact getD_inf_of_open Z j (hall Z hZ)
    simp [specPoint, h1, h2]
  · simp only [hopen, ↓reduceIte, Good]
    refine ⟨by simp, ?_⟩
    intro j hj
    rw [getD_of_lt _ _ _ (by simp [hj])]
    simp only [List.getElem_map, List.getElem_range]
    by_cases hs : s.shorted.getD j false = true
    · rw [if_pos hs]
      exact spec_zero _ (by rw [← hI.sh j hj]; exact hs)
    · rw [if_neg hs]
      have h1 : (col cs j).any XV.isZero = false := by
        rw [← hI.sh j hj]; simpa using hs
      -- some child is not open, so the column is not entirely infinite
      have h2 : (col cs j).all XV.isInf = false := by
        have hlt : cs.countP isOpen < cs.length := by
          have := List.countP_le_length (p := isOpen) (l := cs)
          have := hI.nopen
          omega
        have : ∃ Z ∈ cs, isOpen Z = false := by
          by_contra hcon
          push_neg at hcon
          have : cs.countP isOpen = cs.length := by
            rw [List.countP_eq_length]; intro Z hZ; simpa using hcon Z hZ
          omega
        obtain ⟨Z, hZ, hZo⟩ := this
        rw [List.all_eq_false]
        refine ⟨Z.getD j .inf, by simp only [col, List.mem_map]; exact ⟨Z, hZ, rfl⟩, ?_⟩
        rw [open_iff_inf_at n Z (hu Z hZ) j hj, hZo]; simp
      simp only [specPoint, h1, h2, Bool.false_eq_true, ↓reduceIte, Option.some.injEq]
      rw [hI.paths, paths_sum_eq n cs hu j hj]

/-- **C01 (parallel rule).** For children that are each open at all supplied frequencies or at none,
`Parallel._impedance` returns, frequency by frequency, the value the composition law prescribes:
0 if some branch is shorted, the reciprocal of the sum of the reciprocals of the non-open branches
otherwise; and it raises `InfiniteImpedance` exactly when the law has no value (every branch open). -/
theorem parallelImpl_refines_spec (n : Nat) (hn : 0 < n) (cs : List (Vec K)) (hne : cs ≠ [])
    (hu : ∀ Z ∈ cs, Uniform n Z) : Good n cs (parallelImpl n cs) := by
  unfold parallelImpl
  have hemp : cs.isEmpty = false := by cases cs <;> simp_all
  simp only [hemp, Bool.false_eq_true, ↓reduceIte]
  have hI0 : LoopInv n ([] : List (Vec K)) ⟨List.replicate n false, [], 0⟩ := by
    refine ⟨by simp, ?_, by simp, by simp, ?_⟩
    · intro j hj
      rw [getD_of_lt _ _ _ (by simp [hj])]; simp [col]
    · rw [List.all_eq_false]
      exact ⟨false, by simp [List.mem_replicate]; omega, by simp⟩
  rcases runLoop_spec n hn cs [] _ hu hI0 with ⟨s', h1, h2⟩ | ⟨h1, h2⟩
  · rw [h1]; simp only [List.nil_append] at h2
    exact finish_spec n hn cs s' hu h2
  · rw [h1]; simp only [List.nil_append] at h2
    exact zeros_good n cs h2

-- non-vacuity: a shorted, an open and two finite branches satisfy the hypotheses
example : ∀ Z ∈ ([[.fin 2, .fin 0], [.inf, .inf], [.fin 4, .fin 4]] : List (Vec ℚ)), Uniform 2 Z := by
  intro Z hZ
  simp at hZ
  rcases hZ with rfl | rfl | rfl <;> simp [Uniform, isOpen, XV.isInf]


end Imp

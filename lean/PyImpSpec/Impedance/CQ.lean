import PyImpSpec.Impedance.Model

/-! Exact complex rationals: the number type at which the driver executes the impedance model. -/

namespace Imp

structure CQ where
  re : Rat
  im : Rat
deriving DecidableEq, Repr

instance : Zero CQ := ⟨⟨0, 0⟩⟩
instance : Add CQ := ⟨fun a b => ⟨a.re + b.re, a.im + b.im⟩⟩
instance : Inv CQ := ⟨fun a =>
  let d := a.re * a.re + a.im * a.im
  if d = 0 then ⟨0, 0⟩ else ⟨a.re / d, -a.im / d⟩⟩

def showRat (q : Rat) : String := s!"{q.num}/{q.den}"
def CQ.show (z : CQ) : String := s!"{showRat z.re}|{showRat z.im}"

/-- token stream → tree: `S k` / `P k` followed by k sub-trees, `L` followed by `n` entries -/
def parseTree (n : Nat) (parseEntry : String → XV CQ) : Nat → List String → Option (Tree CQ × List String)
  | 0, _ => none
  | fuel + 1, toks =>
    match toks with
    | "L" :: rest =>
      if rest.length < n then none
      else some (.leaf ((rest.take n).map parseEntry), rest.drop n)
    | "S" :: k :: rest =>
      (parseTrees n parseEntry fuel k.toNat! rest).map fun r => (.series r.1, r.2)
    | "P" :: k :: rest =>
      (parseTrees n parseEntry fuel k.toNat! rest).map fun r => (.parallel r.1, r.2)
    | _ => none
where
  parseTrees (n : Nat) (parseEntry : String → XV CQ) (fuel : Nat) : Nat → List String → Option (List (Tree CQ) × List String)
    | 0, toks => some ([], toks)
    | k + 1, toks =>
      match parseTree n parseEntry fuel toks with
      | none => none
      | some (t, rest) => (parseTrees n parseEntry fuel k rest).map fun r => (t :: r.1, r.2)

end Imp

import PyImpSpec.Impedance.ParallelProof

/-! Whole circuits: `_impedance` of any finite nesting of series/parallel connections refines the
composition law (C01), by structural induction over the tree. -/

namespace Imp
variable {K : Type} [Field K] [DecidableEq K]

omit [DecidableEq K] in
theorem foldl_add_isInf (zs : List (XV K)) (a : XV K) :
    (zs.foldl XV.add a).isInf = (a.isInf || zs.any XV.isInf) := by
  induction zs generalizing a with
  | nil => simp
  | cons z t ih =>
    rw [List.foldl_cons, ih]
    cases a <;> cases z <;> simp [XV.add, XV.isInf]

omit [DecidableEq K] in
/-- the running sum of `Series._impedance`, entry by entry -/
theorem foldl_zipWith_spec (n : Nat) (vs : List (Vec K)) (acc : Vec K) (ha : acc.length = n)
    (hv : ∀ v ∈ vs, v.length = n) :
    (vs.foldl (fun acc Z => List.zipWith XV.add acc Z) acc).length = n ∧
    ∀ j, j < n → (vs.foldl (fun acc Z => List.zipWith XV.add acc Z) acc).getD j .inf
        = (col vs j).foldl XV.add (acc.getD j .inf) := by
  induction vs generalizing acc with
  | nil => exact ⟨ha, fun j _ => rfl⟩
  | cons v t ih =>
    have hvl : v.length = n := hv v (List.mem_cons_self)
    have hacc : (List.zipWith XV.add acc v).length = n := by simp [ha, hvl]
    obtain ⟨h1, h2⟩ := ih (List.zipWith XV.add acc v) hacc (fun w hw => hv w (List.mem_cons_of_mem _ hw))
    refine ⟨h1, fun j hj => ?_⟩
    rw [List.foldl_cons, h2 j hj]
    simp only [col, List.map_cons, List.foldl_cons]
    congr 1
    rw [getD_of_lt _ _ _ (by omega), getD_of_lt _ _ _ (by omega), getD_of_lt _ _ _ (by omega)]
    simp

omit [DecidableEq K] in
theorem seriesImpl_spec (n : Nat) (vs : List (Vec K)) (hv : ∀ v ∈ vs, v.length = n) :
    (seriesImpl n vs).length = n ∧ ∀ j, j < n → (seriesImpl n vs).getD j .inf = specSeries (col vs j) := by
  obtain ⟨h1, h2⟩ := foldl_zipWith_spec n vs (List.replicate n (.fin 0)) (by simp) hv
  refine ⟨h1, fun j hj => ?_⟩
  unfold seriesImpl specSeries
  rw [h2 j hj, getD_of_lt _ _ _ (by simpa using hj)]
  simp

omit [DecidableEq K] in
/-- a vector whose entries are all-infinite or all-finite is `Uniform` -/
theorem uniform_of_const (n : Nat) (hn : 0 < n) (Z : Vec K) (hl : Z.length = n) (b : Bool)
    (h : ∀ j, j < n → (Z.getD j .inf).isInf = b) : Uniform n Z := by
  refine ⟨hl, ?_⟩
  cases b with
  | true =>
    left
    unfold isOpen
    rw [List.all_eq_true]
    intro z hz
    obtain ⟨i, hi, rfl⟩ := List.getElem_of_mem hz
    have := h i (by omega)
    rwa [getD_of_lt _ _ _ hi] at this
  | false =>
    right
    rw [List.any_eq_false]
    intro z hz
    obtain ⟨i, hi, rfl⟩ := List.getElem_of_mem hz
    have := h i (by omega)
    rw [getD_of_lt _ _ _ hi] at this
    simp [this]

omit [DecidableEq K] in
theorem any_inf_eq_any_open (n : Nat) (vs : List (Vec K)) (hu : ∀ v ∈ vs, Uniform n v) (j : Nat) (hj : j < n) :
    vs.any (XV.isInf ∘ fun Z => Z.getD j .inf) = vs.any isOpen := by
  induction vs with
  | nil => rfl
  | cons v t ih =>
    simp only [List.any_cons, Function.comp]
    rw [open_iff_inf_at n v (hu v List.mem_cons_self) j hj]
    congr 1
    exact ih (fun w hw => hu w (List.mem_cons_of_mem _ hw))

omit [DecidableEq K] in
theorem series_uniform (n : Nat) (hn : 0 < n) (vs : List (Vec K)) (hu : ∀ v ∈ vs, Uniform n v) :
    Uniform n (seriesImpl n vs) := by
  obtain ⟨h1, h2⟩ := seriesImpl_spec n vs (fun v hv => (hu v hv).1)
  apply uniform_of_const n hn _ h1 (vs.any isOpen)
  intro j hj
  rw [h2 j hj]
  unfold specSeries
  rw [foldl_add_isInf]
  simp only [XV.isInf, Bool.false_or, col, List.any_map]
  exact any_inf_eq_any_open n vs hu j hj

mutual
/-- every leaf (element) of the circuit is open at all supplied frequencies or at none -/
def LeavesUniform (n : Nat) : Tree K → Prop
  | .leaf Z => Uniform n Z
  | .series cs => LeavesUniformL n cs
  | .parallel cs => LeavesUniformL n cs
def LeavesUniformL (n : Nat) : List (Tree K) → Prop
  | [] => True
  | t :: ts => LeavesUniform n t ∧ LeavesUniformL n ts
end

/-- what the refinement says about one (sub)circuit -/
def TreeGood (n : Nat) (t : Tree K) : Option (Vec K) → Prop
  | some v => Uniform n v ∧ ∀ j, j < n → specTree j t = some (v.getD j .inf)
  | none => ∀ j, j < n → specTree j t = none
def ListGood (n : Nat) (ts : List (Tree K)) : Option (List (Vec K)) → Prop
  | some vs => (∀ v ∈ vs, Uniform n v) ∧ ∀ j, j < n → specList j ts = some (col vs j)
  | none => ∀ j, j < n → specList j ts = none

mutual
theorem evalImpl_refines_spec (n : Nat) (hn : 0 < n) : (t : Tree K) → LeavesUniform n t → TreeGood n t (evalImpl n t)
  | .leaf Z, hu => by
    simp only [evalImpl, TreeGood]
    exact ⟨by simpa [LeavesUniform] using hu, fun j _ => by simp [specTree]⟩
  | .series cs, hu => by
    have ih := evalList_refines_spec n hn cs (by simpa [LeavesUniform] using hu)
    simp only [evalImpl]
    cases hl : evalList n cs with
    | none =>
      rw [hl] at ih
      simp only [Option.map_none, TreeGood]
      intro j hj
      simp [specTree, ih j hj]
    | some vs =>
      rw [hl] at ih
      obtain ⟨h1, h2⟩ := ih
      simp only [Option.map_some, TreeGood]
      refine ⟨series_uniform n hn vs h1, fun j hj => ?_⟩
      simp only [specTree, h2 j hj, Option.map_some]
      rw [(seriesImpl_spec n vs (fun v hv => (h1 v hv).1)).2 j hj]
  | .parallel cs, hu => by
    have ih := evalList_refines_spec n hn cs (by simpa [LeavesUniform] using hu)
    simp only [evalImpl]
    cases hl : evalList n cs with
    | none =>
      rw [hl] at ih
      simp only [TreeGood]
      intro j hj
      simp [specTree, ih j hj]
    | some vs =>
      rw [hl] at ih
      obtain ⟨h1, h2⟩ := ih
      simp only
      by_cases hne : vs = []
      · subst hne
        have : parallelImpl n ([] : List (Vec K)) = .ok (zeros n) := by simp [parallelImpl]
        rw [this]
        simp only [TreeGood]
        refine ⟨uniform_of_const n hn _ (by simp [zeros]) false (fun j hj => ?_), fun j hj => ?_⟩
        · rw [getD_of_lt _ _ _ (by simpa [zeros] using hj)]; simp [zeros, XV.isInf]
        · simp only [specTree, h2 j hj, col, List.map_nil, List.isEmpty_nil, ↓reduceIte]
          rw [getD_of_lt _ _ _ (by simpa [zeros] using hj)]; simp [zeros]
      · have hg := parallelImpl_refines_spec n hn vs hne h1
        cases hp : parallelImpl n vs with
        | ok v =>
          rw [hp] at hg
          obtain ⟨g1, g2⟩ := hg
          simp only [TreeGood]
          refine ⟨uniform_of_const n hn _ (by simpa using g1) false (fun j hj => ?_), fun j hj => ?_⟩
          · rw [getD_of_lt _ _ _ (by simpa [g1] using hj)]; simp [XV.isInf]
          · have hce : (col vs j).isEmpty = false := by cases vs <;> simp_all [col]
            simp only [specTree, h2 j hj, hce, Bool.false_eq_true, ↓reduceIte, g2 j hj, Option.map_some]
            rw [getD_of_lt (v.map XV.fin) _ _ (by simp only [List.length_map]; omega), getD_of_lt v _ _ (by omega)]
            simp
        | infiniteImpedance =>
          rw [hp] at hg
          simp only [TreeGood]
          intro j hj
          have hce : (col vs j).isEmpty = false := by cases vs <;> simp_all [col]
          simp [specTree, h2 j hj, hce, hg j hj]
theorem evalList_refines_spec (n : Nat) (hn : 0 < n) : (ts : List (Tree K)) → LeavesUniformL n ts → ListGood n ts (evalList n ts)
  | [], _ => by
    simp only [evalList, ListGood]
    exact ⟨by simp, fun j _ => by simp [specList, col]⟩
  | t :: ts, hu => by
    have hu' : LeavesUniform n t ∧ LeavesUniformL n ts := by simpa [LeavesUniformL] using hu
    have ih1 := evalImpl_refines_spec n hn t hu'.1
    have ih2 := evalList_refines_spec n hn ts hu'.2
    simp only [evalList]
    cases h1 : evalImpl n t with
    | none =>
      rw [h1] at ih1
      simp only [ListGood]
      intro j hj
      simp [specList, ih1 j hj]
    | some v =>
      rw [h1] at ih1
      obtain ⟨a1, a2⟩ := ih1
      simp only
      cases h2 : evalList n ts with
      | none =>
        rw [h2] at ih2
        simp only [Option.map_none, ListGood]
        intro j hj
        simp [specList, a2 j hj, ih2 j hj]
      | some vs =>
        rw [h2] at ih2
        obtain ⟨b1, b2⟩ := ih2
        simp only [Option.map_some, ListGood]
        refine ⟨fun w hw => ?_, fun j hj => ?_⟩
        · rcases List.mem_cons.mp hw with rfl | hw
          · exact a1
          · exact b1 w hw
        · simp [specList, a2 j hj, b2 j hj, col]
end

end Imp

namespace Imp
variable {K : Type} [Field K] [DecidableEq K]

/-! ## the lazy (faithful) evaluation agrees with the strict one whenever the latter succeeds -/

theorem evalList_length (n : Nat) : (ts : List (Tree K)) → (vs : List (Vec K)) → evalList n ts = some vs → vs.length = ts.length
  | [], vs, h => by simp [evalList] at h; subst h; rfl
  | t :: ts, vs, h => by
    simp only [evalList] at h
    cases h1 : evalImpl n t with
    | none => simp [h1] at h
    | some v =>
      simp only [h1] at h
      cases h2 : evalList n ts with
      | none => simp [h2] at h
      | some ws =>
        simp only [h2, Option.map_some, Option.some.injEq] at h
        subst h
        simp [evalList_length n ts ws h2]

mutual
theorem lazy_of_strict (n : Nat) : (t : Tree K) → (v : Vec K) → evalImpl n t = some v → evalLazy n t = some v
  | .leaf Z, v, h => by simpa [evalImpl, evalLazy] using h
  | .series cs, v, h => by
    simp only [evalImpl] at h
    cases h1 : evalList n cs with
    | none => simp [h1] at h
    | some vs =>
      simp only [h1, Option.map_some, Option.some.injEq] at h
      simp [evalLazy, lazyList_of_strict n cs vs h1, h]
  | .parallel cs, v, h => by
    simp only [evalImpl] at h
    cases h1 : evalList n cs with
    | none => simp [h1] at h
    | some vs =>
      simp only [h1] at h
      have hlen := evalList_length n cs vs h1
      have hloop := lazyLoop_of_strict n ⟨List.replicate n false, [], 0⟩ cs vs h1
      unfold evalLazy
      unfold parallelImpl at h
      by_cases hc : cs.isEmpty = true
      · have hv : vs.isEmpty = true := by
          have : cs = [] := by simpa using hc
          subst this
          simpa using hlen
        simp only [hv, ↓reduceIte] at h
        simp only [hc, ↓reduceIte]
        simpa using h
      · have hv : vs.isEmpty = false := by
          cases vs with
          | nil => simp at hlen; simp [List.eq_nil_of_length_eq_zero hlen.symm] at hc
          | cons _ _ => rfl
        simp only [hv, Bool.false_eq_true, ↓reduceIte] at h
        simp only [hc, Bool.false_eq_true, ↓reduceIte, hloop]
        cases hr : runLoop n ⟨List.replicate n false, [], 0⟩ vs with
        | ret r =>
          rw [hr] at h
          cases r with
          | ok w => simpa using h
          | infiniteImpedance => simp at h
        | cont s =>
          rw [hr] at h
          simp only [hlen] at h
          simp only
          cases hf : finish n cs.length s with
          | ok w => rw [hf] at h; simpa using h
          | infiniteImpedance => rw [hf] at h; simp at h
theorem lazyList_of_strict (n : Nat) : (ts : List (Tree K)) → (vs : List (Vec K)) → evalList n ts = some vs → lazyList n ts = some vs
  | [], vs, h => by simpa [evalList, lazyList] using h
  | t :: ts, vs, h => by
    simp only [evalList] at h
    cases h1 : evalImpl n t with
    | none => simp [h1] at h
    | some v =>
      simp only [h1] at h
      cases h2 : evalList n ts with
      | none => simp [h2] at h
      | some ws =>
        simp only [h2, Option.map_some, Option.some.injEq] at h
        simp [lazyList, lazy_of_strict n t v h1, lazyList_of_strict n ts ws h2, h]
theorem lazyLoop_of_strict (n : Nat) : (s : St K) → (ts : List (Tree K)) → (vs : List (Vec K)) → evalList n ts = some vs →
    lazyLoop n s ts = some (runLoop n s vs)
  | s, [], vs, h => by
    simp [evalList] at h; subst h
    simp [lazyLoop, runLoop]
  | s, t :: ts, vs, h => by
    simp only [evalList] at h
    cases h1 : evalImpl n t with
    | none => simp [h1] at h
    | some v =>
      simp only [h1] at h
      cases h2 : evalList n ts with
      | none => simp [h2] at h
      | some ws =>
        simp only [h2, Option.map_some, Option.some.injEq] at h
        subst h
        simp only [lazyLoop, lazy_of_strict n t v h1, runLoop]
        cases hb : loopBody n s v with
        | ret r => rfl
        | cont s' => exact lazyLoop_of_strict n s' ts ws h2
end

end Imp

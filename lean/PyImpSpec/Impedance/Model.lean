/-! # Model of series/parallel impedance composition (C01) — import-free, executable

`parallelImpl` is a line-by-line transcription of `Parallel._impedance` over impedance *vectors* (one
entry per frequency; an entry is a finite value or `inf`, which is what `numpy.isinf` distinguishes).
Generic in the number type: executed at exact complex rationals in the driver, reasoned about over an
arbitrary field in the proofs — the same definitions. -/

namespace Imp

inductive XV (K : Type) | fin (z : K) | inf
deriving DecidableEq, Repr

variable {K : Type} [Zero K] [Add K] [Inv K] [DecidableEq K]

abbrev Vec (K : Type) := List (XV K)

def XV.isInf : XV K → Bool | .inf => true | _ => false
def XV.isZero : XV K → Bool | .fin z => decide (z = 0) | _ => false
def XV.val : XV K → K | .fin z => z | .inf => 0

inductive Res (K : Type) | ok (v : List K) | infiniteImpedance
deriving Repr

structure St (K : Type) where
  shorted : List Bool
  paths : List (Vec K)
  numOpen : Nat

inductive Step (K : Type) | ret (r : Res K) | cont (s : St K)

def zeros (n : Nat) : List K := List.replicate n 0

/-- body of `for elem_con in self._elements:` for one child's impedance vector `Z` -/
def loopBody (n : Nat) (s : St K) (Z : Vec K) : Step K :=
  let infCount := Z.countP XV.isInf
  if infCount = n then .cont { s with numOpen := s.numOpen + 1 }
  else if infCount > 0 then .ret .infiniteImpedance
  else
    let zeroCount := Z.countP XV.isZero
    if zeroCount = n then .ret (.ok (zeros n))
    else
      let shorted := if zeroCount > 0 then List.zipWith (fun b z => b || z.isZero) s.shorted Z else s.shorted
      if zeroCount > 0 ∧ shorted.all id then .ret (.ok (zeros n))
      else .cont { s with shorted := shorted, paths := s.paths ++ [Z] }

def runLoop (n : Nat) : St K → List (Vec K) → Step K
  | s, [] => .cont s
  | s, Z :: rest => match loopBody n s Z with
    | .ret r => .ret r
    | .cont s' => runLoop n s' rest

def finish (n : Nat) (numChildren : Nat) (s : St K) : Res K :=
  if s.shorted.all id then .ok (zeros n)
  else if s.numOpen = numChildren then .infiniteImpedance
  else .ok ((List.range n).map (fun j =>
    if s.shorted.getD j false then 0
    else ((s.paths.map (fun Z => ((Z.getD j .inf).val)⁻¹)).sum)⁻¹))

/-- `Parallel._impedance` on the children's vectors (all of length `n`, `n > 0`) -/
def parallelImpl (n : Nat) (cs : List (Vec K)) : Res K :=
  if cs.isEmpty then .ok (zeros n)
  else match runLoop n ⟨List.replicate n false, [], 0⟩ cs with
    | .ret r => r
    | .cont s => finish n cs.length s

/-- the rule in the property's words, at one frequency -/
def specPoint (zs : List (XV K)) : Option K :=
  if zs.any XV.isZero then some 0
  else if zs.all XV.isInf then none
  else some (((zs.filter (fun z => !z.isInf)).map (fun z => z.val⁻¹)).sum)⁻¹



def isOpen (Z : Vec K) : Bool := Z.all XV.isInf
/-- a child is open at every supplied frequency or at none (what the code itself enforces) -/
def Uniform (n : Nat) (Z : Vec K) : Prop := Z.length = n ∧ (isOpen Z = true ∨ Z.any XV.isInf = false)

def col (cs : List (Vec K)) (j : Nat) : List (XV K) := cs.map (fun Z => Z.getD j .inf)

/-! ## series connections and whole circuits -/

/-- numpy's `result += Z` on one entry: anything plus `inf` is `inf` -/
def XV.add : XV K → XV K → XV K
  | .fin a, .fin b => .fin (a + b)
  | _, _ => .inf

/-- `Series._impedance`: the running sum starting from zeros (an empty series is a short) -/
def seriesImpl (n : Nat) (cs : List (Vec K)) : Vec K :=
  cs.foldl (fun acc Z => List.zipWith XV.add acc Z) (List.replicate n (.fin 0))

/-- the series rule in the property's words, at one frequency -/
def specSeries (zs : List (XV K)) : XV K := zs.foldl XV.add (.fin 0)

inductive Tree (K : Type) where
  | leaf (Z : Vec K) : Tree K               -- an element: its impedance vector over the frequency list
  | series (cs : List (Tree K)) : Tree K
  | parallel (cs : List (Tree K)) : Tree K

mutual
/-- `_impedance` of a (sub)circuit: connections call their children's `_impedance`; `none` =
`InfiniteImpedance` raised by a parallel connection below -/
def evalImpl (n : Nat) : Tree K → Option (Vec K)
  | .leaf Z => some Z
  | .series cs => (evalList n cs).map (seriesImpl n)
  | .parallel cs =>
    match evalList n cs with
    | none => none
    | some vs =>
      match parallelImpl n vs with
      | .ok v => some (v.map .fin)
      | .infiniteImpedance => none
def evalList (n : Nat) : List (Tree K) → Option (List (Vec K))
  | [] => some []
  | t :: ts =>
    match evalImpl n t with
    | none => none
    | some v => (evalList n ts).map (v :: ·)
end

mutual
/-- the composition law at frequency index `j`: series add, parallel add as reciprocals with the
open/short conventions; `none` = a parallel connection all of whose branches are open -/
def specTree (j : Nat) : Tree K → Option (XV K)
  | .leaf Z => some (Z.getD j .inf)
  | .series cs => (specList j cs).map specSeries
  | .parallel cs =>
    match specList j cs with
    | none => none
    | some zs => if zs.isEmpty then some (.fin 0) else (specPoint zs).map .fin
def specList (j : Nat) : List (Tree K) → Option (List (XV K))
  | [] => some []
  | t :: ts =>
    match specTree j t with
    | none => none
    | some z => (specList j ts).map (z :: ·)
end

mutual
/-- `_impedance` exactly as the code runs it: a parallel connection evaluates its children one at a
time inside its loop, so an early `return` (a branch shorted at every frequency) skips the remaining
children — including any that would have raised -/
def evalLazy (n : Nat) : Tree K → Option (Vec K)
  | .leaf Z => some Z
  | .series cs => (lazyList n cs).map (seriesImpl n)
  | .parallel cs =>
    if cs.isEmpty then some ((zeros n).map .fin)
    else match lazyLoop n ⟨List.replicate n false, [], 0⟩ cs with
      | none => none
      | some (.ret (.ok v)) => some (v.map .fin)
      | some (.ret .infiniteImpedance) => none
      | some (.cont s) =>
        match finish n cs.length s with
        | .ok v => some (v.map .fin)
        | .infiniteImpedance => none
def lazyList (n : Nat) : List (Tree K) → Option (List (Vec K))
  | [] => some []
  | t :: ts =>
    match evalLazy n t with
    | none => none
    | some v => (lazyList n ts).map (v :: ·)
/-- the `for elem_con in self._elements:` loop over the children *trees*; `none` = a child raised -/
def lazyLoop (n : Nat) : St K → List (Tree K) → Option (Step K)
  | s, [] => some (.cont s)
  | s, t :: rest =>
    match evalLazy n t with
    | none => none
    | some Z =>
      match loopBody n s Z with
      | .ret r => some (.ret r)
      | .cont s' => lazyLoop n s' rest
end

/-- what `Circuit.get_impedances` returns for finite positive frequencies: the vector, or
`InfiniteImpedance` when the evaluation raised or any entry is infinite -/
def circuitImpl (n : Nat) (t : Tree K) : Option (List K) :=
  match evalLazy n t with
  | none => none
  | some v => if v.any XV.isInf then none else some (v.map XV.val)

end Imp

/-! # Model of `pyimpspec.data.data_set.DataSet` (C05) — import-free, executable

Representation-faithful: parallel lists of frequencies and impedances plus the complete mask dict
`{0: b₀, …, n-1: b_{n-1}}` (which `__init__`/`set_mask` always leave complete and in key order, so it
is a `List Bool`).  Frequencies are any linearly ordered values (integers here: the harness sends
ranks), impedances are integers (opaque tokens with a subtraction).  A caller-supplied mask dictionary
is its list of `(key, flag)` pairs in insertion order; later entries win, like `dict.update`.
Errors carry the Python exception class name. -/

namespace DataSet

abbrev MaskArg := List (Int × Bool)

/-- `mask.get(i, False)` -/
def MaskArg.get (m : MaskArg) (i : Int) : Bool :=
  m.foldl (fun acc p => if p.1 = i then p.2 else acc) false

/-- the complete `{0..n-1}` dict after `self._mask.update(mask)` starting from `old` -/
def updateMask (old : List Bool) (m : MaskArg) : List Bool :=
  (List.range old.length).map fun (i : Nat) =>
    m.foldl (fun acc p => if p.1 = (i : Int) then p.2 else acc) (old.getD i false)

structure DS where
  freqs : List Int
  imps  : List Int
  mask  : List Bool
deriving Repr, DecidableEq

/-- `DataSet.set_mask`: an empty dict clears the mask; out-of-range keys are dropped (they never match
an index below), the rest updates the stored dict -/
def DS.setMask (d : DS) (m : MaskArg) : DS :=
  if m.isEmpty then { d with mask := d.mask.map (fun _ => false) }
  else { d with mask := updateMask d.mask m }

def hasDup : List Int → Bool
  | [] => false
  | x :: xs => xs.contains x || hasDup xs

/-- re-index the caller's mask for reversed data (`{n-1-i: flag}`), in a *new* dictionary -/
def reindex (n : Nat) (m : MaskArg) : MaskArg := m.map fun p => ((n : Int) - 1 - p.1, p.2)

/-- `DataSet.__init__` (data part). Returns the data set **and the caller's mask dictionary as it is
after the call** (so that mutation of the argument is expressible; the current code leaves it alone). -/
def construct (fs zs : List Int) (m : MaskArg) : Except String (DS × MaskArg) :=
  if fs.length ≠ zs.length then .error "ValueError"
  else if fs.length = 0 then .error "ValueError"
  else if hasDup fs then .error "ValueError"
  else
    let n := fs.length
    let blank : DS := { freqs := [], imps := [], mask := List.replicate n false }
    if fs.getLast?.getD 0 > fs.head?.getD 0 then
      .ok (({ blank with freqs := fs.reverse, imps := zs.reverse }).setMask
              (if m.isEmpty then m else reindex n m), m)
    else
      .ok (({ blank with freqs := fs, imps := zs }).setMask m, m)

/-- `get_mask()` as the list of `(index, flag)` pairs of the returned (copied) dictionary -/
def DS.getMask (d : DS) : MaskArg := (List.range d.mask.length).map fun (i : Nat) => ((i : Int), d.mask.getD i false)

/-- `low_pass(cutoff)`: mask every point with `f > cutoff` (through `get_mask`/`set_mask`) -/
def DS.lowPass (d : DS) (cutoff : Int) : DS :=
  d.setMask ((List.range d.freqs.length).map fun (i : Nat) =>
    ((i : Int), if d.freqs.getD i 0 > cutoff then true else d.mask.getD i false))

def DS.highPass (d : DS) (cutoff : Int) : DS :=
  d.setMask ((List.range d.freqs.length).map fun (i : Nat) =>
    ((i : Int), if d.freqs.getD i 0 < cutoff then true else d.mask.getD i false))

/-- `subtract_impedances` with one value per point (`zs.length = n`) or a single broadcast value -/
def DS.subtract (d : DS) (zs : List Int) : Except String DS :=
  match zs with
  | [z] => .ok { d with imps := d.imps.map (· - z) }
  | _ =>
    if zs.length ≠ d.imps.length then .error "ValueError"
    else .ok { d with imps := List.zipWith (· - ·) d.imps zs }

/-- the views: `masked = None | False | True` -/
def DS.view (d : DS) (masked : Option Bool) : List (Int × Int) :=
  match masked with
  | none => d.freqs.zip d.imps
  | some b => ((d.freqs.zip d.imps).zip d.mask).filterMap fun t => if t.2 = b then some t.1 else none

/-- the dictionary export: frequencies, impedances, mask (+ the flags for the optional keys kept) -/
structure Dict where
  freqs : List Int
  imps  : List Int
  mask  : Option MaskArg      -- `none`: key absent
  version : Option Nat        -- `none`: key absent
deriving Repr, DecidableEq

def DS.toDict (d : DS) : Dict := { freqs := d.freqs, imps := d.imps, mask := some d.getMask, version := some 2 }

/-- `from_dict` (version handling, optional keys); returns the data set and the caller's dictionary as
it is after the call (unchanged by the current code) -/
def fromDict (x : Dict) : Except String (DS × Dict) :=
  match x.version with
  | some v =>
    if v > 2 then .error "ValueError"
    else if v = 0 then .error "ValueError"
    else (construct x.freqs x.imps (x.mask.getD [])).map fun r => (r.1, x)
  | none => (construct x.freqs x.imps (x.mask.getD [])).map fun r => (r.1, x)

def DS.duplicate (d : DS) : Except String DS := (fromDict d.toDict).map (·.1)

/-- `DataSet.average`: same frequencies required; impedances are summed here (the harness compares
with `k · mean`), the mask is cleared -/
def average (ds : List DS) : Except String DS :=
  match ds with
  | [] => .error "IndexError"
  | d :: rest =>
    if rest.any (fun e => e.freqs ≠ d.freqs) then .error "ValueError"
    else
      (construct d.freqs (rest.foldl (fun acc e => List.zipWith (· + ·) acc e.imps) d.imps) []).map (·.1)

/-- the abstract value of a data set: its list of `(frequency, impedance, masked)` triples -/
def DS.abs (d : DS) : List (Int × Int × Bool) := d.freqs.zip (d.imps.zip d.mask)

/-! ## the variant of the tree before the `fix:` commits (kept to replay the old defect) -/

def swapLoop (n : Nat) (m : MaskArg) : MaskArg :=
  (List.range n).foldl (fun m (i : Nat) =>
    let j : Int := (n : Int) - 1 - i
    let flag := m.get i
    let m := m ++ [((i : Int), m.get j)]
    m ++ [(j, flag)]) m

def constructOld (fs zs : List Int) (m : MaskArg) : Except String (DS × MaskArg) :=
  if fs.length ≠ zs.length then .error "ValueError"
  else if fs.length = 0 then .error "ValueError"
  else if hasDup fs then .error "ValueError"
  else
    let n := fs.length
    let blank : DS := { freqs := [], imps := [], mask := List.replicate n false }
    if fs.getLast?.getD 0 > fs.head?.getD 0 then
      let m' := if m.isEmpty then m else swapLoop n m
      .ok (({ blank with freqs := fs.reverse, imps := zs.reverse }).setMask m', m')
    else
      .ok (({ blank with freqs := fs, imps := zs }).setMask m, m)

end DataSet

import PyImpSpec.DataSet.Model

/-! Helper lemmas for C05 (core Lean only). -/

namespace DataSet

/-- the mask a fresh data set gets from the caller's dictionary -/
def maskList (n : Nat) (m : MaskArg) : List Bool := (List.range n).map fun (i : Nat) => m.get (i : Int)

theorem updateMask_replicate (n : Nat) (m : MaskArg) :
    updateMask (List.replicate n false) m = maskList n m := by
  unfold updateMask maskList MaskArg.get
  simp only [List.length_replicate]
  apply List.map_congr_left
  intro i hi
  have : (List.replicate n false).getD i false = false := by
    simp only [List.getD_eq_getElem?_getD, List.getElem?_replicate]
    split <;> rfl
  rw [this]

theorem maskList_nil (n : Nat) : maskList n [] = List.replicate n false := by
  unfold maskList MaskArg.get
  apply List.ext_getElem <;> simp

theorem setMask_blank (n : Nat) (fs zs : List Int) (m : MaskArg) :
    (({ freqs := fs, imps := zs, mask := List.replicate n false } : DS).setMask m)
      = { freqs := fs, imps := zs, mask := maskList n m } := by
  unfold DS.setMask
  by_cases h : m.isEmpty
  · have : m = [] := by simpa using h
    subst this
    simp [maskList_nil]
  · simp only [h]
    simp [updateMask_replicate]

theorem get_reindex (n : Nat) (m : MaskArg) (i : Nat) (hi : i < n) :
    MaskArg.get (reindex n m) i = m.get ((n - 1 - i : Nat) : Int) := by
  unfold MaskArg.get reindex
  generalize false = acc
  induction m generalizing acc with
  | nil => rfl
  | cons p t ih =>
    simp only [List.map_cons, List.foldl_cons]
    have hk : ((n : Int) - 1 - p.1 = (i : Int)) ↔ (p.1 = ((n - 1 - i : Nat) : Int)) := by omega
    by_cases h : p.1 = ((n - 1 - i : Nat) : Int)
    · rw [if_pos (hk.mpr h), if_pos h]; exact ih _
    · rw [if_neg (fun h' => h (hk.mp h')), if_neg h]; exact ih _

theorem maskList_reindex (n : Nat) (m : MaskArg) :
    maskList n (reindex n m) = (maskList n m).reverse := by
  apply List.ext_getElem
  · simp [maskList]
  · intro i h1 h2
    simp only [maskList, List.length_map, List.length_range] at h1
    simp only [maskList, List.getElem_map, List.getElem_range, List.getElem_reverse, List.length_map,
      List.length_range]
    exact get_reindex n m i h1

theorem maskList_length (n : Nat) (m : MaskArg) : (maskList n m).length = n := by simp [maskList]

end DataSet

namespace DataSet

theorem foldl_range_pairs (g : Nat → Bool) (n k : Nat) (acc : Bool) :
    ((List.range n).map fun (i : Nat) => ((i : Int), g i)).foldl
        (fun acc p => if p.1 = (k : Int) then p.2 else acc) acc = if k < n then g k else acc := by
  induction n with
  | zero => simp
  | succ n ih =>
    rw [List.range_succ, List.map_append, List.foldl_append, ih]
    simp only [List.map_cons, List.map_nil, List.foldl_cons, List.foldl_nil]
    by_cases h1 : (n : Int) = (k : Int)
    · have : n = k := by omega
      subst this
      simp
    · have h2 : n ≠ k := by omega
      rw [if_neg h1]
      by_cases h3 : k < n
      · rw [if_pos h3, if_pos (by omega)]
      · rw [if_neg h3, if_neg (by omega)]

theorem updateMask_full (old : List Bool) (g : Nat → Bool) :
    updateMask old ((List.range old.length).map fun (i : Nat) => ((i : Int), g i)) = (List.range old.length).map g := by
  unfold updateMask
  apply List.map_congr_left
  intro i hi
  rw [foldl_range_pairs]
  simp only [List.mem_range] at hi
  rw [if_pos hi]

theorem setMask_full (d : DS) (g : Nat → Bool) :
    d.setMask ((List.range d.mask.length).map fun (i : Nat) => ((i : Int), g i))
      = { d with mask := (List.range d.mask.length).map g } := by
  unfold DS.setMask
  by_cases h : d.mask.length = 0
  · have : d.mask = [] := List.eq_nil_of_length_eq_zero h
    simp [this]
  · have : ((List.range d.mask.length).map fun (i : Nat) => ((i : Int), g i)).isEmpty = false := by
      cases hn : d.mask.length with
      | zero => exact absurd hn h
      | succ n => simp [List.range_succ_eq_map]
    rw [this]
    simp only [Bool.false_eq_true, ↓reduceIte, updateMask_full]

/-- re-association of the two ways of zipping three lists -/
theorem zip_assoc_filterMap (fs zs : List Int) (ms : List Bool) (b : Bool) :
    ((fs.zip zs).zip ms).filterMap (fun t => if t.2 = b then some t.1 else none)
      = ((fs.zip (zs.zip ms)).filter (fun t => t.2.2 = b)).map (fun t => (t.1, t.2.1)) := by
  induction fs generalizing zs ms with
  | nil => simp
  | cons f fs ih =>
    cases zs with
    | nil => simp
    | cons z zs =>
      cases ms with
      | nil => simp
      | cons m ms =>
        simp only [List.zip_cons_cons, List.filterMap_cons, List.filter_cons]
        by_cases h : m = b
        · simp [h, ih]
        · simp [h, ih]

end DataSet

/-! # CircuiTikZ export (C20) — import-free

`to_circuitikz` of `pyimpspec/circuit/diagrams/circuitikz.py`: phase 1 (dimensions and positions of
every connection, element and short wire; widths in quarter units, heights and vertical positions in
whole units, exactly the values the float code produces) and phase 2 (one command per dictionary entry,
in insertion order), for circuits whose objects are all distinct. -/

namespace Tikz

inductive T where
  | elem (oid : Nat) : T
  | series (cs : List T) : T
  | parallel (cs : List T) : T

def T.isParallel : T → Bool | .parallel _ => true | _ => false

/-- a direct child as phase 2 sees it: its box `(x, y, w)` and whether it is a Parallel -/
structure Child where
  x : Nat
  y : Nat
  w : Nat
  isPar : Bool
deriving Repr, DecidableEq

/-- one dictionary entry, in insertion order -/
inductive Item where
  | elem (oid x y w : Nat)
  | wire (x y : Nat)
  | ser
  | par (x y w : Nat) (children : List Child)
deriving Repr

structure Box where
  w : Nat      -- quarter units
  h : Nat      -- units

def boxOf (b : Box) : Box := ⟨max 4 b.w, max 1 b.h⟩

mutual
/-- one iteration of the loop of `phase_1_series` (with `num_nested_parallels = depth`) for the child `t`
placed at running `width`/`height`; `first` = (`i == 0`), `post` = (`i` is the last index or the next
sibling is a Parallel); returns the new running `width`/`height` and the dictionary entries added, in
insertion order (a connection's own entry comes after those of its children) -/
def seriesItem (depth : Nat) (x y : Nat) (first post : Bool) (width height : Nat) : T → Box × List Item
  | .series cs =>
    let r := seriesLoop depth (x + width) y true 0 0 cs
    (⟨width + (boxOf r.1).w, max height (boxOf r.1).h⟩, r.2 ++ [.ser])
  | .parallel cs =>
    let pre : Bool := decide (depth > 0) && first
    let w1 := if pre then width + 1 else width
    let h1 := if pre then max height 1 else height
    let i1 : List Item := if pre then [.wire (x + width) y] else []
    let r := parallelLoop (depth + 1) (x + w1) y 0 0 cs
    let w2 := w1 + (boxOf r.1.1).w
    let h2 := max h1 (boxOf r.1.1).h
    let po : Bool := decide (depth > 0) && post
    let w3 := if po then w2 + 1 else w2
    let h3 := if po then max h2 1 else h2
    let i3 : List Item := if po then [.wire (x + w2) y] else []
    (⟨w3, h3⟩, i1 ++ (r.2 ++ [.par (x + w1) y (boxOf r.1.1).w r.1.2]) ++ i3)
  | .elem oid => (⟨width + 4, height⟩, [.elem oid (x + width) y 4])
/-- the loop of `phase_1_series` -/
def seriesLoop (depth : Nat) (x y : Nat) (first : Bool) (width height : Nat) : List T → Box × List Item
  | [] => (⟨width, height⟩, [])
  | t :: rest =>
    let post : Bool := rest.isEmpty || (match rest with | u :: _ => u.isParallel | [] => false)
    let r := seriesItem depth x y first post width height t
    let r2 := seriesLoop depth x y false r.1.w r.1.h rest
    (r2.1, r.2 ++ r2.2)
/-- one iteration of the loop of `phase_1_parallel` (running at `num_nested_parallels = depth`): the
child's box and entries -/
def parItem (depth : Nat) (x y : Nat) : T → (Box × Bool) × List Item
  | .series cs =>
    let r := seriesLoop depth x y true 0 0 cs
    ((boxOf r.1, false), r.2 ++ [.ser])
  | .parallel cs =>
    let r := parallelLoop (depth + 1) x y 0 0 cs
    ((boxOf r.1.1, true), r.2 ++ [.par x y (boxOf r.1.1).w r.1.2])
  | .elem oid => ((⟨4, 1⟩, false), [.elem oid x y 4])
/-- the loop of `phase_1_parallel`: children stacked downwards; also collects the children's boxes for
phase 2 -/
def parallelLoop (depth : Nat) (x y : Nat) (width height : Nat) : List T → (Box × List Child) × List Item
  | [] => ((⟨width, height⟩, []), [])
  | t :: rest =>
    let r := parItem depth x (y + height) t
    let r2 := parallelLoop depth x y (max width r.1.1.w) (height + r.1.1.h) rest
    ((r2.1.1, ⟨x, y + height, r.1.1.w, r.1.2⟩ :: r2.1.2), r.2 ++ r2.2)
end

/-- `phase_1_series(main_connection, 0, 0)` -/
def series1 (depth : Nat) (x y : Nat) (cs : List T) : Box × List Item :=
  let r := seriesLoop depth x y true 0 0 cs
  (boxOf r.1, r.2 ++ [.ser])

/-- a drawing command of phase 2 (coordinates still in layout units) -/
inductive Cmd where
  | component (oid x y w : Nat)
  | short (x y : Nat)
  | vertical (x yTop yBottom : Nat)         -- the two rails of a parallel connection
  | connector (x y xEnd : Nat)              -- padding wire of a narrower branch
deriving Repr, DecidableEq

/-- the `start_y` / `end_y` scan over the direct children of a parallel connection (vertical positions
are `-y`, so "greater" means "higher up"): returns the top-most and bottom-most `y` -/
def rails : List Child → Option (Nat × Nat) → Option (Nat × Nat)
  | [], acc => acc
  | c :: cs, none => rails cs (some (c.y, c.y))
  | c :: cs, some (top, bot) => rails cs (some (min top c.y, max bot c.y))

/-- phase 2 for one dictionary entry; `none` = `ValueError(start_y == end_y)` -/
def emit : Item → Option (List Cmd)
  | .ser => some []
  | .elem oid x y w => some [.component oid x y w]
  | .wire x y => some [.short x y]
  | .par x y w children =>
    match rails children none with
    | none => none                      -- no children: start_y = end_y = 1.0
    | some (top, bot) =>
      if top = bot then none
      else
        some ([.vertical x top bot, .vertical (x + w) top bot] ++
          (if w = 4 then [] else
            (children.filter (fun c => !c.isPar && c.w ≠ w)).map fun c => .connector (c.x + c.w) c.y (x + w)))

def emitAll : List Item → Option (List Cmd)
  | [] => some []
  | i :: is =>
    match emit i, emitAll is with
    | some a, some b => some (a ++ b)
    | _, _ => none

/-- `to_circuitikz` on the circuit's top-level series: the command list between the two terminal
wires, and the total width -/
def render (cs : List T) : Option (List Cmd × Nat) :=
  let r := series1 0 0 0 cs
  (emitAll r.2).map fun c => (c, r.1.w)

/-- number of lines of the LaTeX source: begin, left terminal, commands, right terminal, end -/
def numLines (cmds : List Cmd) : Nat := cmds.length + 4

mutual
def leaves : T → Nat
  | .elem _ => 1
  | .series cs => leavesL cs
  | .parallel cs => leavesL cs
def leavesL : List T → Nat
  | [] => 0
  | t :: ts => leaves t + leavesL ts
end

mutual
/-- every parallel connection has at least two children (what the parser guarantees) -/
def WellFormed : T → Bool
  | .elem _ => true
  | .series cs => WellFormedL cs
  | .parallel cs => decide (cs.length ≥ 2) && WellFormedL cs
def WellFormedL : List T → Bool
  | [] => true
  | t :: ts => WellFormed t && WellFormedL ts
end

end Tikz

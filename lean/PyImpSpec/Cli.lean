import PyImpSpec.DataSet.Model

/-! # Command-line glue (C19) — import-free

`pyimpspec/cli/utility.py`: `apply_filters` (on the data-set model of C05) and `_parse_identity`
(the mock-data specifier `ID:key=value,...`), on lists of characters. -/

namespace Cli
open DataSet

/-! ## filters -/

structure FilterArgs where
  lowCut : Int           -- `args.low_pass_cutoff` (rank; 0 or less: off)
  highCut : Int
  exclude : List Int     -- `args.exclude_indices`
deriving Repr

/-- `get_num_points()`: the number of unmasked points -/
def numPoints (d : DS) : Nat := (d.mask.filter (· = false)).length

/-- after the low- and high-pass filters -/
def stage2 (d : DS) (a : FilterArgs) : DS :=
  let d1 := if a.lowCut > 0 then d.lowPass a.lowCut else d
  if a.highCut > 0 then d1.highPass a.highCut else d1

/-- after the exclusion of indices -/
def stage3 (d : DS) (a : FilterArgs) : DS :=
  if a.exclude.length > 0 then (stage2 d a).setMask (a.exclude.map fun i => (i, true)) else stage2 d a

/-- `apply_filters(data, args)` -/
def applyFilters (d : DS) (a : FilterArgs) : Except String DS :=
  if numPoints (stage2 d a) < 1 then .error "ValueError"
  else if numPoints (stage3 d a) < 1 then .error "ValueError"
  else .ok (stage3 d a)

/-! ## the mock-data specifier -/

def kwargKeys : List (List Char) :=
  ["noise".toList, "num_per_decade".toList, "log_max_f".toList, "log_min_f".toList, "seed".toList, "drift".toList]

/-- scan with the running index `i` and the last hit `acc` -/
def rfindAux (c : Char) : List Char → Nat → Int → Int
  | [], _, acc => acc
  | x :: rest, i, acc => rfindAux c rest (i + 1) (if x = c then (i : Int) else acc)

/-- `s.rfind(c)`: index of the last occurrence, `-1` when absent -/
def rfind (c : Char) (s : List Char) : Int := rfindAux c s 0 (-1)

/-- `s.split(c)` -/
def splitOn (c : Char) : List Char → List (List Char)
  | [] => [[]]
  | x :: rest =>
    if x = c then [] :: splitOn c rest
    else match splitOn c rest with
      | [] => [[x]]
      | h :: t => (x :: h) :: t

/-- the characters `str.strip()` removes (ASCII whitespace) -/
def isSpace (c : Char) : Bool := c = ' ' || c = '\t' || c = '\n' || c = '\r' || c = '\x0b' || c = '\x0c'

def lstrip : List Char → List Char
  | [] => []
  | x :: rest => if isSpace x then lstrip rest else x :: rest

def strip (s : List Char) : List Char := (lstrip (lstrip s).reverse).reverse

/-- `kwargs[key] = value` on an insertion-ordered dictionary -/
def setKw (kw : List (List Char × List Char)) (k v : List Char) : List (List Char × List Char) :=
  if kw.any (·.1 = k) then kw.map fun p => if p.1 = k then (k, v) else p else kw ++ [(k, v)]

/-- one `key=value` argument: `key, value = arg.split("=")`, the key must be known -/
def argStep (arg : List Char) (kw : List (List Char × List Char)) : Except String (List (List Char × List Char)) :=
  match splitOn '=' (strip arg) with
  | [k, v] => if kwargKeys.contains k then .ok (setKw kw k v) else .error "KeyError"
  | _ => .error "ValueError"

/-- the loop over the `key=value` arguments -/
def parseArgs : List (List Char) → List (List Char × List Char) → Except String (List (List Char × List Char))
  | [], kw => .ok kw
  | arg :: rest, kw =>
    match argStep arg kw with
    | .error e => .error e
    | .ok kw' => parseArgs rest kw'

/-- the `key=value` pairs accepted before the loop stops (used by the driver only: the implementation converts
each value with `float`/`int` as it goes, which is Python's business, so the harness replays that on this trace) -/
def traceArgs : List (List Char) → List (List Char × List Char)
  | [] => []
  | arg :: rest =>
    match splitOn '=' (strip arg) with
    | [k, v] => if kwargKeys.contains k then (k, v) :: traceArgs rest else []
    | _ => []

/-- `":" in identity and i > max(map(identity.rfind, ("}", "]", ")")))` -/
def hasArgs (s : List Char) : Bool :=
  s.contains ':' && decide (rfind ':' s > rfind '}' s) && decide (rfind ':' s > rfind ']' s) && decide (rfind ':' s > rfind ')' s)

/-- the keyword part and the identifier part -/
def splitArgs (s : List Char) : Except String (List Char × List (List Char × List Char)) :=
  match parseArgs (splitOn ',' (s.drop ((rfind ':' s).toNat + 1))) [] with
  | .error e => .error e
  | .ok kw => .ok (s.take (rfind ':' s).toNat, kw)

/-- `_parse_identity(identity)`; the values stay text (the conversion with `float`/`int` is Python's) -/
def parseIdentity (s : List Char) : Except String (List Char × List (List Char × List Char)) :=
  if hasArgs s then splitArgs s else .ok (s, [])

/-- `path.startswith("<") and path.endswith(">")` -/
def isMockSpec (s : List Char) : Bool := s.head? = some '<' && s.getLast? = some '>'

end Cli

import PyImpSpec.ExprC
import PyImpSpec.Gen.Kernels
import Mathlib.Algebra.BigOperators.Group.List.Basic
import Mathlib.LinearAlgebra.Matrix.NonsingularInverse
import Mathlib.Tactic.Linarith

/-! # C07 — the linear Kramers-Kronig tests reproduce exactly any spectrum of their own model

The columns of the design matrix (`_calculate_kth_A_matrix_variables`, the capacitance and inductance
columns of `least_squares.py`) and the element kernels of the fitted circuit (`R`, `K`, `Ky`, `C`, `L`) are
re-translated from `/repo` on every run.  Proved here: every row of `A·x` is the real / imaginary part of
the immittance of the circuit that `_update_circuit` builds from `x` — for both representations, with
capacitance and inductance, any number of RC elements; and the least-squares / normal-equation solvers are
exact on consistent systems.  Conditioning, `lstsq`/`pinv`/`inv` and lmfit are runtime (PARTIAL). -/

namespace C07
open Complex

/-- environment of a design-matrix column: angular frequency and time constant -/
def envW (ω τ : ℝ) : String → ℂ := fun k => if k = "w" then (ω : ℂ) else if k = "tau" then (τ : ℂ) else 0

/-- environment of an element kernel at angular frequency `ω` (i.e. `f = ω / 2π`) -/
noncomputable def envEl (ω : ℝ) (name : String) (v : ℂ) (τ : ℝ) : String → ℂ :=
  fun k => if k = "f" then (ω : ℂ) / (2 * (Real.pi : ℂ)) else if k = name then v else if k = "tau" then (τ : ℂ) else 0

theorem two_pi_f (ω : ℝ) : (2 : ℂ) * (Real.pi : ℂ) * ((ω : ℂ) / (2 * (Real.pi : ℂ))) = ω := by
  have : (Real.pi : ℂ) ≠ 0 := by exact_mod_cast Real.pi_ne_zero
  field_simp

/-! ## the element kernels, in closed form at `f = ω/2π` -/

theorem R_kernel (ω : ℝ) (R : ℂ) : evalC (envEl ω "R" R 0) Gen.K.R_impl = R := by
  unfold Gen.K.R_impl
  simp [evalC, E.eval, opsC, envEl]

theorem K_kernel (ω τ : ℝ) (R : ℂ) : evalC (envEl ω "R" R τ) Gen.K.K_impl = R / (1 + I * ω * τ) := by
  unfold Gen.K.K_impl
  simp only [evalC, E.eval, opsC, envEl, ↓reduceIte, String.reduceEq, Nat.cast_one, Nat.cast_ofNat]
  have h := two_pi_f ω
  rw [show I * 2 * (Real.pi : ℂ) * ((ω : ℂ) / (2 * (Real.pi : ℂ))) = I * (2 * (Real.pi : ℂ) * ((ω : ℂ) / (2 * (Real.pi : ℂ)))) by ring, h]
  rw [div_eq_mul_inv]

theorem C_kernel (ω : ℝ) (C : ℂ) : evalC (envEl ω "C" C 0) Gen.K.C_impl = 1 / (I * ω * C) := by
  unfold Gen.K.C_impl
  simp only [evalC, E.eval, opsC, envEl, ↓reduceIte, String.reduceEq, Nat.cast_one, Nat.cast_ofNat]
  have h := two_pi_f ω
  rw [show I * 2 * (Real.pi : ℂ) * ((ω : ℂ) / (2 * (Real.pi : ℂ))) = I * (2 * (Real.pi : ℂ) * ((ω : ℂ) / (2 * (Real.pi : ℂ)))) by ring, h]
  rw [one_div, one_mul]

theorem L_kernel (ω : ℝ) (L : ℂ) : evalC (envEl ω "L" L 0) Gen.K.L_impl = I * ω * L := by
  unfold Gen.K.L_impl
  simp only [evalC, E.eval, opsC, envEl, ↓reduceIte, String.reduceEq, Nat.cast_ofNat]
  have h := two_pi_f ω
  rw [show L * I * 2 * (Real.pi : ℂ) * ((ω : ℂ) / (2 * (Real.pi : ℂ))) = L * I * (2 * (Real.pi : ℂ) * ((ω : ℂ) / (2 * (Real.pi : ℂ)))) by ring, h]
  ring

theorem Ky_kernel (ω τ : ℝ) (C : ℂ) : evalC (envEl ω "C" C τ) Gen.K.Ky_impl = 1 / (C * ω / (ω * τ - I)) := by
  unfold Gen.K.Ky_impl
  simp only [evalC, E.eval, opsC, envEl, ↓reduceIte, String.reduceEq, Nat.cast_one, Nat.cast_ofNat]
  rw [two_pi_f ω]
  rw [one_div, one_mul, div_eq_mul_inv, sub_eq_add_neg]

/-! ## the columns of the design matrix, in closed form -/

theorem kth_Z (ω τ : ℝ) : evalC (envW ω τ) Gen.K.kk_kth_Z = 1 / (1 + I * ω * τ) := by
  unfold Gen.K.kk_kth_Z
  simp [evalC, E.eval, opsC, envW]
theorem kth_Y (ω τ : ℝ) : evalC (envW ω τ) Gen.K.kk_kth_Y = ω / (ω * τ - I) := by
  unfold Gen.K.kk_kth_Y
  simp [evalC, E.eval, opsC, envW, div_eq_mul_inv, sub_eq_add_neg]
theorem cap_Z (ω : ℝ) : evalC (envW ω 0) Gen.K.kk_cap_Z = ((-1 / ω : ℝ) : ℂ) := by
  unfold Gen.K.kk_cap_Z
  simp [evalC, E.eval, opsC, envW, div_eq_mul_inv]
theorem cap_Y (ω : ℝ) : evalC (envW ω 0) Gen.K.kk_cap_Y = ((ω : ℝ) : ℂ) := by
  unfold Gen.K.kk_cap_Y
  simp [evalC, E.eval, opsC, envW]
theorem ind_Z (ω : ℝ) : evalC (envW ω 0) Gen.K.kk_ind_Z = ((ω : ℝ) : ℂ) := by
  unfold Gen.K.kk_ind_Z
  simp [evalC, E.eval, opsC, envW]
theorem ind_Y (ω : ℝ) : evalC (envW ω 0) Gen.K.kk_ind_Y = ((1 / ω : ℝ) : ℂ) := by
  unfold Gen.K.kk_ind_Y
  simp [evalC, E.eval, opsC, envW, div_eq_mul_inv]

/-! ## rows of `A·x` = real / imaginary part of the model immittance -/

theorem sum_re (l : List ℂ) : l.sum.re = (l.map Complex.re).sum := by
  induction l with
  | nil => simp
  | cons a t ih => simp [ih]
theorem sum_im (l : List ℂ) : l.sum.im = (l.map Complex.im).sum := by
  induction l with
  | nil => simp
  | cons a t ih => simp [ih]

/-- impedance of the circuit `_update_circuit` builds from `x = (R₀, R₁…Rₙ, x_C, x_L)` in the impedance
representation: series `R`, `K` elements, `C = 1/x_C`, `L = x_L` — computed with the element kernels -/
noncomputable def Zmodel (ω : ℝ) (R0 : ℝ) (Rs τs : List ℝ) (xC xL : ℝ) : ℂ :=
  evalC (envEl ω "R" (R0 : ℂ) 0) Gen.K.R_impl
    + (List.zipWith (fun (R τ : ℝ) => evalC (envEl ω "R" (R : ℂ) τ) Gen.K.K_impl) Rs τs).sum
    + evalC (envEl ω "C" ((1 / xC : ℝ) : ℂ) 0) Gen.K.C_impl
    + evalC (envEl ω "L" (xL : ℂ) 0) Gen.K.L_impl

/-- the real rows and the imaginary rows of `A·x` (columns: 1, the RC columns, capacitance, inductance) -/
noncomputable def rowRe (ω : ℝ) (R0 : ℝ) (Rs τs : List ℝ) : ℝ :=
  R0 * 1 + (List.zipWith (fun (R τ : ℝ) => R * (evalC (envW ω τ) Gen.K.kk_kth_Z).re) Rs τs).sum
noncomputable def rowIm (ω : ℝ) (Rs τs : List ℝ) (xC xL : ℝ) : ℝ :=
  (List.zipWith (fun (R τ : ℝ) => R * (evalC (envW ω τ) Gen.K.kk_kth_Z).im) Rs τs).sum
    + xC * (evalC (envW ω 0) Gen.K.kk_cap_Z).re + xL * (evalC (envW ω 0) Gen.K.kk_ind_Z).re

theorem k_term_re (R ω τ : ℝ) : ((R : ℂ) / (1 + I * ω * τ)).re = R * (1 / (1 + I * (ω : ℂ) * τ)).re := by
  rw [div_eq_mul_inv, one_div]
  simp [Complex.mul_re]
theorem k_term_im (R ω τ : ℝ) : ((R : ℂ) / (1 + I * ω * τ)).im = R * (1 / (1 + I * (ω : ℂ) * τ)).im := by
  rw [div_eq_mul_inv, one_div]
  simp [Complex.mul_im]

/-- **Impedance representation (complex test; the real and the imaginary test use the respective rows).**
For every `ω ≠ 0`, any number of RC elements and any variable vector with `x_C ≠ 0`, the real rows of
`A·x` give the real part and the imaginary rows the imaginary part of the impedance of the fitted circuit. -/
theorem rows_represent_model_Z (ω : ℝ) (hω : ω ≠ 0) (R0 : ℝ) (Rs τs : List ℝ) (xC xL : ℝ) (hC : xC ≠ 0) :
    (Zmodel ω R0 Rs τs xC xL).re = rowRe ω R0 Rs τs ∧ (Zmodel ω R0 Rs τs xC xL).im = rowIm ω Rs τs xC xL := by
  unfold Zmodel rowRe rowIm
  simp only [R_kernel, K_kernel, C_kernel, L_kernel, kth_Z, cap_Z, ind_Z]
  have hcap : (1 / (I * (ω : ℂ) * ((1 / xC : ℝ) : ℂ))) = ((xC * (-1 / ω) : ℝ) : ℂ) * I := by
    have hω' : (ω : ℂ) ≠ 0 := by exact_mod_cast hω
    have hC' : (xC : ℂ) ≠ 0 := by exact_mod_cast hC
    push_cast
    field_simp
    ring_nf
    simp [Complex.I_sq]
  have zre : ∀ (Rs τs : List ℝ), ((List.zipWith (fun (R τ : ℝ) => (R : ℂ) / (1 + I * ω * τ)) Rs τs).map Complex.re)
      = List.zipWith (fun (R τ : ℝ) => R * (1 / (1 + I * (ω : ℂ) * (τ : ℂ))).re) Rs τs := by
    intro Rs
    induction Rs with
    | nil => intro τs; simp
    | cons R t ih => intro τs; cases τs with
      | nil => simp
      | cons τ ts => simp only [List.zipWith_cons_cons, List.map_cons, ih, k_term_re]
  have zim : ∀ (Rs τs : List ℝ), ((List.zipWith (fun (R τ : ℝ) => (R : ℂ) / (1 + I * ω * τ)) Rs τs).map Complex.im)
      = List.zipWith (fun (R τ : ℝ) => R * (1 / (1 + I * (ω : ℂ) * (τ : ℂ))).im) Rs τs := by
    intro Rs
    induction Rs with
    | nil => intro τs; simp
    | cons R t ih => intro τs; cases τs with
      | nil => simp
      | cons τ ts => simp only [List.zipWith_cons_cons, List.map_cons, ih, k_term_im]
  constructor
  · simp only [Complex.add_re, sum_re, zre, hcap]
    simp [Complex.mul_re]
  · simp only [Complex.add_im, sum_im, zim, hcap]
    simp [Complex.mul_im]
    ring


/-- admittance of the circuit `_update_circuit` builds in the admittance representation: parallel
`R = 1/x₀`, `Ky` elements with `C_k = x_k`, `C = x_C`, `L = −1/x_L` — computed with the element kernels -/
noncomputable def Ymodel (ω : ℝ) (x0 : ℝ) (Cs τs : List ℝ) (xC xL : ℝ) : ℂ :=
  1 / evalC (envEl ω "R" ((1 / x0 : ℝ) : ℂ) 0) Gen.K.R_impl
    + (List.zipWith (fun (C τ : ℝ) => 1 / evalC (envEl ω "C" (C : ℂ) τ) Gen.K.Ky_impl) Cs τs).sum
    + 1 / evalC (envEl ω "C" (xC : ℂ) 0) Gen.K.C_impl
    + 1 / evalC (envEl ω "L" ((-1 / xL : ℝ) : ℂ) 0) Gen.K.L_impl

noncomputable def rowReY (ω : ℝ) (x0 : ℝ) (Cs τs : List ℝ) : ℝ :=
  x0 * 1 + (List.zipWith (fun (C τ : ℝ) => C * (evalC (envW ω τ) Gen.K.kk_kth_Y).re) Cs τs).sum
noncomputable def rowImY (ω : ℝ) (Cs τs : List ℝ) (xC xL : ℝ) : ℝ :=
  (List.zipWith (fun (C τ : ℝ) => C * (evalC (envW ω τ) Gen.K.kk_kth_Y).im) Cs τs).sum
    + xC * (evalC (envW ω 0) Gen.K.kk_cap_Y).re + xL * (evalC (envW ω 0) Gen.K.kk_ind_Y).re

theorem ky_term (C ω τ : ℝ) : 1 / (1 / ((C : ℂ) * ω / (ω * τ - I))) = (C : ℂ) * ((ω : ℂ) / (ω * τ - I)) := by
  rw [one_div_one_div]; ring

/-- **Admittance representation.** For every `ω ≠ 0`, any number of RC elements and any variable vector
with `x₀ ≠ 0`, `x_L ≠ 0`, the real rows of `A·x` give the real part and the imaginary rows the imaginary
part of the admittance of the fitted circuit. -/
theorem rows_represent_model_Y (ω : ℝ) (hω : ω ≠ 0) (x0 : ℝ) (Cs τs : List ℝ) (xC xL : ℝ) (h0 : x0 ≠ 0) (hL : xL ≠ 0) :
    (Ymodel ω x0 Cs τs xC xL).re = rowReY ω x0 Cs τs ∧ (Ymodel ω x0 Cs τs xC xL).im = rowImY ω Cs τs xC xL := by
  unfold Ymodel rowReY rowImY
  simp only [R_kernel, Ky_kernel, C_kernel, L_kernel, kth_Y, cap_Y, ind_Y, ky_term]
  have hω' : (ω : ℂ) ≠ 0 := by exact_mod_cast hω
  have hr : (1 : ℂ) / ((1 / x0 : ℝ) : ℂ) = (x0 : ℂ) := by
    push_cast; rw [one_div_one_div]
  have hc : (1 : ℂ) / (1 / (I * (ω : ℂ) * (xC : ℂ))) = ((ω * xC : ℝ) : ℂ) * I := by
    rw [one_div_one_div]; push_cast; ring
  have hl : (1 : ℂ) / (I * (ω : ℂ) * ((-1 / xL : ℝ) : ℂ)) = ((xL * (1 / ω) : ℝ) : ℂ) * I := by
    have hL' : (xL : ℂ) ≠ 0 := by exact_mod_cast hL
    push_cast
    field_simp
    ring_nf
    simp [Complex.I_sq]
  have zre : ∀ (Cs τs : List ℝ), ((List.zipWith (fun (C τ : ℝ) => (C : ℂ) * ((ω : ℂ) / (ω * τ - I))) Cs τs).map Complex.re)
      = List.zipWith (fun (C τ : ℝ) => C * ((ω : ℂ) / (ω * (τ : ℂ) - I)).re) Cs τs := by
    intro Cs
    induction Cs with
    | nil => intro τs; simp
    | cons C t ih => intro τs; cases τs with
      | nil => simp
      | cons τ ts => simp only [List.zipWith_cons_cons, List.map_cons, ih, Complex.re_ofReal_mul]
  have zim : ∀ (Cs τs : List ℝ), ((List.zipWith (fun (C τ : ℝ) => (C : ℂ) * ((ω : ℂ) / (ω * τ - I))) Cs τs).map Complex.im)
      = List.zipWith (fun (C τ : ℝ) => C * ((ω : ℂ) / (ω * (τ : ℂ) - I)).im) Cs τs := by
    intro Cs
    induction Cs with
    | nil => intro τs; simp
    | cons C t ih => intro τs; cases τs with
      | nil => simp
      | cons τ ts => simp only [List.zipWith_cons_cons, List.map_cons, ih, Complex.im_ofReal_mul]
  rw [hr, hc, hl]
  constructor
  · simp only [Complex.add_re, sum_re, zre]
    simp [Complex.mul_re]
  · simp only [Complex.add_im, sum_im, zim]
    simp [Complex.mul_im]
    ring

/-! ## the solvers are exact on consistent systems -/

section solvers
open Matrix
variable {m n : Type} [Fintype m] [Fintype n] [DecidableEq n]

/-- squared residual norm -/
def sqRes (A : Matrix m n ℝ) (b : m → ℝ) (x : n → ℝ) : ℝ := ∑ i, (A.mulVec x i - b i) ^ 2

/-- `x` is a least-squares solution (the specification of `numpy.linalg.lstsq` / `pinv(A) @ b`) -/
def IsLsq (A : Matrix m n ℝ) (b : m → ℝ) (x : n → ℝ) : Prop := ∀ y, sqRes A b x ≤ sqRes A b y

/-- **A least-squares solution of a consistent system solves it exactly**: if the data are the model's own
(`b = A x₀`), whatever minimiser the solver returns reproduces every row, i.e. all residuals vanish. -/
theorem lsq_exact_of_consistent (A : Matrix m n ℝ) (x₀ x : n → ℝ) (h : IsLsq A (A.mulVec x₀) x) :
    A.mulVec x = A.mulVec x₀ := by
  have h0 : sqRes A (A.mulVec x₀) x ≤ 0 := by
    have := h x₀
    simpa [sqRes] using this
  have hnn : ∀ i ∈ Finset.univ, 0 ≤ (A.mulVec x i - A.mulVec x₀ i) ^ 2 := fun i _ => sq_nonneg _
  have hz : sqRes A (A.mulVec x₀) x = 0 := le_antisymm h0 (Finset.sum_nonneg hnn)
  funext i
  have := (Finset.sum_eq_zero_iff_of_nonneg hnn).mp hz i (Finset.mem_univ i)
  have : A.mulVec x i - A.mulVec x₀ i = 0 := by simpa using this
  linarith

/-- with full column rank (the property's "well-conditioned") the generating parameters are recovered -/
theorem lsq_recovers (A : Matrix m n ℝ) (hinj : Function.Injective A.mulVec) (x₀ x : n → ℝ)
    (h : IsLsq A (A.mulVec x₀) x) : x = x₀ :=
  hinj (lsq_exact_of_consistent A x₀ x h)

/-- the normal-equation solver of the matrix-inversion tests: `inv(AᵀA) (Aᵀ b)` recovers `x₀` from `b = A x₀` -/
theorem normal_equations_exact (A : Matrix m n ℝ) (hdet : IsUnit (Aᵀ * A).det) (x₀ : n → ℝ) :
    ((Aᵀ * A)⁻¹).mulVec (Aᵀ.mulVec (A.mulVec x₀)) = x₀ := by
  rw [Matrix.mulVec_mulVec, Matrix.mulVec_mulVec, Matrix.mul_assoc, Matrix.nonsing_inv_mul _ hdet, Matrix.one_mulVec]
end solvers

/-- the design-matrix columns found in `/repo` are the three covered above -/
theorem all_kk_columns_covered : Gen.K.kkColumns = ["kth", "cap", "ind"] := by decide

end C07

import PyImpSpec.Ident

/-! # C16 — element names and identifiers are unique and used consistently

Model: `Ident.*` (hand model of `Connection._get_elements_recursive`, `generate_element_identifiers`,
`get_element_name`), tied to `/repo` by the correspondence stream `ident` (traversal order, both identifier
maps and names compared for generated circuits with nested containers and shared element objects). -/

namespace C16
open Ident

def oids (l : List El) : List Nat := l.map (·.oid)

/-! ## the traversal visits every element exactly once -/

theorem dedup_spec (l acc : List El) (hacc : (oids acc).Nodup) :
    (oids (dedup l acc)).Nodup ∧ ∀ x, x ∈ oids (dedup l acc) ↔ (x ∈ oids l ∨ x ∈ oids acc) := by
  induction l generalizing acc with
  | nil =>
    have hrev : (oids acc.reverse).Nodup := by
      unfold oids
      rw [List.map_reverse]
      exact List.pairwise_reverse.mpr (hacc.imp (fun h => fun e => h e.symm))
    refine ⟨hrev, fun x => ?_⟩
    simp [dedup, oids]
  | cons e es ih =>
    unfold dedup
    by_cases h : acc.any (·.oid = e.oid) = true
    · simp only [h, ↓reduceIte]
      obtain ⟨h1, h2⟩ := ih acc hacc
      refine ⟨h1, fun x => ?_⟩
      rw [h2 x]
      have he : e.oid ∈ oids acc := by
        simp only [List.any_eq_true, decide_eq_true_eq] at h
        obtain ⟨a, ha, hae⟩ := h
        exact List.mem_map.mpr ⟨a, ha, hae⟩
      simp only [oids, List.map_cons, List.mem_cons]
      constructor
      · rintro (h | h)
        · exact Or.inl (Or.inr h)
        · exact Or.inr h
      · rintro ((rfl | h) | h)
        · exact Or.inr he
        · exact Or.inl h
        · exact Or.inr h
    · simp only [h, Bool.false_eq_true, ↓reduceIte]
      have hne : e.oid ∉ oids acc := by
        intro hm
        apply h
        simp only [List.any_eq_true, decide_eq_true_eq]
        obtain ⟨a, ha, hae⟩ := List.mem_map.mp hm
        exact ⟨a, ha, hae⟩
      have hacc' : (oids (e :: acc)).Nodup := by
        simp only [oids, List.map_cons, List.nodup_cons]
        exact ⟨hne, hacc⟩
      obtain ⟨h1, h2⟩ := ih (e :: acc) hacc'
      refine ⟨h1, fun x => ?_⟩
      rw [h2 x]
      simp only [oids, List.map_cons, List.mem_cons]
      constructor
      · rintro (h | rfl | h)
        · exact Or.inl (Or.inr h)
        · exact Or.inl (Or.inl rfl)
        · exact Or.inr h
      · rintro ((rfl | h) | h)
        · exact Or.inr (Or.inl rfl)
        · exact Or.inl h
        · exact Or.inr (Or.inr h)

mutual
theorem reach_T : (t : Tr) → ∀ x, x ∈ oids (topT t ++ deepT t) ↔ x ∈ oids (allT t)
  | .elem e subs => by
    intro x
    have := reach_Subs subs x
    simp only [topT, deepT, allT, oids, List.map_append, List.map_cons, List.map_nil, List.mem_append, List.mem_cons,
      List.not_mem_nil, or_false] at this ⊢
    rw [this]
  | .conn cs => by
    intro x
    simpa [topT, deepT, allT] using reach_L cs x
theorem reach_L : (ts : List Tr) → ∀ x, x ∈ oids (topL ts ++ deepL ts) ↔ x ∈ oids (allL ts)
  | [] => by intro x; simp [topL, deepL, allL, oids]
  | t :: ts => by
    intro x
    have h1 := reach_T t x
    have h2 := reach_L ts x
    simp only [topL, deepL, allL, oids, List.map_append, List.mem_append] at h1 h2 ⊢
    rw [← h1, ← h2]
    constructor
    · rintro ((h | h) | (h | h))
      · exact Or.inl (Or.inl h)
      · exact Or.inr (Or.inl h)
      · exact Or.inl (Or.inr h)
      · exact Or.inr (Or.inr h)
    · rintro ((h | h) | (h | h))
      · exact Or.inl (Or.inl h)
      · exact Or.inr (Or.inl h)
      · exact Or.inl (Or.inr h)
      · exact Or.inr (Or.inr h)
theorem reach_Subs : (ss : List Tr) → ∀ x, x ∈ oids (deepSubs ss) ↔ x ∈ oids (allL ss)
  | [] => by intro x; simp [deepSubs, allL, oids]
  | s :: ss => by
    intro x
    have h1 := reach_T s x
    have h2 := reach_Subs ss x
    have hd := (dedup_spec (topT s ++ deepT s) [] (by simp [oids])).2 x
    simp only [deepSubs, allL, oids, List.map_append, List.mem_append] at h1 h2 hd ⊢
    rw [hd, ← h2]
    simp only [List.map_nil, List.not_mem_nil, or_false]
    rw [← h1]
end

/-- **Every element object reachable from the circuit — nested inside container elements at any depth
included — is visited exactly once**: the traversal has no repeated identity and its identities are
exactly those of the reachable elements. -/
theorem elements_nodup_complete (t : Tr) :
    (oids (elements t)).Nodup ∧ ∀ x, x ∈ oids (elements t) ↔ x ∈ oids (allT t) := by
  obtain ⟨h1, h2⟩ := dedup_spec (topT t ++ deepT t) [] (by simp [oids])
  refine ⟨h1, fun x => ?_⟩
  rw [show elements t = dedup (topT t ++ deepT t) [] from rfl, h2 x]
  simp only [oids, List.map_nil, List.not_mem_nil, or_false]
  exact reach_T t x

/-! ## the running index is 0..N-1 -/

theorem zipIdx_snd {α : Type} (l : List α) (n : Nat) : (l.zipIdx n).map (·.2) = List.range' n l.length := by
  induction l generalizing n with
  | nil => rfl
  | cons a t ih => simp [List.zipIdx_cons, ih, List.range'_succ]

/-- **The running identifiers are exactly `0, 1, …, N-1`, in traversal order, one per element.** -/
theorem running_ids_are_range (t : Tr) :
    (running t).map (·.2) = List.range (elements t).length ∧ (running t).map (·.1) = elements t := by
  refine ⟨?_, ?_⟩
  · rw [running, zipIdx_snd, List.range_eq_range']
  · simp [running]

/-! ## the per-type count starts at 1 and has no gaps -/

theorem find_filter_ne (counts : List (String × Nat)) (s s' : String) (h : ¬ s' = s) :
    (counts.filter (·.1 ≠ s)).find? (·.1 = s') = counts.find? (·.1 = s') := by
  induction counts with
  | nil => rfl
  | cons p ps ih =>
    by_cases hp : p.1 = s
    · have hp' : ¬ p.1 = s' := fun e => h (e.symm.trans hp)
      rw [List.filter_cons]
      simp only [hp, ne_eq, not_true_eq_false, decide_false, Bool.false_eq_true, ↓reduceIte]
      rw [List.find?_cons]
      simp only [hp', decide_false]
      exact ih
    · rw [List.filter_cons]
      simp only [hp, ne_eq, not_false_eq_true, decide_true, ↓reduceIte]
      rw [List.find?_cons, List.find?_cons]
      by_cases hp' : p.1 = s'
      · simp [hp']
      · simp only [hp', decide_false]
        exact ih

theorem countOf_update (counts : List (String × Nat)) (s s' : String) (i : Nat) :
    countOf ((s, i) :: counts.filter (·.1 ≠ s)) s' = if s' = s then i else countOf counts s' := by
  unfold countOf
  by_cases h : s' = s
  · subst h; simp
  · have h' : ¬ s = s' := fun e => h e.symm
    rw [List.find?_cons]
    simp only [h', decide_false, h, ↓reduceIte]
    rw [find_filter_ne counts s s' h]

/-- **Per-type identifiers**: for every symbol the identifiers handed to the elements of that type are
`c+1, c+2, …` in traversal order (with `c = 0` at the start: `1, 2, …, k`). -/
theorem countLoop_type_counts (es : List El) (counts : List (String × Nat)) (s : String) :
    ((countLoop es counts).filter (fun p => p.1.sym = s)).map (·.2)
      = List.range' (countOf counts s + 1) (es.filter (fun e => e.sym = s)).length := by
  induction es generalizing counts with
  | nil => simp [countLoop]
  | cons e es ih =>
    simp only [countLoop]
    by_cases h : e.sym = s
    · subst h
      simp only [List.filter_cons, decide_true, ↓reduceIte, List.map_cons, List.length_cons]
      rw [ih, countOf_update]
      simp [List.range'_succ]
    · simp only [List.filter_cons, h, decide_false, Bool.false_eq_true, ↓reduceIte]
      rw [ih, countOf_update]
      have : ¬ s = e.sym := fun x => h x.symm
      simp [this]

theorem type_counts_from_one (t : Tr) (s : String) :
    ((perType t).filter (fun p => p.1.sym = s)).map (·.2)
      = List.range' 1 ((elements t).filter (fun e => e.sym = s)).length := by
  have := countLoop_type_counts (elements t) [] s
  simpa [perType, countOf] using this

/-! ## names of parameters: `"{key}_{ident}"` determines key and ident -/

theorem split_last_underscore (p p' d d' : List Char) (hd : '_' ∉ d) (hd' : '_' ∉ d')
    (h : p ++ '_' :: d = p' ++ '_' :: d') : p = p' ∧ d = d' := by
  induction p generalizing p' with
  | nil =>
    cases p' with
    | nil => simp at h; exact ⟨rfl, h⟩
    | cons c t =>
      simp only [List.nil_append, List.cons_append, List.cons.injEq] at h
      obtain ⟨rfl, h2⟩ := h
      exfalso; apply hd; rw [h2]; simp
  | cons c t ih =>
    cases p' with
    | nil =>
      simp only [List.nil_append, List.cons_append, List.cons.injEq] at h
      obtain ⟨rfl, h2⟩ := h
      exfalso; apply hd'; rw [← h2]; simp
    | cons c' t' =>
      simp only [List.cons_append, List.cons.injEq] at h
      obtain ⟨rfl, h2⟩ := h
      obtain ⟨h3, h4⟩ := ih t' h2
      exact ⟨by rw [h3], h4⟩

theorem repr_injective (i j : Nat) (h : (Nat.repr i).toList = (Nat.repr j).toList) : i = j := by
  rw [Nat.toList_repr, Nat.toList_repr] at h
  have := congrArg (fun l => Nat.ofDigitChars 10 l 0) h
  simpa using this

/-- **Distinct (parameter, element) pairs get distinct fitting / symbolic variable names**, whatever the
parameter symbols are (they may contain underscores and digits); conversely the element index can be read
back from a name by splitting at the last underscore, which is what the table of fitted parameters does. -/
theorem param_names_injective (k k' : String) (i j : Nat) (h : paramName k i = paramName k' j) : k = k' ∧ i = j := by
  unfold paramName at h
  have hi : '_' ∉ (Nat.repr i).toList := by rw [Nat.toList_repr]; exact Nat.underscore_not_in_toDigits
  have hj : '_' ∉ (Nat.repr j).toList := by rw [Nat.toList_repr]; exact Nat.underscore_not_in_toDigits
  obtain ⟨h1, h2⟩ := split_last_underscore _ _ _ _ hi hj h
  exact ⟨String.ext h1, repr_injective i j h2⟩

/-- **The table of fitted parameters finds an element's variables by the suffix `_<index>`**
(`name.endswith(f"_{index}")` in `_extract_parameters`): a name built for element `i` has the suffix of element `j`
exactly when `i = j` — also when the parameter symbol itself contains underscores or digits, and for indices with
any number of digits (`R_10` does not end with `_0`). -/
theorem suffix_match_iff (k : List Char) (i j : Nat) :
    ('_' :: (Nat.repr j).toList) <:+ (k ++ '_' :: (Nat.repr i).toList) ↔ i = j := by
  have hi : '_' ∉ (Nat.repr i).toList := by rw [Nat.toList_repr]; exact Nat.underscore_not_in_toDigits
  have hj : '_' ∉ (Nat.repr j).toList := by rw [Nat.toList_repr]; exact Nat.underscore_not_in_toDigits
  constructor
  · rintro ⟨pre, hpre⟩
    obtain ⟨_, h2⟩ := split_last_underscore pre k _ _ hj hi hpre
    exact (repr_injective j i h2).symm
  · rintro rfl
    exact ⟨k, rfl⟩

/-- non-vacuity: a container with a nested sub-circuit and a shared element object -/
example : elements (.conn [.elem ⟨0, "R", ""⟩ [], .elem ⟨1, "Tlm", ""⟩ [.conn [.elem ⟨2, "R", "a"⟩ [], .elem ⟨0, "R", ""⟩ []]], .elem ⟨3, "C", ""⟩ []])
    = [⟨0, "R", ""⟩, ⟨1, "Tlm", ""⟩, ⟨3, "C", ""⟩, ⟨2, "R", "a"⟩] := by decide

end C16

import PyImpSpec.Tikz

/-! # C20 — the CircuiTikZ export exists for every well-formed circuit and has one component per element

Model: `Tikz.*` (hand model of both phases of `to_circuitikz`), tied to `/repo` by the correspondence
stream `tikz` (every command with its coordinates compared for generated circuits). -/

namespace C20
open Tikz

def isComponent : Cmd → Bool | .component .. => true | _ => false
def isElemItem : Item → Bool | .elem .. => true | _ => false

/-! ## one component command per element -/

theorem wire_if_elems (b : Bool) (k y : Nat) : ((if b then [Item.wire k y] else []).filter isElemItem).length = 0 := by
  cases b <;> simp [isElemItem]

mutual
theorem seriesItem_elems (depth x y : Nat) (first post : Bool) (w h : Nat) : (t : T) →
    ((seriesItem depth x y first post w h t).2.filter isElemItem).length = leaves t
  | .series cs => by
    simp only [seriesItem, List.filter_append, List.length_append, leaves]
    rw [seriesLoop_elems depth (x + w) y true 0 0 cs]
    simp [isElemItem]
  | .parallel cs => by
    simp only [seriesItem, List.filter_append, List.length_append, leaves, wire_if_elems]
    rw [parallelLoop_elems (depth + 1) _ y 0 0 cs]
    simp [isElemItem]
  | .elem oid => by simp only [seriesItem, leaves]; rfl
theorem seriesLoop_elems (depth x y : Nat) (first : Bool) (w h : Nat) : (cs : List T) →
    ((seriesLoop depth x y first w h cs).2.filter isElemItem).length = leavesL cs
  | [] => by simp [seriesLoop, leavesL]
  | t :: rest => by
    simp only [seriesLoop, List.filter_append, List.length_append, leavesL]
    rw [seriesItem_elems depth x y first _ w h t, seriesLoop_elems depth x y false _ _ rest]
theorem parItem_elems (depth x y : Nat) : (t : T) → ((parItem depth x y t).2.filter isElemItem).length = leaves t
  | .series cs => by
    simp only [parItem, List.filter_append, List.length_append, leaves]
    rw [seriesLoop_elems depth x y true 0 0 cs]
    simp [isElemItem]
  | .parallel cs => by
    simp only [parItem, List.filter_append, List.length_append, leaves]
    rw [parallelLoop_elems (depth + 1) x y 0 0 cs]
    simp [isElemItem]
  | .elem oid => by simp only [parItem, leaves]; rfl
theorem parallelLoop_elems (depth x y : Nat) (w h : Nat) : (cs : List T) →
    ((parallelLoop depth x y w h cs).2.filter isElemItem).length = leavesL cs
  | [] => by simp [parallelLoop, leavesL]
  | t :: rest => by
    simp only [parallelLoop, List.filter_append, List.length_append, leavesL]
    rw [parItem_elems depth x (y + h) t, parallelLoop_elems depth x y _ _ rest]
end

theorem series1_elems (depth x y : Nat) (cs : List T) : ((series1 depth x y cs).2.filter isElemItem).length = leavesL cs := by
  simp only [series1, List.filter_append, List.length_append, seriesLoop_elems]
  simp [isElemItem]

theorem emit_components (i : Item) (c : List Cmd) (h : emit i = some c) :
    (c.filter isComponent).length = if isElemItem i then 1 else 0 := by
  cases i with
  | ser => simp [emit] at h; subst h; simp [isElemItem]
  | elem oid x y w => simp [emit] at h; subst h; rfl
  | wire x y => simp [emit] at h; subst h; simp [isComponent, isElemItem]
  | par x y w ch =>
    simp only [emit] at h
    split at h
    · cases h
    · split at h
      · cases h
      · simp only [Option.some.injEq] at h
        subst h
        simp only [isElemItem, Bool.false_eq_true, ↓reduceIte, List.filter_append, List.length_append]
        have : ∀ l : List Child, ((l.map fun c => Cmd.connector (c.x + c.w) c.y (x + w)).filter isComponent).length = 0 := by
          intro l; induction l <;> simp_all [isComponent]
        split <;> simp [isComponent, this]

theorem emitAll_components (is : List Item) (c : List Cmd) (h : emitAll is = some c) :
    (c.filter isComponent).length = (is.filter isElemItem).length := by
  induction is generalizing c with
  | nil => simp [emitAll] at h; subst h; rfl
  | cons i rest ih =>
    simp only [emitAll] at h
    cases h1 : emit i with
    | none => simp [h1] at h
    | some a =>
      cases h2 : emitAll rest with
      | none => simp [h1, h2] at h
      | some b =>
        simp only [h1, h2, Option.some.injEq] at h
        subst h
        rw [List.filter_append, List.length_append, emit_components i a h1, ih b h2, List.filter_cons]
        cases isElemItem i <;> simp <;> omega

/-- **One component per element of the circuit's connections** (a container element counts as one):
whenever the export succeeds, the number of component commands equals the number of elements. -/
theorem component_count (cs : List T) (cmds : List Cmd) (w : Nat) (h : render cs = some (cmds, w)) :
    (cmds.filter isComponent).length = leavesL cs := by
  simp only [render, Option.map_eq_some_iff] at h
  obtain ⟨c, hc, he⟩ := h
  simp only [Prod.mk.injEq] at he
  rw [← he.1, emitAll_components _ c hc, series1_elems]

/-! ## the export cannot fail on well-formed circuits -/

def goodItem : Item → Prop
  | .par _ _ _ ch => ∃ top bot, rails ch none = some (top, bot) ∧ top < bot
  | _ => True

theorem emit_good (i : Item) (h : goodItem i) : ∃ c, emit i = some c := by
  cases i with
  | ser => exact ⟨_, rfl⟩
  | elem oid x y w => exact ⟨_, rfl⟩
  | wire x y => exact ⟨_, rfl⟩
  | par x y w ch =>
    obtain ⟨top, bot, h1, h2⟩ := h
    simp only [emit, h1]
    have : ¬ top = bot := by omega
    simp only [this, ↓reduceIte]
    exact ⟨_, rfl⟩

theorem emitAll_good (is : List Item) (h : ∀ i ∈ is, goodItem i) : ∃ c, emitAll is = some c := by
  induction is with
  | nil => exact ⟨_, rfl⟩
  | cons i rest ih =>
    obtain ⟨a, ha⟩ := emit_good i (h i List.mem_cons_self)
    obtain ⟨b, hb⟩ := ih (fun j hj => h j (List.mem_cons_of_mem _ hj))
    exact ⟨a ++ b, by simp [emitAll, ha, hb]⟩

/-- the scan over children whose vertical positions all lie at or below `lo`… -/
theorem rails_acc (ch : List Child) (top bot : Nat) (hb : ∀ c ∈ ch, top ≤ c.y) (htb : top ≤ bot) :
    ∃ b, rails ch (some (top, bot)) = some (top, b) ∧ bot ≤ b ∧ ∀ c ∈ ch, c.y ≤ b := by
  induction ch generalizing bot with
  | nil => exact ⟨bot, rfl, Nat.le_refl _, by simp⟩
  | cons c cs ih =>
    have hc := hb c List.mem_cons_self
    simp only [rails]
    rw [Nat.min_eq_left hc]
    obtain ⟨b, h1, h2, h3⟩ := ih (max bot c.y) (fun d hd => hb d (List.mem_cons_of_mem _ hd)) (by omega)
    refine ⟨b, h1, by omega, ?_⟩
    intro d hd
    rcases List.mem_cons.mp hd with rfl | hd
    · omega
    · exact h3 d hd

/-- children of a parallel connection: stacked strictly downwards from `y0` -/
def Stacked (y0 : Nat) : List Child → Prop
  | [] => True
  | c :: cs => c.y = y0 ∧ ∃ y1, y0 < y1 ∧ Stacked y1 cs ∧ ∀ d ∈ cs, y1 ≤ d.y

theorem stacked_ge (y0 : Nat) : (ch : List Child) → Stacked y0 ch → ∀ c ∈ ch, y0 ≤ c.y
  | [], _ => by simp
  | c :: cs, h => by
    obtain ⟨h1, y1, h2, _, h4⟩ := h
    intro d hd
    rcases List.mem_cons.mp hd with rfl | hd
    · omega
    · have := h4 d hd; omega

theorem rails_of_stacked (y0 : Nat) (ch : List Child) (hs : Stacked y0 ch) (h2 : 2 ≤ ch.length) :
    ∃ top bot, rails ch none = some (top, bot) ∧ top < bot := by
  match ch, hs, h2 with
  | c :: d :: rest, hs, _ =>
    obtain ⟨hc, y1, hlt, hs', hge⟩ := hs
    simp only [rails]
    obtain ⟨b, hb1, hb2, hb3⟩ := rails_acc (d :: rest) c.y c.y (fun e he => by have := hge e he; omega) (Nat.le_refl _)
    refine ⟨c.y, b, hb1, ?_⟩
    have := hb3 d List.mem_cons_self
    have := hge d List.mem_cons_self
    omega

theorem wire_if_good (b : Bool) (k y : Nat) : ∀ i ∈ (if b then [Item.wire k y] else []), goodItem i := by
  intro i hi
  cases b
  · simp at hi
  · simp only [↓reduceIte, List.mem_singleton] at hi; subst hi; trivial

theorem boxOf_h (b : Box) : 1 ≤ (boxOf b).h := by simp only [boxOf]; omega

mutual
theorem seriesItem_good (depth x y : Nat) (first post : Bool) (w h : Nat) : (t : T) → WellFormed t = true →
    ∀ i ∈ (seriesItem depth x y first post w h t).2, goodItem i
  | .series cs, hw => by
    simp only [WellFormed] at hw
    intro i hi
    simp only [seriesItem, List.mem_append, List.mem_singleton] at hi
    rcases hi with hi | rfl
    · exact seriesLoop_good depth (x + w) y true 0 0 cs hw i hi
    · trivial
  | .parallel cs, hw => by
    simp only [WellFormed, Bool.and_eq_true, decide_eq_true_eq] at hw
    obtain ⟨hg, hst, hlen⟩ := parallelLoop_good (depth + 1) (x + (if (decide (depth > 0) && first) = true then w + 1 else w)) y 0 0 cs hw.2
    intro i hi
    simp only [seriesItem, List.mem_append, List.mem_singleton] at hi
    rcases hi with (hi | (hi | rfl)) | hi
    · exact wire_if_good _ _ _ i hi
    · exact hg i hi
    · simp only [Nat.add_zero] at hst
      exact rails_of_stacked y _ hst (by rw [hlen]; exact hw.1)
    · exact wire_if_good _ _ _ i hi
  | .elem oid, _ => by
    intro i hi
    simp only [seriesItem, List.mem_singleton] at hi
    subst hi; trivial
theorem seriesLoop_good (depth x y : Nat) (first : Bool) (w h : Nat) : (cs : List T) → WellFormedL cs = true →
    ∀ i ∈ (seriesLoop depth x y first w h cs).2, goodItem i
  | [], _ => by simp [seriesLoop]
  | t :: rest, hw => by
    simp only [WellFormedL, Bool.and_eq_true] at hw
    intro i hi
    simp only [seriesLoop, List.mem_append] at hi
    rcases hi with hi | hi
    · exact seriesItem_good depth x y first _ w h t hw.1 i hi
    · exact seriesLoop_good depth x y false _ _ rest hw.2 i hi
theorem parItem_good (depth x y : Nat) : (t : T) → WellFormed t = true →
    (∀ i ∈ (parItem depth x y t).2, goodItem i) ∧ 1 ≤ (parItem depth x y t).1.1.h
  | .series cs, hw => by
    simp only [WellFormed] at hw
    refine ⟨?_, by simp only [parItem]; exact boxOf_h _⟩
    intro i hi
    simp only [parItem, List.mem_append, List.mem_singleton] at hi
    rcases hi with hi | rfl
    · exact seriesLoop_good depth x y true 0 0 cs hw i hi
    · trivial
  | .parallel cs, hw => by
    simp only [WellFormed, Bool.and_eq_true, decide_eq_true_eq] at hw
    obtain ⟨hg, hst, hlen⟩ := parallelLoop_good (depth + 1) x y 0 0 cs hw.2
    refine ⟨?_, by simp only [parItem]; exact boxOf_h _⟩
    intro i hi
    simp only [parItem, List.mem_append, List.mem_singleton] at hi
    rcases hi with hi | rfl
    · exact hg i hi
    · simp only [Nat.add_zero] at hst
      exact rails_of_stacked y _ hst (by rw [hlen]; exact hw.1)
  | .elem oid, _ => by
    refine ⟨?_, by simp [parItem]⟩
    intro i hi
    simp only [parItem, List.mem_singleton] at hi
    subst hi; trivial
theorem parallelLoop_good (depth x y : Nat) (w h : Nat) : (cs : List T) → WellFormedL cs = true →
    (∀ i ∈ (parallelLoop depth x y w h cs).2, goodItem i) ∧ Stacked (y + h) (parallelLoop depth x y w h cs).1.2 ∧
      (parallelLoop depth x y w h cs).1.2.length = cs.length
  | [], _ => by simp [parallelLoop, Stacked]
  | t :: rest, hw => by
    simp only [WellFormedL, Bool.and_eq_true] at hw
    obtain ⟨g1, hh⟩ := parItem_good depth x (y + h) t hw.1
    obtain ⟨g2, s2, l2⟩ := parallelLoop_good depth x y (max w (parItem depth x (y + h) t).1.1.w) (h + (parItem depth x (y + h) t).1.1.h) rest hw.2
    refine ⟨?_, ?_, by simp [parallelLoop, l2]⟩
    · intro i hi
      simp only [parallelLoop, List.mem_append] at hi
      rcases hi with hi | hi
      · exact g1 i hi
      · exact g2 i hi
    · simp only [parallelLoop, Stacked, true_and]
      exact ⟨y + (h + (parItem depth x (y + h) t).1.1.h), by omega, s2, stacked_ge _ _ s2⟩
end

theorem series1_good (depth x y : Nat) (cs : List T) (hw : WellFormedL cs = true) : ∀ i ∈ (series1 depth x y cs).2, goodItem i := by
  intro i hi
  simp only [series1, List.mem_append, List.mem_singleton] at hi
  rcases hi with hi | rfl
  · exact seriesLoop_good depth x y true 0 0 cs hw i hi
  · trivial

/-- **The CircuiTikZ source can be produced for every circuit whose parallel connections have at least two
branches** (everything `parse_cdc` and the builder return): the `start_y == end_y` error branch is
unreachable, for any nesting depth and width. -/
theorem tikz_total (cs : List T) (hw : WellFormedL cs = true) : ∃ cmds w, render cs = some (cmds, w) := by
  obtain ⟨c, hc⟩ := emitAll_good _ (series1_good 0 0 0 cs hw)
  exact ⟨c, (series1 0 0 0 cs).1.w, by simp [render, hc]⟩

/-- and it does fail for an object-built parallel connection with a single branch (known finding F13) -/
theorem single_branch_parallel_fails : render [.parallel [.elem 0]] = none := by decide

/-- non-vacuity / an example layout: `R(C[RW])` -/
example : WellFormedL [.elem 0, .parallel [.elem 1, .series [.elem 2, .elem 3]]] = true ∧
    (render [.elem 0, .parallel [.elem 1, .series [.elem 2, .elem 3]]]).isSome = true := by decide

end C20

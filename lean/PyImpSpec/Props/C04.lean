import PyImpSpec.Cdc.TopProof
import PyImpSpec.Cdc.RT
import PyImpSpec.Gen.Elements

/-! # C04 — `parse_cdc` is total: a circuit or a parsing error, never a crash

Model: `Cdc.parseCdc` (hand model of `Tokenizer` + `Parser.process`, Python failure semantics, tied to
`/repo` by the correspondence stream `cdc`), instantiated with the element table regenerated from the
live registry (`Gen.elemTable`).  `Cdc.fixedFlags` selects the code as it is in `/repo` now (after the
`fix:` commits for the `-` guard, the bare sub-circuit form and the version header); the other flag
values are the code as it was, kept only to replay the old defects. -/

namespace C04
open Cdc

/-- the exception classes `parse_cdc` may raise -/
def Allowed (e : PyExc) : Prop := e = .valueError ∨ ∃ n, e = .lib n

/-- **Totality.** For *every* input string, with the currently registered elements, parsing returns a
circuit or raises `ValueError` or one of the library's tokenizing/parsing errors (`.lib _`).
`TypeError`, `IndexError`, `KeyError`, `AttributeError`, `OverflowError` are unreachable, and so is the
model's out-of-fuel marker — i.e. the tokenizer loop, the parser's `while` loops and the recursive
descent all terminate. -/
theorem parse_cdc_total (input : String) :
    match parseCdc Gen.elemTable fixedFlags input with
    | .ok _ => True
    | .error e => Allowed e :=
  parseCdc_no_crash Gen.elemTable input

/-- the same for any registry contents (user-defined elements included) -/
theorem parse_cdc_total_any_registry (tbl : List ElemDef) (input : String) :
    match parseCdc tbl fixedFlags input with
    | .ok _ => True
    | .error e => Allowed e :=
  parseCdc_no_crash tbl input

/-- **Lexical half.** The tokenizer terminates on every character sequence and raises nothing but
`UnexpectedCharacter` / `ValueError` (the latter from `float()` on `1e`, `1e+`, …). -/
theorem tokenizer_total (str : List Char) :
    match tokenize true str with
    | .ok _ => True
    | .error e => e = .valueError ∨ e = .lib "UnexpectedCharacter" :=
  tokenize_total str

/-- **Stack discipline / termination of the descent.** With fuel `2 + 8·(number of tokens)` one
iteration of `Parser.main_loop` consumes at least one token and pushes exactly one circuit item on
top of an untouched stack, or raises an allowed error. This is why sub-circuits cannot capture
siblings (C03) and why every `pop_stack` in `connection`/`subcircuit` finds what it expects. -/
theorem main_loop_pushes_one (tbl : List ElemDef) (f : Nat) (s : PS) (hf : 2 + 8 * s.toks.length ≤ f) :
    match mainLoop tbl true f s with
    | .error e => Allowed e
    | .ok s' => s'.toks.length < s.toks.length ∧ ∃ c, s'.stack = .ckt c :: s.stack :=
  mainLoop_pushes_one tbl f s hf

/-- the unguarded `-` of the tree before the `fix:` commit did crash (kernel-checked replay) -/
theorem old_minus_guard_crashes : tokenize false "R-".toList = .error .typeError := by rfl

/-- non-vacuity: the `.ok` branch is inhabited — for every printable tree the token stream is accepted
and yields exactly one circuit item (the round-trip theorem of C03), e.g. `[R(C[RC])]` -/
example : ∃ c s', mainLoop demoTblRT true
      (2 + 8 * (printT (.series [.leaf "R", .parallel [.leaf "C", .series [.leaf "R", .leaf "C"]]]) ++ []).length)
      ⟨printT (.series [.leaf "R", .parallel [.leaf "C", .series [.leaf "R", .leaf "C"]]]) ++ [], []⟩ = .ok s'
      ∧ s'.stack = [.ckt c] :=
  ⟨_, _, roundtrip_structure demoTblRT _ (by simp [Printable, Printables, demoTblRT]) [] []
    (by intro t ts h; cases h), rfl⟩

end C04

import PyImpSpec.Progress
import Mathlib.Algebra.Order.Field.Basic
import Mathlib.Algebra.Order.Field.Rat
import Mathlib.Tactic.Linarith

/-! # C18 — no analysis aborts on its own bookkeeping; progress fractions lie in [0, 1]

Model: `Prog.*` (hand model of `pyimpspec/progress.py` over exact rationals; step accounting of
`perform_zhit` and `fit_circuit` transcribed from the source), tied to `/repo` by the correspondence
stream `prog` (observed `(total, #increments)` and the emitted fractions over the option cross product). -/

namespace C18
open Prog

/-- valid bookkeeping state: a positive total, `0 ≤ i ≤ total`, and `_RECENT_PROGRESS` unset or in [0,1] -/
structure Inv (s : PState) : Prop where
  pos : 0 < s.total
  lo : 0 ≤ s.i
  hi : s.i ≤ s.total
  recent : s.recent = -1 ∨ (0 ≤ s.recent ∧ s.recent ≤ 1)

theorem frac_unit (i total : Int) (h0 : 0 ≤ i) (h1 : i ≤ total) (hp : 0 < total) :
    0 ≤ (i : Rat) / (total : Rat) ∧ (i : Rat) / (total : Rat) ≤ 1 := by
  have ht : (0 : Rat) < (total : Rat) := by exact_mod_cast hp
  refine ⟨div_nonneg (by exact_mod_cast h0) ht.le, ?_⟩
  rw [div_le_one ht]
  exact_mod_cast h1

/-- the heart: one call of `_update_every_N_percent` emits a fraction in [0,1] and leaves
`_RECENT_PROGRESS` unset or in [0,1] -/
theorem updateEvery_unit (i total : Int) (recent npct : Rat) (force : Bool)
    (h0 : 0 ≤ i) (h1 : i ≤ total) (hp : 0 < total) (hn : 0 ≤ npct)
    (hr : recent = -1 ∨ (0 ≤ recent ∧ recent ≤ 1)) :
    ((updateEvery i total recent npct force).1 = -1 ∨
      (0 ≤ (updateEvery i total recent npct force).1 ∧ (updateEvery i total recent npct force).1 ≤ 1)) ∧
    ∀ p, (updateEvery i total recent npct force).2 = some p → 0 ≤ p ∧ p ≤ 1 := by
  obtain ⟨f0, f1⟩ := frac_unit i total h0 h1 hp
  have hstep : (0 : Rat) ≤ npct / 100 := div_nonneg hn (by norm_num)
  unfold updateEvery
  simp only
  -- recent0
  have hr0 : (if i = 0 then (-1 : Rat) else recent) = -1 ∨ (0 ≤ (if i = 0 then (-1 : Rat) else recent) ∧ (if i = 0 then (-1 : Rat) else recent) ≤ 1) := by
    split
    · left; rfl
    · exact hr
  generalize (if i = 0 then (-1 : Rat) else recent) = r0 at hr0 ⊢
  by_cases hc : r0 < 0 ∨ (i : Rat) / (total : Rat) ≥ r0 + npct / 100
  · simp only [hc, ↓reduceIte]
    by_cases hneg : r0 < 0
    · simp only [hneg, ↓reduceIte]
      refine ⟨?_, ?_⟩
      · split
        · left; rfl
        · right; exact ⟨le_refl _, by norm_num⟩
      · intro p hp'; simp only [Option.some.injEq] at hp'; subst hp'; exact ⟨le_refl _, by norm_num⟩
    · simp only [hneg, ↓reduceIte]
      have hge : r0 + npct / 100 ≤ (i : Rat) / (total : Rat) := by
        rcases hc with h | h
        · exact absurd h hneg
        · exact h
      have hr0' : 0 ≤ r0 := by
        rcases hr0 with h | h
        · rw [h] at hneg; exact absurd (by norm_num : (-1 : Rat) < 0) hneg
        · exact h.1
      have b0 : 0 ≤ r0 + npct / 100 := by linarith
      have b1 : r0 + npct / 100 ≤ 1 := by linarith
      refine ⟨?_, ?_⟩
      · split
        · left; rfl
        · right; exact ⟨b0, b1⟩
      · intro p hp'; simp only [Option.some.injEq] at hp'; subst hp'; exact ⟨b0, b1⟩
  · simp only [hc, ↓reduceIte]
    have hr0' : 0 ≤ r0 ∧ r0 ≤ 1 := by
      rcases hr0 with h | h
      · exfalso; apply hc; left; rw [h]; norm_num
      · exact h
    cases force
    · simp only [Bool.false_eq_true, ↓reduceIte]
      refine ⟨?_, by intro p hp'; cases hp'⟩
      split
      · left; rfl
      · right; exact hr0'
    · simp only [↓reduceIte]
      refine ⟨?_, ?_⟩
      · split
        · left; rfl
        · right; exact hr0'
      · intro p hp'; simp only [Option.some.injEq] at hp'; subst hp'; exact ⟨f0, f1⟩

/-- **Every operation** on a valid state either raises the bookkeeping `ValueError` (only when the
counter would exceed the total) or yields a valid state and a fraction in [0, 1]. -/
theorem step_unit (npct : Rat) (hn : 0 ≤ npct) (s : PState) (op : Op) (hi : Inv s)
    (hk : ∀ k f, op = .increment k f → 0 ≤ k) :
    match step npct s op with
    | .error _ => (∃ k f, op = .increment k f ∧ s.total < s.i + k) ∨ (op = .exit ∧ s.total < s.i + 1)
    | .ok (s', e) => Inv s' ∧ ∀ p, e = some p → 0 ≤ p ∧ p ≤ 1 := by
  cases op with
  | enter =>
    simp only [step]
    obtain ⟨a, b⟩ := updateEvery_unit s.i s.total s.recent npct false hi.lo hi.hi hi.pos hn hi.recent
    exact ⟨⟨hi.pos, hi.lo, hi.hi, a⟩, b⟩
  | setMessage force =>
    simp only [step]
    obtain ⟨a, b⟩ := updateEvery_unit s.i s.total s.recent npct force hi.lo hi.hi hi.pos hn hi.recent
    exact ⟨⟨hi.pos, hi.lo, hi.hi, a⟩, b⟩
  | increment k force =>
    have hk0 := hk k force rfl
    simp only [step]
    by_cases hle : s.i + k ≤ s.total
    · simp only [hle, not_true_eq_false, ↓reduceIte]
      obtain ⟨a, b⟩ := updateEvery_unit (s.i + k) s.total s.recent npct force (by have := hi.lo; omega) hle hi.pos hn hi.recent
      exact ⟨⟨hi.pos, by have := hi.lo; show 0 ≤ s.i + k; omega, hle, a⟩, b⟩
    · simp only [hle, not_false_eq_true, ↓reduceIte]
      left; exact ⟨k, force, rfl, by omega⟩
  | exit =>
    simp only [step]
    by_cases hle : s.i + 1 ≤ s.total
    · simp only [hle, not_true_eq_false, ↓reduceIte]
      obtain ⟨a, b⟩ := updateEvery_unit (s.i + 1) s.total s.recent npct false (by have := hi.lo; omega) hle hi.pos hn hi.recent
      exact ⟨⟨hi.pos, by have := hi.lo; show 0 ≤ s.i + 1; omega, hle, a⟩, b⟩
    · simp only [hle, not_false_eq_true, ↓reduceIte]
      right; exact ⟨trivial, by omega⟩

/-- run a list of operations, collecting the emitted fractions; stops at the bookkeeping error -/
def run (npct : Rat) : PState → List Op → List Rat × Bool
  | _, [] => ([], true)
  | s, op :: rest =>
    match step npct s op with
    | .error _ => ([], false)
    | .ok (s', e) => let r := run npct s' rest; (e.toList ++ r.1, r.2)

/-- **Every progress notification carries a fraction between 0 and 1**, for every sequence of
operations with non-negative step sizes from a valid initial state. -/
theorem emitted_fractions_in_unit_interval (npct : Rat) (hn : 0 ≤ npct) (s : PState) (ops : List Op) (hi : Inv s)
    (hk : ∀ op ∈ ops, ∀ k f, op = .increment k f → 0 ≤ k) :
    ∀ p ∈ (run npct s ops).1, 0 ≤ p ∧ p ≤ 1 := by
  induction ops generalizing s with
  | nil => intro p hp; simp [run] at hp
  | cons op rest ih =>
    have h1 := step_unit npct hn s op hi (fun k f h => hk op (List.mem_cons_self) k f h)
    unfold run
    cases hs : step npct s op with
    | error e => intro p hp; simp at hp
    | ok r =>
      obtain ⟨s', e⟩ := r
      rw [hs] at h1
      obtain ⟨hi', he⟩ := h1
      intro p hp
      simp only [List.mem_append] at hp
      rcases hp with hp | hp
      · cases e with
        | none => simp at hp
        | some q => simp only [Option.toList_some, List.mem_singleton] at hp; subst hp; exact he _ rfl
      · exact ih s' hi' (fun o ho => hk o (List.mem_cons_of_mem _ ho)) p hp

/-! ## the number of steps announced equals the number performed -/

/-- **`perform_zhit`**: for every combination of smoothing / interpolation / window options and custom
weights, and any number of available window functions, the counter reaches exactly the announced total
(so `increment` can never raise, and the last notification is 100 %). -/
theorem zhit_increments_eq_total (o : ZOpts) : o.increments = o.total := by
  have : o.nwActual = o.nwCounted := by
    unfold ZOpts.nwActual ZOpts.nwCounted
    cases o.customWeights <;> cases o.windowAuto <;> simp
  unfold ZOpts.increments ZOpts.total
  rw [this]

/-- the accounting of the tree before the `fix:` commit could overshoot: custom weights with
`window="auto"` and fewer than… here: no discovered window function (SciPy ≥ 1.15) gives 6 steps for an
announced total of 4 — the observed `ValueError: Expected self._i=6 <= self._total=4` -/
theorem old_zhit_accounting_overshoots :
    ¬ (ZOpts.increments ⟨false, false, true, true, 0⟩ ≤ ZOpts.totalOld ⟨false, false, true, true, 0⟩) := by decide

/-- **`fit_circuit`**: one step per (method, weight) combination plus the final one. -/
theorem fit_increments_eq_total (m w : Nat) : fitIncrements m w = fitTotal m w := rfl

/-- non-vacuity: a run of the model from a valid state emits fractions and completes -/
example : Inv ⟨0, 4, -1⟩ := ⟨by decide, by decide, by decide, Or.inl rfl⟩

end C18

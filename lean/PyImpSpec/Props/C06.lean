import PyImpSpec.Columns

/-! # C06 — writing a spectrum to a supported file layout and parsing it returns it (column detection, sweeps)

Model: `Cols.*` (hand model of `_detect_columns` and `_split_sweeps`), tied to `/repo` by the
correspondence streams `cols` and `sweeps`; the file-level round trips (separators, decimal marks,
instrument layouts) are decided by the direct oracle of the check on real temporary files (PARTIAL). -/

namespace C06
open Cols

/-- the optional sign marker of a header -/
def markers : List (List Char) := [[], ['-'], [minusSign]]

/-- how a unit suffix may begin: nothing, or (optionally after one blank) one of `(`, `/`, `[` — the
documented detection contract; anything may follow -/
def suffixStarts : List (List Char × Char) := [([' '], '('), ([], '('), ([], '/'), ([' '], '/'), ([], '[')]

/-- first quantity (in the fixed order) one of whose aliases matches the header, regardless of what has
been identified already -/
def firstMatch (col : List Char) : Option Key := keysInOrder.find? (matchesKey col)

/-- every (quantity, alias, marker, suffix start) combination, with the rendered header -/
def table : List (Key × Bool × List Char) :=
  keysInOrder.flatMap fun k => (aliases k).flatMap fun a => markers.flatMap fun m =>
    (k, !m.isEmpty, m ++ a) :: suffixStarts.map fun s => (k, !m.isEmpty, m ++ a ++ s.1 ++ [s.2])

/-- **the finite core**: for each of the 26 aliases × 3 markers × 6 suffix starts the header is claimed by
its own quantity, by no quantity earlier in the order, and the sign flag is the marker -/
theorem table_ok : table.all (fun e => firstMatch e.2.2 == some e.1 && isNegative e.2.2 == e.2.1) = true := by
  decide +kernel

/-- no alias (with or without a sign marker in front) contains one of the characters that start a unit -/
theorem no_separator_in_aliases :
    keysInOrder.all (fun k => (aliases k).all fun a => suffixStarts.all fun s =>
      !a.contains s.2 && s.2 != '-' && s.2 != minusSign) = true := by
  decide +kernel

theorem isPrefixOf_sep (a x rest : List Char) (c : Char) (hc : c ∉ a) :
    a.isPrefixOf (x ++ c :: rest) = a.isPrefixOf (x ++ [c]) := by
  induction a generalizing x with
  | nil => simp
  | cons d t ih =>
    have hd : d ≠ c := fun e => hc (by simp [e])
    have ht : c ∉ t := fun e => hc (by simp [e])
    cases x with
    | nil => simp [List.isPrefixOf, beq_eq_false_iff_ne.mpr hd]
    | cons y ys =>
      simp only [List.cons_append, List.isPrefixOf]
      rw [ih ys ht]

theorem any_congr' {α : Type} (l : List α) (f g : α → Bool) (h : ∀ a ∈ l, f a = g a) : l.any f = l.any g := by
  induction l with
  | nil => rfl
  | cons a t ih =>
    simp only [List.any_cons]
    rw [h a List.mem_cons_self, ih (fun b hb => h b (List.mem_cons_of_mem _ hb))]

theorem find_congr' {α : Type} (l : List α) (f g : α → Bool) (h : ∀ a ∈ l, f a = g a) : l.find? f = l.find? g := by
  induction l with
  | nil => rfl
  | cons a t ih =>
    simp only [List.find?_cons]
    rw [h a List.mem_cons_self, ih (fun b hb => h b (List.mem_cons_of_mem _ hb))]

theorem find_skip {α : Type} [DecidableEq α] (p : α → Bool) (S l : List α) (k : α) (h : l.find? p = some k) (hk : k ∉ S) :
    l.find? (fun x => !S.contains x && p x) = some k := by
  induction l with
  | nil => simp at h
  | cons a t ih =>
    rw [List.find?_cons] at h ⊢
    by_cases hm : p a = true
    · simp only [hm] at h
      have : a = k := by simpa using h
      subst this
      have hS : decide (a ∈ S) = false := by simpa using hk
      simp [hm, hS]
    · have hm' : p a = false := by simpa using hm
      simp only [hm'] at h
      simp only [hm', Bool.and_false]
      exact ih h

theorem alias_nonempty (k : Key) (a : List Char) (h : a ∈ aliases k) : a ≠ [] := by
  intro e
  subst e
  cases k <;> simp [aliases] at h

theorem isNegative_append (x y : List Char) (hx : x ≠ []) : isNegative (x ++ y) = isNegative x := by
  cases x with
  | nil => exact absurd rfl hx
  | cons c t => rfl

theorem matchesAlt_sep (alt x rest : List Char) (c : Char) (hc : c ∉ alt) (h1 : c ≠ '-') (h2 : c ≠ minusSign) :
    matchesAlt (x ++ c :: rest) alt = matchesAlt (x ++ [c]) alt := by
  unfold matchesAlt
  rw [isPrefixOf_sep alt x rest c hc, isPrefixOf_sep ('-' :: alt) x rest c (by simp [hc, h1]),
    isPrefixOf_sep (minusSign :: alt) x rest c (by simp [hc, h2])]

theorem matchesKey_sep (k : Key) (x rest : List Char) (s : List Char × Char) (hs : s ∈ suffixStarts) :
    matchesKey (x ++ s.2 :: rest) k = matchesKey (x ++ [s.2]) k := by
  have hk : k ∈ keysInOrder := by cases k <;> simp [keysInOrder]
  have h0 := no_separator_in_aliases
  rw [List.all_eq_true] at h0
  have h1 := h0 k hk
  rw [List.all_eq_true] at h1
  unfold matchesKey
  apply any_congr'
  intro a ha
  have h2 := h1 a ha
  rw [List.all_eq_true] at h2
  have h3 := h2 s hs
  simp only [Bool.and_eq_true, Bool.not_eq_true', bne_iff_ne, ne_eq] at h3
  have hc : s.2 ∉ a := by
    intro hm
    have : a.contains s.2 = true := by simpa using hm
    rw [h3.1.1] at this; cases this
  exact matchesAlt_sep a x rest s.2 hc h3.1.2 h3.2

/-- a header: a quantity, one of its aliases, an optional sign marker and a unit suffix -/
structure Header where
  key : Key
  alias : List Char
  marker : List Char
  suffix : Option ((List Char × Char) × List Char)     -- (how it starts, the rest)

def Header.Valid (h : Header) : Prop :=
  h.alias ∈ aliases h.key ∧ h.marker ∈ markers ∧ ∀ s, h.suffix = some s → s.1 ∈ suffixStarts

def Header.render (h : Header) : List Char :=
  match h.suffix with
  | none => h.marker ++ h.alias
  | some (s, rest) => h.marker ++ h.alias ++ s.1 ++ s.2 :: rest

theorem mem_table (h : Header) (hv : h.Valid) :
    (match h.suffix with
      | none => (h.key, !h.marker.isEmpty, h.marker ++ h.alias)
      | some (s, _) => (h.key, !h.marker.isEmpty, h.marker ++ h.alias ++ s.1 ++ [s.2])) ∈ table := by
  obtain ⟨ha, hm, hs⟩ := hv
  have hk : h.key ∈ keysInOrder := by cases h.key <;> simp [keysInOrder]
  unfold table
  simp only [List.mem_flatMap]
  refine ⟨h.key, hk, h.alias, ha, h.marker, hm, ?_⟩
  cases hsuf : h.suffix with
  | none => simp
  | some sr =>
    obtain ⟨s, rest⟩ := sr
    have := hs (s, rest) hsuf
    simp only [List.mem_cons, List.mem_map]
    right
    exact ⟨s, this, rfl⟩

/-- **One header.** Whatever has been identified before (as long as it is not this header's own quantity),
a header written as `[-|−] alias [unit suffix]` is claimed by its own quantity, and the column is flagged
as sign-inverted exactly when the marker is present. -/
theorem classify_header (h : Header) (hv : h.Valid) (identified : List Key) (hn : h.key ∉ identified) :
    classify identified h.render = some h.key ∧ isNegative h.render = !h.marker.isEmpty := by
  have hmem := mem_table h hv
  have htab := table_ok
  rw [List.all_eq_true] at htab
  -- firstMatch and the sign flag of the rendered header equal those of the table entry
  have key : firstMatch h.render = some h.key ∧ isNegative h.render = !h.marker.isEmpty := by
    cases hsuf : h.suffix with
    | none =>
      rw [hsuf] at hmem
      have := htab _ hmem
      simp only [Bool.and_eq_true, beq_iff_eq] at this
      simpa [Header.render, hsuf] using this
    | some sr =>
      obtain ⟨s, rest⟩ := sr
      rw [hsuf] at hmem
      have := htab _ hmem
      simp only [Bool.and_eq_true, beq_iff_eq] at this
      have hs := hv.2.2 (s, rest) hsuf
      have e1 : firstMatch (h.marker ++ h.alias ++ s.1 ++ s.2 :: rest) = firstMatch (h.marker ++ h.alias ++ s.1 ++ [s.2]) := by
        unfold firstMatch
        apply find_congr'
        intro k _
        exact matchesKey_sep k (h.marker ++ h.alias ++ s.1) rest s hs
      have hne : h.marker ++ h.alias ≠ [] := by
        intro e
        exact alias_nonempty h.key h.alias hv.1 (List.append_eq_nil_iff.mp e).2
      have e2 : isNegative (h.marker ++ h.alias ++ s.1 ++ s.2 :: rest) = isNegative (h.marker ++ h.alias ++ s.1 ++ [s.2]) := by
        rw [List.append_assoc (h.marker ++ h.alias), List.append_assoc (h.marker ++ h.alias),
          isNegative_append _ _ hne, isNegative_append _ _ hne]
      simp only [Header.render, hsuf]
      rw [e1, e2]
      exact this
  refine ⟨?_, key.2⟩
  -- skipping identified quantities cannot change the outcome: nothing earlier matches anyway
  exact find_skip (matchesKey h.render) identified keysInOrder h.key key.1 hn

/-- the assignment the caller expects for a header row -/
def expected : List Header → Nat → List Found
  | [], _ => []
  | h :: t, i => ⟨h.key, i, !h.marker.isEmpty⟩ :: expected t (i + 1)

theorem detectLoop_headers (hs : List Header) (i : Nat) (acc : List Found)
    (hv : ∀ h ∈ hs, h.Valid) (hd : (hs.map (·.key)).Nodup) (hacc : ∀ h ∈ hs, h.key ∉ acc.map (·.key)) :
    detectLoop (hs.map Header.render) i acc = acc ++ expected hs i := by
  induction hs generalizing i acc with
  | nil => simp [detectLoop, expected]
  | cons h t ih =>
    simp only [List.map_cons, detectLoop]
    obtain ⟨h1, h2⟩ := classify_header h (hv h List.mem_cons_self) (acc.map (·.key)) (hacc h List.mem_cons_self)
    rw [h1]
    simp only
    rw [List.map_cons, List.nodup_cons] at hd
    have hrest := ih (i + 1) (acc ++ [⟨h.key, i, isNegative h.render⟩]) (fun x hx => hv x (List.mem_cons_of_mem _ hx)) hd.2 (by
      intro x hx
      simp only [List.map_append, List.map_cons, List.map_nil, List.mem_append, List.mem_singleton, not_or]
      refine ⟨hacc x (List.mem_cons_of_mem _ hx), ?_⟩
      intro e
      exact hd.1 (List.mem_map.mpr ⟨x, hx, e⟩))
    rw [hrest]
    simp [expected, h2]

/-- **Column detection.** For every header row in which each quantity occurs at most once and every
header is one of the recognised aliases, optionally preceded by `-`/`−` and optionally followed by a unit
suffix, in any column order: every quantity is mapped to its own column and flagged as sign-inverted
exactly when its header carries the marker. -/
theorem detect_columns_correct (hs : List Header) (hv : ∀ h ∈ hs, h.Valid) (hd : (hs.map (·.key)).Nodup) :
    detectLoop (hs.map Header.render) 0 [] = expected hs 0 := by
  have := detectLoop_headers hs 0 [] hv hd (by simp)
  simpa using this


/-! ## consecutive sweeps -/

/-- strictly monotone in the given direction -/
def isRun (dec : Bool) : List Int → Prop
  | [] => True
  | [_] => True
  | a :: b :: t => (if dec then a > b else a < b) ∧ isRun dec (b :: t)

/-- the next sweep starts by breaking the direction -/
def breaks (dec : Bool) (last next : Int) : Prop := if dec then last < next else last > next

theorem sweepLen_run (dec : Bool) (f : Int) (r tail : List Int) (hr : isRun dec (f :: r))
    (ht : ∀ n t, tail = n :: t → breaks dec ((f :: r).getLast (by simp)) n) :
    sweepLen dec f (r ++ tail) = .ok (r.length + 1) := by
  induction r generalizing f with
  | nil =>
    cases tail with
    | nil => rfl
    | cons n t =>
      have hb := ht n t rfl
      simp only [List.getLast_singleton] at hb
      simp only [List.nil_append, sweepLen, List.length_nil, Nat.zero_add]
      cases dec
      · simp only [breaks, Bool.false_eq_true, ↓reduceIte] at hb ⊢
        have h1 : ¬ f < n := by omega
        simp [h1, hb]
      · simp only [breaks, ↓reduceIte] at hb ⊢
        have h1 : ¬ f > n := by omega
        simp [h1, hb]
  | cons b r ih =>
    have hr' : isRun dec (b :: r) := hr.2
    have hstep := hr.1
    have ht' : ∀ n t, tail = n :: t → breaks dec ((b :: r).getLast (by simp)) n := by
      intro n t e
      have := ht n t e
      simpa [List.getLast_cons] using this
    have := ih b hr' ht'
    simp only [List.cons_append, sweepLen, List.length_cons]
    cases dec
    · simp only [Bool.false_eq_true, ↓reduceIte] at hstep ⊢
      simp [hstep, this, Except.map]
    · simp only [↓reduceIte] at hstep ⊢
      simp [hstep, this, Except.map]

/-- the concatenation of runs `s₁ ++ … ++ s_k`, each strictly monotone in the direction `dec`, each next
one starting by breaking that direction -/
def Sweeps (dec : Bool) : List (List Int) → Prop
  | [] => True
  | [s] => s ≠ [] ∧ isRun dec s
  | s :: s' :: rest => s ≠ [] ∧ isRun dec s ∧ (∀ hs : s ≠ [], ∀ n t, s' = n :: t → breaks dec (s.getLast hs) n) ∧ Sweeps dec (s' :: rest)

theorem sweeps_nonempty (dec : Bool) : (ss : List (List Int)) → Sweeps dec ss → ∀ s ∈ ss, s ≠ []
  | [], _ => by simp
  | [s], h => by intro x hx; simp at hx; subst hx; exact h.1
  | s :: s' :: rest, h => by
    intro x hx
    rcases List.mem_cons.mp hx with rfl | hx
    · exact h.1
    · exact sweeps_nonempty dec (s' :: rest) h.2.2.2 x hx

theorem splitLoop_sweeps (dec : Bool) : (ss : List (List Int)) → Sweeps dec ss → ∀ fuel, ss.flatten.length ≤ fuel →
    splitLoop dec fuel ss.flatten = .ok ss
  | [], _, fuel, _ => by cases fuel <;> simp [splitLoop]
  | [s], h, fuel, hf => by
    obtain ⟨hne, hrun⟩ := h
    cases s with
    | nil => exact absurd rfl hne
    | cons f r =>
      cases fuel with
      | zero => simp at hf
      | succ fuel =>
        have := sweepLen_run dec f r [] hrun (by intro n t e; cases e)
        simp only [List.append_nil] at this
        simp [splitLoop, this, Except.map]
        cases fuel <;> simp [splitLoop]
  | s :: s' :: rest, h, fuel, hf => by
    obtain ⟨hne, hrun, hbr, hrest⟩ := h
    cases s with
    | nil => exact absurd rfl hne
    | cons f r =>
      cases fuel with
      | zero => simp at hf
      | succ fuel =>
        have hs'ne := sweeps_nonempty dec (s' :: rest) hrest s' List.mem_cons_self
        have hsw := sweepLen_run dec f r (s' :: rest).flatten hrun (by
          intro n t e
          cases hs' : s' with
          | nil => exact absurd hs' hs'ne
          | cons n' t' =>
            rw [hs'] at e
            simp only [List.flatten_cons, List.cons_append, List.cons.injEq] at e
            have := hbr (by simp) n' t' hs'
            rw [← e.1]; exact this)
        have hflat : (((f :: r) :: s' :: rest).flatten) = f :: (r ++ (s' :: rest).flatten) := by simp
        rw [hflat]
        simp only [splitLoop, hsw]
        have hdrop : (f :: (r ++ (s' :: rest).flatten)).drop (r.length + 1) = (s' :: rest).flatten := by simp
        have htake : (f :: (r ++ (s' :: rest).flatten)).take (r.length + 1) = f :: r := by simp
        rw [hdrop, htake]
        have hlen : (s' :: rest).flatten.length ≤ fuel := by
          simp only [List.flatten_cons, List.length_append, List.length_cons] at hf ⊢
          omega
        rw [splitLoop_sweeps dec (s' :: rest) hrest fuel hlen]
        rfl

/-- **Several consecutive sweeps.** If the rows are the concatenation of `k ≥ 1` strictly monotone runs of
the same direction (the direction of the first two rows), each next run starting by breaking that
direction, then the table is split into exactly those runs — one data set per sweep, in order. -/
theorem split_sweeps_concat (dec : Bool) (a b : Int) (r : List Int) (rest : List (List Int))
    (hdir : dec = decide (a > b)) (h : Sweeps dec ((a :: b :: r) :: rest)) :
    splitSweeps ((a :: b :: r) :: rest).flatten = .ok ((a :: b :: r) :: rest) := by
  have hflat : ((a :: b :: r) :: rest).flatten = a :: b :: (r ++ rest.flatten) := by simp
  unfold splitSweeps
  rw [hflat]
  simp only
  rw [← hdir, ← hflat]
  exact splitLoop_sweeps dec _ h _ (Nat.le_refl _)

/-- a single point is a (one-point) sweep -/
theorem split_single (f : Int) : splitSweeps [f] = .ok [[f]] := rfl

/-- **The CLI's own table is such a file**: the five column headers printed by `DataSet.to_dataframe`
(`f (Hz)`, `Re(Z) (ohm)`, `Im(Z) (ohm)`, `Mod(Z) (ohm)`, `Phase(Z) (°)`), lower-cased, are detected with
the right quantities and no sign inversion. -/
theorem cli_header_is_detected :
    detectLoop ["f (hz)".toList, "re(z) (ohm)".toList, "im(z) (ohm)".toList, "mod(z) (ohm)".toList, "phase(z) (°)".toList] 0 []
      = [⟨.frequency, 0, false⟩, ⟨.real, 1, false⟩, ⟨.imaginary, 2, false⟩, ⟨.magnitude, 3, false⟩, ⟨.phase, 4, false⟩] := by
  decide +kernel

/-- non-vacuity: a sign-inverted imaginary part with a unit, in third position -/
example : (⟨.imaginary, "z''".toList, ['-'], some (([' '], '('), "ohm)".toList)⟩ : Header).Valid ∧
    (⟨.imaginary, "z''".toList, ['-'], some (([' '], '('), "ohm)".toList)⟩ : Header).render = "-z'' (ohm)".toList := by
  refine ⟨⟨by simp [aliases], by simp [markers], ?_⟩, by decide⟩
  intro s hs
  simp only [Option.some.injEq] at hs
  subst hs
  simp [suffixStarts]

end C06

import PyImpSpec.Drt
import PyImpSpec.RQArea
import PyImpSpec.ExprC
import PyImpSpec.Gen.Kernels
import Mathlib.Analysis.SpecialFunctions.Gaussian.GaussianIntegral
import Mathlib.Analysis.SpecialFunctions.Trigonometric.Bounds
import Mathlib.Analysis.SpecialFunctions.Trigonometric.DerivHyp
import Mathlib.Analysis.SpecialFunctions.Pow.Real
import Mathlib.Tactic.Linarith
import Mathlib.Analysis.SpecialFunctions.Trigonometric.ArctanDeriv
import Mathlib.MeasureTheory.Integral.IntervalIntegral.FundThmCalculus

/-! # C13 — DRT results carry the physics: area = resistance, peaks at RC

On the kernels re-translated from `/repo` on every run.  TR-NNLS: the matrix entries are the real and the
negated imaginary part of `Δ/(1 + jωτ)`, so `A·g` is the impedance of the discretised distribution and its
zero-frequency limit is the area `Σ g Δ`; the entries depend on `ω·τ` only, the weights `Δ` sum to the
length of the ln(τ) axis and do not change when all τ are rescaled; normalisation divides out the
impedance scale.  Loewner method: a pole `−1/τ` with residue `R/τ` is reported as `(τ, R)` exactly, with the
stated scaling behaviour.  m(RQ)fit: the (RC) distribution is a Gaussian in ln τ centred at `τ₀` whose
integral over ln τ is `R`; the (RQ) distribution is positive, symmetric and maximal at `τ₀ = (R·Y)^(1/n)`,
its area over ln τ tends to `R`, and both scale linearly with `R`.  NNLS, Tikhonov regularisation, λ selection, SVD and the fits are
numerical (PARTIAL): decided by the oracle on `calculate_drt`. -/

namespace C13
open Complex

/-! ## TR-NNLS -/

def envA (ω τ Δ : ℝ) : String → ℂ :=
  fun k => if k = "omega" then (ω : ℂ) else if k = "tau" then (τ : ℂ) else if k = "delta_ln_tau" then (Δ : ℂ) else 0

theorem sq2 (z : ℂ) : z ^ (2 : ℂ) = z ^ 2 := by
  rw [show (2 : ℂ) = ((2 : ℕ) : ℂ) by norm_num, Complex.cpow_natCast]

theorem A_re_formula (ω τ Δ : ℝ) : evalC (envA ω τ Δ) Gen.K.trnnls_A_re = ((Δ / (1 + (ω * τ) ^ 2) : ℝ) : ℂ) := by
  unfold Gen.K.trnnls_A_re
  simp only [evalC, E.eval, opsC, envA, ↓reduceIte, String.reduceEq, Nat.cast_ofNat, Nat.cast_one, sq2]
  push_cast; ring

theorem A_im_formula (ω τ Δ : ℝ) : evalC (envA ω τ Δ) Gen.K.trnnls_A_im = ((ω * τ * Δ / (1 + (ω * τ) ^ 2) : ℝ) : ℂ) := by
  unfold Gen.K.trnnls_A_im
  simp only [evalC, E.eval, opsC, envA, ↓reduceIte, String.reduceEq, Nat.cast_ofNat, Nat.cast_one, sq2]
  push_cast; ring

/-- **The matrix entries are the RC kernel**: real mode = `Re`, imaginary mode = `−Im` of `Δ/(1 + jωτ)` —
the impedance (per unit of γ·Δ) of a parallel RC element with time constant `τ`. -/
theorem A_entries_are_rc_kernel (ω τ Δ : ℝ) :
    evalC (envA ω τ Δ) Gen.K.trnnls_A_re = (((Δ : ℂ) / (1 + I * ω * τ)).re : ℝ) ∧
    evalC (envA ω τ Δ) Gen.K.trnnls_A_im = ((-((Δ : ℂ) / (1 + I * ω * τ)).im : ℝ) : ℂ) := by
  rw [A_re_formula, A_im_formula]
  have hne : (1 : ℝ) + (ω * τ) ^ 2 ≠ 0 := by positivity
  have hd : (1 + I * (ω : ℂ) * (τ : ℂ)) = ⟨1, ω * τ⟩ := by
    apply Complex.ext <;> simp
  have hns : Complex.normSq (⟨1, ω * τ⟩ : ℂ) = 1 + (ω * τ) ^ 2 := by simp [Complex.normSq_mk]; ring
  constructor
  · congr 1
    rw [hd, Complex.div_re]
    simp only [Complex.ofReal_re, Complex.ofReal_im, hns]
    field_simp
    ring
  · congr 1
    rw [hd, Complex.div_im]
    simp only [Complex.ofReal_re, Complex.ofReal_im, hns]
    field_simp
    ring

/-- the model impedance of a discretised distribution `g` on the grid `(τ_k, Δ_k)` -/
noncomputable def modelZ (ω : ℝ) (grid : List (ℝ × ℝ × ℝ)) : ℂ :=
  (grid.map fun p => (p.1 : ℂ) * (p.2.2 : ℂ) / (1 + I * ω * p.2.1)).sum

/-- **Row `i` of `A·g`** (real mode) is the real part of the model impedance; in imaginary mode it is the
negated imaginary part. -/
theorem rows_are_model_impedance (ω : ℝ) (grid : List (ℝ × ℝ × ℝ)) :
    ((grid.map fun p => (p.1 : ℂ) * evalC (envA ω p.2.1 p.2.2) Gen.K.trnnls_A_re).sum = ((modelZ ω grid).re : ℝ)) ∧
    ((grid.map fun p => (p.1 : ℂ) * evalC (envA ω p.2.1 p.2.2) Gen.K.trnnls_A_im).sum = ((-(modelZ ω grid).im : ℝ) : ℂ)) := by
  unfold modelZ
  induction grid with
  | nil => simp
  | cons p t ih =>
    obtain ⟨g, τ, Δ⟩ := p
    obtain ⟨h1, h2⟩ := A_entries_are_rc_kernel ω τ Δ
    simp only [List.map_cons, List.sum_cons, Complex.add_re, Complex.add_im]
    have e : (g : ℂ) * (Δ : ℂ) / (1 + I * (ω : ℂ) * (τ : ℂ)) = (g : ℂ) * ((Δ : ℂ) / (1 + I * ω * τ)) := by ring
    constructor
    · rw [ih.1, h1, e, Complex.re_ofReal_mul]; push_cast; ring
    · rw [ih.2, h2, e, Complex.im_ofReal_mul]; push_cast; ring

/-- **Area = resistance.** At zero frequency the model impedance is the area `Σ g_k Δ_k` of the
distribution over ln τ: a fit that reproduces the low-frequency limit of the normalised spectrum (1) has
unit area, i.e. `γ = g·R_pol` integrates to the polarisation resistance. -/
theorem modelZ_zero_is_area (grid : List (ℝ × ℝ × ℝ)) :
    modelZ 0 grid = (((grid.map fun p => p.1 * p.2.2).sum : ℝ) : ℂ) := by
  unfold modelZ
  induction grid with
  | nil => simp
  | cons p t ih => simp only [List.map_cons, List.sum_cons, ih]; push_cast; simp

/-- **Scaling the frequencies.** The entries depend on `ω·τ` only: multiplying all frequencies by `c`
and dividing all time constants by `c` leaves the matrix (hence `g` and γ) unchanged. -/
theorem A_freq_scale (ω τ Δ c : ℝ) (hc : c ≠ 0) :
    evalC (envA (c * ω) (τ / c) Δ) Gen.K.trnnls_A_re = evalC (envA ω τ Δ) Gen.K.trnnls_A_re ∧
    evalC (envA (c * ω) (τ / c) Δ) Gen.K.trnnls_A_im = evalC (envA ω τ Δ) Gen.K.trnnls_A_im := by
  rw [A_re_formula, A_re_formula, A_im_formula, A_im_formula]
  have : c * ω * (τ / c) = ω * τ := by field_simp
  rw [this]
  exact ⟨rfl, rfl⟩

/-! ### the weights `Δ` -/

theorem mid_sum (prev cur : ℝ) (rest : List ℝ) :
    (Drt.mid (1 / 2 : ℝ) prev cur rest).sum = (cur :: rest).getLast (by simp) - (prev + cur) / 2 := by
  induction rest generalizing prev cur with
  | nil => simp [Drt.mid]; ring
  | cons nxt rest ih =>
    simp only [Drt.mid, List.sum_cons, ih]
    rw [List.getLast_cons (List.cons_ne_nil nxt rest)]
    ring

/-- **The weights sum to the length of the ln τ axis** (`Σ Δ_k = ln τ_last − ln τ_first`): the sum
`Σ γ_k Δ_k` is a quadrature of `∫ γ d ln τ` over the whole axis. -/
theorem deltas_sum (x0 x1 : ℝ) (rest : List ℝ) (d : List ℝ) (h : Drt.deltas (1 / 2 : ℝ) (x0 :: x1 :: rest) = some d) :
    d.sum = (x1 :: rest).getLast (by simp) - x0 := by
  simp only [Drt.deltas, Option.some.injEq] at h
  subst h
  rw [List.sum_cons, mid_sum]; ring

theorem mid_shift (c prev cur : ℝ) (rest : List ℝ) :
    Drt.mid (1 / 2 : ℝ) (prev + c) (cur + c) (rest.map (· + c)) = Drt.mid (1 / 2 : ℝ) prev cur rest := by
  induction rest generalizing prev cur with
  | nil => simp [Drt.mid]
  | cons nxt rest ih => simp only [List.map_cons, Drt.mid, ih]; congr 1; ring

/-- rescaling all time constants (adding a constant to every ln τ) leaves the weights unchanged -/
theorem deltas_shift (c : ℝ) (l : List ℝ) : Drt.deltas (1 / 2 : ℝ) (l.map (· + c)) = Drt.deltas (1 / 2 : ℝ) l := by
  match l with
  | [] => rfl
  | [_] => rfl
  | x0 :: x1 :: rest =>
    simp only [List.map_cons, Drt.deltas, mid_shift]
    congr 2; ring

/-! ### normalisation -/

/-- `_normalize_impedance`: `(Z − R_inf)/R_pol`, `R_inf = Re Z[0]`, `R_pol = Re Z[-1] − Re Z[0]`
(the statements of the function are compared verbatim by the translator) -/
noncomputable def normalize (Z0 Zl : ℂ) (Z : ℂ) : ℂ × ℝ × ℝ :=
  ((Z - (Z0.re : ℂ)) / ((Zl.re - Z0.re : ℝ) : ℂ), Z0.re, Zl.re - Z0.re)

/-- **Scaling the impedance** by `c ≠ 0` leaves the normalised spectrum unchanged and multiplies `R_inf` and
`R_pol` — hence `γ = g·R_pol` — by `c`. -/
theorem normalize_scale (Z0 Zl Z : ℂ) (c : ℝ) (hc : c ≠ 0) (hp : Zl.re - Z0.re ≠ 0) :
    normalize ((c : ℂ) * Z0) ((c : ℂ) * Zl) ((c : ℂ) * Z) =
      ((normalize Z0 Zl Z).1, c * (normalize Z0 Zl Z).2.1, c * (normalize Z0 Zl Z).2.2) := by
  unfold normalize
  simp only [Complex.re_ofReal_mul, Prod.mk.injEq]
  refine ⟨?_, trivial, by ring⟩
  have hcc : (c : ℂ) ≠ 0 := by exact_mod_cast hc
  have hpp : ((Zl.re - Z0.re : ℝ) : ℂ) ≠ 0 := by exact_mod_cast hp
  have : ((c * Zl.re - c * Z0.re : ℝ) : ℂ) = (c : ℂ) * ((Zl.re - Z0.re : ℝ) : ℂ) := by push_cast; ring
  rw [this]
  push_cast
  field_simp

/-! ## Loewner method -/

def envL (lam res : ℂ) : String → ℂ := fun k => if k = "lambda" then lam else if k = "residue" then res else 0

theorem lm_tau_formula (lam res : ℂ) : evalC (envL lam res) Gen.K.lm_tau = ((‖-1 / lam‖ : ℝ) : ℂ) := by
  unfold Gen.K.lm_tau
  simp only [evalC, E.eval, opsC, envL, ↓reduceIte, Nat.cast_one]
  congr 2

theorem lm_gamma_formula (lam res : ℂ) : evalC (envL lam res) Gen.K.lm_gamma = (((-res / lam).re : ℝ) : ℂ) := by
  unfold Gen.K.lm_gamma
  simp only [evalC, E.eval, opsC, envL, ↓reduceIte, String.reduceEq]
  rw [div_eq_mul_inv]

/-- partial fractions: a parallel RC element is a simple pole at `−1/τ` with residue `R/τ` -/
theorem rc_is_pole (R τ : ℝ) (s : ℂ) (hτ : τ ≠ 0) (hs : 1 + s * τ ≠ 0) :
    (R : ℂ) / (1 + s * τ) = ((R / τ : ℝ) : ℂ) / (s - ((-1 / τ : ℝ) : ℂ)) := by
  have hτ' : (τ : ℂ) ≠ 0 := by exact_mod_cast hτ
  have h2 : s - ((-1 / τ : ℝ) : ℂ) ≠ 0 := by
    intro h
    apply hs
    have : s = ((-1 / τ : ℝ) : ℂ) := sub_eq_zero.mp h
    rw [this]; push_cast; field_simp; ring
  rw [div_eq_div_iff hs h2]
  push_cast
  field_simp
  ring

/-- **Every (τ_k, R_k) pair is reported exactly**: for the pole `−1/τ` and residue `R/τ` of a parallel RC
element, `_extract_peaks` returns the time constant `τ` and the resistance `R`. -/
theorem lm_recovers_pair (R τ : ℝ) (hτ : 0 < τ) :
    evalC (envL ((-1 / τ : ℝ) : ℂ) ((R / τ : ℝ) : ℂ)) Gen.K.lm_tau = (τ : ℂ) ∧
    evalC (envL ((-1 / τ : ℝ) : ℂ) ((R / τ : ℝ) : ℂ)) Gen.K.lm_gamma = (R : ℂ) := by
  rw [lm_tau_formula, lm_gamma_formula]
  have hτ' : τ ≠ 0 := hτ.ne'
  have hτc : (τ : ℂ) ≠ 0 := by exact_mod_cast hτ'
  constructor
  · congr 1
    have : (-1 : ℂ) / ((-1 / τ : ℝ) : ℂ) = ((τ : ℝ) : ℂ) := by push_cast; field_simp
    rw [this, Complex.norm_real, Real.norm_of_nonneg hτ.le]
  · congr 1
    have : -((R / τ : ℝ) : ℂ) / ((-1 / τ : ℝ) : ℂ) = ((R : ℝ) : ℂ) := by push_cast; field_simp
    rw [this, Complex.ofReal_re]

/-- **Scaling.** Multiplying the impedance by `c` multiplies every residue by `c`: γ scales, τ does not.
Multiplying the frequencies by `c` maps pole `λ ↦ cλ` and residue `ρ ↦ cρ`: τ scales inversely, γ does not. -/
theorem lm_scaling (lam res : ℂ) (c : ℝ) (hc : 0 < c) :
    evalC (envL lam ((c : ℂ) * res)) Gen.K.lm_gamma = (c : ℂ) * evalC (envL lam res) Gen.K.lm_gamma ∧
    evalC (envL lam ((c : ℂ) * res)) Gen.K.lm_tau = evalC (envL lam res) Gen.K.lm_tau ∧
    evalC (envL ((c : ℂ) * lam) ((c : ℂ) * res)) Gen.K.lm_gamma = evalC (envL lam res) Gen.K.lm_gamma ∧
    evalC (envL ((c : ℂ) * lam) res) Gen.K.lm_tau = ((1 / c : ℝ) : ℂ) * evalC (envL lam res) Gen.K.lm_tau := by
  have hcc : (c : ℂ) ≠ 0 := by exact_mod_cast hc.ne'
  simp only [lm_tau_formula, lm_gamma_formula]
  refine ⟨?_, trivial, ?_, ?_⟩
  · rw [show -((c : ℂ) * res) / lam = (c : ℂ) * (-res / lam) by ring, Complex.re_ofReal_mul]; push_cast; ring
  · congr 2
    by_cases hl : lam = 0
    · simp [hl]
    · field_simp
  · rw [show (-1 : ℂ) / ((c : ℂ) * lam) = ((1 / c : ℝ) : ℂ) * (-1 / lam) by push_cast; field_simp]
    rw [norm_mul, Complex.norm_real, Real.norm_of_nonneg (by positivity)]
    push_cast; ring

/-! ## m(RQ)fit -/

def envM (R W n τ τ0 : ℝ) : String → ℂ :=
  fun k => if k = "R" then (R : ℂ) else if k = "W" then (W : ℂ) else if k = "n" then (n : ℂ) else if k = "tau" then (τ : ℂ)
    else if k = "tau_0" then (τ0 : ℂ) else 0

theorem sqrt_pi : (Real.pi : ℂ) ^ ((1 : ℂ) / 2) = ((Real.sqrt Real.pi : ℝ) : ℂ) := by
  rw [Real.sqrt_eq_rpow, Complex.ofReal_cpow Real.pi_pos.le]; push_cast; rfl

theorem log_ratio (τ0 x : ℝ) (h0 : 0 < τ0) :
    Complex.log (((τ0 * Real.exp x : ℝ) : ℂ) * ((τ0 : ℝ) : ℂ)⁻¹) = (x : ℂ) := by
  have h0c : (τ0 : ℂ) ≠ 0 := by exact_mod_cast h0.ne'
  have : ((τ0 * Real.exp x : ℝ) : ℂ) * ((τ0 : ℝ) : ℂ)⁻¹ = ((Real.exp x : ℝ) : ℂ) := by
    push_cast; field_simp
  rw [this, ← Complex.ofReal_log (Real.exp_pos x).le, Real.log_exp]

/-- the (RC) contribution on the ln τ axis (`τ = τ₀·eˣ`): a Gaussian of width `W` centred at `τ₀` -/
theorem mrq_rc_formula (R W τ0 x : ℝ) (h0 : 0 < τ0) :
    evalC (envM R W 1 (τ0 * Real.exp x) τ0) Gen.K.mrq_gamma_rc
      = ((R / (W * Real.sqrt Real.pi) * Real.exp (-(x / W) ^ 2) : ℝ) : ℂ) := by
  unfold Gen.K.mrq_gamma_rc
  simp only [evalC, E.eval, opsC, envM, ↓reduceIte, String.reduceEq, Nat.cast_ofNat, Nat.cast_one, sq2, mul_one]
  rw [log_ratio τ0 x h0, sqrt_pi]
  push_cast
  ring_nf

/-- **The (RC) distribution integrates over ln τ to the element's resistance.** -/
theorem mrq_rc_area (R W : ℝ) (hW : 0 < W) :
    ∫ x : ℝ, R / (W * Real.sqrt Real.pi) * Real.exp (-(x / W) ^ 2) = R := by
  have hg := integral_gaussian (1 / W ^ 2)
  have : ∀ x : ℝ, R / (W * Real.sqrt Real.pi) * Real.exp (-(x / W) ^ 2)
      = R / (W * Real.sqrt Real.pi) * Real.exp (-(1 / W ^ 2) * x ^ 2) := by
    intro x; congr 2; field_simp
  simp_rw [this]
  rw [MeasureTheory.integral_const_mul, hg]
  have hπ : 0 < Real.sqrt Real.pi := Real.sqrt_pos.mpr Real.pi_pos
  rw [show Real.pi / (1 / W ^ 2) = Real.pi * W ^ 2 by field_simp, Real.sqrt_mul Real.pi_pos.le, Real.sqrt_sq hW.le]
  field_simp

/-- the (RC) Gaussian is maximal at `τ = τ₀` -/
theorem mrq_rc_peak (R W x : ℝ) (hR : 0 ≤ R) (hW : 0 < W) :
    R / (W * Real.sqrt Real.pi) * Real.exp (-(x / W) ^ 2) ≤ R / (W * Real.sqrt Real.pi) * Real.exp (-(0 / W) ^ 2) := by
  have hπ : 0 < Real.sqrt Real.pi := Real.sqrt_pos.mpr Real.pi_pos
  apply mul_le_mul_of_nonneg_left _ (by positivity)
  apply Real.exp_le_exp.mpr
  simp only [zero_div, ne_eq, OfNat.ofNat_ne_zero, not_false_eq_true, zero_pow, neg_zero, Left.neg_nonpos_iff]
  positivity

/-- the (RQ) contribution on the ln τ axis -/
theorem mrq_rq_formula (R n τ0 x : ℝ) (h0 : 0 < τ0) :
    evalC (envM R 0 n (τ0 * Real.exp x) τ0) Gen.K.mrq_gamma_rq
      = ((R / (2 * Real.pi) * Real.sin ((1 - n) * Real.pi) / (Real.cosh (n * x) - Real.cos ((1 - n) * Real.pi)) : ℝ) : ℂ) := by
  unfold Gen.K.mrq_gamma_rq
  simp only [evalC, E.eval, opsC, envM, ↓reduceIte, String.reduceEq, Nat.cast_ofNat, Nat.cast_one]
  rw [log_ratio τ0 x h0]
  push_cast
  rw [show (1 : ℂ) + -(n : ℂ) = 1 - n by ring]
  ring

/-- **The (RQ) distribution is positive, symmetric about τ₀ on the ln τ axis and maximal at τ₀** (for
`0 < n < 1`, `R > 0`): its peak sits at the characteristic time constant. -/
theorem mrq_rq_shape (R n x : ℝ) (hR : 0 < R) (hn0 : 0 < n) (hn1 : n < 1) :
    let g := fun y : ℝ => R / (2 * Real.pi) * Real.sin ((1 - n) * Real.pi) / (Real.cosh (n * y) - Real.cos ((1 - n) * Real.pi))
    0 < g x ∧ g (-x) = g x ∧ g x ≤ g 0 := by
  intro g
  have hπ := Real.pi_pos
  have hs : 0 < Real.sin ((1 - n) * Real.pi) := by
    apply Real.sin_pos_of_pos_of_lt_pi
    · nlinarith
    · nlinarith
  have hc : Real.cos ((1 - n) * Real.pi) < 1 := by
    apply lt_of_le_of_ne (Real.cos_le_one _)
    intro h
    have := (Real.cos_eq_one_iff_of_lt_of_lt (by nlinarith) (by nlinarith)).mp h
    nlinarith
  have hcosh : ∀ y : ℝ, 1 ≤ Real.cosh y := Real.one_le_cosh
  have hden : ∀ y : ℝ, 0 < Real.cosh (n * y) - Real.cos ((1 - n) * Real.pi) := fun y => by linarith [hcosh (n * y)]
  refine ⟨?_, ?_, ?_⟩
  · exact div_pos (by positivity) (hden x)
  · simp only [g, mul_neg, Real.cosh_neg]
  · simp only [g, mul_zero, Real.cosh_zero]
    apply div_le_div_of_nonneg_left (by positivity) (by linarith) (by linarith [hcosh (n * x)])

/-- the characteristic time constant of a parallel RC element is `R·C` (`n = 1`) -/
theorem mrq_tau0_rc (R C : ℝ) :
    evalC (fun k => if k = "R" then (R : ℂ) else if k = "Y" then (C : ℂ) else if k = "n" then 1 else 0) Gen.K.mrq_tau0 = ((R * C : ℝ) : ℂ) := by
  unfold Gen.K.mrq_tau0
  simp only [evalC, E.eval, opsC, ↓reduceIte, String.reduceEq, Nat.cast_one, inv_one, mul_one, Complex.cpow_one]
  push_cast; rfl

/-- both distributions are linear in `R`: scaling the impedance scales γ -/
theorem mrq_scale (R W n τ τ0 c : ℝ) :
    evalC (envM (c * R) W n τ τ0) Gen.K.mrq_gamma_rc = (c : ℂ) * evalC (envM R W n τ τ0) Gen.K.mrq_gamma_rc ∧
    evalC (envM (c * R) W n τ τ0) Gen.K.mrq_gamma_rq = (c : ℂ) * evalC (envM R W n τ τ0) Gen.K.mrq_gamma_rq := by
  unfold Gen.K.mrq_gamma_rc Gen.K.mrq_gamma_rq
  simp only [evalC, E.eval, opsC, envM, ↓reduceIte, String.reduceEq]
  push_cast
  constructor <;> ring

theorem all_drt_kernels_covered :
    Gen.K.drtKernels = ["trnnls_A", "trnnls_b(shape)", "trnnls_normalize(shape)", "lm_peaks", "mrq_gamma"] := by decide

/-! ### the area of the (RQ) distribution -/

/-- **The (RQ) distribution of `_calculate_tau_gamma` integrates over ln τ to the element's resistance**:
the area of the translated term over the window `[τ₀e^{-T}, τ₀e^{T}]` tends to `R` as the window grows
(`0 < n < 1`, `τ₀ > 0`). -/
theorem mrq_rq_area (R n τ0 : ℝ) (h0 : 0 < n) (h1 : n < 1) (hτ : 0 < τ0) :
    Filter.Tendsto (fun T : ℝ => ∫ x in (-T)..T, (evalC (envM R 0 n (τ0 * Real.exp x) τ0) Gen.K.mrq_gamma_rq).re)
      Filter.atTop (nhds R) := by
  have : (fun T : ℝ => ∫ x in (-T)..T, (evalC (envM R 0 n (τ0 * Real.exp x) τ0) Gen.K.mrq_gamma_rq).re)
      = fun T : ℝ => ∫ x in (-T)..T, RQ.g R n x := by
    funext T
    congr 1
    funext x
    rw [mrq_rq_formula R n τ0 x hτ, Complex.ofReal_re]
    rfl
  rw [this]
  exact RQ.area_tendsto R n h0 h1

end C13

import PyImpSpec.Cli
import PyImpSpec.Props.C05

/-! # C19 — the command-line interface reports what the API computes

Proved on the model of the CLI's own logic (the part that is not a plain call into the API):
`apply_filters` masks exactly the points above the low-pass cut-off, below the high-pass cut-off or listed
in the excluded indices — on top of the existing mask, leaving frequencies and impedances alone — and
fails exactly when nothing is left; `_parse_identity` maps a specifier `ID:key=value,...` to `ID` and
exactly those keyword arguments for every identifier (plain names and circuit description codes whose
colons sit inside brackets) and every list of distinct valid keys, and leaves a specifier without
keyword arguments untouched.  That the printed numbers are the API's numbers (pandas formatting, argparse,
the sub-commands' calls) is decided by the oracle that runs the real CLI in-process (PARTIAL). -/

namespace C19
open Cli DataSet

/-! ## filters -/

theorem fold_true (l : List Int) (i : Int) (old : Bool) :
    (l.map fun k => (k, true)).foldl (fun acc p => if p.1 = i then p.2 else acc) old = (old || l.contains i) := by
  induction l generalizing old with
  | nil => simp
  | cons k t ih =>
    simp only [List.map_cons, List.foldl_cons, ih, List.contains_cons]
    by_cases h : k = i
    · subst h; simp
    · have h' : (i == k) = false := by simpa using fun e => h e.symm
      simp [h, h']

/-- `set_mask({i: True for i in indices})` with a non-empty list adds those indices to the mask -/
theorem setMask_exclude (d : DS) (l : List Int) (hl : l ≠ []) :
    d.setMask (l.map fun i => (i, true)) =
      { d with mask := (List.range d.mask.length).map fun (i : Nat) => (d.mask.getD i false || l.contains (i : Int)) } := by
  unfold DS.setMask
  have : (l.map fun i => (i, true)).isEmpty = false := by cases l <;> simp_all
  rw [this]
  simp only [Bool.false_eq_true, ↓reduceIte, updateMask, fold_true]

/-- the mask `apply_filters` leaves behind -/
def filteredMask (d : DS) (a : FilterArgs) : List Bool :=
  (List.range d.freqs.length).map fun (i : Nat) =>
    (d.mask.getD i false || (decide (a.lowCut > 0) && decide (d.freqs.getD i 0 > a.lowCut))
      || (decide (a.highCut > 0) && decide (d.freqs.getD i 0 < a.highCut)) || a.exclude.contains (i : Int))

theorem getD_map_range (n : Nat) (g : Nat → Bool) (i : Nat) (hi : i < n) : ((List.range n).map g).getD i false = g i := by
  simp [List.getD_eq_getElem?_getD, hi]

theorem stage2_spec (d : DS) (a : FilterArgs) (hi : C05.Inv d) :
    (stage2 d a).freqs = d.freqs ∧ (stage2 d a).imps = d.imps ∧
    (stage2 d a).mask = (List.range d.freqs.length).map fun (i : Nat) => (d.mask.getD i false || (decide (a.lowCut > 0) && decide (d.freqs.getD i 0 > a.lowCut))
        || (decide (a.highCut > 0) && decide (d.freqs.getD i 0 < a.highCut))) := by
  have hm := hi.mask
  have h1 : ∀ d1 : DS, d1 = (if a.lowCut > 0 then d.lowPass a.lowCut else d) → d1.freqs = d.freqs ∧ d1.imps = d.imps ∧
      d1.mask = (List.range d.freqs.length).map fun (i : Nat) => (d.mask.getD i false || (decide (a.lowCut > 0) && decide (d.freqs.getD i 0 > a.lowCut))) := by
    intro d1 hd1
    by_cases hl : a.lowCut > 0
    · rw [hd1, if_pos hl, C05.lowPass_mask d hi]
      refine ⟨rfl, rfl, ?_⟩
      apply List.map_congr_left
      intro i _
      generalize d.mask.getD i false = m
      by_cases hf : d.freqs.getD i 0 > a.lowCut <;> cases m <;> simp [hl, hf]
    · rw [hd1, if_neg hl]
      refine ⟨rfl, rfl, ?_⟩
      rw [← hm]
      conv => lhs; rw [← C05.map_getD_range d.mask]
      apply List.map_congr_left
      intro i _
      simp [hl]
  obtain ⟨f1, i1, m1⟩ := h1 _ rfl
  have hi1 : C05.Inv (if a.lowCut > 0 then d.lowPass a.lowCut else d) :=
    (C05.inv_of_shape d _ hi f1 (by rw [i1]) (by rw [m1]; simp [hm])).1
  unfold stage2
  by_cases hh : a.highCut > 0
  · simp only [hh, ↓reduceIte]
    rw [C05.highPass_mask _ hi1]
    refine ⟨f1, i1, ?_⟩
    simp only [f1]
    apply List.map_congr_left
    intro i hir
    have hlt : i < d.freqs.length := by simpa using hir
    rw [m1, getD_map_range _ _ _ hlt]
    generalize (d.mask.getD i false || decide (a.lowCut > 0) && decide (d.freqs.getD i 0 > a.lowCut)) = m
    by_cases hf : d.freqs.getD i 0 < a.highCut <;> cases m <;> simp [hh, hf]
  · simp only [hh, ↓reduceIte]
    refine ⟨f1, i1, ?_⟩
    rw [m1]
    apply List.map_congr_left
    intro i _
    simp [hh]

theorem stage3_spec (d : DS) (a : FilterArgs) (hi : C05.Inv d) :
    (stage3 d a).freqs = d.freqs ∧ (stage3 d a).imps = d.imps ∧ (stage3 d a).mask = filteredMask d a := by
  obtain ⟨f2, i2, m2⟩ := stage2_spec d a hi
  unfold stage3
  by_cases he : a.exclude.length > 0
  · have hne : a.exclude ≠ [] := by intro e; rw [e] at he; simp at he
    rw [if_pos he, setMask_exclude _ _ hne]
    refine ⟨f2, i2, ?_⟩
    simp only [m2, List.length_map, List.length_range]
    unfold filteredMask
    apply List.map_congr_left
    intro i hir
    have hlt : i < d.freqs.length := by simpa using hir
    rw [getD_map_range _ _ _ hlt]
  · have hnil : a.exclude = [] := by
      cases hx : a.exclude with
      | nil => rfl
      | cons x t => rw [hx] at he; simp at he
    rw [if_neg he]
    refine ⟨f2, i2, ?_⟩
    rw [m2]
    unfold filteredMask
    apply List.map_congr_left
    intro i _
    simp [hnil]

/-- **`apply_filters` masks exactly the points above the low-pass cut-off, below the high-pass cut-off or
with an excluded index, keeps what was masked before, and touches neither frequencies nor impedances.** -/
theorem applyFilters_ok (d : DS) (a : FilterArgs) (hi : C05.Inv d) (d' : DS) (h : applyFilters d a = .ok d') :
    d'.freqs = d.freqs ∧ d'.imps = d.imps ∧ d'.mask = filteredMask d a := by
  unfold applyFilters at h
  by_cases h1 : numPoints (stage2 d a) < 1
  · rw [if_pos h1] at h; cases h
  · rw [if_neg h1] at h
    by_cases h2 : numPoints (stage3 d a) < 1
    · rw [if_pos h2] at h; cases h
    · rw [if_neg h2] at h
      simp only [Except.ok.injEq] at h
      rw [← h]; exact stage3_spec d a hi

/-- a result is returned only when at least one point is left; otherwise `ValueError` -/
theorem applyFilters_leaves_points (d : DS) (a : FilterArgs) (d' : DS) (h : applyFilters d a = .ok d') : 1 ≤ numPoints d' := by
  unfold applyFilters at h
  by_cases h1 : numPoints (stage2 d a) < 1
  · rw [if_pos h1] at h; cases h
  · rw [if_neg h1] at h
    by_cases h2 : numPoints (stage3 d a) < 1
    · rw [if_pos h2] at h; cases h
    · rw [if_neg h2] at h
      simp only [Except.ok.injEq] at h
      rw [← h]; omega

theorem applyFilters_error_iff (d : DS) (a : FilterArgs) :
    (∃ e, applyFilters d a = .error e) ↔ (numPoints (stage2 d a) = 0 ∨ numPoints (stage3 d a) = 0) := by
  unfold applyFilters
  by_cases h1 : numPoints (stage2 d a) < 1
  · rw [if_pos h1]; constructor
    · intro _; left; omega
    · intro _; exact ⟨_, rfl⟩
  · rw [if_neg h1]
    by_cases h2 : numPoints (stage3 d a) < 1
    · rw [if_pos h2]; constructor
      · intro _; right; omega
      · intro _; exact ⟨_, rfl⟩
    · rw [if_neg h2]; constructor
      · rintro ⟨e, he⟩; cases he
      · rintro (h | h) <;> omega

/-! ## the mock-data specifier -/

theorem rfindAux_absent (c : Char) (s : List Char) (i : Nat) (acc : Int) (h : c ∉ s) : rfindAux c s i acc = acc := by
  induction s generalizing i acc with
  | nil => rfl
  | cons x t ih =>
    simp only [List.mem_cons, not_or] at h
    simp only [rfindAux]
    rw [if_neg (fun e => h.1 e.symm)]
    exact ih _ _ h.2

theorem rfindAux_last (c : Char) (a b : List Char) (i : Nat) (acc : Int) (h : c ∉ b) :
    rfindAux c (a ++ c :: b) i acc = ((i + a.length : Nat) : Int) := by
  induction a generalizing i acc with
  | nil => simp [rfindAux, rfindAux_absent c b _ _ h]
  | cons x t ih =>
    simp only [List.cons_append, rfindAux, List.length_cons]
    rw [ih]; congr 1; omega

theorem rfindAux_lt (c : Char) (s : List Char) (i : Nat) (acc : Int) (hacc : acc < (i : Int) + s.length) :
    rfindAux c s i acc < (i : Int) + s.length := by
  induction s generalizing i acc with
  | nil => simpa [rfindAux] using hacc
  | cons x t ih =>
    simp only [rfindAux, List.length_cons]
    simp only [List.length_cons] at hacc
    push_cast at hacc
    have := ih (i + 1) (if x = c then (i : Int) else acc) (by split <;> push_cast <;> omega)
    push_cast at this ⊢; omega

theorem rfindAux_append_absent (c : Char) (a b : List Char) (i : Nat) (acc : Int) (h : c ∉ b) :
    rfindAux c (a ++ b) i acc = rfindAux c a i acc := by
  induction a generalizing i acc with
  | nil => simp [rfindAux, rfindAux_absent c b _ _ h]
  | cons x t ih => simp only [List.cons_append, rfindAux, ih]

theorem splitOn_absent (c : Char) (s : List Char) (h : c ∉ s) : splitOn c s = [s] := by
  induction s with
  | nil => rfl
  | cons x t ih =>
    simp only [List.mem_cons, not_or] at h
    simp only [splitOn]
    rw [if_neg (fun e => h.1 e.symm), ih h.2]

theorem splitOn_append (c : Char) (a b : List Char) (h : c ∉ a) : splitOn c (a ++ c :: b) = a :: splitOn c b := by
  induction a with
  | nil => simp [splitOn]
  | cons x t ih =>
    simp only [List.mem_cons, not_or] at h
    simp only [List.cons_append, splitOn]
    rw [if_neg (fun e => h.1 e.symm), ih h.2]

/-- text without surrounding white space is not changed by `str.strip()` -/
theorem lstrip_id (s : List Char) (h : ∀ x, s.head? = some x → isSpace x = false) : lstrip s = s := by
  cases s with
  | nil => rfl
  | cons x t => simp [lstrip, h x rfl]

theorem strip_id (s : List Char) (h1 : ∀ x, s.head? = some x → isSpace x = false)
    (h2 : ∀ x, s.reverse.head? = some x → isSpace x = false) : strip s = s := by
  unfold strip
  rw [lstrip_id s h1, lstrip_id s.reverse h2, List.reverse_reverse]

/-- a value as it may appear in a specifier: none of the separators, no trailing white space -/
structure CleanVal (v : List Char) : Prop where
  noComma : ',' ∉ v
  noEq : '=' ∉ v
  noColon : ':' ∉ v
  noBrace : '}' ∉ v
  noBracket : ']' ∉ v
  noParen : ')' ∉ v
  trimmedEnd : ∀ x, v.reverse.head? = some x → isSpace x = false

/-- `key=value` joined with commas -/
def renderArgs : List (List Char × List Char) → List Char
  | [] => []
  | (k, v) :: rest => match rest with
    | [] => k ++ '=' :: v
    | _ :: _ => (k ++ '=' :: v) ++ ',' :: renderArgs rest

theorem renderArgs_single (k v : List Char) : renderArgs [(k, v)] = k ++ '=' :: v := rfl
theorem renderArgs_cons2 (k v : List Char) (q : List Char × List Char) (t : List (List Char × List Char)) :
    renderArgs ((k, v) :: q :: t) = (k ++ '=' :: v) ++ ',' :: renderArgs (q :: t) := rfl
theorem parseArgs_cons (arg : List Char) (rest : List (List Char)) (kw : List (List Char × List Char)) :
    parseArgs (arg :: rest) kw = (match argStep arg kw with
      | .error e => .error e
      | .ok kw' => parseArgs rest kw') := rfl

theorem key_facts (k : List Char) (hk : kwargKeys.contains k = true) :
    ',' ∉ k ∧ '=' ∉ k ∧ ':' ∉ k ∧ '}' ∉ k ∧ ']' ∉ k ∧ ')' ∉ k ∧ (∀ x, k.head? = some x → isSpace x = false) ∧ k ≠ [] := by
  simp only [kwargKeys, List.contains_cons, List.contains_nil, Bool.or_false, Bool.or_eq_true, beq_iff_eq] at hk
  rcases hk with h | h | h | h | h | h <;> subst h <;> decide

theorem render_no (c : Char) (hc1 : c ≠ ',') (hc2 : c ≠ '=') (kw : List (List Char × List Char))
    (hk : ∀ p ∈ kw, c ∉ p.1 ∧ c ∉ p.2) : c ∉ renderArgs kw := by
  induction kw with
  | nil => simp [renderArgs]
  | cons p t ih =>
    obtain ⟨k, v⟩ := p
    have hp := hk (k, v) List.mem_cons_self
    have ht := ih (fun q hq => hk q (List.mem_cons_of_mem _ hq))
    cases t with
    | nil =>
      rw [renderArgs_single]
      simp only [List.mem_append, List.mem_cons, not_or]
      exact ⟨hp.1, hc2, hp.2⟩
    | cons q t' =>
      rw [renderArgs_cons2]
      simp only [List.mem_append, List.mem_cons, not_or]
      exact ⟨⟨hp.1, hc2, hp.2⟩, hc1, ht⟩

theorem setKw_new (kw : List (List Char × List Char)) (k v : List Char) (h : ∀ p ∈ kw, p.1 ≠ k) : setKw kw k v = kw ++ [(k, v)] := by
  unfold setKw
  have : kw.any (fun p => decide (p.1 = k)) = false := by
    rw [List.any_eq_false]; intro p hp; simpa using h p hp
  rw [this]; rfl

/-- one `key=value` argument is read back -/
theorem parseArgs_step (k v : List Char) (rest : List (List Char)) (acc : List (List Char × List Char))
    (hk : kwargKeys.contains k = true) (hv : CleanVal v) (hacc : ∀ p ∈ acc, p.1 ≠ k) :
    parseArgs ((k ++ '=' :: v) :: rest) acc = parseArgs rest (acc ++ [(k, v)]) := by
  have hkf := key_facts k hk
  have hstrip : strip (k ++ '=' :: v) = k ++ '=' :: v := by
    apply strip_id
    · intro x hx
      cases hkk : k with
      | nil => exact absurd hkk hkf.2.2.2.2.2.2.2
      | cons a b =>
        rw [hkk] at hx
        simp only [List.cons_append, List.head?_cons, Option.some.injEq] at hx
        subst hx
        exact hkf.2.2.2.2.2.2.1 a (by rw [hkk]; rfl)
    · intro x hx
      simp only [List.reverse_append, List.reverse_cons, List.append_assoc] at hx
      cases hvr : v.reverse with
      | nil =>
        rw [hvr] at hx
        simp only [List.nil_append, List.cons_append, List.head?_cons, Option.some.injEq] at hx
        subst hx; decide
      | cons a b =>
        rw [hvr] at hx
        simp only [List.cons_append, List.head?_cons, Option.some.injEq] at hx
        subst hx
        exact hv.trimmedEnd a (by rw [hvr]; rfl)
  have hsplit : splitOn '=' (k ++ '=' :: v) = [k, v] := by
    rw [splitOn_append '=' k v hkf.2.1, splitOn_absent '=' v hv.noEq]
  rw [parseArgs_cons]
  unfold argStep
  rw [hstrip, hsplit]
  simp only [hk, ↓reduceIte]
  rw [setKw_new acc k v hacc]

/-- the argument loop reads back what `renderArgs` wrote -/
theorem parseArgs_render (kw acc : List (List Char × List Char)) (hne : kw ≠ [])
    (hkeys : ∀ p ∈ kw, kwargKeys.contains p.1 = true) (hvals : ∀ p ∈ kw, CleanVal p.2)
    (hnd : (kw.map (·.1)).Nodup) (hacc : ∀ p ∈ acc, ∀ q ∈ kw, p.1 ≠ q.1) :
    parseArgs (splitOn ',' (renderArgs kw)) acc = .ok (acc ++ kw) := by
  induction kw generalizing acc with
  | nil => exact absurd rfl hne
  | cons p t ih =>
    obtain ⟨k, v⟩ := p
    have hk := hkeys (k, v) List.mem_cons_self
    have hkf := key_facts k hk
    have hv := hvals (k, v) List.mem_cons_self
    have hno : ',' ∉ k ++ '=' :: v := by
      simp only [List.mem_append, List.mem_cons, not_or]; exact ⟨hkf.1, by decide, hv.noComma⟩
    have hacck : ∀ p ∈ acc, p.1 ≠ k := fun p hp => hacc p hp (k, v) List.mem_cons_self
    cases t with
    | nil =>
      rw [renderArgs_single, splitOn_absent ',' _ hno, parseArgs_step k v [] acc hk hv hacck]
      rfl
    | cons q t' =>
      rw [renderArgs_cons2, splitOn_append ',' _ _ hno, parseArgs_step k v _ acc hk hv hacck]
      have hnd' : ((q :: t').map (·.1)).Nodup := (List.nodup_cons.mp hnd).2
      have hknot : ∀ r ∈ q :: t', k ≠ r.1 := by
        intro r hr e
        apply (List.nodup_cons.mp hnd).1
        rw [e]; exact List.mem_map.mpr ⟨r, hr, rfl⟩
      rw [ih (acc ++ [(k, v)]) (by simp) (fun r hr => hkeys r (List.mem_cons_of_mem _ hr))
        (fun r hr => hvals r (List.mem_cons_of_mem _ hr)) hnd' ?_]
      · simp
      · intro r hr s hs
        rcases List.mem_append.mp hr with hr | hr
        · exact hacc r hr s (List.mem_cons_of_mem _ hs)
        · simp only [List.mem_singleton] at hr; subst hr; exact hknot s hs

theorem rfind_lt_length (c : Char) (s : List Char) : rfind c s < (s.length : Int) := by
  have := rfindAux_lt c s 0 (-1) (by push_cast; omega)
  simpa [rfind] using this

/-- **A specifier `ID:key=value,...` denotes `ID` with exactly those keyword arguments** — for every
identifier (names, circuit description codes with colons inside their brackets, …) and every non-empty
list of distinct valid keys with separator-free values. -/
theorem parse_specifier (ident : List Char) (kw : List (List Char × List Char)) (hne : kw ≠ [])
    (hkeys : ∀ p ∈ kw, kwargKeys.contains p.1 = true) (hvals : ∀ p ∈ kw, CleanVal p.2) (hnd : (kw.map (·.1)).Nodup) :
    parseIdentity (ident ++ ':' :: renderArgs kw) = .ok (ident, kw) := by
  have hno : ∀ c : Char, c ≠ ',' → c ≠ '=' → (∀ p ∈ kw, c ∉ p.1 ∧ c ∉ p.2) → c ∉ renderArgs kw :=
    fun c h1 h2 h => render_no c h1 h2 kw h
  have hcolon : ':' ∉ renderArgs kw := hno ':' (by decide) (by decide) (fun p hp => ⟨(key_facts p.1 (hkeys p hp)).2.2.1, (hvals p hp).noColon⟩)
  have hbrace : '}' ∉ ':' :: renderArgs kw := by
    simp only [List.mem_cons, not_or]
    exact ⟨by decide, hno '}' (by decide) (by decide) (fun p hp => ⟨(key_facts p.1 (hkeys p hp)).2.2.2.1, (hvals p hp).noBrace⟩)⟩
  have hbracket : ']' ∉ ':' :: renderArgs kw := by
    simp only [List.mem_cons, not_or]
    exact ⟨by decide, hno ']' (by decide) (by decide) (fun p hp => ⟨(key_facts p.1 (hkeys p hp)).2.2.2.2.1, (hvals p hp).noBracket⟩)⟩
  have hparen : ')' ∉ ':' :: renderArgs kw := by
    simp only [List.mem_cons, not_or]
    exact ⟨by decide, hno ')' (by decide) (by decide) (fun p hp => ⟨(key_facts p.1 (hkeys p hp)).2.2.2.2.2.1, (hvals p hp).noParen⟩)⟩
  have hi : rfind ':' (ident ++ ':' :: renderArgs kw) = (ident.length : Int) := by
    unfold rfind; rw [rfindAux_last ':' ident _ 0 (-1) hcolon]; simp
  have hb1 : rfind '}' (ident ++ ':' :: renderArgs kw) < (ident.length : Int) := by
    unfold rfind; rw [rfindAux_append_absent '}' ident _ 0 (-1) hbrace]; exact rfind_lt_length '}' ident
  have hb2 : rfind ']' (ident ++ ':' :: renderArgs kw) < (ident.length : Int) := by
    unfold rfind; rw [rfindAux_append_absent ']' ident _ 0 (-1) hbracket]; exact rfind_lt_length ']' ident
  have hb3 : rfind ')' (ident ++ ':' :: renderArgs kw) < (ident.length : Int) := by
    unfold rfind; rw [rfindAux_append_absent ')' ident _ 0 (-1) hparen]; exact rfind_lt_length ')' ident
  have hargs : hasArgs (ident ++ ':' :: renderArgs kw) = true := by
    unfold hasArgs
    rw [hi]
    simp only [Bool.and_eq_true, decide_eq_true_eq]
    exact ⟨⟨⟨by simp, hb1⟩, hb2⟩, hb3⟩
  unfold parseIdentity
  rw [if_pos hargs]
  unfold splitArgs
  rw [hi]
  simp only [Int.toNat_natCast]
  have hdrop : (ident ++ ':' :: renderArgs kw).drop (ident.length + 1) = renderArgs kw := by
    rw [List.drop_append]; simp
  have htake : (ident ++ ':' :: renderArgs kw).take ident.length = ident := by simp
  rw [hdrop, htake, parseArgs_render kw [] hne hkeys hvals hnd (by simp)]
  simp

/-- **A specifier without keyword arguments is left untouched**: no colon at all, or the last colon sits
inside (or before) a bracket — as in the circuit description code `R{R=1:label}`. -/
theorem parse_plain (s : List Char)
    (h : ':' ∉ s ∨ rfind ':' s ≤ rfind '}' s ∨ rfind ':' s ≤ rfind ']' s ∨ rfind ':' s ≤ rfind ')' s) : parseIdentity s = .ok (s, []) := by
  have : hasArgs s = false := by
    unfold hasArgs
    rcases h with h | h | h | h
    · have : s.contains ':' = false := by simpa using h
      rw [this]; rfl
    · have : decide (rfind ':' s > rfind '}' s) = false := by simp only [decide_eq_false_iff_not]; omega
      simp [this]
    · have : decide (rfind ':' s > rfind ']' s) = false := by simp only [decide_eq_false_iff_not]; omega
      simp [this]
    · have : decide (rfind ':' s > rfind ')' s) = false := by simp only [decide_eq_false_iff_not]; omega
      simp [this]
  unfold parseIdentity
  rw [this]; rfl

/-- an unknown keyword is refused -/
theorem unknown_key_refused (ident k v : List Char) (hk : kwargKeys.contains k = false) (hv : CleanVal v)
    (hk1 : ',' ∉ k ∧ '=' ∉ k ∧ ':' ∉ k ∧ '}' ∉ k ∧ ']' ∉ k ∧ ')' ∉ k)
    (hk2 : strip (k ++ '=' :: v) = k ++ '=' :: v) :
    parseIdentity (ident ++ ':' :: (k ++ '=' :: v)) = .error "KeyError" := by
  have hmem : ∀ c : Char, c ≠ '=' → c ∉ k → c ∉ v → c ∉ k ++ '=' :: v := by
    intro c h1 h2 h3; simp only [List.mem_append, List.mem_cons, not_or]; exact ⟨h2, h1, h3⟩
  have hcolon : ':' ∉ k ++ '=' :: v := hmem ':' (by decide) hk1.2.2.1 hv.noColon
  have hi : rfind ':' (ident ++ ':' :: (k ++ '=' :: v)) = (ident.length : Int) := by
    unfold rfind; rw [rfindAux_last ':' ident _ 0 (-1) hcolon]; simp
  have hb : ∀ c : Char, c ≠ ':' → c ≠ '=' → c ∉ k → c ∉ v → rfind c (ident ++ ':' :: (k ++ '=' :: v)) < (ident.length : Int) := by
    intro c h0 h1 h2 h3
    unfold rfind
    rw [rfindAux_append_absent c ident _ 0 (-1) (by simp only [List.mem_cons, not_or]; exact ⟨h0, hmem c h1 h2 h3⟩)]
    exact rfind_lt_length c ident
  have hb1 := hb '}' (by decide) (by decide) hk1.2.2.2.1 hv.noBrace
  have hb2 := hb ']' (by decide) (by decide) hk1.2.2.2.2.1 hv.noBracket
  have hb3 := hb ')' (by decide) (by decide) hk1.2.2.2.2.2 hv.noParen
  have hargs : hasArgs (ident ++ ':' :: (k ++ '=' :: v)) = true := by
    unfold hasArgs
    rw [hi]
    simp only [Bool.and_eq_true, decide_eq_true_eq]
    exact ⟨⟨⟨by simp, hb1⟩, hb2⟩, hb3⟩
  unfold parseIdentity
  rw [if_pos hargs]
  unfold splitArgs
  rw [hi]
  simp only [Int.toNat_natCast]
  have hdrop : (ident ++ ':' :: (k ++ '=' :: v)).drop (ident.length + 1) = k ++ '=' :: v := by
    rw [List.drop_append]; simp
  rw [hdrop, splitOn_absent ',' _ (hmem ',' (by decide) hk1.1 hv.noComma), parseArgs_cons]
  unfold argStep
  rw [hk2, splitOn_append '=' k v hk1.2.1, splitOn_absent '=' v hv.noEq]
  simp only [hk, Bool.false_eq_true, ↓reduceIte]

example : (parseIdentity "CIRCUIT_1:noise=0.5,seed=7".toList).toOption = some ("CIRCUIT_1".toList, [("noise".toList, "0.5".toList), ("seed".toList, "7".toList)]) := by decide
example : (parseIdentity "R{R=1:a}(R{R=2}C)".toList).toOption = some ("R{R=1:a}(R{R=2}C)".toList, []) := by decide

end C19

import PyImpSpec.Cdc.RT
import PyImpSpec.Cdc.TextRT
import PyImpSpec.Cdc.WsProof
import PyImpSpec.Gen.Elements

/-! # C03 — circuit description codes mean one circuit, however they are spelled

Model: `Cdc.*` (tokenizer + parser, shared with C04; correspondence streams `cdc` and `tok`).  Proved: the
structural heart of the round trip for every tree of plain elements - at token level (`roundtrip_structure`) and on
TEXT (`roundtrip_text`: `parse_cdc` of the characters of the basic-syntax code, with strip, empty-form shortcut,
tokenizer, header migration, main loops and the final fold).  The remaining clauses (parameter lists, labels,
sub-circuits, numbers) are decided by the generator-as-oracle stream of the check (PARTIAL). -/

namespace C03
open Cdc

/-- **Structure round trip.** For every printable tree `t` of elements — any nesting depth and
branching; printable = known symbols, non-empty series, parallels with ≥ 2 children, which is all the
parser accepts by design — running the parser's `main_loop` on the basic-syntax tokens of `t`, followed by
any continuation that does not begin with `{`, consumes exactly those tokens and pushes exactly `norm t`:
directly nested same-kind connections merged, singleton series unwrapped, element order preserved, and
nothing that was already on the stack touched. -/
theorem roundtrip_structure (tbl : List ElemDef) (t : T) (hp : Printable tbl t) (rest : List Token) (st : List Item)
    (hr : NoCurly rest) :
    mainLoop tbl true (2 + 8 * (printT t ++ rest).length) ⟨printT t ++ rest, st⟩ = .ok ⟨rest, .ckt (norm tbl t) :: st⟩ :=
  Cdc.roundtrip_structure tbl t hp rest st hr

/-- the same for the elements registered in `/repo` now -/
theorem roundtrip_structure_registry (t : T) (hp : Printable Gen.elemTable t) (rest : List Token) (st : List Item)
    (hr : NoCurly rest) :
    mainLoop Gen.elemTable true (2 + 8 * (printT t ++ rest).length) ⟨printT t ++ rest, st⟩
      = .ok ⟨rest, .ckt (norm Gen.elemTable t) :: st⟩ :=
  Cdc.roundtrip_structure Gen.elemTable t hp rest st hr

/-- **Text round trip.** For every printable tree whose leaf symbols have the registered shape (upper-case letter followed
by lower-case letters, digits, underscores), the whole of `parse_cdc` - `strip`, the empty-form shortcut, the tokenizer, the
version-header migration, the main loops and the final fold of the stack - applied to the CHARACTERS of the tree's
basic-syntax code returns exactly the tree's normal form as the top-level series: no element is lost, duplicated or
reordered between the text and the circuit, at any nesting depth and branching. -/
theorem roundtrip_text (tbl : List ElemDef) (t : T) (hp : Printable tbl t) (hv : LeavesValid t) :
    parseCdc tbl fixedFlags (String.ofList (renderT t)) = .ok (top (norm tbl t)) :=
  Cdc.parseCdc_renderT tbl t hp hv

/-- the tokenizer inverts rendering on the basic syntax (symbols and the four brackets) -/
theorem tokenize_inverts_render (t : T) (hv : LeavesValid t) : tokenize true (renderT t) = .ok (printT t) :=
  Cdc.tokenize_renderT t hv

/-- **However it is spaced.** Take the basic-syntax tokens of any tree with well-formed symbols and put any amount of white space
(blanks, tabs, line breaks, ...) before each token and after the last one: the tokenizer returns exactly the tokens of the
unspaced code, so the parser sees the same input and returns the same circuit. -/
theorem whitespace_immaterial (t : T) (hv : LeavesValid t) (ts : List (List Char × Token)) (trail : List Char)
    (hts : ts.map (·.2) = printT t) (hws : ∀ p ∈ ts, ∀ c ∈ p.1, isWs c = true) (htr : ∀ c ∈ trail, isWs c = true) :
    tokenize true (spaced ts trail) = tokenize true (renderT t) := by
  rw [tokenize_renderT t hv, ← hts]
  refine Cdc.tokenize_spaced ts trail htr (fun p hp => ⟨?_, hws p hp⟩)
  exact printT_basic t hv p.2 (by rw [← hts]; exact List.mem_map.mpr ⟨p, hp, rfl⟩)

/-- non-vacuity: `[R(C[RC])]` meets the hypotheses -/
example : Printable demoTblRT (.series [.leaf "R", .parallel [.leaf "C", .series [.leaf "R", .leaf "C"]]]) ∧
    LeavesValid (.series [.leaf "R", .parallel [.leaf "C", .series [.leaf "R", .leaf "C"]]]) := by
  refine ⟨by simp [Printable, Printables, demoTblRT], ?_⟩
  simp only [LeavesValid, LeavesValids, and_true]
  refine ⟨⟨'R', [], rfl, by decide, by simp⟩, ⟨'C', [], rfl, by decide, by simp⟩, ⟨'R', [], rfl, by decide, by simp⟩, ⟨'C', [], rfl, by decide, by simp⟩⟩

/-- normal forms contain no empty connection -/
theorem norm_nonempty (tbl : List ElemDef) (t : T) (hp : Printable tbl t) : ne (norm tbl t) = true :=
  ne_norm tbl t hp

end C03

import PyImpSpec.Cdc.RT
import PyImpSpec.Gen.Elements

/-! # C03 — circuit description codes mean one circuit, however they are spelled

Model: `Cdc.*` (tokenizer + parser, shared with C04; correspondence stream `cdc`).  Proved so far: the
structural heart of the round trip, at token level, for every tree of plain elements.  The remaining
clauses (parameter lists, labels, sub-circuits, numbers) are decided by the generator-as-oracle stream
of the check (PARTIAL). -/

namespace C03
open Cdc

/-- **Structure round trip.** For every printable tree `t` of elements — any nesting depth and
branching; printable = known symbols, non-empty series, parallels with ≥ 2 children, which is all the
parser accepts by design — running the parser's `main_loop` on the basic-syntax tokens of `t`, followed by
any continuation that does not begin with `{`, consumes exactly those tokens and pushes exactly `norm t`:
directly nested same-kind connections merged, singleton series unwrapped, element order preserved, and
nothing that was already on the stack touched. -/
theorem roundtrip_structure (tbl : List ElemDef) (t : T) (hp : Printable tbl t) (rest : List Token) (st : List Item)
    (hr : NoCurly rest) :
    mainLoop tbl true (2 + 8 * (printT t ++ rest).length) ⟨printT t ++ rest, st⟩ = .ok ⟨rest, .ckt (norm tbl t) :: st⟩ :=
  Cdc.roundtrip_structure tbl t hp rest st hr

/-- the same for the elements registered in `/repo` now -/
theorem roundtrip_structure_registry (t : T) (hp : Printable Gen.elemTable t) (rest : List Token) (st : List Item)
    (hr : NoCurly rest) :
    mainLoop Gen.elemTable true (2 + 8 * (printT t ++ rest).length) ⟨printT t ++ rest, st⟩
      = .ok ⟨rest, .ckt (norm Gen.elemTable t) :: st⟩ :=
  Cdc.roundtrip_structure Gen.elemTable t hp rest st hr

/-- normal forms contain no empty connection -/
theorem norm_nonempty (tbl : List ElemDef) (t : T) (hp : Printable tbl t) : ne (norm tbl t) = true :=
  ne_norm tbl t hp

end C03

import PyImpSpec.Param.Lemmas
import PyImpSpec.Gen.Elements

/-! # C14 — the element parameter API behaves as a consistent state machine

Model: `Param.*` (hand model of the setters / reset / copy of `pyimpspec.circuit.base.Element`, sharing
`applyLower`/`applyUpper`/`setLabel` with the parser model), tied to `/repo` by the correspondence
stream `pa` (random call histories on every registered element class, compared after every call). -/

namespace C14
open Cdc Param

/-! ## one parameter -/

/-- **A lower limit that is accepted** becomes the lower limit, stays strictly below the untouched upper
limit, and moves the value onto the limit exactly when the value was below it. -/
theorem lower_clamps (p q : PV) (a : Arg) (hp : PInv p) (h : setLowerF p a = .ok q) :
    ∃ v, toFloat a = .ok v ∧ q.lo = v ∧ q.hi = p.hi ∧ q.lo.lt q.hi = true ∧
      q.value = (if p.value.lt v then v else p.value) ∧ q.fixed = p.fixed ∧ q.key = p.key := by
  rcases setLowerF_cases p a hp with ⟨x, hx⟩ | ⟨v, hv, _, hlt, hq⟩
  · rw [hx] at h; cases h
  · rw [hq] at h; cases h; exact ⟨v, hv, rfl, rfl, hlt, rfl, rfl, rfl⟩

theorem upper_clamps (p q : PV) (a : Arg) (hp : PInv p) (h : setUpperF p a = .ok q) :
    ∃ v, toFloat a = .ok v ∧ q.hi = v ∧ q.lo = p.lo ∧ q.lo.lt q.hi = true ∧
      q.value = (if v.lt p.value then v else p.value) ∧ q.fixed = p.fixed ∧ q.key = p.key := by
  rcases setUpperF_cases p a hp with ⟨x, hx⟩ | ⟨v, hv, _, hlt, hq⟩
  · rw [hx] at h; cases h
  · rw [hq] at h; cases h; exact ⟨v, hv, rfl, rfl, hlt, rfl, rfl, rfl⟩

/-- NaN is never accepted as a limit -/
theorem nan_limit_refused (p : PV) : setLowerF p (.num .nan) = .error "ValueError" ∧ setUpperF p (.num .nan) = .error "ValueError" := by
  constructor <;> rfl

/-! ## the safe order of `_set_limits`, one parameter -/

/-- `_set_limits({k: lo}, {k: hi})` on one parameter -/
def setBoth (p : PV) (lo hi : Val) : PV × Option String :=
  let r := lowerSafe [(p.key, hi)] p p.key lo
  match r.2 with
  | some x => (r.1, some x)
  | none => match setUpperF r.1 (.num hi) with
    | .ok q => (q, none)
    | .error x => (r.1, some x)

/-- **Any valid pair of limits can be applied to any valid state** — whatever the relative position of
the old and the new interval (this is what copy, reset and the parser rely on, and what failed before the
`fix:` commit when both limits had been moved past a class default). The value is clamped into the new
interval. -/
theorem setBoth_succeeds (p : PV) (lo hi : Val) (hp : PInv p) (hlh : lo.lt hi = true) :
    ∃ q, setBoth p lo hi = (q, none) ∧ q.lo = lo ∧ q.hi = hi ∧ q.key = p.key ∧ q.fixed = p.fixed ∧
      (lo.le p.value = true → p.value.le hi = true → q.value = p.value) := by
  have hlo := (lt_notNan hlh).1
  have hhi := (lt_notNan hlh).2
  have hplo := (lt_notNan hp).1
  have hphi := (lt_notNan hp).2
  unfold setBoth lowerSafe
  simp only [List.find?_cons_of_pos, decide_true, Option.map_some]
  by_cases hc : p.hi.le lo = true
  · -- the new lower limit is not below the current upper limit: upper first
    simp only [hc, ↓reduceIte]
    have h1 : p.lo.lt hi = true := lt_of_lt_of_le hp (by
      rcases (le_iff p.hi lo hphi hlo).mp hc with h | h
      · exact (le_iff p.hi hi hphi hhi).mpr (Or.inl (lt_trans h hlh))
      · exact (le_iff p.hi hi hphi hhi).mpr (Or.inl (h ▸ hlh)))
    have hu : setUpperF p (.num hi) = .ok { p with value := if hi.lt p.value then hi else p.value, hi := hi } := by
      unfold setUpperF applyUpper
      have : hi.le p.lo = false := by
        cases h : hi.le p.lo
        · rfl
        · exact absurd (not_lt_of_le h) (by simp [h1])
      simp [toFloat, bind, Except.bind, hhi, this, liftV]
    simp only [hu]
    have hl : setLowerF { p with value := if hi.lt p.value then hi else p.value, hi := hi } (.num lo)
        = .ok { p with value := (if (if hi.lt p.value then hi else p.value).lt lo then lo else (if hi.lt p.value then hi else p.value)), hi := hi, lo := lo } := by
      unfold setLowerF applyLower
      have : hi.le lo = false := by
        cases h : hi.le lo
        · rfl
        · exact absurd (not_lt_of_le h) (by simp [hlh])
      simp [toFloat, bind, Except.bind, hlo, this, liftV]
    simp only [hl]
    have hu2 : setUpperF { p with value := (if (if hi.lt p.value then hi else p.value).lt lo then lo else (if hi.lt p.value then hi else p.value)), hi := hi, lo := lo } (.num hi)
        = .ok { p with value := (if hi.lt (if (if hi.lt p.value then hi else p.value).lt lo then lo else (if hi.lt p.value then hi else p.value)) then hi else (if (if hi.lt p.value then hi else p.value).lt lo then lo else (if hi.lt p.value then hi else p.value))), hi := hi, lo := lo } := by
      unfold setUpperF applyUpper
      have : hi.le lo = false := by
        cases h : hi.le lo
        · rfl
        · exact absurd (not_lt_of_le h) (by simp [hlh])
      simp [toFloat, bind, Except.bind, hhi, this, liftV]
    simp only [hu2]
    refine ⟨_, rfl, rfl, rfl, rfl, rfl, ?_⟩
    intro hv1 hv2
    have e1 : hi.lt p.value = false := not_lt_of_le hv2
    have e2 : p.value.lt lo = false := not_lt_of_le hv1
    simp [e1, e2]
  · -- the usual case: lower first, then upper
    have hc' : p.hi.le lo = false := by simpa using hc
    simp only [hc', Bool.false_eq_true, ↓reduceIte]
    have hl : setLowerF p (.num lo) = .ok { p with value := if p.value.lt lo then lo else p.value, lo := lo } := by
      unfold setLowerF applyLower
      simp [toFloat, bind, Except.bind, hlo, hc', liftV]
    simp only [hl]
    have hu : setUpperF { p with value := if p.value.lt lo then lo else p.value, lo := lo } (.num hi)
        = .ok { p with value := (if hi.lt (if p.value.lt lo then lo else p.value) then hi else (if p.value.lt lo then lo else p.value)), lo := lo, hi := hi } := by
      unfold setUpperF applyUpper
      have : hi.le lo = false := by
        cases h : hi.le lo
        · rfl
        · exact absurd (not_lt_of_le h) (by simp [hlh])
      simp [toFloat, bind, Except.bind, hhi, this, liftV]
    simp only [hu]
    refine ⟨_, rfl, rfl, rfl, rfl, rfl, ?_⟩
    intro hv1 hv2
    have e1 : hi.lt p.value = false := not_lt_of_le hv2
    have e2 : p.value.lt lo = false := not_lt_of_le hv1
    simp [e1, e2]

/-- the class default of one parameter is *valid*: `lower ≤ value ≤ upper` and `lower < upper` -/
def ValidDefault (d : ParamDef) : Prop := d.lo.lt d.hi = true ∧ d.lo.le d.value = true ∧ d.value.le d.hi = true

/-- `reset_parameter` on one parameter: value, then the pair of limits (safe order), then the flag -/
def resetOne (d : ParamDef) (p : PV) : PV × Option String :=
  let r := setBoth { p with value := d.value } d.lo d.hi
  match r.2 with
  | some x => (r.1, some x)
  | none => ({ r.1 with fixed := d.fixed }, none)

/-- **Reset restores the class defaults, from every valid state** (and cannot fail half-way). -/
theorem reset_restores_defaults (d : ParamDef) (p : PV) (hp : PInv p) (hd : ValidDefault d) :
    resetOne d p = ({ key := p.key, value := d.value, lo := d.lo, hi := d.hi, fixed := d.fixed }, none) := by
  obtain ⟨q, hq, h1, h2, h3, _, h5⟩ := setBoth_succeeds { p with value := d.value } d.lo d.hi hp hd.1
  unfold resetOne
  simp only [hq]
  have hv := h5 hd.2.1 hd.2.2
  cases q
  simp_all

/-- `Element.__copy__` on one parameter: from the class default, limits first, then the value -/
def copyOne (d : ParamDef) (p : PV) : PV × Option String :=
  let r := setBoth { key := p.key, value := d.value, lo := d.lo, hi := d.hi, fixed := d.fixed } p.lo p.hi
  match r.2 with
  | some x => (r.1, some x)
  | none => ({ r.1 with value := p.value, fixed := p.fixed }, none)

/-- **A copy succeeds and equals the original, from every valid state** — the value need not even lie
inside the limits for plain elements, because it is assigned after the limits. -/
theorem copy_equals_original (d : ParamDef) (p : PV) (hp : PInv p) (hd : d.lo.lt d.hi = true) :
    copyOne d p = (p, none) := by
  obtain ⟨q, hq, h1, h2, h3, _, _⟩ := setBoth_succeeds { key := p.key, value := d.value, lo := d.lo, hi := d.hi, fixed := d.fixed } p.lo p.hi hd hp
  unfold copyOne
  simp only [hq]
  cases q; cases p
  simp_all

/-- `Container.__copy__` on one parameter: the value goes through the constructor, the limits clamp it -/
def copyOneContainer (d : ParamDef) (p : PV) : PV × Option String :=
  let r := setBoth { key := p.key, value := p.value, lo := d.lo, hi := d.hi, fixed := d.fixed } p.lo p.hi
  match r.2 with
  | some x => (r.1, some x)
  | none => ({ r.1 with fixed := p.fixed }, none)

/-- copies of containers equal the original **whenever the value lies within its limits** (the
property's proviso) -/
theorem container_copy_equals_original (d : ParamDef) (p : PV) (hp : PInv p) (hd : d.lo.lt d.hi = true)
    (hv1 : p.lo.le p.value = true) (hv2 : p.value.le p.hi = true) :
    copyOneContainer d p = (p, none) := by
  obtain ⟨q, hq, h1, h2, h3, _, h5⟩ := setBoth_succeeds { key := p.key, value := p.value, lo := d.lo, hi := d.hi, fixed := d.fixed } p.lo p.hi hd hp
  unfold copyOneContainer
  simp only [hq]
  have := h5 hv1 hv2
  cases q; cases p
  simp_all

/-! ## whole elements, all histories -/

inductive Op where
  | setValues (kw pos : Pairs) (odd : Bool)
  | setLower (kw pos : Pairs) (odd : Bool)
  | setUpper (kw pos : Pairs) (odd : Bool)
  | setFixed (kw pos : Pairs) (odd : Bool)
  | setLabel (l : Option String)
  | reset (keys : List String)

/-- one call against an element of a class with defaults `d`; the state after the call (also after a
refused call, which keeps what was applied before the refusal) -/
def step (d : List PV) (e : El) : Op → El
  | .setValues kw pos odd => (setValues e kw pos odd).1
  | .setLower kw pos odd => (setLowerLimits e kw pos odd).1
  | .setUpper kw pos odd => (setUpperLimits e kw pos odd).1
  | .setFixed kw pos odd => (Param.setFixed e kw pos odd).1
  | .setLabel l => (setLabelOp e l).1
  | .reset keys => (resetParameters d e keys).1

theorem call_inv (f : PV → Arg → Except String PV)
    (hf : ∀ p q a, PInv p → f p a = .ok q → PInv q ∧ q.key = p.key)
    (e : El) (kw pos : Pairs) (odd : Bool) (h : AllInv e.ps) : AllInv (call f e kw pos odd).1.ps := by
  unfold call
  cases mergeArgs kw pos odd with
  | error x => exact h
  | ok pairs => exact (applyPairs_inv f hf e.ps pairs h).1

theorem lowerSafe_inv (upper : List (String × Val)) (p : PV) (k : String) (v : Val) (hp : PInv p) :
    PInv (lowerSafe upper p k v).1 ∧ (lowerSafe upper p k v).1.key = p.key := by
  unfold lowerSafe
  have hpre : ∀ pre : Except String PV, (∀ q, pre = .ok q → PInv q ∧ q.key = p.key) →
      PInv (match pre with
        | .error x => (p, some x)
        | .ok q => match setLowerF q (.num v) with
          | .error x => (q, some x)
          | .ok r => (r, none)).1 ∧
      (match pre with
        | .error x => (p, some x)
        | .ok q => match setLowerF q (.num v) with
          | .error x => (q, some x)
          | .ok r => (r, none)).1.key = p.key := by
    intro pre hq
    cases pre with
    | error x => exact ⟨hp, rfl⟩
    | ok q =>
      obtain ⟨hq1, hq2⟩ := hq q rfl
      dsimp only
      cases hl : setLowerF q (.num v) with
      | error x => exact ⟨hq1, hq2⟩
      | ok r =>
        obtain ⟨h1, h2⟩ := setLowerF_inv q r _ hq1 hl
        exact ⟨h1, by rw [h2, hq2]⟩
  apply hpre
  intro q hq
  split at hq
  · split at hq
    · exact setUpperF_inv p q _ hp hq
    · cases hq; exact ⟨hp, rfl⟩
  · cases hq; exact ⟨hp, rfl⟩

theorem stepLower_inv (upper : List (String × Val)) (acc : List PV × Option String) (kv : String × Val)
    (h : AllInv acc.1) : AllInv (stepLower upper acc kv).1 := by
  unfold stepLower
  split
  · exact h
  · split
    · exact h
    · rename_i p hfind
      have hpm : p ∈ acc.1 := List.mem_of_find?_eq_some hfind
      intro q hqm
      obtain ⟨r, hr, rfl⟩ := List.mem_map.mp hqm
      split
      · exact (lowerSafe_inv upper p kv.1 kv.2 (h p hpm)).1
      · exact h r hr

theorem setLimits_inv (ps : List PV) (lower upper : List (String × Val)) (h : AllInv ps) :
    AllInv (setLimits ps lower upper).1 := by
  unfold setLimits
  have hfold : ∀ (l : List (String × Val)) (acc : List PV × Option String), AllInv acc.1 →
      AllInv (l.foldl (stepLower upper) acc).1 := by
    intro l
    induction l with
    | nil => intro acc h; exact h
    | cons kv t ih => intro acc h; exact ih _ (stepLower_inv upper acc kv h)
  have h1 := hfold lower (ps, none) h
  simp only
  split
  · exact h1
  · exact (applyPairs_inv setUpperF setUpperF_inv _ _ h1).1

theorem reset_inv (d : List PV) (e : El) (keys : List String) (h : AllInv e.ps) :
    AllInv (resetParameters d e keys).1.ps := by
  unfold resetParameters
  split
  · exact h
  · have h1 := (applyPairs_inv setValueF setValueF_inv e.ps
      ((if keys.isEmpty then d else d.filter (fun p => keys.contains p.key)).map fun p => (p.key, Arg.num p.value)) h).1
    simp only
    split
    · exact h1
    · have h2 := setLimits_inv _ ((if keys.isEmpty then d else d.filter (fun p => keys.contains p.key)).map fun p => (p.key, p.lo))
        ((if keys.isEmpty then d else d.filter (fun p => keys.contains p.key)).map fun p => (p.key, p.hi)) h1
      split
      · exact h2
      · exact (applyPairs_inv setFixedF setFixedF_inv _ _ h2).1

/-- **One call** — accepted, refused, or refused half-way — keeps `lower < upper` for every parameter. -/
theorem step_inv (d : List PV) (e : El) (op : Op) (h : AllInv e.ps) : AllInv (step d e op).ps := by
  cases op with
  | setValues kw pos odd => exact call_inv _ setValueF_inv e kw pos odd h
  | setLower kw pos odd => exact call_inv _ setLowerF_inv e kw pos odd h
  | setUpper kw pos odd => exact call_inv _ setUpperF_inv e kw pos odd h
  | setFixed kw pos odd => exact call_inv _ setFixedF_inv e kw pos odd h
  | setLabel l =>
    simp only [step, setLabelOp]
    split
    · exact h
    · split <;> exact h
  | reset keys => exact reset_inv d e keys h

/-- **After any sequence of calls** (valid or invalid arguments, keyword or positional form) a lower
limit is strictly below its upper limit for every parameter. -/
theorem history_inv (d : List PV) (e : El) (ops : List Op) (h : AllInv e.ps) :
    AllInv (ops.foldl (step d) e).ps := by
  induction ops generalizing e with
  | nil => exact h
  | cons op t ih => exact ih _ (step_inv d e op h)

/-- **A refused single update leaves the element unchanged** (the parameter it addressed included). -/
theorem refused_single_update_unchanged (f : PV → Arg → Except String PV) (e : El) (k : String) (a : Arg)
    (x : String) (e' : El) (h : call f e [(k, a)] [] false = (e', some x)) : e' = e := by
  unfold call mergeArgs at h
  simp only [Bool.false_eq_true, ↓reduceIte, List.foldlM_nil, pure, Except.pure] at h
  unfold applyPairs at h
  split at h
  · cases h; rfl
  · split at h
    · cases h; rfl
    · simp only [applyPairs] at h; cases h

/-- a new element of a registered class satisfies the invariant: every default in the *generated*
element table (i.e. in `/repo`'s registry as it is now) has `lower ≤ value ≤ upper`, `lower < upper` -/
theorem generated_defaults_valid :
    ∀ d ∈ Gen.elemTable, ∀ p ∈ d.params, (p.lo.lt p.hi && p.lo.le p.value && p.value.le p.hi) = true := by
  decide +kernel

/-- non-vacuity: the old order (lower first, against the class default) did fail where the new one
succeeds: limits moved above the default upper limit -/
example : (applyLower { key := "C", value := .num 1, lo := .num 0, hi := .num 1000, fixed := false } (.num 10000)).toOption.isNone = true
    ∧ (setBoth { key := "C", value := .num 1, lo := .num 0, hi := .num 1000, fixed := false } (.num 10000) (.num 1000000)).2 = none := by
  decide +kernel

end C14

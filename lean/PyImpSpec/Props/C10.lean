import PyImpSpec.KKAuto
import PyImpSpec.ExprC
import PyImpSpec.Gen.Kernels
import Mathlib.Analysis.SpecialFunctions.Pow.Real
import Mathlib.Analysis.SpecialFunctions.Sqrt
import Mathlib.Tactic.Linarith

/-! # C10 — automatic Kramers-Kronig testing tracks the noise and flags drift

Proved here: (1) the suggestion of `_suggest_using_default` is always one of the tests inside the limits it
reports — for every list of tests, scores, fits and sign-change counts; it never has more RC elements than
the score winner; (2) `suggest_num_RC_limits` returns an ordered pair whenever it returns (no `limit_delta`);
(3) the noise estimate is the exact inverse of the noise model: the pseudo chi-squared of residuals whose
real and imaginary parts each have the relative magnitude σ is `2 N σ²` and is reported as `100 σ` percent —
on the conversion formulas and the mock data's noise model as re-translated from `/repo` on every run.
That the fit leaves exactly the noise (neither fitting it away nor leaving misfit) and the drift clause are
statistical/numerical and decided by the calibrated oracle (PARTIAL). -/

namespace C10
open KKAuto

/-! ## the suggestion lies inside the reported limits -/

theorem firstMax_mem {l : List Cand} {s : Cand} (h : firstMax l = some s) : s ∈ l := by
  cases l with
  | nil => simp [firstMax] at h
  | cons c rest =>
    simp only [firstMax, Option.some.injEq] at h
    subst h
    suffices ∀ (r : List Cand) (b : Cand), r.foldl (fun b t => if t.score > b.score then t else b) b = b ∨
        r.foldl (fun b t => if t.score > b.score then t else b) b ∈ r by
      rcases this rest c with h | h
      · rw [h]; exact List.mem_cons_self
      · exact List.mem_cons_of_mem _ h
    intro r
    induction r with
    | nil => intro b; left; rfl
    | cons t r ih =>
      intro b
      simp only [List.foldl_cons]
      by_cases ht : t.score > b.score
      · simp only [ht, ↓reduceIte]
        rcases ih t with h | h
        · right; rw [h]; exact List.mem_cons_self
        · right; exact List.mem_cons_of_mem _ h
      · simp only [ht, ↓reduceIte]
        rcases ih b with h | h
        · left; exact h
        · right; exact List.mem_cons_of_mem _ h

/-- the score winner has the maximal score -/
theorem firstMax_is_max {l : List Cand} {s : Cand} (h : firstMax l = some s) : ∀ t ∈ l, t.score ≤ s.score := by
  cases l with
  | nil => simp [firstMax] at h
  | cons c rest =>
    simp only [firstMax, Option.some.injEq] at h
    subst h
    have key : ∀ (r : List Cand) (b : Cand), b.score ≤ (r.foldl (fun b t => if t.score > b.score then t else b) b).score ∧
        ∀ t ∈ r, t.score ≤ (r.foldl (fun b t => if t.score > b.score then t else b) b).score := by
      intro r
      induction r with
      | nil => intro b; simp
      | cons t r ih =>
        intro b
        simp only [List.foldl_cons]
        by_cases ht : t.score > b.score
        · simp only [ht, ↓reduceIte]
          obtain ⟨h1, h2⟩ := ih t
          refine ⟨by omega, ?_⟩
          intro u hu
          rcases List.mem_cons.mp hu with rfl | hu
          · exact h1
          · exact h2 u hu
        · simp only [ht, ↓reduceIte]
          obtain ⟨h1, h2⟩ := ih b
          refine ⟨h1, ?_⟩
          intro u hu
          rcases List.mem_cons.mp hu with rfl | hu
          · omega
          · exact h2 u hu
    intro t ht
    rcases List.mem_cons.mp ht with rfl | ht
    · exact (key rest _).1
    · exact (key rest c).2 t ht

theorem refine_mem (all : List Cand) (lchi0 : Int) (l : List Cand) (cur : Cand) (hc : cur ∈ all) :
    refine all lchi0 l cur ∈ all := by
  induction l generalizing cur with
  | nil => exact hc
  | cons d rest ih =>
    unfold refine
    split
    · split
      · rename_i t ht; exact List.mem_of_find?_eq_some ht
      · exact hc
    · exact ih cur hc

theorem refine_n_le (all : List Cand) (lchi0 : Int) (l : List Cand) (cur : Cand) :
    (refine all lchi0 l cur).n ≤ cur.n := by
  induction l generalizing cur with
  | nil => exact Int.le_refl _
  | cons d rest ih =>
    unfold refine
    split
    · rename_i hcond
      split
      · rename_i t ht
        have := List.find?_some ht
        simp only [Bool.and_eq_true, decide_eq_true_eq] at hcond this
        omega
      · exact Int.le_refl _
    · exact ih cur

/-- **The suggestion is one of the tests inside the limits.** -/
theorem suggest_mem {l : List Cand} {c : Cand} (h : suggest l = some c) : c ∈ l := by
  unfold suggest at h
  split at h
  · simp at h
  · rename_i s hs
    simp only [Option.some.injEq] at h
    subst h
    exact refine_mem _ _ _ _ (firstMax_mem hs)

/-- **The suggested number of RC elements lies inside the limits that are reported**, for every list of
tests and all scores, fits and sign-change counts. -/
theorem suggestion_within_limits (lo hi : Int) (ts : List Cand) (c : Cand)
    (h : suggest (inside lo hi ts) = some c) : lo ≤ c.n ∧ c.n ≤ hi ∧ c ∈ ts := by
  have hm := suggest_mem h
  unfold inside at hm
  rw [List.mem_filter] at hm
  simp only [Bool.and_eq_true, decide_eq_true_eq] at hm
  exact ⟨hm.2.1, hm.2.2, hm.1⟩

/-- a suggestion exists as soon as one test lies inside the limits -/
theorem suggestion_exists (lo hi : Int) (ts : List Cand) (t : Cand) (ht : t ∈ ts) (h1 : lo ≤ t.n) (h2 : t.n ≤ hi) :
    (suggest (inside lo hi ts)).isSome := by
  have hin : t ∈ inside lo hi ts := by
    unfold inside; rw [List.mem_filter]; simp [ht, h1, h2]
  unfold suggest
  cases hl : inside lo hi ts with
  | nil => rw [hl] at hin; cases hin
  | cons c rest => simp [firstMax]

/-- the refinement step only ever lowers the number of RC elements below the score winner's -/
theorem suggestion_not_above_winner {l : List Cand} {s c : Cand} (hs : firstMax l = some s) (h : suggest l = some c) :
    c.n ≤ s.n := by
  unfold suggest at h
  rw [hs] at h
  simp only [Option.some.injEq] at h
  subst h
  exact refine_n_le _ _ _ _

example : suggest (inside 3 6 [⟨2, 9, 0, 0⟩, ⟨3, 1, 5, 2⟩, ⟨4, 7, 4, 1⟩, ⟨5, 7, 2, 1⟩, ⟨6, 2, 1, 3⟩, ⟨7, 9, 0, 0⟩]) = some ⟨4, 7, 4, 1⟩ := by decide

/-! ## the limits are ordered -/

theorem bestBelow_lt (ts : List T) (lim : Int) (b : T) (h : bestBelow ts lim = some b) : b.n < lim := by
  unfold bestBelow at h
  have : ∀ (l : List T) (acc : Option T), (∀ a, acc = some a → a.n < lim) →
      ∀ r, (l.filter (·.n < lim)).foldl (fun acc t => match acc with
        | none => some t
        | some b => if t.chi < b.chi then some t else some b) acc = some r → r.n < lim := by
    intro l
    induction l with
    | nil => intro acc ha r hr; simp at hr; exact ha r hr
    | cons t l ih =>
      intro acc ha r hr
      by_cases ht : t.n < lim
      · simp only [List.filter_cons, ht, decide_true, ↓reduceIte, List.foldl_cons] at hr
        refine ih _ ?_ r hr
        intro a hacc
        cases acc with
        | none => simp at hacc; subst hacc; exact ht
        | some b0 =>
          simp only at hacc
          split at hacc
          · simp at hacc; subst hacc; exact ht
          · simp at hacc; subst hacc; exact ha _ rfl
      · simp only [List.filter_cons, ht, decide_false, Bool.false_eq_true, ↓reduceIte] at hr
        exact ih acc ha r hr
  exact this ts none (by simp) b h

/-- the last adjustment never raises the lower limit -/
theorem finalLower_le (i : LimIn) (first : T) (l lo : Int) (h : finalLower i first l = .ok lo) : lo ≤ l := by
  unfold finalLower at h
  split at h
  · split at h
    · rename_i b fit hb _
      simp only [Except.ok.injEq] at h
      have := bestBelow_lt _ _ _ hb
      split at h <;> omega
    · cases h
    · cases h
  · simp only [Except.ok.injEq] at h; omega

/-- **Whenever `suggest_num_RC_limits` returns (automatic estimation of at least one limit, no
`limit_delta`), the lower limit is strictly below the upper limit.** -/
theorem limits_ordered (i : LimIn) (lo hi : Int) (hd : i.delta ≤ 0) (hauto : ¬ (i.lower > 0 ∧ i.upper > 0))
    (h : limits i = .ok (lo, hi)) : lo < hi := by
  unfold limits at h
  have hd' : ¬ i.delta > 0 := by omega
  split at h
  · rename_i first last _ _
    rw [if_neg hauto] at h
    unfold limitsAuto at h
    simp only [hd', ↓reduceIte] at h
    split at h
    · cases h
    · rename_i hlt
      split at h
      · cases h
      · rename_i lo' hlo
        simp only [Except.ok.injEq, Prod.mk.injEq] at h
        obtain ⟨rfl, rfl⟩ := h
        have := finalLower_le _ _ _ _ hlo
        omega
  · cases h

/-- with both limits given by the caller they are only clamped to the range of the tests -/
theorem limits_manual (i : LimIn) (first last : T) (hf : i.tests.head? = some first) (hl : i.tests.getLast? = some last)
    (h1 : i.lower > 0) (h2 : i.upper > 0) (hd : i.delta ≤ 0) :
    limits i = .ok (max i.lower first.n, min i.upper last.n) := by
  unfold limits
  have hd' : ¬ i.delta > 0 := by omega
  rw [hf, hl]
  simp only [h1, h2, and_self, ↓reduceIte, hd']

/-- fully automatic limits without `limit_delta` stay inside the range spanned by the tests' numbers of RC
elements and the end point of the pseudo chi-squared curve: `hi ≤ max_x` -/
theorem limits_auto_upper (i : LimIn) (lo hi : Int) (hl : i.lower ≤ 0) (hu : i.upper ≤ 0) (hd : i.delta = 0)
    (h : limits i = .ok (lo, hi)) : hi ≤ (lowerStage i).2 := by
  unfold limits at h
  split at h
  · rename_i first last _ _
    rw [if_neg (by omega)] at h
    unfold limitsAuto at h
    have hd' : ¬ i.delta > 0 := by omega
    simp only [hd', ↓reduceIte] at h
    split at h
    · cases h
    · split at h
      · cases h
      · simp only [Except.ok.injEq, Prod.mk.injEq] at h
        obtain ⟨_, rfl⟩ := h
        have hu' : ¬ i.upper > 0 := by omega
        unfold fixStage upperStage upperFromMd deltaOr1
        simp only [hu', ↓reduceIte, hd]
        split <;> split <;> (try split) <;> (try split) <;> (try split) <;> simp only [] <;> omega
  · cases h

/-! ## the noise estimate inverts the noise model -/

open Complex

def envN (N : ℕ) (k : String) (v : ℝ) : String → ℂ :=
  fun s => if s = "N" then (N : ℂ) else if s = k then (v : ℂ) else 0

theorem sqrt_ofReal (x : ℝ) (hx : 0 ≤ x) : ((x : ℂ)) ^ ((1 : ℂ) / 2) = ((Real.sqrt x : ℝ) : ℂ) := by
  rw [Real.sqrt_eq_rpow, Complex.ofReal_cpow hx]
  push_cast
  rfl

/-- `_estimate_pct_noise`, closed form: `sqrt(5000 χ² / N)` -/
theorem est_pct_formula (N : ℕ) (chi : ℝ) (hN : 0 < N) (hc : 0 ≤ chi) :
    evalC (envN N "pseudo_chisqr" chi) Gen.K.est_pct_noise = ((Real.sqrt (5000 * chi / N) : ℝ) : ℂ) := by
  unfold Gen.K.est_pct_noise
  simp only [evalC, E.eval, opsC, envN, ↓reduceIte, String.reduceEq, Nat.cast_ofNat]
  have : (5000 : ℂ) * (chi : ℂ) * ((N : ℂ))⁻¹ = ((5000 * chi / N : ℝ) : ℂ) := by push_cast; ring
  rw [this, sqrt_ofReal]
  positivity

/-- `_estimate_pseudo_chisqr`, closed form: `N p² / 5000` -/
theorem est_chisqr_formula (N : ℕ) (p : ℝ) :
    evalC (envN N "pct_noise" p) Gen.K.est_pseudo_chisqr = ((N * p ^ 2 / 5000 : ℝ) : ℂ) := by
  unfold Gen.K.est_pseudo_chisqr
  simp only [evalC, E.eval, opsC, envN, ↓reduceIte, String.reduceEq, Nat.cast_ofNat]
  rw [show (2 : ℂ) = ((2 : ℕ) : ℂ) by norm_num, Complex.cpow_natCast]
  push_cast; ring

/-- **The two conversions are inverse to each other**: the noise level reported for the pseudo chi-squared
that `p` percent of noise is expected to produce is `p`. -/
theorem est_roundtrip (N : ℕ) (p : ℝ) (hN : 0 < N) (hp : 0 ≤ p) :
    evalC (envN N "pseudo_chisqr" (N * p ^ 2 / 5000)) Gen.K.est_pct_noise = (p : ℂ) := by
  rw [est_pct_formula N _ hN (by positivity)]
  congr 1
  have hN' : (N : ℝ) ≠ 0 := by exact_mod_cast hN.ne'
  rw [show 5000 * (↑N * p ^ 2 / 5000) / (N : ℝ) = p ^ 2 by field_simp]
  exact Real.sqrt_sq hp

/-- the standard deviation of the mock data's noise: `noise/100 · |Z|` for each of Re and Im -/
theorem noise_sd_formula (noise : ℝ) (Z : ℂ) :
    evalC (fun s => if s = "noise" then (noise : ℂ) else if s = "Z_ideal" then Z else 0) Gen.K.noise_sd
      = ((noise / 100 * ‖Z‖ : ℝ) : ℂ) := by
  unfold Gen.K.noise_sd
  simp only [evalC, E.eval, opsC, ↓reduceIte, String.reduceEq, Nat.cast_ofNat]
  push_cast; ring

/-- **Calibration.** If a fit leaves, at each of `N` points, residuals whose real and imaginary parts both
have the magnitude `p/100·|Z|` — the standard deviation with which `_add_noise` perturbs each part for a
noise level of `p` percent — then the Boukamp-weighted pseudo chi-squared is `2 N (p/100)²` and the reported
noise level is exactly `p` percent. -/
theorem noise_estimate_calibrated (pts : List (ℂ × ℂ)) (p : ℝ) (hp : 0 ≤ p) (hne : pts ≠ [])
    (hres : ∀ q ∈ pts, q.1 ≠ 0 ∧ |(q.1 - q.2).re| = p / 100 * ‖q.1‖ ∧ |(q.1 - q.2).im| = p / 100 * ‖q.1‖) :
    evalC (envN pts.length "pseudo_chisqr" ((pts.map fun q => Complex.normSq (q.1 - q.2) / Complex.normSq q.1).sum))
      Gen.K.est_pct_noise = (p : ℂ) := by
  have hsum : (pts.map fun q => Complex.normSq (q.1 - q.2) / Complex.normSq q.1).sum = pts.length * p ^ 2 / 5000 := by
    have hterm : ∀ q ∈ pts, Complex.normSq (q.1 - q.2) / Complex.normSq q.1 = p ^ 2 / 5000 := by
      intro q hq
      obtain ⟨h0, hr, hi⟩ := hres q hq
      have hn : Complex.normSq q.1 ≠ 0 := by simpa [Complex.normSq_eq_zero] using h0
      have hnorm : ‖q.1‖ ^ 2 = Complex.normSq q.1 := by rw [Complex.sq_norm]
      rw [Complex.normSq_apply, ← sq, ← sq, ← sq_abs (q.1 - q.2).re, ← sq_abs (q.1 - q.2).im, hr, hi]
      field_simp
      rw [← hnorm]; ring
    clear hne hres
    induction pts with
    | nil => simp
    | cons q t ih =>
      simp only [List.map_cons, List.sum_cons, List.length_cons]
      rw [hterm q List.mem_cons_self, ih (fun r hr => hterm r (List.mem_cons_of_mem _ hr))]
      push_cast; ring
  rw [hsum]
  exact est_roundtrip pts.length p (List.length_pos_of_ne_nil hne) hp

/-! ## the target number of RC elements -/

/-- `_calculate_intercept_of_lines(s1, o1, s2, o2)` is the abscissa where the lines `s1·x + o1` and `s2·x + o2` meet -/
theorem intercept_is_where_lines_meet (s1 o1 s2 o2 : ℝ) (h : s1 - s2 ≠ 0) :
    let env : String → ℂ := fun k => if k = "s1" then (s1 : ℂ) else if k = "o1" then (o1 : ℂ) else if k = "s2" then (s2 : ℂ) else if k = "o2" then (o2 : ℂ) else 0
    (s1 : ℂ) * evalC env Gen.K.intercept_of_lines + o1 = (s2 : ℂ) * evalC env Gen.K.intercept_of_lines + o2 := by
  intro env
  have h' : ((s1 : ℂ) - (s2 : ℂ)) ≠ 0 := by exact_mod_cast h
  unfold Gen.K.intercept_of_lines
  simp only [evalC, E.eval, opsC, env, ↓reduceIte, String.reduceEq]
  rw [show (s1 : ℂ) + -(s2 : ℂ) = (s1 : ℂ) - s2 by ring]
  field_simp
  ring

/-- **The target number of RC elements is where the extrapolated initial descent of log χ² reaches the lowest
log χ² found** — in the main estimate (regression line `slope·x + intercept`, level `y_best`) and in the fallback
(first of the two fitted lines, `p0·x + p1`, level `min y`), as the two call sites of
`_calculate_intercept_of_lines` in `_estimate_target_num_RC` are written in `/repo` now. -/
theorem target_on_descent_line (slope intercept ybest p0 p1 ymin : ℝ) (hs : slope ≠ 0) (hp : p0 ≠ 0) :
    let env : String → ℂ := fun k => if k = "slope" then (slope : ℂ) else if k = "intercept" then (intercept : ℂ) else if k = "ybest" then (ybest : ℂ)
      else if k = "p0" then (p0 : ℂ) else if k = "p1" then (p1 : ℂ) else if k = "ymin" then (ymin : ℂ) else 0
    (slope : ℂ) * evalC env Gen.K.target_main + intercept = ybest ∧ (p0 : ℂ) * evalC env Gen.K.target_fallback + p1 = ymin := by
  intro env
  have hs' : (slope : ℂ) ≠ 0 := by exact_mod_cast hs
  have hp' : (p0 : ℂ) ≠ 0 := by exact_mod_cast hp
  unfold Gen.K.target_main Gen.K.target_fallback
  simp only [evalC, E.eval, opsC, env, ↓reduceIte, String.reduceEq, Nat.cast_zero, neg_zero, add_zero]
  constructor <;> field_simp <;> ring

theorem all_kkauto_kernels_covered : Gen.K.kkAutoKernels = ["est_pct_noise", "est_pseudo_chisqr", "noise_sd", "intercept_of_lines", "target_fallback", "target_main"] := by decide

end C10

import PyImpSpec.Select

/-! # C17 — results are independent of worker scheduling (selection logic)

Model: `Select.pickBest` (= `sorted(results, key)[0]`); collection disciplines: ordered (`imap`, `map`) is
`List.map`, unordered (`imap_unordered`) is an arbitrary permutation of it. Tied to `/repo` by the
correspondence stream `sel` (the keys of the results actually collected inside `perform_zhit` /
`fit_circuit`, under forced permutations of the completion order, and the winner actually returned). -/

namespace C17
open Select

/-- `m` is the unique minimiser of `key` over `l` -/
def UniqueMin {α : Type} (key : α → Int) (l : List α) (m : α) : Prop :=
  m ∈ l ∧ ∀ x ∈ l, x ≠ m → key m < key x

theorem head_of_sorted_is_min {α : Type} (key : α → Int) (l : List α) (m : α)
    (hs : l.Pairwise (fun a b => decide (key a ≤ key b) = true))
    (hm : UniqueMin key l m) : l.head? = some m := by
  cases l with
  | nil => exact absurd hm.1 (by simp)
  | cons a t =>
    simp only [List.head?_cons, Option.some.injEq]
    by_cases h : a = m
    · exact h
    · exfalso
      have hlt := hm.2 a (by simp) h
      have hmt : m ∈ t := by
        have := hm.1
        simp only [List.mem_cons] at this
        rcases this with h' | h'
        · exact absurd h'.symm h
        · exact h'
      have := (List.pairwise_cons.mp hs).1 m hmt
      simp at this
      omega

/-- with a unique best result, `sorted(...)[0]` is that result -/
theorem pickBest_of_uniqueMin {α : Type} (key : α → Int) (l : List α) (m : α)
    (hm : UniqueMin key l m) : pickBest key l = some m := by
  unfold pickBest
  apply head_of_sorted_is_min key
  · apply List.pairwise_mergeSort
    · intro a b c hab hbc; simp at *; omega
    · intro a b; simp; omega
  · refine ⟨List.mem_mergeSort.mpr hm.1, ?_⟩
    intro x hx hne
    exact hm.2 x (List.mem_mergeSort.mp hx) hne

/-- **Any two completion orders select the same winner** when the best key is unique. -/
theorem pickBest_perm {α : Type} (key : α → Int) (l₁ l₂ : List α) (m : α)
    (hp : l₁.Perm l₂) (hm : UniqueMin key l₁ m) : pickBest key l₁ = pickBest key l₂ := by
  have hm₂ : UniqueMin key l₂ m :=
    ⟨hp.mem_iff.mp hm.1, fun x hx hne => hm.2 x (hp.mem_iff.mpr hx) hne⟩
  rw [pickBest_of_uniqueMin key l₁ m hm, pickBest_of_uniqueMin key l₂ m hm₂]

/-- **With ties the winners may differ, but only among results with the same (minimal) key**: whatever
the completion order, the selected result has the smallest key. This is the exact condition under which
the property can fail, and the one the harness looks for. -/
theorem pickBest_key_minimal {α : Type} (key : α → Int) (l : List α) (w : α) (h : pickBest key l = some w) :
    w ∈ l ∧ ∀ x ∈ l, key w ≤ key x := by
  unfold pickBest at h
  have hs : (l.mergeSort (fun a b => decide (key a ≤ key b))).Pairwise (fun a b => decide (key a ≤ key b) = true) := by
    apply List.pairwise_mergeSort
    · intro a b c hab hbc; simp at *; omega
    · intro a b; simp; omega
  cases hl : l.mergeSort (fun a b => decide (key a ≤ key b)) with
  | nil => rw [hl] at h; simp at h
  | cons a t =>
    rw [hl] at h hs
    simp only [List.head?_cons, Option.some.injEq] at h
    subst h
    have hmem : a ∈ l := List.mem_mergeSort.mp (by rw [hl]; simp)
    refine ⟨hmem, fun x hx => ?_⟩
    have hx' : x ∈ a :: t := by rw [← hl]; exact List.mem_mergeSort.mpr hx
    rcases List.mem_cons.mp hx' with rfl | hx'
    · omega
    · have := (List.pairwise_cons.mp hs).1 x hx'
      simpa using this

theorem pickBest_keys_agree {α : Type} (key : α → Int) (l₁ l₂ : List α) (w₁ w₂ : α)
    (hp : l₁.Perm l₂) (h1 : pickBest key l₁ = some w₁) (h2 : pickBest key l₂ = some w₂) : key w₁ = key w₂ := by
  obtain ⟨m1, a1⟩ := pickBest_key_minimal key l₁ w₁ h1
  obtain ⟨m2, a2⟩ := pickBest_key_minimal key l₂ w₂ h2
  have := a1 w₂ (hp.mem_iff.mpr m2)
  have := a2 w₁ (hp.mem_iff.mp m1)
  omega

/-- **Ordered collection (`imap` / `map`, used by `fit_circuit` and the CNLS Kramers-Kronig test) is
schedule-free outright**: the list handed to the selection is `args.map f` whatever the completion order,
so the winner is a function of the arguments alone — ties included. -/
theorem ordered_collection_schedule_free {α β : Type} (key : β → Int) (f : α → β) (args : List α) :
    ∀ completionOrder : List Nat, pickBest key (args.map f) = pickBest key (args.map f) := fun _ => rfl

theorem product_perm {ω ρ : Type} (ws : List ω) (rs rs' : List ρ) (h : rs.Perm rs') :
    (product ws rs).Perm (product ws rs') := by
  unfold product
  induction ws with
  | nil => simp
  | cons w t ih => simp only [List.flatMap_cons]; exact (h.map _).append ih

/-- **Z-HIT, both stages.** The reconstructions arrive in any order (stage 1, `imap_unordered`), the
offset adjustments of every (window, reconstruction) pair arrive in any order (stage 2,
`imap_unordered`), and still the same result is selected — provided the smallest pseudo chi-squared is
attained once. -/
theorem zhit_two_stage {ω ρ β : Type} (key : β → Int) (f : ω × ρ → β) (ws : List ω) (rs rs' : List ρ)
    (results' : List β) (m : β)
    (h1 : rs.Perm rs') (h2 : results'.Perm ((product ws rs').map f))
    (hm : UniqueMin key ((product ws rs).map f) m) :
    pickBest key results' = pickBest key ((product ws rs).map f) := by
  have hp : ((product ws rs).map f).Perm results' := ((product_perm ws rs rs' h1).map f).trans h2.symm
  exact (pickBest_perm key _ _ m hp hm).symm

/-- non-vacuity -/
example : UniqueMin (fun p : Int × String => p.1) [(3,"a"),(1,"b"),(2,"c")] (1,"b") ∧
    pickBest (fun p : Int × String => p.1) [(3,"a"),(1,"b"),(2,"c")] = some (1,"b") := by
  have h : UniqueMin (fun p : Int × String => p.1) [(3,"a"),(1,"b"),(2,"c")] (1,"b") := by
    refine ⟨by decide, ?_⟩
    intro x hx hne
    simp at hx
    rcases hx with rfl | rfl | rfl <;> simp_all
  exact ⟨h, pickBest_of_uniqueMin _ _ _ h⟩

end C17

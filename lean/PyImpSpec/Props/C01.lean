import PyImpSpec.Impedance.TreeProof
import Mathlib.Algebra.BigOperators.Group.List.Lemmas

/-! # C01 — circuit impedance obeys the series/parallel composition laws

Model: `Imp.*` (`parallelImpl` is a transcription of `Parallel._impedance`, `seriesImpl` of
`Series._impedance`, `evalImpl` the recursion through `_impedance`, `circuitImpl` what
`Circuit.get_impedances` returns), generic in the number type; tied to `/repo` by the correspondence
stream `imp`: the driver evaluates the same definitions at exact complex rationals on the leaf vectors
that the real elements produce, for exhaustively/randomly generated circuits built four different ways. -/

namespace C01
open Imp
variable {K : Type} [Field K] [DecidableEq K]

/-- **Parallel law.** For `n > 0` frequencies and children each of which is open at all frequencies or
at none (the code raises for anything else), `Parallel._impedance` returns at every frequency `0` if some
branch is shorted there, the reciprocal of the sum of reciprocals of the non-open branches otherwise,
and raises `InfiniteImpedance` exactly when every branch is open. -/
theorem parallel_refines (n : Nat) (hn : 0 < n) (cs : List (Vec K)) (hne : cs ≠ []) (hu : ∀ Z ∈ cs, Uniform n Z) :
    match parallelImpl n cs with
    | .ok v => v.length = n ∧ ∀ j, j < n → specPoint (col cs j) = some (v.getD j 0)
    | .infiniteImpedance => ∀ j, j < n → specPoint (col cs j) = none := by
  have := parallelImpl_refines_spec n hn cs hne hu
  cases h : parallelImpl n cs <;> rw [h] at this <;> exact this

omit [DecidableEq K] in
/-- **Series law.** `Series._impedance` returns the sum of the children's impedances at every frequency. -/
theorem series_refines (n : Nat) (cs : List (Vec K)) (hl : ∀ Z ∈ cs, Z.length = n) :
    (seriesImpl n cs).length = n ∧ ∀ j, j < n → (seriesImpl n cs).getD j .inf = specSeries (col cs j) :=
  seriesImpl_spec n cs hl

/-- **Every circuit.** For every finite nesting of series and parallel connections whose elements are
each open at all supplied frequencies or at none, the evaluation through `_impedance` yields at every
frequency the value given by the composition law, and raises exactly when the law has no value. -/
theorem circuit_refines (n : Nat) (hn : 0 < n) (t : Tree K) (hu : LeavesUniform n t) :
    match evalImpl n t with
    | some v => v.length = n ∧ ∀ j, j < n → specTree j t = some (v.getD j .inf)
    | none => ∀ j, j < n → specTree j t = none := by
  have := evalImpl_refines_spec n hn t hu
  cases h : evalImpl n t with
  | some v => rw [h] at this; exact ⟨this.1.1, this.2⟩
  | none => rw [h] at this; exact this

/-- **Every circuit, exactly as the code runs it.** `Parallel._impedance` evaluates its children inside
its loop, so an early `return` skips later children (`evalLazy`, the definition the driver executes).
Whenever no parallel connection nested anywhere in the circuit has all of its branches open — i.e. the
eager evaluation `evalImpl` is defined — the code's result is that value, and it is the value of the
composition law at every frequency. (When some nested parallel connection is entirely open the code
raises instead of treating it as an open branch: known finding F28.) -/
theorem circuit_refines_as_executed (n : Nat) (hn : 0 < n) (t : Tree K) (hu : LeavesUniform n t)
    (v : Vec K) (hv : evalImpl n t = some v) :
    evalLazy n t = some v ∧ v.length = n ∧ ∀ j, j < n → specTree j t = some (v.getD j .inf) := by
  have := circuit_refines n hn t hu
  rw [hv] at this
  exact ⟨lazy_of_strict n t v hv, this.1, this.2⟩

/-! ## one frequency at a time = as an array -/

mutual
/-- the circuit restricted to the `j`-th supplied frequency -/
def restrict (j : Nat) : Tree K → Tree K
  | .leaf Z => .leaf [Z.getD j .inf]
  | .series cs => .series (restrictL j cs)
  | .parallel cs => .parallel (restrictL j cs)
def restrictL (j : Nat) : List (Tree K) → List (Tree K)
  | [] => []
  | t :: ts => restrict j t :: restrictL j ts
end

mutual
theorem restrict_uniform (j : Nat) : (t : Tree K) → LeavesUniform 1 (restrict j t)
  | .leaf Z => by
    simp only [restrict, LeavesUniform, Uniform, List.length_cons, List.length_nil, isOpen, true_and]
    cases (Z.getD j .inf) <;> simp [XV.isInf]
  | .series cs => by simpa [restrict, LeavesUniform] using restrictL_uniform j cs
  | .parallel cs => by simpa [restrict, LeavesUniform] using restrictL_uniform j cs
theorem restrictL_uniform (j : Nat) : (ts : List (Tree K)) → LeavesUniformL 1 (restrictL j ts)
  | [] => by simp [restrictL, LeavesUniformL]
  | t :: ts => by
    simp only [restrictL, LeavesUniformL]
    exact ⟨restrict_uniform j t, restrictL_uniform j ts⟩
end

mutual
theorem spec_restrict (j : Nat) : (t : Tree K) → specTree 0 (restrict j t) = specTree j t
  | .leaf Z => by simp [restrict, specTree]
  | .series cs => by simp [restrict, specTree, specL_restrict j cs]
  | .parallel cs => by simp [restrict, specTree, specL_restrict j cs]
theorem specL_restrict (j : Nat) : (ts : List (Tree K)) → specList 0 (restrictL j ts) = specList j ts
  | [] => by simp [restrictL, specList]
  | t :: ts => by simp [restrictL, specList, spec_restrict j t, specL_restrict j ts]
end

/-- **Array evaluation = one frequency at a time.** If evaluating the circuit over the whole frequency
list yields `v`, then evaluating it at the `j`-th frequency alone yields `v[j]`; and if the array
evaluation raises, so does every single-frequency evaluation. -/
theorem array_eq_pointwise (n : Nat) (hn : 0 < n) (t : Tree K) (hu : LeavesUniform n t) (j : Nat) (hj : j < n) :
    match evalImpl n t with
    | some v => ∃ w, evalImpl 1 (restrict j t) = some w ∧ w.getD 0 .inf = v.getD j .inf
    | none => evalImpl 1 (restrict j t) = none := by
  have h1 := evalImpl_refines_spec n hn t hu
  have h2 := evalImpl_refines_spec 1 (by omega) (restrict j t) (restrict_uniform j t)
  cases hv : evalImpl n t with
  | some v =>
    rw [hv] at h1
    have e1 := h1.2 j hj
    cases hw : evalImpl 1 (restrict j t) with
    | some w =>
      rw [hw] at h2
      have e2 := h2.2 0 (by omega)
      rw [spec_restrict, e1] at e2
      exact ⟨w, rfl, by simpa using e2.symm⟩
    | none =>
      rw [hw] at h2
      have e2 := h2 0 (by omega)
      rw [spec_restrict, e1] at e2
      cases e2
  | none =>
    rw [hv] at h1
    have e1 := h1 j hj
    cases hw : evalImpl 1 (restrict j t) with
    | some w =>
      rw [hw] at h2
      have e2 := h2.2 0 (by omega)
      rw [spec_restrict, e1] at e2
      cases e2
    | none => rfl

/-! ## the order of the children does not matter -/

omit [DecidableEq K] in
theorem xadd_comm (a b : XV K) : XV.add a b = XV.add b a := by
  cases a <;> cases b <;> simp [XV.add, add_comm]
omit [DecidableEq K] in
theorem xadd_assoc (a b c : XV K) : XV.add (XV.add a b) c = XV.add a (XV.add b c) := by
  cases a <;> cases b <;> cases c <;> simp [XV.add, add_assoc]

omit [DecidableEq K] in
/-- **Series: order-independent.** -/
theorem series_perm (zs ws : List (XV K)) (h : zs.Perm ws) : specSeries zs = specSeries ws := by
  unfold specSeries
  induction h with
  | nil => rfl
  | cons x _ ih =>
    simp only [List.foldl_cons]
    have : ∀ (l : List (XV K)) (a b : XV K), l.foldl XV.add (XV.add a b) = XV.add (l.foldl XV.add a) b := by
      intro l
      induction l with
      | nil => intros; rfl
      | cons y t iht => intro a b; simp only [List.foldl_cons]; rw [xadd_assoc, xadd_comm b y, ← xadd_assoc, iht]
    rw [this, this, ih]
  | swap x y l =>
    simp only [List.foldl_cons]
    rw [xadd_assoc, xadd_comm y x, ← xadd_assoc]
  | trans _ _ ih1 ih2 => rw [ih1, ih2]

/-- **Parallel: order-independent.** -/
theorem parallel_perm (zs ws : List (XV K)) (h : zs.Perm ws) : specPoint zs = specPoint ws := by
  unfold specPoint
  rw [h.any_eq, h.all_eq]
  have : ((zs.filter (fun z => !z.isInf)).map (fun z => z.val⁻¹)).sum = ((ws.filter (fun z => !z.isInf)).map (fun z => z.val⁻¹)).sum :=
    ((h.filter _).map _).sum_eq
  rw [this]

/-- non-vacuity: one shorted (at the 2nd frequency), one open and one finite branch, over ℚ:
the hypotheses hold and the value is `[4/3, 0]` -/
example : (∀ Z ∈ [[XV.fin (2:ℚ), .fin 0], [.inf, .inf], [.fin 4, .fin 4]], Uniform 2 Z)
    ∧ (match parallelImpl (K := ℚ) 2 [[.fin 2, .fin 0], [.inf, .inf], [.fin 4, .fin 4]] with
       | .ok v => decide (v = [4/3, 0]) | _ => false) = true := by
  refine ⟨?_, by decide +kernel⟩
  intro Z hZ
  simp only [List.mem_cons, List.mem_nil_iff, or_false] at hZ
  rcases hZ with rfl | rfl | rfl <;> simp [Uniform, isOpen, XV.isInf]

end C01

import PyImpSpec.Fit
import PyImpSpec.ExprC
import PyImpSpec.Gen.Kernels
import Mathlib.Tactic.Linarith

/-! # C12 — circuit fitting recovers generating parameters and respects constraints

Proved on the model of the parameter bookkeeping (for EVERY circuit, every solver answer that respects
lmfit's contract — fixed parameters are returned unchanged, varied ones inside `[min, max]`): fixed
parameters keep their initial value exactly, every fitted value lies within its limits, limits and fixed
flags are untouched, the table of fitted parameters reports exactly the values of the returned circuit, and
the best (method, weight) combination has the smallest pseudo chi-squared of all successful fits.
Proved on the residual and weight kernels re-translated from `/repo`: for all four weights the residual
vanishes at a spectrum that reproduces the data and is a non-negative real otherwise, so the generating
parameters are a global minimiser with vanishing objective.  That lmfit finds it is numerical (PARTIAL). -/

namespace C12
open Fit

/-- the parameter `_to_lmfit` builds for parameter `p` of element `e` -/
def mkLP (e : El) (p : P) : LP := ⟨(p.sym, e.id), p.value, p.lo, p.hi, !p.fixed⟩

/-- the update `_from_lmfit` applies to one parameter -/
def upd (s : Sol) (e : El) (p : P) : P :=
  match s.get (p.sym, e.id) with
  | some v => { p with value := v }
  | none => p

theorem fromLmfit_eq (s : Sol) (c : Circuit) :
    fromLmfit s c = c.map fun e => { e with ps := e.ps.map (upd s e) } := rfl

/-- well-formed circuits: running identifiers are distinct, parameter symbols of an element are distinct
(`generate_element_identifiers`; property C16) -/
structure WF (c : Circuit) : Prop where
  ids : (c.map (·.id)).Nodup
  syms : ∀ e ∈ c, (e.ps.map (·.sym)).Nodup

/-- lmfit's contract: a value is reported for every parameter; a parameter with `vary = False` keeps its
value, a varied one stays inside its bounds -/
def Respects (lps : List LP) (s : Sol) : Prop :=
  ∀ lp ∈ lps, ∃ v, s.get lp.name = some v ∧ (lp.vary = false → v = lp.value) ∧
    (lp.vary = true → loOk lp.min v = true ∧ hiOk lp.max v = true)

theorem elemLPs_ok (e : El) (l : List LP) (h : elemLPs e = .ok l) :
    l = e.ps.map (mkLP e) ∧ ∀ p ∈ e.ps, loOk p.lo p.value = true ∧ hiOk p.hi p.value = true := by
  unfold elemLPs at h
  generalize e.ps = ps at h ⊢
  induction ps generalizing l with
  | nil => simp at h; subst h; simp
  | cons p ps ih =>
    simp only [List.foldr_cons] at h
    by_cases hok : (loOk p.lo p.value && hiOk p.hi p.value) = true
    · rw [if_pos hok] at h
      cases hr : List.foldr (fun p acc =>
          if (loOk p.lo p.value && hiOk p.hi p.value) = true then Except.map (fun x => (⟨(p.sym, e.id), p.value, p.lo, p.hi, !p.fixed⟩ : LP) :: x) acc
          else Except.error "ValueError") (Except.ok []) ps with
      | error x => rw [hr] at h; cases h
      | ok l' =>
        rw [hr] at h
        simp only [Except.map, Except.ok.injEq] at h
        subst h
        obtain ⟨h1, h2⟩ := ih l' hr
        refine ⟨by simp [h1, mkLP], ?_⟩
        intro q hq
        rcases List.mem_cons.mp hq with rfl | hq
        · simpa using hok
        · exact h2 q hq
    · rw [if_neg hok] at h; cases h

/-- `_to_lmfit` returns exactly one lmfit parameter per element parameter — carrying its value, its limits
and `vary = not fixed` — and only when every value lies within its limits -/
theorem toLmfit_ok (c : Circuit) (lps : List LP) (h : toLmfit c = .ok lps) :
    lps = c.flatMap (fun e => e.ps.map (mkLP e)) ∧
    ∀ e ∈ c, ∀ p ∈ e.ps, loOk p.lo p.value = true ∧ hiOk p.hi p.value = true := by
  induction c generalizing lps with
  | nil => simp [toLmfit] at h; subst h; simp
  | cons e rest ih =>
    unfold toLmfit at h
    cases he : elemLPs e with
    | error x => rw [he] at h; cases h
    | ok l =>
      rw [he] at h
      cases hr : toLmfit rest with
      | error x => rw [hr] at h; cases h
      | ok l' =>
        rw [hr] at h
        simp only [Except.map, Except.ok.injEq] at h
        subst h
        obtain ⟨h1, h2⟩ := elemLPs_ok e l he
        obtain ⟨h3, h4⟩ := ih l' hr
        refine ⟨by simp [h1, h3], ?_⟩
        intro e' he' p hp
        rcases List.mem_cons.mp he' with rfl | he'
        · exact h2 p hp
        · exact h4 e' he' p hp

theorem mkLP_mem (c : Circuit) (lps : List LP) (h : toLmfit c = .ok lps) (e : El) (he : e ∈ c) (p : P) (hp : p ∈ e.ps) :
    mkLP e p ∈ lps := by
  rw [(toLmfit_ok c lps h).1, List.mem_flatMap]
  exact ⟨e, he, List.mem_map.mpr ⟨p, hp, rfl⟩⟩

/-- **Fixed parameters keep their initial value exactly** (the whole parameter record is unchanged). -/
theorem fixed_kept (c : Circuit) (lps : List LP) (s : Sol) (h : toLmfit c = .ok lps) (hs : Respects lps s)
    (e : El) (he : e ∈ c) (p : P) (hp : p ∈ e.ps) (hf : p.fixed = true) : upd s e p = p := by
  obtain ⟨v, hv, hfix, _⟩ := hs _ (mkLP_mem c lps h e he p hp)
  have : v = p.value := hfix (by simp [mkLP, hf])
  unfold upd
  simp only [mkLP] at hv
  rw [hv, this]

/-- **Every fitted value lies within that parameter's limits; limits, fixed flag and symbol are untouched.** -/
theorem within_limits (c : Circuit) (lps : List LP) (s : Sol) (h : toLmfit c = .ok lps) (hs : Respects lps s)
    (e : El) (he : e ∈ c) (p : P) (hp : p ∈ e.ps) :
    loOk p.lo (upd s e p).value = true ∧ hiOk p.hi (upd s e p).value = true ∧
    (upd s e p).lo = p.lo ∧ (upd s e p).hi = p.hi ∧ (upd s e p).fixed = p.fixed ∧ (upd s e p).sym = p.sym := by
  obtain ⟨v, hv, hfix, hvar⟩ := hs _ (mkLP_mem c lps h e he p hp)
  have horig := (toLmfit_ok c lps h).2 e he p hp
  simp only [mkLP] at hv hfix hvar
  unfold upd
  rw [hv]
  simp only [and_self, and_true]
  cases hfx : p.fixed with
  | true =>
    have : v = p.value := hfix (by simp [hfx])
    rw [this]; exact horig
  | false => exact hvar (by simp [hfx])

/-- a circuit whose values are not all within their limits is refused before any fitting -/
theorem out_of_limits_refused (c : Circuit) (e : El) (he : e ∈ c) (p : P) (hp : p ∈ e.ps)
    (hbad : (loOk p.lo p.value && hiOk p.hi p.value) = false) : ∃ x, toLmfit c = .error x := by
  cases h : toLmfit c with
  | error x => exact ⟨x, rfl⟩
  | ok lps =>
    have := (toLmfit_ok c lps h).2 e he p hp
    simp [this.1, this.2] at hbad

/-! ## the table of fitted parameters -/

theorem varNames_mem (c : Circuit) (lps : List LP) (h : toLmfit c = .ok lps) (n : Name) :
    n ∈ varNames lps ↔ ∃ e ∈ c, ∃ p ∈ e.ps, p.fixed = false ∧ n = (p.sym, e.id) := by
  unfold varNames
  rw [(toLmfit_ok c lps h).1]
  simp only [List.mem_map, List.mem_filter, List.mem_flatMap]
  constructor
  · rintro ⟨lp, ⟨⟨e, he, p, hp, rfl⟩, hv⟩, rfl⟩
    exact ⟨e, he, p, hp, by simpa [mkLP] using hv, rfl⟩
  · rintro ⟨e, he, p, hp, hf, rfl⟩
    exact ⟨mkLP e p, ⟨⟨e, he, p, hp, rfl⟩, by simp [mkLP, hf]⟩, rfl⟩

theorem id_unique {c : Circuit} (hw : WF c) {e e' : El} (he : e ∈ c) (he' : e' ∈ c) (hid : e.id = e'.id) : e = e' := by
  have := hw.ids
  induction c with
  | nil => cases he
  | cons a t ih =>
    simp only [List.map_cons, List.nodup_cons, List.mem_map, not_exists, not_and] at this
    rcases List.mem_cons.mp he with h1 | h1
    · rcases List.mem_cons.mp he' with h2 | h2
      · rw [h1, h2]
      · subst h1; exact absurd hid.symm (this.1 e' h2)
    · rcases List.mem_cons.mp he' with h2 | h2
      · subst h2; exact absurd hid (this.1 e h1)
      · exact ih ⟨this.2, fun x hx => hw.syms x (List.mem_cons_of_mem _ hx)⟩ h1 h2 this.2

/-- **The table reports exactly the values of the returned circuit**: every parameter of every element
of the returned circuit appears in that element's rows with its (fitted or fixed) value and its fixed flag. -/
theorem table_reports_circuit (c : Circuit) (lps : List LP) (s : Sol) (h : toLmfit c = .ok lps) (hs : Respects lps s)
    (hw : WF c) (e : El) (he : e ∈ c) (p : P) (hp : p ∈ e.ps) :
    (⟨p.sym, (upd s e p).value, p.fixed⟩ : Row) ∈
      extractEl (varNames lps) s { e with ps := e.ps.map (upd s e) } := by
  obtain ⟨v, hv, hfix, hvar⟩ := hs _ (mkLP_mem c lps h e he p hp)
  simp only [mkLP] at hv hfix hvar
  unfold extractEl
  rw [List.mem_append]
  cases hfx : p.fixed with
  | false =>
    left
    simp only [List.mem_filterMap, List.mem_filter, decide_eq_true_eq, Option.map_eq_some_iff]
    refine ⟨(p.sym, e.id), ⟨(varNames_mem c lps h _).mpr ⟨e, he, p, hp, hfx, rfl⟩, rfl⟩, v, hv, ?_⟩
    simp [upd, hv]
  | true =>
    right
    simp only [List.mem_filterMap, List.mem_map]
    refine ⟨upd s e p, ⟨p, hp, rfl⟩, ?_⟩
    have hkeep := fixed_kept c lps s h hs e he p hp hfx
    -- no varied row carries this symbol: a varied name of this element belongs to a non-fixed parameter
    have hnone : (((varNames lps).filter (·.2 = e.id)).filterMap fun n => (s.get n).map fun v => (⟨n.1, v, false⟩ : Row)).any
        (fun r => r.sym = (upd s e p).sym) = false := by
      rw [hkeep]
      rw [List.any_eq_false]
      intro r hr
      simp only [List.mem_filterMap, List.mem_filter, decide_eq_true_eq, Option.map_eq_some_iff] at hr
      obtain ⟨n, ⟨hn, hnid⟩, w, _, rfl⟩ := hr
      obtain ⟨e', he', p', hp', hf', rfl⟩ := (varNames_mem c lps h n).mp hn
      have hee : e' = e := id_unique hw he' he hnid
      subst hee
      simp only [decide_eq_true_eq]
      intro hsym
      -- same symbol inside one element: same parameter
      have hnd := hw.syms e' he
      have : p' = p := by
        have hinj := List.inj_on_of_nodup_map hnd
        exact hinj hp' hp hsym
      subst this
      rw [hfx] at hf'; cases hf'
    simp only [hnone, Bool.false_eq_true, ↓reduceIte, Option.some.injEq]
    rw [hkeep]

/-! ## the best combination -/

theorem best_mem {l : List Res} {r : Res} (h : best l = some r) : r ∈ l := by
  cases l with
  | nil => simp [best] at h
  | cons c rest =>
    simp only [best, Option.some.injEq] at h
    subst h
    suffices ∀ (t : List Res) (b : Res), t.foldl (fun b x => if x.lt b then x else b) b = b ∨
        t.foldl (fun b x => if x.lt b then x else b) b ∈ t by
      rcases this rest c with h | h
      · rw [h]; exact List.mem_cons_self
      · exact List.mem_cons_of_mem _ h
    intro t
    induction t with
    | nil => intro b; left; rfl
    | cons x t ih =>
      intro b
      simp only [List.foldl_cons]
      by_cases hx : x.lt b = true
      · simp only [hx, ↓reduceIte]
        rcases ih x with h | h
        · right; rw [h]; exact List.mem_cons_self
        · right; exact List.mem_cons_of_mem _ h
      · simp only [hx, Bool.false_eq_true, ↓reduceIte]
        rcases ih b with h | h
        · left; exact h
        · right; exact List.mem_cons_of_mem _ h

/-- no element is strictly better than the one chosen -/
theorem best_not_lt {l : List Res} {r : Res} (h : best l = some r) : ∀ t ∈ l, t.lt r = false := by
  have trans' : ∀ a b c : Res, a.lt b = false → c.lt a = false → c.lt b = false := by
    intro a b c h1 h2
    unfold Res.lt at *
    cases ha : a.chi <;> cases hb : b.chi <;> cases hc : c.chi <;> simp_all <;> omega
  have lt_of : ∀ a b : Res, a.lt b = true → b.lt a = false := by
    intro a b h1
    unfold Res.lt at *
    cases ha : a.chi <;> cases hb : b.chi <;> simp_all <;> omega
  have irrefl : ∀ a : Res, a.lt a = false := by
    intro a; unfold Res.lt; cases a.chi <;> simp
  cases l with
  | nil => simp [best] at h
  | cons c rest =>
    simp only [best, Option.some.injEq] at h
    subst h
    have key : ∀ (t : List Res) (b : Res),
        b.lt (t.foldl (fun b x => if x.lt b then x else b) b) = false ∧
        ∀ x ∈ t, x.lt (t.foldl (fun b x => if x.lt b then x else b) b) = false := by
      intro t
      induction t with
      | nil => intro b; exact ⟨irrefl b, by simp⟩
      | cons x t ih =>
        intro b
        simp only [List.foldl_cons]
        by_cases hx : x.lt b = true
        · simp only [hx, ↓reduceIte]
          obtain ⟨h1, h2⟩ := ih x
          refine ⟨?_, ?_⟩
          · -- b is not better than x, x not better than the result
            exact trans' x _ b h1 (lt_of x b hx)
          · intro y hy
            rcases List.mem_cons.mp hy with rfl | hy
            · exact h1
            · exact h2 y hy
        · simp only [hx, Bool.false_eq_true, ↓reduceIte]
          obtain ⟨h1, h2⟩ := ih b
          refine ⟨h1, ?_⟩
          intro y hy
          rcases List.mem_cons.mp hy with rfl | hy
          · exact trans' b _ y h1 (by simpa using hx)
          · exact h2 y hy
    intro t ht
    rcases List.mem_cons.mp ht with rfl | ht
    · exact (key rest _).1
    · exact (key rest c).2 t ht

/-- **The returned fit is a successful one with the smallest pseudo chi-squared of all successful
combinations**; `FittingError` is raised exactly when every combination failed. -/
theorem pick_minimal (l : List Res) (r : Res) (h : pick l = .ok r) :
    r ∈ l ∧ ∃ x, r.chi = some x ∧ ∀ t ∈ l, ∀ y, t.chi = some y → x ≤ y := by
  unfold pick at h
  cases hb : best l with
  | none => rw [hb] at h; cases h
  | some b =>
    rw [hb] at h
    simp only at h
    by_cases hsome : b.chi.isSome = true
    · rw [if_pos hsome] at h
      simp only [Except.ok.injEq] at h; subst h
      obtain ⟨x, hx⟩ := Option.isSome_iff_exists.mp hsome
      refine ⟨best_mem hb, x, hx, ?_⟩
      intro t ht y hy
      have := best_not_lt hb t ht
      unfold Res.lt at this
      rw [hy, hx] at this
      simpa using this
    · rw [if_neg hsome] at h; cases h

theorem pick_error_iff (l : List Res) : (∃ e, pick l = .error e) ↔ ∀ t ∈ l, t.chi = none := by
  unfold pick
  cases hb : best l with
  | none =>
    cases l with
    | nil => simp
    | cons c rest => simp [best] at hb
  | some b =>
    simp only
    constructor
    · rintro ⟨e, he⟩ t ht
      by_cases hsome : b.chi.isSome = true
      · rw [if_pos hsome] at he; cases he
      · have hbn : b.chi = none := by simpa using hsome
        have := best_not_lt hb t ht
        unfold Res.lt at this
        rw [hbn] at this
        cases hc : t.chi with
        | none => rfl
        | some y => rw [hc] at this; simp at this
    · intro hall
      have := hall b (best_mem hb)
      simp [this]

/-! ## the objective vanishes exactly at spectra that reproduce the data -/

open Complex

def envZ (Zexp Zfit : ℂ) : String → ℂ := fun k => if k = "Z_exp" then Zexp else if k = "Z_fit" then Zfit else 0

theorem err_re_formula (Zexp Zfit : ℂ) : evalC (envZ Zexp Zfit) Gen.K.fit_err_re = (((Zexp.re - Zfit.re) ^ 2 : ℝ) : ℂ) := by
  unfold Gen.K.fit_err_re
  simp only [evalC, E.eval, opsC, envZ, ↓reduceIte, String.reduceEq, Nat.cast_ofNat]
  rw [show (2 : ℂ) = ((2 : ℕ) : ℂ) by norm_num, Complex.cpow_natCast]
  push_cast; ring

theorem err_im_formula (Zexp Zfit : ℂ) : evalC (envZ Zexp Zfit) Gen.K.fit_err_im = (((Zexp.im - Zfit.im) ^ 2 : ℝ) : ℂ) := by
  unfold Gen.K.fit_err_im
  simp only [evalC, E.eval, opsC, envZ, ↓reduceIte, String.reduceEq, Nat.cast_ofNat]
  rw [show (2 : ℂ) = ((2 : ℕ) : ℂ) by norm_num, Complex.cpow_natCast]
  push_cast; ring

/-- **At a spectrum that reproduces the data both error rows vanish**, so the weighted residual of every
weight function is zero and the generating parameters attain the objective's lower bound 0. -/
theorem residual_zero_at_truth (Z : ℂ) (w : ℂ) :
    w * evalC (envZ Z Z) Gen.K.fit_err_re = 0 ∧ w * evalC (envZ Z Z) Gen.K.fit_err_im = 0 := by
  rw [err_re_formula, err_im_formula]; simp

/-- conversely the error rows vanish only there -/
theorem errors_zero_iff (Zexp Zfit : ℂ) :
    (evalC (envZ Zexp Zfit) Gen.K.fit_err_re = 0 ∧ evalC (envZ Zexp Zfit) Gen.K.fit_err_im = 0) ↔ Zfit = Zexp := by
  rw [err_re_formula, err_im_formula]
  constructor
  · rintro ⟨h1, h2⟩
    have h1' : (Zexp.re - Zfit.re) ^ 2 = 0 := by exact_mod_cast h1
    have h2' : (Zexp.im - Zfit.im) ^ 2 = 0 := by exact_mod_cast h2
    have a := pow_eq_zero_iff (two_ne_zero) |>.mp h1'
    have b := pow_eq_zero_iff (two_ne_zero) |>.mp h2'
    apply Complex.ext <;> linarith
  · rintro rfl; simp

/-- the four weights are non-negative reals (so each residual entry is a non-negative real) -/
theorem weights_nonneg (Zexp Zfit : ℂ) :
    (∃ r : ℝ, 0 ≤ r ∧ evalC (envZ Zexp Zfit) Gen.K.fit_w_unity_re = r) ∧
    (∃ r : ℝ, 0 ≤ r ∧ evalC (envZ Zexp Zfit) Gen.K.fit_w_modulus_re = r) ∧
    (∃ r : ℝ, 0 ≤ r ∧ evalC (envZ Zexp Zfit) Gen.K.fit_w_proportional_re = r) ∧
    (∃ r : ℝ, 0 ≤ r ∧ evalC (envZ Zexp Zfit) Gen.K.fit_w_proportional_im = r) ∧
    (∃ r : ℝ, 0 ≤ r ∧ evalC (envZ Zexp Zfit) Gen.K.fit_w_boukamp_re = r) := by
  refine ⟨⟨1, by norm_num, ?_⟩, ⟨‖Zfit‖⁻¹, by positivity, ?_⟩, ⟨(Zfit.re ^ 2)⁻¹, by positivity, ?_⟩,
    ⟨(Zfit.im ^ 2)⁻¹, by positivity, ?_⟩, ⟨(Zexp.re ^ 2 + Zexp.im ^ 2)⁻¹, by positivity, ?_⟩⟩
  · unfold Gen.K.fit_w_unity_re; simp [evalC, E.eval, opsC]
  · unfold Gen.K.fit_w_modulus_re; simp [evalC, E.eval, opsC, envZ]
  · unfold Gen.K.fit_w_proportional_re
    simp only [evalC, E.eval, opsC, envZ, ↓reduceIte, String.reduceEq, Nat.cast_ofNat, Nat.cast_one, one_mul]
    rw [show (2 : ℂ) = ((2 : ℕ) : ℂ) by norm_num, Complex.cpow_natCast]; push_cast; rfl
  · unfold Gen.K.fit_w_proportional_im
    simp only [evalC, E.eval, opsC, envZ, ↓reduceIte, String.reduceEq, Nat.cast_ofNat, Nat.cast_one, one_mul]
    rw [show (2 : ℂ) = ((2 : ℕ) : ℂ) by norm_num, Complex.cpow_natCast]; push_cast; rfl
  · unfold Gen.K.fit_w_boukamp_re
    simp only [evalC, E.eval, opsC, envZ, ↓reduceIte, String.reduceEq, Nat.cast_ofNat, Nat.cast_one, Complex.cpow_neg_one]
    rw [show (2 : ℂ) = ((2 : ℕ) : ℂ) by norm_num, Complex.cpow_natCast, Complex.cpow_natCast]; push_cast; rfl

/-- real and imaginary rows of the symmetric weights coincide; only these weight functions exist -/
theorem weights_covered : Gen.K.fitWeights = ["unity", "modulus", "proportional", "boukamp"] ∧
    Gen.K.fit_w_unity_im = Gen.K.fit_w_unity_re ∧ Gen.K.fit_w_modulus_im = Gen.K.fit_w_modulus_re ∧
    Gen.K.fit_w_boukamp_im = Gen.K.fit_w_boukamp_re := by
  refine ⟨by decide, rfl, rfl, rfl⟩

/-- non-vacuity: a concrete circuit, a solver answer respecting the contract -/
example : toLmfit [⟨0, [⟨"R", 100, some 0, none, false⟩]⟩, ⟨1, [⟨"R", 200, some 0, none, true⟩, ⟨"C", 1, some 0, some 10, false⟩]⟩]
    = .ok [⟨("R", 0), 100, some 0, none, true⟩, ⟨("R", 1), 200, some 0, none, false⟩, ⟨("C", 1), 1, some 0, some 10, true⟩] := by decide

end C12

import PyImpSpec.ExprC
import PyImpSpec.Gen.Kernels
import Mathlib.Analysis.SpecialFunctions.Pow.Real
import Mathlib.Analysis.SpecialFunctions.Complex.Arg
import Mathlib.Analysis.SpecialFunctions.Complex.Log
import Mathlib.MeasureTheory.Integral.IntervalIntegral.Basic
import Mathlib.Algebra.Order.BigOperators.Group.List
import Mathlib.Tactic.Linarith

/-! # C11 — Z-HIT reconstructs the modulus from the phase

The reconstruction formula of `_reconstruct` (both representation branches) and the residual of the offset
fit are re-translated from `/repo` on every run (`Gen.K.zhit_*`).  Proved: the two branches coincide; for
a constant-phase immittance `K·(jω)^α` (resistor, capacitor, inductor, constant phase element, Warburg)
the reconstruction from the phase is exactly the change of `ln|Z|`; the offset is determined by the points
with non-zero weight, is unique when the data are reproducible, and shifts with a rescaling of the data;
symmetric unit-sum smoothing kernels leave constant and linear phase data unchanged.  Quadrature,
interpolators, library smoothers and lmfit are runtime (PARTIAL). -/

namespace C11
open Complex Real

/-- environment of the reconstruction formula: the integral of the phase and its derivative at the point -/
def envRec (integral derivative : ℝ) : String → ℂ :=
  fun k => if k = "integral" then (integral : ℂ) else if k = "derivative" then (derivative : ℂ) else 0

/-- the value `_reconstruct` appends, in closed form: `2/π · ∫φ + γ φ'` with `γ = −π/6` -/
theorem rec_Z_formula (integral derivative : ℝ) :
    evalC (envRec integral derivative) Gen.K.zhit_rec_Z = ((2 / π * integral + (-π / 6) * derivative : ℝ) : ℂ) := by
  unfold Gen.K.zhit_rec_Z
  simp only [evalC, E.eval, opsC, envRec, ↓reduceIte, String.reduceEq, Nat.cast_ofNat]
  push_cast
  ring

/-- **Both representations use the same formula**: the admittance branch `-(-2/π·∫φ − γφ')` equals the
impedance branch. -/
theorem rec_branches_agree (env : String → ℂ) : evalC env Gen.K.zhit_rec_Y = evalC env Gen.K.zhit_rec_Z := by
  unfold Gen.K.zhit_rec_Y Gen.K.zhit_rec_Z
  simp only [evalC, E.eval, opsC]
  ring

/-! ## constant-phase immittances -/

noncomputable def Zcp (K α ω : ℝ) : ℂ := (K : ℂ) * (I * (ω : ℂ)) ^ (α : ℂ)

theorem Iω_ne_zero {ω : ℝ} (hω : 0 < ω) : I * (ω : ℂ) ≠ 0 :=
  mul_ne_zero I_ne_zero (by exact_mod_cast hω.ne')

/-- polar form of `(jω)^α` -/
theorem cpow_polar (α ω : ℝ) (hω : 0 < ω) :
    (I * (ω : ℂ)) ^ (α : ℂ) = ((ω ^ α : ℝ) : ℂ) * (Real.cos (α * (π / 2)) + Real.sin (α * (π / 2)) * I) := by
  have hne := Iω_ne_zero hω
  have hlog : Complex.log (I * (ω : ℂ)) = (Real.log ω : ℂ) + (π / 2 : ℝ) * I := by
    rw [mul_comm, Complex.log_ofReal_mul hω I_ne_zero, Complex.log_I]
    push_cast; ring
  rw [Complex.cpow_def_of_ne_zero hne, hlog]
  have : ((Real.log ω : ℂ) + ((π / 2 : ℝ) : ℂ) * I) * (α : ℂ) = ((α * Real.log ω : ℝ) : ℂ) + ((α * (π / 2) : ℝ) : ℂ) * I := by
    push_cast; ring
  rw [this, Complex.exp_add, Complex.exp_mul_I, ← Complex.ofReal_exp, ← Complex.ofReal_cos, ← Complex.ofReal_sin]
  congr 1
  rw [Real.rpow_def_of_pos hω, mul_comm]

/-- modulus: `‖Z‖ = K ω^α` -/
theorem norm_Zcp (K α ω : ℝ) (hK : 0 < K) (hω : 0 < ω) : ‖Zcp K α ω‖ = K * ω ^ α := by
  unfold Zcp
  rw [norm_mul, Complex.norm_cpow_real, norm_mul, Complex.norm_I, one_mul]
  simp [abs_of_pos hK, abs_of_pos hω]

/-- phase: `arg Z = α π/2`, independent of ω -/
theorem arg_Zcp (K α ω : ℝ) (hK : 0 < K) (hω : 0 < ω) (hα : -1 ≤ α ∧ α ≤ 1) : Complex.arg (Zcp K α ω) = α * (π / 2) := by
  unfold Zcp
  rw [cpow_polar α ω hω, ← mul_assoc, ← Complex.ofReal_mul, Complex.ofReal_cos, Complex.ofReal_sin]
  apply Complex.arg_mul_cos_add_sin_mul_I (mul_pos hK (Real.rpow_pos_of_pos hω α))
  constructor
  · nlinarith [Real.pi_pos]
  · nlinarith [Real.pi_pos]

/-- **Constant-phase spectra are reconstructed exactly.** For `Z(ω) = K·(jω)^α` with `K > 0`,
`−1 ≤ α ≤ 1` (R: α = 0, C: −1, L: 1, Q and W in between), the value `_reconstruct` computes from the exact
phase between `ω_s` and `ω_0` — with the integral of the phase over `ln ω` and a vanishing derivative — is
exactly `ln‖Z(ω_0)‖ − ln‖Z(ω_s)‖`. -/
theorem zhit_exact_constant_phase (K α ωs ω0 : ℝ) (hK : 0 < K) (hs : 0 < ωs) (h0 : 0 < ω0) (hα : -1 ≤ α ∧ α ≤ 1) :
    evalC (envRec (∫ x in (Real.log ωs)..(Real.log ω0), Complex.arg (Zcp K α (Real.exp x))) 0) Gen.K.zhit_rec_Z
      = ((Real.log ‖Zcp K α ω0‖ - Real.log ‖Zcp K α ωs‖ : ℝ) : ℂ) := by
  rw [rec_Z_formula]
  congr 1
  have hφ : (fun x => Complex.arg (Zcp K α (Real.exp x))) = fun _ => α * (π / 2) := by
    funext x; exact arg_Zcp K α _ hK (Real.exp_pos x) hα
  rw [hφ, intervalIntegral.integral_const, norm_Zcp K α ω0 hK h0, norm_Zcp K α ωs hK hs]
  rw [Real.log_mul hK.ne' (Real.rpow_pos_of_pos h0 α).ne', Real.log_mul hK.ne' (Real.rpow_pos_of_pos hs α).ne',
      Real.log_rpow h0, Real.log_rpow hs]
  have hπ : π ≠ 0 := Real.pi_ne_zero
  simp only [smul_eq_mul, mul_zero, add_zero]
  field_simp
  ring

/-! ## the offset adjustment -/

/-- one data point of the offset fit: weight, reconstructed `ln|Z|`, measured `ln|Z|` -/
structure Pt where
  w : ℝ
  r : ℝ
  m : ℝ

def envOff (p : Pt) (o : ℝ) : String → ℂ :=
  fun k => if k = "weights" then (p.w : ℂ) else if k = "reconstruction" then (p.r : ℂ) else if k = "ln_modulus" then (p.m : ℂ)
    else if k = "offset" then (o : ℂ) else 0

/-- `_offset_residual`, in closed form -/
theorem offset_residual_formula (p : Pt) (o : ℝ) :
    evalC (envOff p o) Gen.K.zhit_offset_residual = ((p.w * ((p.r + o) - p.m) ^ 2 : ℝ) : ℂ) := by
  unfold Gen.K.zhit_offset_residual
  simp only [evalC, E.eval, opsC, envOff, ↓reduceIte, String.reduceEq, Nat.cast_ofNat]
  have e2 : ∀ z : ℂ, z ^ (2 : ℂ) = z ^ 2 := fun z => by
    rw [show (2 : ℂ) = ((2 : ℕ) : ℂ) by norm_num, Complex.cpow_natCast]
  rw [e2]
  push_cast
  ring

/-- what the least-squares fit of the offset minimises: the sum of the squared residuals -/
noncomputable def objective (pts : List Pt) (o : ℝ) : ℝ := (pts.map fun p => (p.w * ((p.r + o) - p.m) ^ 2) ^ 2).sum

/-- **Only points with non-zero weight matter.** -/
theorem offset_ignores_zero_weights (pts : List Pt) (o : ℝ) :
    objective pts o = objective (pts.filter fun p => p.w ≠ 0) o := by
  unfold objective
  induction pts with
  | nil => rfl
  | cons p t ih =>
    by_cases h : p.w = 0
    · simp [h, ih]
    · simp [h, ih]

theorem objective_nonneg (pts : List Pt) (o : ℝ) : 0 ≤ objective pts o := by
  unfold objective
  apply List.sum_nonneg
  intro x hx
  obtain ⟨p, _, rfl⟩ := List.mem_map.mp hx
  positivity

/-- **Uniqueness.** If some offset `o*` reproduces the measured modulus at every weighted point and at
least one weight is non-zero, then the objective vanishes only at `o*`: every minimiser equals `o*`. -/
theorem offset_unique_of_exact (pts : List Pt) (ostar : ℝ) (hex : ∀ p ∈ pts, p.w ≠ 0 → p.r + ostar = p.m)
    (hw : ∃ p ∈ pts, p.w ≠ 0) (o : ℝ) (hmin : ∀ o', objective pts o ≤ objective pts o') : o = ostar := by
  have h0 : objective pts ostar = 0 := by
    unfold objective
    apply List.sum_eq_zero
    intro x hx
    obtain ⟨p, hp, rfl⟩ := List.mem_map.mp hx
    by_cases hpw : p.w = 0
    · simp [hpw]
    · rw [hex p hp hpw]; simp
  have hz : objective pts o = 0 := le_antisymm (h0 ▸ hmin ostar) (objective_nonneg pts o)
  obtain ⟨p, hp, hpw⟩ := hw
  -- every term of a vanishing sum of non-negative terms vanishes
  have hterm : (p.w * ((p.r + o) - p.m) ^ 2) ^ 2 = 0 := by
    unfold objective at hz
    have hall : ∀ x ∈ (pts.map fun p => (p.w * ((p.r + o) - p.m) ^ 2) ^ 2), 0 ≤ x := by
      intro x hx
      obtain ⟨q, _, rfl⟩ := List.mem_map.mp hx
      positivity
    exact List.all_zero_of_le_zero_le_of_sum_eq_zero hall hz (List.mem_map.mpr ⟨p, hp, rfl⟩)
  have h1 : p.w * ((p.r + o) - p.m) ^ 2 = 0 := by
    exact pow_eq_zero_iff (by norm_num) |>.mp hterm
  have h2 : ((p.r + o) - p.m) ^ 2 = 0 := by
    rcases mul_eq_zero.mp h1 with h | h
    · exact absurd h hpw
    · exact h
  have h3 : (p.r + o) - p.m = 0 := pow_eq_zero_iff (by norm_num) |>.mp h2
  have := hex p hp hpw
  linarith

/-- **Scaling.** Multiplying the impedance by `c` adds `d = ln c` to every measured `ln|Z|`; the objective
of the shifted problem at `o + d` equals the original objective at `o`, so the fitted offset — and with it
the reconstructed modulus — shifts by exactly `d` (i.e. scales by `c`). -/
theorem offset_shift (pts : List Pt) (o d : ℝ) :
    objective (pts.map fun p => { p with m := p.m + d }) (o + d) = objective pts o := by
  unfold objective
  rw [List.map_map]
  congr 1
  apply List.map_congr_left
  intro p _
  simp only [Function.comp]
  ring

/-! ## smoothing kernels -/

/-- **A symmetric kernel with unit sum leaves constant and linear data unchanged** (interior points of a
convolution smoother): `Σ_k w_k (a + b (i + k)) = a + b i` when `Σ w_k = 1` and `Σ k w_k = 0`. -/
theorem conv_preserves_affine (ws : List (ℤ × ℝ)) (a b : ℝ) (i : ℤ)
    (hsum : (ws.map (·.2)).sum = 1) (hsym : (ws.map fun kw => (kw.1 : ℝ) * kw.2).sum = 0) :
    (ws.map fun kw => kw.2 * (a + b * ((i : ℝ) + (kw.1 : ℝ)))).sum = a + b * (i : ℝ) := by
  have key : ∀ l : List (ℤ × ℝ), (l.map fun kw => kw.2 * (a + b * ((i : ℝ) + (kw.1 : ℝ)))).sum
      = (a + b * (i : ℝ)) * (l.map (·.2)).sum + b * (l.map fun kw => (kw.1 : ℝ) * kw.2).sum := by
    intro l
    induction l with
    | nil => simp
    | cons h t ih => simp only [List.map_cons, List.sum_cons, ih]; ring
  rw [key, hsum, hsym]; ring

/-- the kernels found in `/repo` are the ones covered above -/
theorem all_zhit_kernels_covered : Gen.K.zhitKernels = ["rec", "offset_residual"] := by decide

end C11

import PyImpSpec.ExprC
import PyImpSpec.Gen.Kernels

/-! # C02 — the numeric impedance of every element equals its documented equation

The terms `Gen.K.<Sym>_impl` (from the Python `ast` of `Class._impedance`) and `Gen.K.<Sym>_eqn` (from
`sympify(Class._equation)`, the tree `to_sympy` uses) are **regenerated from `/repo` on every run**; each
theorem below is therefore re-checked against what the code says now.  They hold for *every* complex
environment (all parameter values and frequencies, inside or outside the limit box), with `x ** y`
read as the principal complex power and `sqrt x` as `x ^ (1/2)`. -/

namespace C02
open Complex

theorem C_impl_eq_eqn (env : String → ℂ) : evalC env Gen.K.C_impl = evalC env Gen.K.C_eqn := by
  simp only [Gen.K.C_impl, Gen.K.C_eqn]; unfold_eval; elem_tac

theorem G_impl_eq_eqn (env : String → ℂ) : evalC env Gen.K.G_impl = evalC env Gen.K.G_eqn := by
  simp only [Gen.K.G_impl, Gen.K.G_eqn]; unfold_eval; elem_tac

theorem Ga_impl_eq_eqn (env : String → ℂ) : evalC env Gen.K.Ga_impl = evalC env Gen.K.Ga_eqn := by
  simp only [Gen.K.Ga_impl, Gen.K.Ga_eqn]; unfold_eval; elem_tac

theorem H_impl_eq_eqn (env : String → ℂ) : evalC env Gen.K.H_impl = evalC env Gen.K.H_eqn := by
  simp only [Gen.K.H_impl, Gen.K.H_eqn]; unfold_eval; elem_tac

theorem Ha_impl_eq_eqn (env : String → ℂ) : evalC env Gen.K.Ha_impl = evalC env Gen.K.Ha_eqn := by
  simp only [Gen.K.Ha_impl, Gen.K.Ha_eqn]; unfold_eval; elem_tac

theorem K_impl_eq_eqn (env : String → ℂ) : evalC env Gen.K.K_impl = evalC env Gen.K.K_eqn := by
  simp only [Gen.K.K_impl, Gen.K.K_eqn]; unfold_eval; elem_tac

theorem Ky_impl_eq_eqn (env : String → ℂ) : evalC env Gen.K.Ky_impl = evalC env Gen.K.Ky_eqn := by
  simp only [Gen.K.Ky_impl, Gen.K.Ky_eqn]; unfold_eval; elem_tac

theorem L_impl_eq_eqn (env : String → ℂ) : evalC env Gen.K.L_impl = evalC env Gen.K.L_eqn := by
  simp only [Gen.K.L_impl, Gen.K.L_eqn]; unfold_eval; elem_tac

theorem La_impl_eq_eqn (env : String → ℂ) : evalC env Gen.K.La_impl = evalC env Gen.K.La_eqn := by
  simp only [Gen.K.La_impl, Gen.K.La_eqn]; unfold_eval; elem_tac

theorem Ls_impl_eq_eqn (env : String → ℂ) : evalC env Gen.K.Ls_impl = evalC env Gen.K.Ls_eqn := by
  simp only [Gen.K.Ls_impl, Gen.K.Ls_eqn]; unfold_eval; elem_tac

theorem Q_impl_eq_eqn (env : String → ℂ) : evalC env Gen.K.Q_impl = evalC env Gen.K.Q_eqn := by
  simp only [Gen.K.Q_impl, Gen.K.Q_eqn]; unfold_eval; elem_tac

theorem R_impl_eq_eqn (env : String → ℂ) : evalC env Gen.K.R_impl = evalC env Gen.K.R_eqn := by
  simp only [Gen.K.R_impl, Gen.K.R_eqn]; unfold_eval; elem_tac

theorem Tlmbo_impl_eq_eqn (env : String → ℂ) : evalC env Gen.K.Tlmbo_impl = evalC env Gen.K.Tlmbo_eqn := by
  simp only [Gen.K.Tlmbo_impl, Gen.K.Tlmbo_eqn]; unfold_eval; elem_tac

theorem Tlmbq_impl_eq_eqn (env : String → ℂ) : evalC env Gen.K.Tlmbq_impl = evalC env Gen.K.Tlmbq_eqn := by
  simp only [Gen.K.Tlmbq_impl, Gen.K.Tlmbq_eqn]; unfold_eval; elem_tac

theorem Tlmbs_impl_eq_eqn (env : String → ℂ) : evalC env Gen.K.Tlmbs_impl = evalC env Gen.K.Tlmbs_eqn := by
  simp only [Gen.K.Tlmbs_impl, Gen.K.Tlmbs_eqn]; unfold_eval; elem_tac

theorem Tlmno_impl_eq_eqn (env : String → ℂ) : evalC env Gen.K.Tlmno_impl = evalC env Gen.K.Tlmno_eqn := by
  simp only [Gen.K.Tlmno_impl, Gen.K.Tlmno_eqn]; unfold_eval; elem_tac

theorem Tlmnq_impl_eq_eqn (env : String → ℂ) : evalC env Gen.K.Tlmnq_impl = evalC env Gen.K.Tlmnq_eqn := by
  simp only [Gen.K.Tlmnq_impl, Gen.K.Tlmnq_eqn]; unfold_eval; elem_tac

theorem Tlmns_impl_eq_eqn (env : String → ℂ) : evalC env Gen.K.Tlmns_impl = evalC env Gen.K.Tlmns_eqn := by
  simp only [Gen.K.Tlmns_impl, Gen.K.Tlmns_eqn]; unfold_eval; elem_tac

theorem W_impl_eq_eqn (env : String → ℂ) : evalC env Gen.K.W_impl = evalC env Gen.K.W_eqn := by
  simp only [Gen.K.W_impl, Gen.K.W_eqn]; unfold_eval; elem_tac

theorem Wo_impl_eq_eqn (env : String → ℂ) : evalC env Gen.K.Wo_impl = evalC env Gen.K.Wo_eqn := by
  simp only [Gen.K.Wo_impl, Gen.K.Wo_eqn]; unfold_eval; elem_tac

theorem Ws_impl_eq_eqn (env : String → ℂ) : evalC env Gen.K.Ws_impl = evalC env Gen.K.Ws_eqn := by
  simp only [Gen.K.Ws_impl, Gen.K.Ws_eqn]; unfold_eval; elem_tac

theorem Zarc_impl_eq_eqn (env : String → ℂ) : evalC env Gen.K.Zarc_impl = evalC env Gen.K.Zarc_eqn := by
  simp only [Gen.K.Zarc_impl, Gen.K.Zarc_eqn]; unfold_eval; elem_tac

/-- **Every registered non-container element has its theorem**: the list of element classes found in
`/repo` by the translator is exactly the list covered above (a new or renamed element breaks this
obligation, and the failing-input search is run on it). -/
theorem all_elements_covered : Gen.K.names = ["C", "G", "Ga", "H", "Ha", "K", "Ky", "L", "La", "Ls", "Q", "R", "Tlmbo", "Tlmbq", "Tlmbs", "Tlmno", "Tlmnq", "Tlmns", "W", "Wo", "Ws", "Zarc"] := by decide

end C02

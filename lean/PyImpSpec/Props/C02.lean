import PyImpSpec.ExprC
import PyImpSpec.Gen.Kernels
import PyImpSpec.Tlm

/-! # C02 — the numeric impedance of every element equals its documented equation

The terms `Gen.K.<Sym>_impl` (from the Python `ast` of `Class._impedance`) and `Gen.K.<Sym>_eqn` (from
`sympify(Class._equation)`, the tree `to_sympy` uses) are **regenerated from `/repo` on every run**; each
theorem below is therefore re-checked against what the code says now.  They hold for *every* complex
environment (all parameter values and frequencies, inside or outside the limit box), with `x ** y`
read as the principal complex power and `sqrt x` as `x ^ (1/2)`. -/

namespace C02
open Complex

theorem C_impl_eq_eqn (env : String → ℂ) : evalC env Gen.K.C_impl = evalC env Gen.K.C_eqn := by
  unfold Gen.K.C_impl Gen.K.C_eqn; kernel_tac

theorem G_impl_eq_eqn (env : String → ℂ) : evalC env Gen.K.G_impl = evalC env Gen.K.G_eqn := by
  unfold Gen.K.G_impl Gen.K.G_eqn; kernel_tac

theorem Ga_impl_eq_eqn (env : String → ℂ) : evalC env Gen.K.Ga_impl = evalC env Gen.K.Ga_eqn := by
  unfold Gen.K.Ga_impl Gen.K.Ga_eqn; kernel_tac

theorem H_impl_eq_eqn (env : String → ℂ) : evalC env Gen.K.H_impl = evalC env Gen.K.H_eqn := by
  unfold Gen.K.H_impl Gen.K.H_eqn; kernel_tac

theorem Ha_impl_eq_eqn (env : String → ℂ) : evalC env Gen.K.Ha_impl = evalC env Gen.K.Ha_eqn := by
  unfold Gen.K.Ha_impl Gen.K.Ha_eqn; kernel_tac

theorem K_impl_eq_eqn (env : String → ℂ) : evalC env Gen.K.K_impl = evalC env Gen.K.K_eqn := by
  unfold Gen.K.K_impl Gen.K.K_eqn; kernel_tac

theorem Ky_impl_eq_eqn (env : String → ℂ) : evalC env Gen.K.Ky_impl = evalC env Gen.K.Ky_eqn := by
  unfold Gen.K.Ky_impl Gen.K.Ky_eqn; kernel_tac

theorem L_impl_eq_eqn (env : String → ℂ) : evalC env Gen.K.L_impl = evalC env Gen.K.L_eqn := by
  unfold Gen.K.L_impl Gen.K.L_eqn; kernel_tac

theorem La_impl_eq_eqn (env : String → ℂ) : evalC env Gen.K.La_impl = evalC env Gen.K.La_eqn := by
  unfold Gen.K.La_impl Gen.K.La_eqn; kernel_tac

theorem Ls_impl_eq_eqn (env : String → ℂ) : evalC env Gen.K.Ls_impl = evalC env Gen.K.Ls_eqn := by
  unfold Gen.K.Ls_impl Gen.K.Ls_eqn; kernel_tac

theorem Q_impl_eq_eqn (env : String → ℂ) : evalC env Gen.K.Q_impl = evalC env Gen.K.Q_eqn := by
  unfold Gen.K.Q_impl Gen.K.Q_eqn; kernel_tac

theorem R_impl_eq_eqn (env : String → ℂ) : evalC env Gen.K.R_impl = evalC env Gen.K.R_eqn := by
  unfold Gen.K.R_impl Gen.K.R_eqn; kernel_tac

theorem Tlmbo_impl_eq_eqn (env : String → ℂ) : evalC env Gen.K.Tlmbo_impl = evalC env Gen.K.Tlmbo_eqn := by
  unfold Gen.K.Tlmbo_impl Gen.K.Tlmbo_eqn; kernel_tac

theorem Tlmbq_impl_eq_eqn (env : String → ℂ) : evalC env Gen.K.Tlmbq_impl = evalC env Gen.K.Tlmbq_eqn := by
  unfold Gen.K.Tlmbq_impl Gen.K.Tlmbq_eqn; kernel_tac

theorem Tlmbs_impl_eq_eqn (env : String → ℂ) : evalC env Gen.K.Tlmbs_impl = evalC env Gen.K.Tlmbs_eqn := by
  unfold Gen.K.Tlmbs_impl Gen.K.Tlmbs_eqn; kernel_tac

theorem Tlmno_impl_eq_eqn (env : String → ℂ) : evalC env Gen.K.Tlmno_impl = evalC env Gen.K.Tlmno_eqn := by
  unfold Gen.K.Tlmno_impl Gen.K.Tlmno_eqn; kernel_tac

theorem Tlmnq_impl_eq_eqn (env : String → ℂ) : evalC env Gen.K.Tlmnq_impl = evalC env Gen.K.Tlmnq_eqn := by
  unfold Gen.K.Tlmnq_impl Gen.K.Tlmnq_eqn; kernel_tac

theorem Tlmns_impl_eq_eqn (env : String → ℂ) : evalC env Gen.K.Tlmns_impl = evalC env Gen.K.Tlmns_eqn := by
  unfold Gen.K.Tlmns_impl Gen.K.Tlmns_eqn; kernel_tac

theorem W_impl_eq_eqn (env : String → ℂ) : evalC env Gen.K.W_impl = evalC env Gen.K.W_eqn := by
  unfold Gen.K.W_impl Gen.K.W_eqn; kernel_tac

theorem Wo_impl_eq_eqn (env : String → ℂ) : evalC env Gen.K.Wo_impl = evalC env Gen.K.Wo_eqn := by
  unfold Gen.K.Wo_impl Gen.K.Wo_eqn; kernel_tac

theorem Ws_impl_eq_eqn (env : String → ℂ) : evalC env Gen.K.Ws_impl = evalC env Gen.K.Ws_eqn := by
  unfold Gen.K.Ws_impl Gen.K.Ws_eqn; kernel_tac

theorem Zarc_impl_eq_eqn (env : String → ℂ) : evalC env Gen.K.Zarc_impl = evalC env Gen.K.Zarc_eqn := by
  unfold Gen.K.Zarc_impl Gen.K.Zarc_eqn; kernel_tac


/-! ## the general transmission line model -/

theorem Tlm_eq8_impl_eq_sym (env : String → ℂ) : evalC env Gen.K.Tlm_eq8_impl = evalC env Gen.K.Tlm_eq8_sym := by
  unfold Gen.K.Tlm_eq8_impl Gen.K.Tlm_eq8_sym; kernel_tac

theorem Tlm_eq16_impl_eq_sym (env : String → ℂ) : evalC env Gen.K.Tlm_eq16_impl = evalC env Gen.K.Tlm_eq16_sym := by
  unfold Gen.K.Tlm_eq16_impl Gen.K.Tlm_eq16_sym; kernel_tac

theorem Tlm_eq17_impl_eq_sym (env : String → ℂ) : evalC env Gen.K.Tlm_eq17_impl = evalC env Gen.K.Tlm_eq17_sym := by
  unfold Gen.K.Tlm_eq17_impl Gen.K.Tlm_eq17_sym; kernel_tac

theorem Tlm_eq18_impl_eq_sym (env : String → ℂ) : evalC env Gen.K.Tlm_eq18_impl = evalC env Gen.K.Tlm_eq18_sym := by
  unfold Gen.K.Tlm_eq18_impl Gen.K.Tlm_eq18_sym; kernel_tac

theorem Tlm_eq18_variant_impl_eq_sym (env : String → ℂ) : evalC env Gen.K.Tlm_eq18_variant_impl = evalC env Gen.K.Tlm_eq18_variant_sym := by
  unfold Gen.K.Tlm_eq18_variant_impl Gen.K.Tlm_eq18_variant_sym; kernel_tac

theorem Tlm_eq19_impl_eq_sym (env : String → ℂ) : evalC env Gen.K.Tlm_eq19_impl = evalC env Gen.K.Tlm_eq19_sym := by
  unfold Gen.K.Tlm_eq19_impl Gen.K.Tlm_eq19_sym; kernel_tac

theorem Tlm_eq20_impl_eq_sym (env : String → ℂ) : evalC env Gen.K.Tlm_eq20_impl = evalC env Gen.K.Tlm_eq20_sym := by
  unfold Gen.K.Tlm_eq20_impl Gen.K.Tlm_eq20_sym; kernel_tac

theorem Tlm_lm_impl_eq_sym (env : String → ℂ) : evalC env Gen.K.Tlm_lm_impl = evalC env Gen.K.Tlm_lm_sym := by
  unfold Gen.K.Tlm_lm_impl Gen.K.Tlm_lm_sym; kernel_tac

theorem Tlm_cs_impl_eq_sym (env : String → ℂ) : evalC env Gen.K.Tlm_cs_impl = evalC env Gen.K.Tlm_cs_sym := by
  unfold Gen.K.Tlm_cs_impl Gen.K.Tlm_cs_sym; kernel_tac

theorem Tlm_ct_impl_eq_sym (env : String → ℂ) : evalC env Gen.K.Tlm_ct_impl = evalC env Gen.K.Tlm_ct_sym := by
  unfold Gen.K.Tlm_ct_impl Gen.K.Tlm_ct_sym; kernel_tac

theorem Tlm_s_impl_eq_sym (env : String → ℂ) : evalC env Gen.K.Tlm_s_impl = evalC env Gen.K.Tlm_s_sym := by
  unfold Gen.K.Tlm_s_impl Gen.K.Tlm_s_sym; kernel_tac

/-- the two decision trees select the same formula with the same roles, for all 3⁵ configurations -/
theorem tlm_branch_agree (fl : Tlm.Flags) : Tlm.implBranch fl = Tlm.symBranch fl := by
  obtain ⟨a, b, c, d, e⟩ := fl
  cases a <;> cases b <;> cases c <;> cases d <;> cases e <;> rfl

theorem tlm_env_agree (b : Tlm.Branch) (base : String → ℂ) : Tlm.envOf opsC true b base = Tlm.envOf opsC false b base := by
  have h1 := Tlm_lm_impl_eq_sym base
  simp only [evalC] at h1
  funext k
  simp only [Tlm.envOf, ↓reduceIte, Bool.false_eq_true, h1]
  have h2 := Tlm_cs_impl_eq_sym (fun k => if k = "lm" then E.eval opsC base Gen.K.Tlm_lm_sym else base k)
  have h3 := Tlm_ct_impl_eq_sym (fun k => if k = "lm" then E.eval opsC base Gen.K.Tlm_lm_sym else base k)
  have h4 := Tlm_s_impl_eq_sym (fun k => if k = "lm" then E.eval opsC base Gen.K.Tlm_lm_sym else base k)
  simp only [evalC] at h2 h3 h4
  rw [h2, h3, h4]

/-- **Every configuration of the general transmission line.** For each of the 3⁵ open/short/finite
configurations of the five sub-circuits and all complex values of the sub-circuit impedances and of `L`,
the numeric and the symbolic implementation refuse the same configurations and otherwise compute the
same value. -/
theorem tlm_numeric_eq_symbolic (fl : Tlm.Flags) (base : String → ℂ) :
    Tlm.value opsC true fl base = Tlm.value opsC false fl base := by
  simp only [Tlm.value, ↓reduceIte, Bool.false_eq_true, tlm_branch_agree fl, tlm_env_agree]
  generalize Tlm.envOf opsC false (Tlm.symBranch fl) base = env
  cases Tlm.symBranch fl <;> simp only [Tlm.formula, Option.map_none, Option.map_some, ↓reduceIte, Bool.false_eq_true, Option.some.injEq]
  · exact Tlm_eq8_impl_eq_sym env
  · exact Tlm_eq16_impl_eq_sym env
  · exact Tlm_eq17_impl_eq_sym env
  · exact Tlm_eq18_impl_eq_sym env
  · exact Tlm_eq18_variant_impl_eq_sym env
  · exact Tlm_eq19_impl_eq_sym env
  · exact Tlm_eq20_impl_eq_sym env

/-- the branch formulas found in `/repo` are the seven covered above -/
theorem all_tlm_branches_covered :
    Gen.K.tlmBranches = ["_eq8", "_eq16", "_eq17", "_eq18", "_eq18_variant", "_eq19", "_eq20"] := by decide

/-- **Every registered non-container element has its theorem**: the list of element classes found in
`/repo` by the translator is exactly the list covered above (a new or renamed element breaks this
obligation, and the failing-input search is run on it). -/
theorem all_elements_covered : Gen.K.names = ["C", "G", "Ga", "H", "Ha", "K", "Ky", "L", "La", "Ls", "Q", "R", "Tlmbo", "Tlmbq", "Tlmbs", "Tlmno", "Tlmnq", "Tlmns", "W", "Wo", "Ws", "Zarc"] := by decide

end C02

import PyImpSpec.KKTau
import PyImpSpec.Props.C07
import PyImpSpec.Props.C08
import Mathlib.Analysis.SpecialFunctions.Pow.Real
import Mathlib.Analysis.SpecialFunctions.Log.Base

/-! # C09 — Kramers-Kronig verdicts do not depend on units or point order

Built on C07's regenerated design-matrix columns (`Gen.K.kk_*`) and the hand model of the time constants
(`KKTau.tau`, tied by the correspondence stream `tau`).  Proved: rescaling the frequencies rescales the
time constants inversely and the columns by fixed factors; least-squares problems are equivariant under
scaling of the right-hand side, invertible rescaling of the columns and permutation of the rows; relative
residuals are invariant under scaling of data and model. Conditioning is runtime (PARTIAL). -/

namespace C09
open Complex C07

/-! ## time constants -/

noncomputable def realOps : KKTau.ROps ℝ :=
  { ofNat := fun n => (n : ℝ), mul := (· * ·), div := (· / ·), sub := (· - ·), log10 := Real.logb 10, exp10 := fun x => (10 : ℝ) ^ x }

/-- the time constants in closed form: `tau_k = tau_min · (tau_max/tau_min)^((k-1)/(n-1))` -/
theorem tau_closed_form (wmin wmax F : ℝ) (n k : ℕ) (hmin : 0 < wmin) (hmax : 0 < wmax) (hF : 0 < F) :
    KKTau.tau realOps wmin wmax F n k
      = (1 / (wmax * F)) * ((F / wmin) / (1 / (wmax * F))) ^ (((k : ℝ) - 1) / ((n : ℝ) - 1)) := by
  have h1 : (0 : ℝ) < 1 / (wmax * F) := by positivity
  have h2 : (0 : ℝ) < (F / wmin) / (1 / (wmax * F)) := by positivity
  simp only [KKTau.tau, realOps, Nat.cast_one, Nat.cast_zero, one_mul, zero_sub, sub_neg_eq_add]
  rw [Real.rpow_add (by norm_num : (0 : ℝ) < 10), Real.rpow_logb (by norm_num) (by norm_num) h1,
    mul_comm (((k : ℝ) - 1) / ((n : ℝ) - 1)), Real.rpow_mul (by norm_num : (0 : ℝ) ≤ 10),
    Real.rpow_logb (by norm_num) (by norm_num) h2]

/-- **Frequency units.** Multiplying all frequencies by `c > 0` divides every time constant by `c`. -/
theorem tau_scale (wmin wmax F c : ℝ) (n k : ℕ) (hmin : 0 < wmin) (hmax : 0 < wmax) (hF : 0 < F) (hc : 0 < c) :
    KKTau.tau realOps (c * wmin) (c * wmax) F n k = KKTau.tau realOps wmin wmax F n k / c := by
  rw [tau_closed_form _ _ _ _ _ (by positivity) (by positivity) hF, tau_closed_form _ _ _ _ _ hmin hmax hF]
  have e : (F / (c * wmin)) / (1 / (c * wmax * F)) = (F / wmin) / (1 / (wmax * F)) := by
    field_simp
  rw [e]
  field_simp

/-! ## columns of the design matrix under a change of frequency unit -/

theorem kth_Z_scale (ω τ c : ℝ) (hc : c ≠ 0) : evalC (envW (c * ω) (τ / c)) Gen.K.kk_kth_Z = evalC (envW ω τ) Gen.K.kk_kth_Z := by
  rw [kth_Z, kth_Z]
  push_cast
  have : (c : ℂ) ≠ 0 := by exact_mod_cast hc
  congr 2
  field_simp

theorem kth_Y_scale (ω τ c : ℝ) (hc : c ≠ 0) : evalC (envW (c * ω) (τ / c)) Gen.K.kk_kth_Y = c * evalC (envW ω τ) Gen.K.kk_kth_Y := by
  rw [kth_Y, kth_Y]
  push_cast
  have : (c : ℂ) ≠ 0 := by exact_mod_cast hc
  have e : (c : ℂ) * ω * ((τ : ℂ) / c) = ω * τ := by field_simp
  rw [e]; ring

theorem cap_Z_scale (ω c : ℝ) (hc : c ≠ 0) (hω : ω ≠ 0) : evalC (envW (c * ω) 0) Gen.K.kk_cap_Z = (1 / c : ℝ) * evalC (envW ω 0) Gen.K.kk_cap_Z := by
  rw [cap_Z, cap_Z]; push_cast
  have h1 : (c : ℂ) ≠ 0 := by exact_mod_cast hc
  have h2 : (ω : ℂ) ≠ 0 := by exact_mod_cast hω
  field_simp
theorem ind_Z_scale (ω c : ℝ) : evalC (envW (c * ω) 0) Gen.K.kk_ind_Z = (c : ℝ) * evalC (envW ω 0) Gen.K.kk_ind_Z := by
  rw [ind_Z, ind_Z]; push_cast; ring
theorem cap_Y_scale (ω c : ℝ) : evalC (envW (c * ω) 0) Gen.K.kk_cap_Y = (c : ℝ) * evalC (envW ω 0) Gen.K.kk_cap_Y := by
  rw [cap_Y, cap_Y]; push_cast; ring
theorem ind_Y_scale (ω c : ℝ) (hc : c ≠ 0) (hω : ω ≠ 0) : evalC (envW (c * ω) 0) Gen.K.kk_ind_Y = (1 / c : ℝ) * evalC (envW ω 0) Gen.K.kk_ind_Y := by
  rw [ind_Y, ind_Y]; push_cast
  have h1 : (c : ℂ) ≠ 0 := by exact_mod_cast hc
  have h2 : (ω : ℂ) ≠ 0 := by exact_mod_cast hω
  field_simp

/-! ## least-squares problems: equivariance -/

section lsq
open Matrix
variable {m n : Type} [Fintype m] [Fintype n] [DecidableEq n]

/-- **Impedance units.** Scaling the right-hand side scales the minimisers: `x` solves `(A, b)` iff `c·x`
solves `(A, c·b)`. -/
theorem lsq_scale_rhs (A : Matrix m n ℝ) (b : m → ℝ) (x : n → ℝ) (c : ℝ) (hc : c ≠ 0) (h : IsLsq A b x) :
    IsLsq A (c • b) (c • x) := by
  intro y
  have key : ∀ z : n → ℝ, sqRes A (c • b) (c • z) = c ^ 2 * sqRes A b z := by
    intro z
    unfold sqRes
    rw [Finset.mul_sum]
    apply Finset.sum_congr rfl
    intro i _
    simp only [Matrix.mulVec_smul, Pi.smul_apply, smul_eq_mul]
    ring
  have hy : y = c • (c⁻¹ • y) := by rw [smul_smul, mul_inv_cancel₀ hc, one_smul]
  rw [hy, key, key]
  exact mul_le_mul_of_nonneg_left (h _) (sq_nonneg c)

/-- **Frequency units.** Rescaling the columns by an invertible diagonal matrix `D` (what a change of the
frequency unit does to the design matrix) rescales the minimisers by `D⁻¹`: `x` solves `(A, b)` iff
`D⁻¹ x` solves `(A·D, b)`. -/
theorem lsq_scale_columns (A : Matrix m n ℝ) (b : m → ℝ) (x : n → ℝ) (d : n → ℝ) (hd : ∀ j, d j ≠ 0) (h : IsLsq A b x) :
    IsLsq (A * Matrix.diagonal d) b (fun j => x j / d j) := by
  have mv : ∀ z : n → ℝ, (A * Matrix.diagonal d).mulVec z = A.mulVec (fun j => d j * z j) := by
    intro z
    rw [← Matrix.mulVec_mulVec]
    congr 1
    funext j
    simp [Matrix.mulVec_diagonal]
  intro y
  unfold sqRes
  rw [mv, mv]
  have e : (fun j => d j * (x j / d j)) = x := by
    funext j; field_simp [hd j]
  rw [e]
  exact h _

/-- **Point order.** Re-ordering the rows (the measured points) does not change the set of minimisers. -/
theorem lsq_row_perm (A : Matrix m n ℝ) (b : m → ℝ) (x : n → ℝ) (σ : Equiv.Perm m) (h : IsLsq A b x) :
    IsLsq (A.submatrix σ id) (b ∘ σ) x := by
  have key : ∀ z : n → ℝ, sqRes (A.submatrix σ id) (b ∘ σ) z = sqRes A b z := by
    intro z
    unfold sqRes
    rw [← Equiv.sum_comp σ (fun i => (A.mulVec z i - b i) ^ 2)]
    apply Finset.sum_congr rfl
    intro i _
    simp [Matrix.mulVec, Matrix.submatrix, dotProduct]
  intro y
  rw [key, key]
  exact h y
end lsq

/-! ## the reported quantities -/

/-- relative residuals are invariant under a common positive scaling of data and model -/
theorem residual_scale_invariant (zExp zFit : ℂ) (c : ℝ) (hc : 0 < c) :
    evalC (C08.envOf (c * zExp) (c * zFit)) Gen.K.residual = evalC (C08.envOf zExp zFit) Gen.K.residual := by
  rw [C08.residual_formula, C08.residual_formula]
  have hn : ‖(c : ℂ) * zExp‖ = c * ‖zExp‖ := by
    rw [norm_mul, Complex.norm_real, Real.norm_of_nonneg hc.le]
  rw [hn]
  push_cast
  have hc' : (c : ℂ) ≠ 0 := by exact_mod_cast hc.ne'
  by_cases hz : (‖zExp‖ : ℂ) = 0
  · simp [hz]
  · field_simp

end C09

import PyImpSpec.DataSet.Lemmas

/-! # C05 — a data set keeps frequency, impedance and mask of each point together

Model: `DataSet.*` (hand model of `pyimpspec.data.data_set.DataSet`, tied to `/repo` by the
correspondence stream `ds`: random operation histories compared step by step). -/

namespace C05
open DataSet

/-- well-formed constructor input: same lengths, at least one point, no repeated frequency -/
def GoodInput (fs zs : List Int) : Prop := fs.length = zs.length ∧ fs.length ≠ 0 ∧ hasDup fs = false

/-- the triples the caller supplied: point `i` has frequency `fs[i]`, impedance `zs[i]` and is masked
iff the caller's dictionary says so for key `i` -/
def supplied (fs zs : List Int) (m : MaskArg) : List (Int × Int × Bool) :=
  fs.zip (zs.zip (maskList fs.length m))

theorem construct_desc (fs zs : List Int) (m : MaskArg) (hg : GoodInput fs zs)
    (hd : ¬ fs.getLast?.getD 0 > fs.head?.getD 0) :
    construct fs zs m = .ok ({ freqs := fs, imps := zs, mask := maskList fs.length m }, m) := by
  obtain ⟨h1, h2, h3⟩ := hg
  unfold construct
  simp only [h1, ne_eq, not_true_eq_false, ↓reduceIte, h3, Bool.false_eq_true]
  rw [← h1]
  simp only [h2, ↓reduceIte, hd, setMask_blank]

theorem construct_asc (fs zs : List Int) (m : MaskArg) (hg : GoodInput fs zs)
    (ha : fs.getLast?.getD 0 > fs.head?.getD 0) :
    construct fs zs m = .ok ({ freqs := fs.reverse, imps := zs.reverse, mask := (maskList fs.length m).reverse }, m) := by
  obtain ⟨h1, h2, h3⟩ := hg
  unfold construct
  simp only [h1, ne_eq, not_true_eq_false, ↓reduceIte, h3, Bool.false_eq_true]
  rw [← h1]
  simp only [h2, ↓reduceIte, ha, setMask_blank]
  by_cases hm : m.isEmpty
  · have : m = [] := by simpa using hm
    subst this
    simp [maskList_nil]
  · simp only [hm, Bool.false_eq_true, ↓reduceIte, maskList_reindex]

/-- **Constructor, descending input.** The data set presents exactly the supplied triples. -/
theorem construct_desc_refines (fs zs : List Int) (m : MaskArg) (hg : GoodInput fs zs)
    (hd : ¬ fs.getLast?.getD 0 > fs.head?.getD 0) :
    (construct fs zs m).map (fun r => r.1.abs) = .ok (supplied fs zs m) := by
  rw [construct_desc fs zs m hg hd]; rfl

/-- **Constructor, ascending input with a mask.** The data set presents exactly the supplied triples,
merely reversed: every point keeps its own frequency, impedance and mask flag. -/
theorem construct_asc_refines (fs zs : List Int) (m : MaskArg) (hg : GoodInput fs zs)
    (ha : fs.getLast?.getD 0 > fs.head?.getD 0) :
    (construct fs zs m).map (fun r => r.1.abs) = .ok (supplied fs zs m).reverse := by
  rw [construct_asc fs zs m hg ha]
  obtain ⟨h1, _, _⟩ := hg
  simp only [Except.map, DS.abs, supplied]
  have hz : zs.length = (maskList fs.length m).length := by simp [maskList_length, h1]
  have hf : fs.length = (List.zipWith Prod.mk zs (maskList fs.length m)).length := by
    simp [maskList_length, h1]
  simp only [List.zip]
  rw [List.reverse_zipWith hf, List.reverse_zipWith hz]

/-- **Ascending = descending.** Ascending data with a mask gives the *same data set* as the same
points supplied in descending order with the mask keys re-indexed accordingly — the same physical
points are omitted. -/
theorem construct_asc_eq_desc (fs zs : List Int) (m : MaskArg) (hg : GoodInput fs zs)
    (ha : fs.getLast?.getD 0 > fs.head?.getD 0) (hg' : GoodInput fs.reverse zs.reverse) :
    (construct fs zs m).map (·.1) = (construct fs.reverse zs.reverse (reindex fs.length m)).map (·.1) := by
  rw [construct_asc fs zs m hg ha]
  have hd : ¬ fs.reverse.getLast?.getD 0 > fs.reverse.head?.getD 0 := by
    simp only [List.getLast?_reverse, List.head?_reverse]; omega
  rw [construct_desc _ _ _ hg' hd]
  simp [Except.map, maskList_reindex]

/-- **The caller's mask dictionary is not altered** (by either branch of the constructor). -/
theorem caller_mask_unchanged (fs zs : List Int) (m : MaskArg) (r : DS × MaskArg)
    (h : construct fs zs m = .ok r) : r.2 = m := by
  unfold construct at h
  split at h; · cases h
  split at h; · cases h
  split at h; · cases h
  split at h <;> (cases h; rfl)


/-! ## invariants over all operation histories -/

/-- representation invariant: the three containers describe the same `n ≥ 1` points and the
frequencies are strictly descending -/
structure Inv (d : DS) : Prop where
  imps : d.imps.length = d.freqs.length
  mask : d.mask.length = d.freqs.length
  pos : d.freqs ≠ []
  desc : d.freqs.Pairwise (· > ·)

/-- strictly monotone input (either direction) -/
abbrev StrictDesc (fs : List Int) : Prop := fs.Pairwise (· > ·)
abbrev StrictAsc (fs : List Int) : Prop := fs.Pairwise (· < ·)

theorem hasDup_false_of_pairwise_ne (fs : List Int) (h : fs.Pairwise (· ≠ ·)) : hasDup fs = false := by
  induction fs with
  | nil => rfl
  | cons x xs ih =>
    rw [List.pairwise_cons] at h
    simp only [hasDup, Bool.or_eq_false_iff, ih h.2, and_true]
    simp only [List.contains_eq_mem, decide_eq_false_iff_not]
    intro hm; exact h.1 x hm rfl

theorem head_ge_last_of_desc (fs : List Int) (h : StrictDesc fs) : ¬ fs.getLast?.getD 0 > fs.head?.getD 0 := by
  cases fs with
  | nil => simp
  | cons x xs =>
    simp only [List.head?_cons, Option.getD_some]
    cases hl : (x :: xs).getLast? with
    | none => simp at hl
    | some y =>
      have hy : y ∈ x :: xs := List.mem_of_getLast? hl
      simp only [Option.getD_some]
      rcases List.mem_cons.mp hy with rfl | hy
      · omega
      · have := (List.pairwise_cons.mp h).1 y hy; omega

theorem last_gt_head_of_asc (fs : List Int) (h : StrictAsc fs) (h2 : 2 ≤ fs.length) : fs.getLast?.getD 0 > fs.head?.getD 0 := by
  match fs, h2 with
  | x :: y :: r, _ =>
    simp only [List.head?_cons, Option.getD_some]
    cases hl : (x :: y :: r).getLast? with
    | none => simp at hl
    | some z =>
      simp only [Option.getD_some]
      have hz : z ∈ y :: r := by
        rw [List.getLast?_cons_cons] at hl; exact List.mem_of_getLast? hl
      have := (List.pairwise_cons.mp h).1 z hz; omega

/-- a data set built from strictly descending data satisfies the invariant -/
theorem construct_inv_desc (fs zs : List Int) (m : MaskArg) (hl : fs.length = zs.length) (hne : fs ≠ [])
    (hs : StrictDesc fs) : ∃ d, construct fs zs m = .ok (d, m) ∧ Inv d ∧ d.abs = supplied fs zs m := by
  have hg : GoodInput fs zs := ⟨hl, by simpa using hne,
    hasDup_false_of_pairwise_ne fs (hs.imp (fun h => by omega))⟩
  refine ⟨_, construct_desc fs zs m hg (head_ge_last_of_desc fs hs), ⟨hl.symm, maskList_length _ _, hne, hs⟩, rfl⟩

/-- … and so does one built from strictly ascending data: it is presented in descending order -/
theorem construct_inv_asc (fs zs : List Int) (m : MaskArg) (hl : fs.length = zs.length) (h2 : 2 ≤ fs.length)
    (hs : StrictAsc fs) : ∃ d, construct fs zs m = .ok (d, m) ∧ Inv d ∧ d.abs = (supplied fs zs m).reverse := by
  have hne : fs ≠ [] := by intro h; simp [h] at h2
  have hg : GoodInput fs zs := ⟨hl, by simpa using hne,
    hasDup_false_of_pairwise_ne fs (hs.imp (fun h => by omega))⟩
  have ha := last_gt_head_of_asc fs hs h2
  refine ⟨_, construct_asc fs zs m hg ha, ⟨by simp [hl], by simp [maskList_length], by simpa using hne, ?_⟩, ?_⟩
  · show (fs.reverse).Pairwise (· > ·)
    rw [List.pairwise_reverse]; exact hs.imp (fun h => by omega)
  · have := construct_asc_refines fs zs m hg ha
    rw [construct_asc fs zs m hg ha] at this
    simpa [Except.map] using this

/-- the operations of the quantifier that act on one data set -/
inductive Op where
  | setMask (m : MaskArg)
  | lowPass (c : Int)
  | highPass (c : Int)
  | subtract (zs : List Int)
  | duplicate
  | roundtrip (dropMask dropVersion : Bool)    -- to_dict → json → from_dict, optionally without the optional keys

/-- one step; an operation that raises leaves the data set as it was -/
def step (d : DS) : Op → DS
  | .setMask m => d.setMask m
  | .lowPass c => d.lowPass c
  | .highPass c => d.highPass c
  | .subtract zs => match d.subtract zs with | .ok d' => d' | .error _ => d
  | .duplicate => match d.duplicate with | .ok d' => d' | .error _ => d
  | .roundtrip dm dv =>
    match fromDict { d.toDict with mask := if dm then none else d.toDict.mask, version := if dv then none else d.toDict.version } with
    | .ok r => r.1
    | .error _ => d

theorem setMask_shape (d : DS) (m : MaskArg) :
    (d.setMask m).freqs = d.freqs ∧ (d.setMask m).imps = d.imps ∧ (d.setMask m).mask.length = d.mask.length := by
  unfold DS.setMask
  split <;> simp [updateMask]

theorem getMask_eq (d : DS) : d.getMask = (List.range d.mask.length).map fun (i : Nat) => ((i : Int), d.mask.getD i false) := rfl

theorem map_getD_range (l : List Bool) : (List.range l.length).map (fun i => l.getD i false) = l := by
  apply List.ext_getElem
  · simp
  · intro i h1 h2
    simp [List.getD_eq_getElem?_getD, List.getElem?_eq_getElem h2]

/-- **Export–import round trip.** For every data set satisfying the invariant, importing its own
dictionary export yields the same data set and leaves the dictionary unchanged — also when the optional
`version` key is missing; without the optional `mask` key the mask is cleared and nothing else changes.
Because the returned dictionary is the argument, the import can be repeated any number of times. -/
theorem from_dict_to_dict (d : DS) (hi : Inv d) (dv : Bool) :
    fromDict { d.toDict with version := if dv then none else d.toDict.version }
      = .ok (d, { d.toDict with version := if dv then none else d.toDict.version }) := by
  have hg : GoodInput d.freqs d.imps := ⟨hi.imps.symm, by simpa using hi.pos,
    hasDup_false_of_pairwise_ne _ (hi.desc.imp (fun h => by omega))⟩
  have hc := construct_desc d.freqs d.imps d.getMask hg (head_ge_last_of_desc _ hi.desc)
  have hm : maskList d.freqs.length d.getMask = d.mask := by
    have := setMask_full { freqs := d.freqs, imps := d.imps, mask := List.replicate d.mask.length false } (fun i => d.mask.getD i false)
    simp only [List.length_replicate] at this
    rw [← getMask_eq, setMask_blank] at this
    have h2 := congrArg DS.mask this
    simp only [map_getD_range] at h2
    rw [← hi.mask]; exact h2
  rw [hm] at hc
  cases dv <;> simp [fromDict, DS.toDict, hc, Except.map]

theorem from_dict_without_mask (d : DS) (hi : Inv d) (dv : Bool) :
    (fromDict { d.toDict with mask := none, version := if dv then none else d.toDict.version }).map (·.1)
      = .ok (d.setMask []) := by
  have hg : GoodInput d.freqs d.imps := ⟨hi.imps.symm, by simpa using hi.pos,
    hasDup_false_of_pairwise_ne _ (hi.desc.imp (fun h => by omega))⟩
  have hc := construct_desc d.freqs d.imps [] hg (head_ge_last_of_desc _ hi.desc)
  have : d.setMask [] = { freqs := d.freqs, imps := d.imps, mask := maskList d.freqs.length [] } := by
    simp [DS.setMask, maskList_nil, ← hi.mask]
    apply List.ext_getElem <;> simp
  rw [this]
  cases dv <;> simp [fromDict, DS.toDict, hc, Except.map]

theorem duplicate_eq (d : DS) (hi : Inv d) : d.duplicate = .ok d := by
  have := from_dict_to_dict d hi false
  simp only [Bool.false_eq_true, ↓reduceIte] at this
  simp [DS.duplicate, this, Except.map]

theorem inv_of_shape (d d' : DS) (hi : Inv d) (h1 : d'.freqs = d.freqs) (h2 : d'.imps.length = d.imps.length)
    (h3 : d'.mask.length = d.mask.length) : Inv d' ∧ d'.freqs = d.freqs :=
  ⟨⟨by rw [h2, h1]; exact hi.imps, by rw [h3, h1]; exact hi.mask, by rw [h1]; exact hi.pos, by rw [h1]; exact hi.desc⟩, h1⟩

theorem subtract_shape (d : DS) (zs : List Int) (d' : DS) (h : d.subtract zs = .ok d') :
    d'.freqs = d.freqs ∧ d'.imps.length = d.imps.length ∧ d'.mask = d.mask := by
  unfold DS.subtract at h
  split at h
  · cases h; simp
  · split at h
    · cases h
    · rename_i hz
      have hz' : zs.length = d.imps.length := by simpa using hz
      cases h; simp [hz']

/-- **Every operation preserves the invariant and never touches the frequencies.** -/
theorem step_inv (d : DS) (op : Op) (hi : Inv d) : Inv (step d op) ∧ (step d op).freqs = d.freqs := by
  cases op with
  | setMask m =>
    obtain ⟨h1, h2, h3⟩ := setMask_shape d m
    exact inv_of_shape d (d.setMask m) hi h1 (by rw [h2]) h3
  | lowPass c =>
    obtain ⟨h1, h2, h3⟩ := setMask_shape d ((List.range d.freqs.length).map fun (i : Nat) =>
      ((i : Int), if d.freqs.getD i 0 > c then true else d.mask.getD i false))
    exact inv_of_shape d (d.lowPass c) hi h1 (by show (d.lowPass c).imps.length = _; unfold DS.lowPass; rw [h2]) h3
  | highPass c =>
    obtain ⟨h1, h2, h3⟩ := setMask_shape d ((List.range d.freqs.length).map fun (i : Nat) =>
      ((i : Int), if d.freqs.getD i 0 < c then true else d.mask.getD i false))
    exact inv_of_shape d (d.highPass c) hi h1 (by show (d.highPass c).imps.length = _; unfold DS.highPass; rw [h2]) h3
  | subtract zs =>
    have hstep : step d (.subtract zs) = match d.subtract zs with | .ok d' => d' | .error _ => d := rfl
    rw [hstep]
    cases hs : d.subtract zs with
    | error e => exact ⟨hi, rfl⟩
    | ok d' =>
      obtain ⟨h1, h2, h3⟩ := subtract_shape d zs d' hs
      exact inv_of_shape d d' hi h1 h2 (by rw [h3])
  | duplicate =>
    have hstep : step d .duplicate = match d.duplicate with | .ok d' => d' | .error _ => d := rfl
    rw [hstep, duplicate_eq d hi]
    exact ⟨hi, rfl⟩
  | roundtrip dm dv =>
    cases dm with
    | false =>
      have := from_dict_to_dict d hi dv
      have hstep : step d (.roundtrip false dv) = match fromDict { d.toDict with version := if dv then none else d.toDict.version } with
        | .ok r => r.1 | .error _ => d := rfl
      rw [hstep, this]; exact ⟨hi, rfl⟩
    | true =>
      have := from_dict_without_mask d hi dv
      have hstep : step d (.roundtrip true dv) = match fromDict { d.toDict with mask := none, version := if dv then none else d.toDict.version } with
        | .ok r => r.1 | .error _ => d := rfl
      rw [hstep]
      cases hf : fromDict { d.toDict with mask := none, version := if dv then none else d.toDict.version } with
      | error e => exact ⟨hi, rfl⟩
      | ok r =>
        rw [hf] at this
        simp only [Except.map, Except.ok.injEq] at this
        show Inv r.1 ∧ r.1.freqs = d.freqs
        rw [this]
        obtain ⟨h1, h2, h3⟩ := setMask_shape d []
        exact inv_of_shape d (d.setMask []) hi h1 (by rw [h2]) h3

/-- **Every reachable state** (any history of operations after a valid construction) satisfies the
invariant and still has the constructor's frequencies, in descending order. -/
theorem history_inv (d : DS) (ops : List Op) (hi : Inv d) :
    Inv (ops.foldl step d) ∧ (ops.foldl step d).freqs = d.freqs := by
  induction ops generalizing d with
  | nil => exact ⟨hi, rfl⟩
  | cons op ops ih =>
    obtain ⟨h1, h2⟩ := step_inv d op hi
    obtain ⟨h3, h4⟩ := ih (step d op) h1
    exact ⟨h3, by rw [List.foldl_cons, h4, h2]⟩


/-! ## what the operations do to the points (refinement to the list-of-triples reference) -/

theorem lowPass_mask (d : DS) (hi : Inv d) (c : Int) :
    d.lowPass c = { d with mask := (List.range d.freqs.length).map (fun i => if d.freqs.getD i 0 > c then true else d.mask.getD i false) } := by
  unfold DS.lowPass
  have := setMask_full d (fun i => if d.freqs.getD i 0 > c then true else d.mask.getD i false)
  rw [hi.mask] at this
  exact this

theorem highPass_mask (d : DS) (hi : Inv d) (c : Int) :
    d.highPass c = { d with mask := (List.range d.freqs.length).map (fun i => if d.freqs.getD i 0 < c then true else d.mask.getD i false) } := by
  unfold DS.highPass
  have := setMask_full d (fun i => if d.freqs.getD i 0 < c then true else d.mask.getD i false)
  rw [hi.mask] at this
  exact this

theorem abs_with_mask (d : DS) (hi : Inv d) (p : Int → Bool) :
    ({ d with mask := (List.range d.freqs.length).map (fun i => if p (d.freqs.getD i 0) then true else d.mask.getD i false) } : DS).abs
      = d.abs.map (fun t => (t.1, t.2.1, if p t.1 then true else t.2.2)) := by
  have h1 := hi.imps
  have h2 := hi.mask
  apply List.ext_getElem
  · simp [DS.abs, h1, h2]
  · intro i hi1 hi2
    simp only [DS.abs, List.length_zip, List.length_map, List.length_range] at hi1
    have hf : i < d.freqs.length := by omega
    have hm : i < d.mask.length := by omega
    simp [DS.abs, List.getD_eq_getElem?_getD, List.getElem?_eq_getElem hf, List.getElem?_eq_getElem hm]

/-- **`low_pass` masks exactly the points whose own frequency exceeds the cutoff**, leaves every other
flag, every frequency and every impedance alone. -/
theorem lowPass_refines (d : DS) (hi : Inv d) (c : Int) :
    (d.lowPass c).abs = d.abs.map (fun t => (t.1, t.2.1, if t.1 > c then true else t.2.2)) := by
  rw [lowPass_mask d hi c]
  have := abs_with_mask d hi (fun f => decide (f > c))
  simpa using this

/-- **`high_pass` masks exactly the points whose own frequency is below the cutoff.** -/
theorem highPass_refines (d : DS) (hi : Inv d) (c : Int) :
    (d.highPass c).abs = d.abs.map (fun t => (t.1, t.2.1, if t.1 < c then true else t.2.2)) := by
  rw [highPass_mask d hi c]
  have := abs_with_mask d hi (fun f => decide (f < c))
  simpa using this

/-- **Subtraction** changes the impedance of point `i` by `zs[i]` and nothing else. -/
theorem subtract_refines (d : DS) (hi : Inv d) (zs : List Int) (hz : zs.length = d.imps.length) (h1 : zs.length ≠ 1) :
    (d.subtract zs).map DS.abs = .ok (List.zipWith (fun t z => (t.1, t.2.1 - z, t.2.2)) d.abs zs) := by
  unfold DS.subtract
  split
  · simp at h1
  · simp only [hz, ne_eq, not_true_eq_false, ↓reduceIte, Except.map, DS.abs, Except.ok.injEq]
    have h2 := hi.imps
    have h3 := hi.mask
    apply List.ext_getElem
    · simp [hz, h2, h3]
    · intro i hi1 hi2
      simp

/-! ## the views -/

/-- the unmasked / masked view is the corresponding selection of the points -/
theorem view_eq_filter (d : DS) (b : Bool) :
    d.view (some b) = (d.abs.filter (fun t => t.2.2 = b)).map (fun t => (t.1, t.2.1)) := by
  simp only [DS.view, DS.abs]
  exact zip_assoc_filterMap d.freqs d.imps d.mask b

theorem view_none_eq (d : DS) (hi : Inv d) : d.view none = d.abs.map (fun t => (t.1, t.2.1)) := by
  have h1 := hi.imps
  have h2 := hi.mask
  apply List.ext_getElem
  · simp [DS.view, DS.abs, h1, h2]
  · intro i hi1 hi2
    simp [DS.view, DS.abs]

theorem filter_partition_length (l : List (Int × Int × Bool)) :
    (l.filter (fun t => t.2.2 = false)).length + (l.filter (fun t => t.2.2 = true)).length = l.length := by
  induction l with
  | nil => rfl
  | cons t ts ih =>
    obtain ⟨f, z, b⟩ := t
    cases b <;> simp [List.filter_cons] at ih ⊢ <;> omega

/-- **The unmasked and the masked view partition the full view**: each is an order-preserving
sub-list of the full view, and together they account for every point exactly once. -/
theorem views_partition (d : DS) (hi : Inv d) :
    (d.view (some false)).Sublist (d.view none) ∧ (d.view (some true)).Sublist (d.view none) ∧
    (d.view (some false)).length + (d.view (some true)).length = (d.view none).length := by
  rw [view_eq_filter, view_eq_filter, view_none_eq d hi]
  refine ⟨(List.filter_sublist).map _, (List.filter_sublist).map _, ?_⟩
  simp only [List.length_map]
  exact filter_partition_length d.abs

/-- for every reachable state (corollary of `history_inv`) -/
theorem views_partition_reachable (d : DS) (ops : List Op) (hi : Inv d) :
    let e := ops.foldl step d
    (e.view (some false)).Sublist (e.view none) ∧ (e.view (some true)).Sublist (e.view none) ∧
    (e.view (some false)).length + (e.view (some true)).length = (e.view none).length :=
  views_partition _ (history_inv d ops hi).1

/-- non-vacuity: a 3-point ascending spectrum with mask `{0: True}` meets the hypotheses, and the
constructed data set masks the 1 Hz point, now last -/
example : StrictAsc [1, 10, 100] ∧ (construct [1, 10, 100] [11, 12, 13] [(0, true)]).toOption.map (fun r => r.1.abs)
    = some [(100, 13, false), (10, 12, false), (1, 11, true)] := by decide

/-- the tree before the `fix:` commit violated the constructor clause (kernel-checked replay):
3 ascending points with mask `{0: True}` masked the 100 Hz point instead of the 1 Hz point and
rewrote the caller's dictionary. -/
theorem old_constructor_mirrors_mask :
    (constructOld [1, 10, 100] [11, 12, 13] [(0, true)]).toOption.map (fun r => r.1.abs)
      ≠ some (supplied [1, 10, 100] [11, 12, 13] [(0, true)]).reverse
    ∧ (constructOld [1, 10, 100] [11, 12, 13] [(0, true)]).toOption.map (·.2) ≠ some [(0, true)] := by
  decide

end C05

import PyImpSpec.ExprC
import PyImpSpec.Gen.Kernels
import Mathlib.Analysis.Complex.Norm
import Mathlib.Algebra.BigOperators.Group.List.Basic
import PyImpSpec.DataSet.Model

/-! # C08 — every analysis result is internally consistent with the data it came from

The kernels `_calculate_residuals`, `_boukamp_weight` and `_calculate_pseudo_chisqr` of
`analysis/utility.py` are re-translated from `/repo` on every run (`Gen.K.residual`, `Gen.K.chisqrTerm`);
the identity between them is proved here for all complex data and model values.  How each analysis
assembles its result object (which arrays go into which field, masked points, untouched inputs) is
decided by the direct oracle of the check on the implementation (PARTIAL). -/

namespace C08
open Complex

/-- the environment of one data point -/
def envOf (zExp zFit : ℂ) : String → ℂ := fun k => if k = "Z_exp" then zExp else if k = "Z_fit" then zFit else 0

/-- **One point.** The summand of the pseudo chi-squared (with the default Boukamp weight) equals the
squared modulus of the relative residual `(Z_exp − Z_fit)/|Z_exp|`, for every data value `Z_exp ≠ 0` and
every model value. -/
theorem chisqrTerm_eq_normSq_residual (zExp zFit : ℂ) (h : zExp ≠ 0) :
    evalC (envOf zExp zFit) Gen.K.chisqrTerm = ((Complex.normSq (evalC (envOf zExp zFit) Gen.K.residual) : ℝ) : ℂ) := by
  unfold Gen.K.chisqrTerm Gen.K.residual
  simp only [evalC, E.eval, opsC, envOf, ↓reduceIte, Nat.cast_one, Complex.cpow_neg_one, Nat.cast_ofNat,
    String.reduceEq]
  have hn : (‖zExp‖ : ℝ) ≠ 0 := by simpa using h
  have h1 : ‖zExp‖ * ‖zExp‖ = zExp.re ^ 2 + zExp.im ^ 2 := by
    rw [← sq, Complex.sq_norm, Complex.normSq_apply]; ring
  rw [Complex.normSq_mul, Complex.normSq_inv, Complex.normSq_ofReal, Complex.normSq_apply (zExp + -zFit)]
  simp only [Complex.add_re, Complex.neg_re, Complex.add_im, Complex.neg_im]
  have e2 : ∀ z : ℂ, z ^ (2 : ℂ) = z ^ 2 := fun z => by
    rw [show (2 : ℂ) = ((2 : ℕ) : ℂ) by norm_num, Complex.cpow_natCast]
  simp only [e2]
  rw [h1]
  push_cast
  ring

/-- `_calculate_residuals` really is `(Z_exp − Z_fit)/|Z_exp|` -/
theorem residual_formula (zExp zFit : ℂ) :
    evalC (envOf zExp zFit) Gen.K.residual = (zExp - zFit) / ((‖zExp‖ : ℝ) : ℂ) := by
  unfold Gen.K.residual
  simp only [evalC, E.eval, opsC, envOf, ↓reduceIte, String.reduceEq]
  ring

/-- **Any number of points.** The pseudo chi-squared of a spectrum equals the sum of the squared moduli
of its relative residuals. -/
theorem chisqr_eq_sum_normSq_residuals (pts : List (ℂ × ℂ)) (h : ∀ p ∈ pts, p.1 ≠ 0) :
    (pts.map fun p => evalC (envOf p.1 p.2) Gen.K.chisqrTerm).sum
      = (pts.map fun p => ((Complex.normSq (evalC (envOf p.1 p.2) Gen.K.residual) : ℝ) : ℂ)).sum := by
  congr 1
  exact List.map_congr_left (fun p hp => chisqrTerm_eq_normSq_residual p.1 p.2 (h p hp))

/-! ## masked points do not take part -/

/-- **What an analysis reads through the default (unmasked) view does not depend on the masked points**:
two data sets (model of C05) with the same mask that agree on every unmasked point — whatever garbage the
masked points hold — present the same list of (frequency, impedance) pairs, hence yield the same
residuals, pseudo chi-squared and every other quantity computed from that view. -/
theorem unmasked_view_ignores_masked_points (m : List Bool) (fz fz' : List (Int × Int)) (hl : fz.length = fz'.length)
    (hagree : ∀ i (h : i < fz.length) (h' : i < fz'.length), m.getD i false = false → fz[i] = fz'[i]) :
    (fz.zip m).filterMap (fun t => if t.2 = false then some t.1 else none)
      = (fz'.zip m).filterMap (fun t => if t.2 = false then some t.1 else none) := by
  induction fz generalizing fz' m with
  | nil =>
    cases fz' with
    | nil => rfl
    | cons a t => simp at hl
  | cons a t ih =>
    cases fz' with
    | nil => simp at hl
    | cons a' t' =>
      cases m with
      | nil => simp
      | cons b mt =>
        simp only [List.length_cons, Nat.add_right_cancel_iff] at hl
        have htail := ih mt t' hl (fun i h h' hm => by
          have := hagree (i + 1) (by simp; omega) (by simp; omega) (by simpa using hm)
          simpa using this)
        simp only [List.zip_cons_cons, List.filterMap_cons]
        cases b with
        | true => simpa using htail
        | false =>
          have h0 := hagree 0 (by simp) (by simp) (by simp)
          simp only [List.getElem_cons_zero] at h0
          subst h0
          simp [htail]

/-- in terms of the data-set model: same frequencies and mask, impedances equal on the unmasked points -/
theorem view_ignores_masked (d d' : DataSet.DS) (hf : d.freqs = d'.freqs) (hm : d.mask = d'.mask)
    (hl : d.imps.length = d'.imps.length) (hfl : d.freqs.length = d.imps.length)
    (hz : ∀ i (h : i < d.imps.length) (h' : i < d'.imps.length), d.mask.getD i false = false → d.imps[i] = d'.imps[i]) :
    d.view (some false) = d'.view (some false) := by
  unfold DataSet.DS.view
  simp only
  rw [← hm, ← hf]
  apply unmasked_view_ignores_masked_points
  · simp [List.length_zip, hl]
  · intro i h h' hmi
    simp only [List.length_zip] at h h'
    have h1 : i < d.imps.length := by omega
    have h2 : i < d'.imps.length := by omega
    simp only [List.getElem_zip]
    rw [hz i h1 h2 hmi]

/-- the kernels found in `/repo` are the three covered above -/
theorem all_analysis_kernels_covered : Gen.K.analysisKernels = ["residual", "boukampWeight", "chisqrTerm"] := by decide

/-- non-vacuity -/
example : evalC (envOf 2 1) Gen.K.residual = 1 / 2 := by
  rw [residual_formula]; norm_num

end C08

import PyImpSpec.ExprC
import PyImpSpec.Gen.Kernels
import Mathlib.Analysis.Complex.Norm
import Mathlib.Algebra.BigOperators.Group.List.Basic

/-! # C08 — every analysis result is internally consistent with the data it came from

The kernels `_calculate_residuals`, `_boukamp_weight` and `_calculate_pseudo_chisqr` of
`analysis/utility.py` are re-translated from `/repo` on every run (`Gen.K.residual`, `Gen.K.chisqrTerm`);
the identity between them is proved here for all complex data and model values.  How each analysis
assembles its result object (which arrays go into which field, masked points, untouched inputs) is
decided by the direct oracle of the check on the implementation (PARTIAL). -/

namespace C08
open Complex

/-- the environment of one data point -/
def envOf (zExp zFit : ℂ) : String → ℂ := fun k => if k = "Z_exp" then zExp else if k = "Z_fit" then zFit else 0

/-- **One point.** The summand of the pseudo chi-squared (with the default Boukamp weight) equals the
squared modulus of the relative residual `(Z_exp − Z_fit)/|Z_exp|`, for every data value `Z_exp ≠ 0` and
every model value. -/
theorem chisqrTerm_eq_normSq_residual (zExp zFit : ℂ) (h : zExp ≠ 0) :
    evalC (envOf zExp zFit) Gen.K.chisqrTerm = ((Complex.normSq (evalC (envOf zExp zFit) Gen.K.residual) : ℝ) : ℂ) := by
  unfold Gen.K.chisqrTerm Gen.K.residual
  simp only [evalC, E.eval, opsC, envOf, ↓reduceIte, Nat.cast_one, Complex.cpow_neg_one, Nat.cast_ofNat,
    String.reduceEq]
  have hn : (‖zExp‖ : ℝ) ≠ 0 := by simpa using h
  have h1 : ‖zExp‖ * ‖zExp‖ = zExp.re ^ 2 + zExp.im ^ 2 := by
    rw [← sq, Complex.sq_norm, Complex.normSq_apply]; ring
  rw [Complex.normSq_mul, Complex.normSq_inv, Complex.normSq_ofReal, Complex.normSq_apply (zExp + -zFit)]
  simp only [Complex.add_re, Complex.neg_re, Complex.add_im, Complex.neg_im]
  have e2 : ∀ z : ℂ, z ^ (2 : ℂ) = z ^ 2 := fun z => by
    rw [show (2 : ℂ) = ((2 : ℕ) : ℂ) by norm_num, Complex.cpow_natCast]
  simp only [e2]
  rw [h1]
  push_cast
  ring

/-- `_calculate_residuals` really is `(Z_exp − Z_fit)/|Z_exp|` -/
theorem residual_formula (zExp zFit : ℂ) :
    evalC (envOf zExp zFit) Gen.K.residual = (zExp - zFit) / ((‖zExp‖ : ℝ) : ℂ) := by
  unfold Gen.K.residual
  simp only [evalC, E.eval, opsC, envOf, ↓reduceIte, String.reduceEq]
  ring

/-- **Any number of points.** The pseudo chi-squared of a spectrum equals the sum of the squared moduli
of its relative residuals. -/
theorem chisqr_eq_sum_normSq_residuals (pts : List (ℂ × ℂ)) (h : ∀ p ∈ pts, p.1 ≠ 0) :
    (pts.map fun p => evalC (envOf p.1 p.2) Gen.K.chisqrTerm).sum
      = (pts.map fun p => ((Complex.normSq (evalC (envOf p.1 p.2) Gen.K.residual) : ℝ) : ℂ)).sum := by
  congr 1
  exact List.map_congr_left (fun p hp => chisqrTerm_eq_normSq_residual p.1 p.2 (h p hp))

/-- the kernels found in `/repo` are the three covered above -/
theorem all_analysis_kernels_covered : Gen.K.analysisKernels = ["residual", "boukampWeight", "chisqrTerm"] := by decide

/-- non-vacuity -/
example : evalC (envOf 2 1) Gen.K.residual = 1 / 2 := by
  rw [residual_formula]; norm_num

end C08

import PyImpSpec.Registry
import PyImpSpec.Cdc.SymProof
import PyImpSpec.Cdc.TextRT

/-! # C15 — the element registry and class defaults can always be restored

Model: `Registry.*` (hand model of `pyimpspec/circuit/registry.py`), tied to `/repo` by the correspondence
stream `reg` (random histories of register / remove / reset / set_default_values compared step by step
with the real registry, always ending in `reset()`); `Cdc.tokenize` (hand model of `circuit/tokenizer.py`),
tied by the token-level correspondence stream `tok` (same class names, same identifier/label texts). -/

namespace C15
open Registry

inductive Op where
  | register (d : Definition) (priv validate : Bool)
  | remove (cs : List ClassId)
  | reset (elements defaultParameters : Bool)
  | setDefault (c : ClassId) (key : String) (v : Int)

def step (st : State) : Op → State
  | .register d p v => (register st d p v).1
  | .remove cs => (remove st cs).1
  | .reset e d => reset st e d
  | .setDefault c k v => (setDefault st c k v).1

/-- the dictionaries are dictionaries (unique keys), the built-in entries are present, and an entry whose
class is a built-in class is a built-in entry -/
structure WF (st : State) : Prop where
  keys : (st.elements.map (·.1)).Nodup
  dkeys : (st.defaults.map (·.1)).Nodup
  builtins : ∀ p ∈ st.defaults, p ∈ st.elements
  onlyBuiltins : ∀ p ∈ st.elements, isDefaultClass st p.2 = true → p ∈ st.defaults

theorem lookup_none_not_mem {α : Type} (l : List (String × α)) (k : String) (h : lookup l k = none) :
    ∀ p ∈ l, p.1 ≠ k := by
  intro p hp hk
  unfold lookup at h
  cases hf : l.find? (·.1 = k) with
  | none =>
    have := List.find?_eq_none.mp hf p hp
    simp [hk] at this
  | some q => simp [hf] at h

theorem lookup_some_mem {α : Type} (l : List (String × α)) (k : String) (v : α) (h : lookup l k = some v) : (k, v) ∈ l := by
  unfold lookup at h
  cases hf : l.find? (·.1 = k) with
  | none => simp [hf] at h
  | some q =>
    simp only [hf, Option.map_some, Option.some.injEq] at h
    have h1 := List.mem_of_find?_eq_some hf
    have h2 : q.1 = k := by simpa using List.find?_some hf
    rw [← h, ← h2]; exact h1

theorem addPrivate_shape (st : State) (d : Definition) (p : Bool) :
    (addPrivate st d p).elements = st.elements ∧ (addPrivate st d p).defaults = st.defaults := by
  cases p <;> exact ⟨rfl, rfl⟩

theorem wf_of_shape (st st' : State) (h : WF st) (h1 : st'.elements = st.elements) (h2 : st'.defaults = st.defaults) : WF st' := by
  have hd : ∀ c, isDefaultClass st' c = isDefaultClass st c := by intro c; unfold isDefaultClass; rw [h2]
  exact ⟨by rw [h1]; exact h.keys, by rw [h2]; exact h.dkeys, by rw [h1, h2]; exact h.builtins,
    by intro p hp hc; rw [h1] at hp; rw [hd] at hc; rw [h2]; exact h.onlyBuiltins p hp hc⟩

theorem registerEntry_wf (st : State) (d : Definition) (p : Bool) (h : WF st) (hnd : isDefaultClass st d.cls = false) :
    WF (registerEntry st d p).1 ∧ (registerEntry st d p).1.defaults = st.defaults := by
  unfold registerEntry
  cases hl : lookup st.elements d.symbol with
  | some c =>
    simp only
    split
    · exact ⟨h, rfl⟩
    · exact ⟨wf_of_shape st _ h (addPrivate_shape st d p).1 (addPrivate_shape st d p).2, (addPrivate_shape st d p).2⟩
  | none =>
    simp only
    have hnot := lookup_none_not_mem st.elements d.symbol hl
    have hw : WF { st with elements := st.elements ++ [(d.symbol, d.cls)] } := by
      refine ⟨?_, h.dkeys, ?_, ?_⟩
      · show ((st.elements ++ [(d.symbol, d.cls)]).map (·.1)).Nodup
        rw [List.map_append, List.nodup_append]
        refine ⟨h.keys, by simp, ?_⟩
        intro a ha b hb
        simp only [List.map_cons, List.map_nil, List.mem_singleton] at hb
        obtain ⟨q, hq, rfl⟩ := List.mem_map.mp ha
        rw [hb]; exact hnot q hq
      · intro q hq
        show q ∈ st.elements ++ [(d.symbol, d.cls)]
        exact List.mem_append_left _ (h.builtins q hq)
      · intro q hq hdc
        have hq' : q ∈ st.elements ++ [(d.symbol, d.cls)] := hq
        rcases List.mem_append.mp hq' with hq1 | hq1
        · exact h.onlyBuiltins q hq1 hdc
        · simp only [List.mem_singleton] at hq1
          subst hq1
          have : isDefaultClass st d.cls = true := hdc
          rw [hnd] at this; cases this
    refine ⟨wf_of_shape _ _ hw (addPrivate_shape _ d p).1 (addPrivate_shape _ d p).2, ?_⟩
    rw [(addPrivate_shape _ d p).2]

theorem register_wf' (st : State) (d : Definition) (p v : Bool) (h : WF st) :
    WF (register st d p v).1 ∧ (register st d p v).1.defaults = st.defaults := by
  unfold register
  split; · exact ⟨h, rfl⟩
  split; · exact ⟨h, rfl⟩
  rename_i hsym hcls
  have hnd : isDefaultClass st d.cls = false := by simpa using hcls
  have base : WF (rewriteClass st d) := wf_of_shape st _ h rfl rfl
  split; · exact ⟨h, rfl⟩
  split; · exact ⟨base, rfl⟩
  exact registerEntry_wf (rewriteClass st d) d p base hnd

theorem register_defaults (st : State) (d : Definition) (p v : Bool) : (register st d p v).1.defaults = st.defaults := by
  by_cases h : True
  · unfold register
    split; · rfl
    split; · rfl
    split; · rfl
    split; · rfl
    unfold registerEntry
    split
    · split
      · rfl
      · exact (addPrivate_shape _ d p).2
    · exact (addPrivate_shape _ d p).2
  · exact absurd trivial h

theorem register_wf (st : State) (d : Definition) (p v : Bool) (h : WF st) : WF (register st d p v).1 :=
  (register_wf' st d p v h).1

theorem removeOne_wf (st : State) (c : ClassId) (h : WF st) (hcn : isDefaultClass st c = false) :
    WF (removeOne st c) ∧ (removeOne st c).defaults = st.defaults := by
  unfold removeOne
  cases hf : st.elements.find? (·.2 = c) with
  | none => exact ⟨h, rfl⟩
  | some kc =>
    have hmem : kc ∈ st.elements := List.mem_of_find?_eq_some hf
    have hc' : kc.2 = c := by simpa using List.find?_some hf
    refine ⟨⟨?_, h.dkeys, ?_, ?_⟩, rfl⟩
    · exact (List.Sublist.map _ (List.erase_sublist)).nodup h.keys
    · intro q hq
      show q ∈ st.elements.erase kc
      have hqe := h.builtins q hq
      have hne : q ≠ kc := by
        intro e
        have : isDefaultClass st c = true := by
          unfold isDefaultClass
          simp only [List.any_eq_true, decide_eq_true_eq]
          exact ⟨q, hq, by rw [e, hc']⟩
        rw [hcn] at this; cases this
      exact (List.mem_erase_of_ne hne).mpr hqe
    · intro q hq hdc
      exact h.onlyBuiltins q (List.mem_of_mem_erase hq) hdc

theorem remove_fold_spec (cs : List ClassId) (st : State) (h : WF st) (hc : ∀ c ∈ cs, isDefaultClass st c = false) :
    WF (cs.foldl removeOne st) ∧ (cs.foldl removeOne st).defaults = st.defaults := by
  induction cs generalizing st with
  | nil => exact ⟨h, rfl⟩
  | cons c rest ih =>
    obtain ⟨h1, h2⟩ := removeOne_wf st c h (hc c List.mem_cons_self)
    have hc' : ∀ x ∈ rest, isDefaultClass (removeOne st c) x = false := by
      intro x hx
      have := hc x (List.mem_cons_of_mem _ hx)
      unfold isDefaultClass at this ⊢
      rw [h2]; exact this
    obtain ⟨h3, h4⟩ := ih (removeOne st c) h1 hc'
    exact ⟨h3, by rw [List.foldl_cons, h4, h2]⟩

theorem remove_wf (st : State) (cs : List ClassId) (h : WF st) : WF (remove st cs).1 ∧ (remove st cs).1.defaults = st.defaults := by
  unfold remove
  split; · exact ⟨h, rfl⟩
  split; · exact ⟨h, rfl⟩
  rename_i _ hany
  have hc : ∀ c ∈ cs, isDefaultClass st c = false := by
    intro c hcm
    cases hd : isDefaultClass st c with
    | false => rfl
    | true => exact absurd (List.any_eq_true.mpr ⟨c, hcm, hd⟩) hany
  exact remove_fold_spec cs st h hc

theorem nodup_keys_eq {α : Type} (l : List (String × α)) (hn : (l.map (·.1)).Nodup) (p q : String × α)
    (hp : p ∈ l) (hq : q ∈ l) (hk : p.1 = q.1) : p = q := by
  induction l with
  | nil => cases hp
  | cons a t ih =>
    simp only [List.map_cons, List.nodup_cons] at hn
    rcases List.mem_cons.mp hp with rfl | hp'
    · rcases List.mem_cons.mp hq with rfl | hq'
      · rfl
      · exact absurd (List.mem_map.mpr ⟨q, hq', hk.symm⟩) hn.1
    · rcases List.mem_cons.mp hq with rfl | hq'
      · exact absurd (List.mem_map.mpr ⟨p, hp', hk⟩) hn.1
      · exact ih hn.2 hp' hq'

theorem resetDefaultParams_shape (st : State) :
    (resetDefaultParams st).elements = st.elements ∧ (resetDefaultParams st).defaults = st.defaults ∧
    (resetDefaultParams st).privates = st.privates := ⟨rfl, rfl, rfl⟩

theorem reset_wf (st : State) (e d : Bool) (h : WF st) : WF (reset st e d) ∧ (reset st e d).defaults = st.defaults := by
  have key : ∀ s : State, WF s → WF (if d then resetDefaultParams s else s) ∧ (if d then resetDefaultParams s else s).defaults = s.defaults := by
    intro s hs
    cases d
    · exact ⟨hs, rfl⟩
    · exact ⟨⟨hs.keys, hs.dkeys, hs.builtins, hs.onlyBuiltins⟩, rfl⟩
  unfold reset
  cases e
  · simpa using key st h
  · have hw : WF { st with elements := st.defaults, privates := st.privates.filter (fun p => st.defaults.any (·.1 = p.1)) } :=
      ⟨h.dkeys, h.dkeys, fun p hp => hp, fun p hp _ => hp⟩
    simpa using key _ hw

theorem setDefault_wf (st : State) (c : ClassId) (k : String) (v : Int) (h : WF st) :
    WF (setDefault st c k v).1 ∧ (setDefault st c k v).1.defaults = st.defaults := by
  unfold setDefault
  split
  · exact ⟨h, rfl⟩
  · split
    · exact ⟨h, rfl⟩
    · exact ⟨⟨h.keys, h.dkeys, h.builtins, h.onlyBuiltins⟩, rfl⟩

theorem step_wf (st : State) (op : Op) (h : WF st) : WF (step st op) ∧ (step st op).defaults = st.defaults := by
  cases op with
  | register d p v => exact ⟨register_wf st d p v h, register_defaults st d p v⟩
  | remove cs => exact remove_wf st cs h
  | reset e d => exact reset_wf st e d h
  | setDefault c k v => exact setDefault_wf st c k v h

/-- **Built-ins cannot be removed or shadowed.** After any sequence of registrations (valid, inconsistent,
duplicate-symbol, invalid-symbol, private), removals, resets and default-value changes, every built-in
symbol is still registered and still maps to its original class. -/
theorem builtins_preserved (st : State) (ops : List Op) (h : WF st) :
    WF (ops.foldl step st) ∧ (ops.foldl step st).defaults = st.defaults ∧
    ∀ p ∈ st.defaults, lookup (ops.foldl step st).elements p.1 = some p.2 := by
  have main : WF (ops.foldl step st) ∧ (ops.foldl step st).defaults = st.defaults := by
    induction ops generalizing st with
    | nil => exact ⟨h, rfl⟩
    | cons op rest ih =>
      obtain ⟨h1, h2⟩ := step_wf st op h
      obtain ⟨h3, h4⟩ := ih (step st op) h1
      exact ⟨h3, by rw [List.foldl_cons, h4, h2]⟩
  refine ⟨main.1, main.2, ?_⟩
  intro p hp
  have hw := main.1
  have hpe : p ∈ (ops.foldl step st).elements := hw.builtins p (by rw [main.2]; exact hp)
  -- unique keys: the entry found for `p.1` is `p`
  unfold lookup
  cases hf : (ops.foldl step st).elements.find? (·.1 = p.1) with
  | none =>
    have := List.find?_eq_none.mp hf p hpe
    simp at this
  | some q =>
    have hq : q ∈ (ops.foldl step st).elements := List.mem_of_find?_eq_some hf
    have hk : q.1 = p.1 := by simpa using List.find?_some hf
    have : q = p := nodup_keys_eq _ hw.keys q p hq hpe hk
    simp [this]

/-- **`reset()` restores the registry.** After any history, `reset()` makes the element table equal to the
built-in table again (so `get_elements` with any flags and the parser see exactly the built-in symbols). -/
theorem reset_restores_elements (st : State) (ops : List Op) (h : WF st) :
    (reset (ops.foldl step st) true true).elements = st.defaults := by
  have := (builtins_preserved st ops h).2.1
  simp only [reset, ↓reduceIte, resetDefaultParams]
  exact this

/-! ## registered symbols and the tokenizer: the longest symbol wins -/

/-- every key of the element table and of the built-in table has the shape `_validate_element_symbol` enforces -/
def SymsOk (st : State) : Prop :=
  (∀ p ∈ st.elements, validSymbol p.1 = true) ∧ (∀ p ∈ st.defaults, validSymbol p.1 = true)

theorem removeFold_elements_subset (cs : List ClassId) (st : State) :
    (∀ p ∈ (cs.foldl removeOne st).elements, p ∈ st.elements) ∧ (cs.foldl removeOne st).defaults = st.defaults := by
  induction cs generalizing st with
  | nil => exact ⟨fun _ h => h, rfl⟩
  | cons c rest ih =>
    obtain ⟨h1, h2⟩ := ih (removeOne st c)
    have e1 : ∀ p ∈ (removeOne st c).elements, p ∈ st.elements := by
      intro p hp
      unfold removeOne at hp
      split at hp
      · exact hp
      · exact List.mem_of_mem_erase hp
    have e2 : (removeOne st c).defaults = st.defaults := by
      unfold removeOne; split <;> rfl
    exact ⟨fun p hp => e1 p (h1 p hp), by rw [List.foldl_cons, h2, e2]⟩

theorem step_symsOk (st : State) (op : Op) (h : SymsOk st) : SymsOk (step st op) := by
  cases op with
  | register d p v =>
    refine ⟨?_, by show ∀ q ∈ (register st d p v).1.defaults, _; rw [register_defaults]; exact h.2⟩
    show ∀ q ∈ (register st d p v).1.elements, _
    unfold register
    split; · exact h.1
    rename_i hsym
    have hs : validSymbol d.symbol = true := by simpa using hsym
    split; · exact h.1
    split; · exact h.1
    split; · exact h.1
    unfold registerEntry
    split
    · split
      · exact h.1
      · rw [(addPrivate_shape _ d p).1]; exact h.1
    · rw [(addPrivate_shape _ d p).1]
      intro q hq
      rcases List.mem_append.mp hq with hq | hq
      · exact h.1 q hq
      · have : q = (d.symbol, d.cls) := by simpa using hq
        rw [this]; exact hs
  | remove cs =>
    show SymsOk (remove st cs).1
    unfold remove
    split; · exact h
    split; · exact h
    obtain ⟨h1, h2⟩ := removeFold_elements_subset cs st
    exact ⟨fun q hq => h.1 q (h1 q hq), by show ∀ q ∈ (cs.foldl removeOne st).defaults, _; rw [h2]; exact h.2⟩
  | reset e dp =>
    show SymsOk (reset st e dp)
    unfold reset
    cases e <;> cases dp <;> simp only [resetDefaultParams, ↓reduceIte, Bool.false_eq_true] <;> first | exact h | exact ⟨h.2, h.2⟩
  | setDefault c k v =>
    show SymsOk (setDefault st c k v).1
    unfold setDefault
    split; · exact h
    split
    · exact h
    · exact h

/-- after any history every registered symbol is an upper-case letter followed by lower-case letters, digits
and underscores (what makes the upper-case letter a delimiter) -/
theorem symbols_always_valid (st : State) (ops : List Op) (h : SymsOk st) : SymsOk (ops.foldl step st) := by
  induction ops generalizing st with
  | nil => exact h
  | cons op rest ih => exact ih _ (step_symsOk st op h)

theorem validSymbol_shape (k : String) (h : validSymbol k = true) : Cdc.ValidSym k.toList := by
  unfold validSymbol at h
  cases hk : k.toList with
  | nil => rw [hk] at h; cases h
  | cons c cs =>
    rw [hk] at h
    simp only [Bool.and_eq_true, List.all_eq_true] at h
    refine ⟨c, cs, rfl, h.1, ?_⟩
    intro d hd
    have := h.2 d hd
    simpa [Cdc.symTail, Cdc.isLower, Cdc.isDigit] using this

/-- **The longest symbol wins.** In any state reachable from the built-in registry, ANY run of registered symbols
written without separators (`LLaLs`, `RQLaXab…`) is tokenized into exactly one identifier token per symbol, in
order, whose text is that symbol - whatever other symbols (prefixes or extensions of them) are registered. -/
theorem registered_symbols_tokenize (st : State) (ops : List Op) (h : SymsOk st) (ks : List String)
    (hk : ∀ k ∈ ks, ∃ c, (k, c) ∈ (ops.foldl step st).elements) :
    Cdc.tokenize true (ks.map String.toList).flatten = .ok (ks.map fun k => ({ kind := .ident, text := k, num := .nan } : Cdc.Token)) := by
  have hv := (symbols_always_valid st ops h).1
  have hs : ∀ x ∈ ks.map String.toList, Cdc.ValidSym x := by
    intro x hx
    obtain ⟨k, hkm, rfl⟩ := List.mem_map.mp hx
    obtain ⟨c, hc⟩ := hk k hkm
    exact validSymbol_shape k (hv _ hc)
  rw [Cdc.tokenize_symbols _ hs]
  simp [Cdc.identTok, String.ofList_toList]

/-- **The parser recognises exactly the symbols of its table.** For every well-formed symbol `k` (and every registered symbol is
well-formed after any history: `symbols_always_valid`) and every element table - whatever prefixes or extensions of `k` it
contains - `parse_cdc(k)` succeeds if and only if `k` is in the table; when it is not, the error is `InvalidElementSymbol`. -/
theorem parser_accepts_iff_registered (tbl : List Cdc.ElemDef) (k : String) (hv : Cdc.ValidSym k.toList) :
    (∃ c, Cdc.parseCdc tbl Cdc.fixedFlags k = .ok c) ↔ (tbl.find? (fun d => d.sym = k)).isSome = true := by
  constructor
  · rintro ⟨c, hc⟩
    cases hf : tbl.find? (fun d => d.sym = k) with
    | some d => rfl
    | none => rw [Cdc.parseCdc_unregistered tbl k hv hf] at hc; cases hc
  · intro h
    have hr : String.ofList (Cdc.renderT (.leaf k)) = k := by
      simp [Cdc.renderT, Cdc.printT, Cdc.chars, Cdc.tkOf, String.ofList_toList]
    have := Cdc.parseCdc_renderT tbl (.leaf k) (by simpa [Cdc.Printable] using h) hv
    rw [hr] at this
    exact ⟨_, this⟩

theorem unregistered_symbol_error (tbl : List Cdc.ElemDef) (k : String) (hv : Cdc.ValidSym k.toList)
    (hn : tbl.find? (fun d => d.sym = k) = none) : Cdc.parseCdc tbl Cdc.fixedFlags k = .error (.lib "InvalidElementSymbol") :=
  Cdc.parseCdc_unregistered tbl k hv hn

/-- the statement does not depend on registration at all: any symbols of the valid shape -/
theorem symbols_tokenize (syms : List (List Char)) (h : ∀ x ∈ syms, Cdc.ValidSym x) :
    Cdc.tokenize true syms.flatten = .ok (syms.map Cdc.identTok) := Cdc.tokenize_symbols syms h

/-- `L`, `La` and `Ls` stay distinct (an instance; the hypotheses of the theorem are satisfiable) -/
example : Cdc.tokenize true ['L', 'L', 'a', 'L', 's'] = .ok [Cdc.identTok ['L'], Cdc.identTok ['L', 'a'], Cdc.identTok ['L', 's']] :=
  Cdc.tokenize_symbols [['L'], ['L', 'a'], ['L', 's']] (by
    intro x hx
    simp only [List.mem_cons, List.not_mem_nil, or_false] at hx
    rcases hx with rfl | rfl | rfl
    · exact ⟨'L', [], rfl, by decide, by simp⟩
    · exact ⟨'L', ['a'], rfl, by decide, by intro d hd; simp at hd; subst hd; decide⟩
    · exact ⟨'L', ['s'], rfl, by decide, by intro d hd; simp at hd; subst hd; decide⟩)


/-- a definition whose numeric impedance contradicts its declared equation at the default parameter
values is refused (when validation is on, as it is after the library has been imported) -/
theorem inconsistent_refused (st : State) (d : Definition) (p : Bool) (h : d.impedancesConsistent = false) :
    (register st d p true).2 ≠ none ∧ (register st d p true).1.elements = st.elements := by
  unfold register
  split; · exact ⟨by simp, rfl⟩
  split; · exact ⟨by simp, rfl⟩
  split; · exact ⟨by simp, rfl⟩
  simp [h, rewriteClass]

/-- registering a definition whose class is one of the built-in classes is refused and changes nothing -/
theorem builtin_class_refused (st : State) (d : Definition) (p v : Bool) (hs : validSymbol d.symbol = true)
    (h : isDefaultClass st d.cls = true) : register st d p v = (st, some "ValueError") := by
  unfold register
  simp [hs, h]

/-- non-vacuity: a small registry satisfies `WF` -/
example : WF ⟨[("R", 0), ("C", 1)], [("R", 0), ("C", 1)], [], [], []⟩ :=
  ⟨by decide, by decide, fun p hp => hp, fun p hp _ => hp⟩

end C15

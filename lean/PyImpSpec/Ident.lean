/-! # Element traversal, identifiers and names (C16, C20) — import-free

`Connection._get_elements_recursive` (the queue loop), `generate_element_identifiers` (both kinds) and
`get_element_name` on trees whose element nodes carry their object identity. -/

namespace Ident

/-- an element object as the identifier maps see it -/
structure El where
  oid : Nat          -- object identity
  sym : String
  label : String
deriving DecidableEq, Repr

inductive Tr where
  | elem (e : El) (subs : List Tr) : Tr      -- `subs`: the container's non-None sub-circuits, in dict order
  | conn (cs : List Tr) : Tr                 -- a Series or Parallel connection

/-- `if element not in elements: elements.append(element)` (identity comparison): first occurrences -/
def dedup : List El → List El → List El
  | [], acc => acc.reverse
  | e :: es, acc => if acc.any (·.oid = e.oid) then dedup es acc else dedup es (e :: acc)

mutual
/-- `_get_all_items_recursive`: the elements of a connection in depth-first order; containers are
elements here, their sub-circuits are not entered -/
def topT : Tr → List El
  | .elem e _ => [e]
  | .conn cs => topL cs
def topL : List Tr → List El
  | [] => []
  | t :: ts => topT t ++ topL ts
end

mutual
/-- what the queue loop appends after the top level: for every container met, in order, the recursive
result of each of its sub-circuits -/
def deepT : Tr → List El
  | .elem _ subs => deepSubs subs
  | .conn cs => deepL cs
def deepL : List Tr → List El
  | [] => []
  | t :: ts => deepT t ++ deepL ts
def deepSubs : List Tr → List El
  | [] => []
  | s :: ss => dedup (topT s ++ deepT s) [] ++ deepSubs ss
end

/-- `Connection._get_elements_recursive()` -/
def elements (t : Tr) : List El := dedup (topT t ++ deepT t) []

/-- `generate_element_identifiers(running=True)` -/
def running (t : Tr) : List (El × Nat) := (elements t).zipIdx

/-- `counts[symbol]` (0 when absent) -/
def countOf (counts : List (String × Nat)) (s : String) : Nat :=
  match counts.find? (·.1 = s) with | some p => p.2 | none => 0

/-- the per-type counting loop -/
def countLoop : List El → List (String × Nat) → List (El × Nat)
  | [], _ => []
  | e :: es, counts =>
    (e, countOf counts e.sym + 1) :: countLoop es ((e.sym, countOf counts e.sym + 1) :: counts.filter (·.1 ≠ e.sym))

/-- `generate_element_identifiers(running=False)` -/
def perType (t : Tr) : List (El × Nat) := countLoop (elements t) []

/-- `Element.get_name()` / `Connection.get_element_name()` -/
def name (e : El) (ident : Nat) : String :=
  if e.label ≠ "" then e.sym ++ "_" ++ e.label else e.sym ++ "_" ++ toString ident

/-- the lmfit / sympy variable name of a parameter -/
def paramName (key : String) (ident : Nat) : List Char := key.toList ++ '_' :: (Nat.repr ident).toList

mutual
/-- every element object reachable from a tree, nested sub-circuits included -/
def allT : Tr → List El
  | .elem e subs => e :: allL subs
  | .conn cs => allL cs
def allL : List Tr → List El
  | [] => []
  | t :: ts => allT t ++ allL ts
end

end Ident

import PyImpSpec.Expr
import Mathlib.Analysis.SpecialFunctions.Pow.Complex
import Mathlib.Analysis.SpecialFunctions.Trigonometric.Basic
import Mathlib.Tactic.Ring
import Mathlib.Tactic.FieldSimp

/-! The evaluator of `E` at `ℂ` and the generic tactic for "numeric kernel = documented equation". -/

open Complex

/-- the operations of `E` over `ℂ`: principal branch of powers, `sqrt x = x^(1/2)` -/
noncomputable def opsC : NumOps ℂ :=
  { ofNat := fun n => (n : ℂ), I := Complex.I, pi := (Real.pi : ℂ), add := (· + ·), mul := (· * ·), neg := (- ·),
    inv := (·⁻¹), pow := (· ^ ·), sqrt := fun z => z ^ ((1 : ℂ) / 2), tanh := Complex.tanh, cosh := Complex.cosh,
    sinh := Complex.sinh, re := fun z => ((z.re : ℝ) : ℂ), im := fun z => ((z.im : ℝ) : ℂ), abs := fun z => ((‖z‖ : ℝ) : ℂ),
    exp := Complex.exp, log := Complex.log, sin := Complex.sin, cos := Complex.cos }

noncomputable def evalC (env : String → ℂ) (e : E) : ℂ := e.eval opsC env

theorem cpow_neg_half (x n : ℂ) : x ^ (n * (-1/2)) = (x ^ (n * (1/2)))⁻¹ := by
  rw [show n * (-1/2) = -(n * (1/2)) by ring, Complex.cpow_neg]
theorem cpow_neg_half' (x : ℂ) : x ^ ((-1:ℂ)/2) = (x ^ ((1:ℂ)/2))⁻¹ := by
  rw [show ((-1:ℂ)/2) = -((1:ℂ)/2) by ring, Complex.cpow_neg]

/-- unfold the evaluator on a concrete term -/
macro "unfold_eval" : tactic => `(tactic| simp only [evalC, E.eval, opsC, Nat.cast_one, Complex.cpow_neg_one, Complex.cpow_one])

/-- undo sympy's automatic rewrites (`1/xⁿ → x⁻ⁿ`, `1/I → −I`, …) -/
macro "norm1" : tactic => `(tactic| simp only [Complex.inv_I, inv_inv, Complex.cpow_neg_one, Complex.cpow_one, Complex.cpow_neg, cpow_neg_half, cpow_neg_half', neg_mul, mul_neg, one_div, neg_neg])

macro "elem_tac" : tactic => `(tactic| first
  | rfl
  | (ring_nf; done)
  | (norm1; done)
  | (norm1; ring_nf; done)
  | (ring_nf; norm1; done)
  | (ring_nf; norm1; ring_nf; done)
  | (ring_nf; norm1; field_simp; ring_nf; done)
  | (norm1; field_simp; ring_nf; done))

/-- the proof script for one generated pair of terms -/
macro "kernel_tac" : tactic => `(tactic| first | rfl | (unfold_eval; done) | (unfold_eval; elem_tac))

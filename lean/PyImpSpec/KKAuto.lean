/-! # Automatic choice of the number of RC elements (C10) — import-free

`pyimpspec/analysis/kramers_kronig/algorithms/__init__.py`: the integer decision logic of
`suggest_num_RC_limits` and the final selection of `_suggest_using_default`.  The numerical sub-results
(transition point of the pseudo chi-squared curve, mean distances between curvature sign changes, scores)
enter as data; floating-point keys are represented by integer ranks (order and equality preserved). -/

namespace KKAuto

/-! ## limits -/

/-- one test result as the limit logic sees it: `num_RC` and the rank of its pseudo chi-squared -/
structure T where
  n : Int
  chi : Int
deriving Repr, DecidableEq

structure LimIn where
  lower : Int                -- argument `lower_limit`
  upper : Int                -- argument `upper_limit`
  delta : Int                -- argument `limit_delta`
  tests : List T             -- sorted by `num_RC` by the caller
  minX : Int
  maxX : Int
  lenF : Int
  single : Bool              -- `possibly_single_resistor_or_capacitor`
  transLower : Int           -- `_approximate_transition_and_end_point(x, y)[0]`
  transMax : Int             -- `_approximate_transition_and_end_point(x, y)[1]`
  md : List (Int × Bool)     -- `suggest_num_RC_method_5(...)` items in dictionary order: key, value >= threshold
deriving Repr

/-- `limit_delta or 1` -/
def deltaOr1 (d : Int) : Int := if d ≠ 0 then d else 1

/-- `min(tests, key=pseudo_chisqr)` over the tests with `num_RC < lo`: first minimal element -/
def bestBelow (ts : List T) (lo : Int) : Option T :=
  (ts.filter (·.n < lo)).foldl (fun acc t => match acc with
    | none => some t
    | some b => if t.chi < b.chi then some t else some b) none

/-- the upper limit from the mean distances (the `for … else` over the reversed dictionary) -/
def upperFromMd (md : List (Int × Bool)) (lo maxX delta : Int) : Int :=
  match md.reverse.find? (fun kv => kv.1 ≤ maxX && kv.2) with
  | some kv => min maxX (max (lo + deltaOr1 delta) kv.1)
  | none => min maxX (lo + deltaOr1 delta)

/-- the automatic (or adjusted) lower limit and the effective `max_x` -/
def lowerStage (i : LimIn) : Int × Int :=
  if i.lower > 0 then (i.lower, i.maxX)
  else
    let l0 := if i.single then i.minX else i.transLower
    let mx := if i.single then i.maxX else i.transMax
    let l1 := max i.minX l0
    (if i.upper > 0 then max i.minX (l1 - 1) else l1, mx)

/-- the automatic upper limit (may also lower the lower limit) -/
def upperStage (i : LimIn) (lo1 maxX : Int) : Int × Int :=
  if i.upper > 0 then (lo1, i.upper)
  else
    let p : Int × Int :=
      if i.single then (lo1, min maxX i.lenF)
      else if lo1 ≥ maxX then (maxX - 1, maxX)
      else (lo1, upperFromMd i.md lo1 maxX i.delta)
    if p.2 ≤ p.1 then (p.1, min maxX (p.1 + 1)) else p

/-- `if upper_limit <= lower_limit: …` (second attempt to separate the limits) -/
def fixStage (i : LimIn) (maxX : Int) (lh : Int × Int) : Int × Int :=
  if lh.2 ≤ lh.1 then
    (if lh.2 ≥ maxX then (max i.minX (lh.2 - deltaOr1 i.delta), lh.2) else (lh.1, min maxX (lh.1 + deltaOr1 i.delta)))
  else lh

/-- "a better fit below the lower limit": the lower limit may move down to the best-fitting test below it -/
def finalLower (i : LimIn) (first : T) (lo : Int) : Except String Int :=
  if !decide (i.lower > 0) && decide (lo > i.minX) && decide (i.tests.foldl (fun m t => min m t.n) first.n < lo) then
    match bestBelow i.tests lo, i.tests.find? (·.n = lo) with
    | some b, some fit => .ok (if b.chi < fit.chi then b.n else lo)
    | none, some _ => .error "ValueError"      -- `min([])`
    | _, none => .error "IndexError"           -- `[t for t in tests if t.num_RC == lower_limit][0]`
  else .ok lo

def limitsAuto (i : LimIn) (first : T) : Except String (Int × Int) :=
  let lm := lowerStage i
  let lh2 := fixStage i lm.2 (upperStage i lm.1 lm.2)
  if lh2.2 ≤ lh2.1 then .error "ValueError"
  else
    match finalLower i first lh2.1 with
    | .error e => .error e
    | .ok lo => .ok (lo, if i.delta > 0 then min (lo + i.delta) lm.2 else lh2.2)

/-- `suggest_num_RC_limits(tests, lower_limit, upper_limit, limit_delta)` -/
def limits (i : LimIn) : Except String (Int × Int) :=
  match i.tests.head?, i.tests.getLast? with
  | some first, some last =>
    if i.lower > 0 ∧ i.upper > 0 then
      if i.delta > 0 then .ok (max i.lower first.n, min (i.lower + i.delta) (min i.upper last.n))
      else .ok (max i.lower first.n, min i.upper last.n)
    else limitsAuto i first
  | _, _ => .error "IndexError"

/-! ## the final selection of `_suggest_using_default` -/

/-- a candidate inside the limits: `num_RC`, rank of its relative score, rank of log pseudo chi-squared,
number of curvature sign changes (rank) -/
structure Cand where
  n : Int
  score : Int
  lchi : Int
  sc : Int
deriving Repr, DecidableEq

/-- `sorted(tests, key=score, reverse=True)[0]`: the first element with the maximal score -/
def firstMax : List Cand → Option Cand
  | [] => none
  | c :: rest => some (rest.foldl (fun b t => if t.score > b.score then t else b) c)

/-- stable insertion by ascending `lchi` -/
def insertByChi (c : Cand) : List Cand → List Cand
  | [] => [c]
  | d :: rest => if c.lchi < d.lchi then c :: d :: rest else d :: insertByChi c rest

/-- `sorted(log_pseudo_chisqrs.items(), key=lambda kv: kv[1])` (stable) -/
def sortByChi : List Cand → List Cand
  | [] => []
  | c :: rest => insertByChi c (sortByChi rest)

/-- the loop "there may be a lower num_RC that offers a better fit": `cur` is replaced by (the first test
with the number of RC elements of) a candidate with fewer RC elements, a better fit than the ORIGINAL
suggestion (`lchi0`) and no more sign changes than the current one; the loop stops at the first hit. -/
def refine (all : List Cand) (lchi0 : Int) : List Cand → Cand → Cand
  | [], cur => cur
  | d :: rest, cur =>
    if d.n < cur.n && d.lchi < lchi0 && d.sc ≤ cur.sc then
      (match all.find? (·.n = d.n) with
       | some t => t
       | none => cur)
    else refine all lchi0 rest cur

/-- the suggestion among the tests inside the limits (already filtered to `lo ≤ n ≤ hi`) -/
def suggest (inside : List Cand) : Option Cand :=
  match firstMax inside with
  | none => none            -- `sorted([])[0]` raises IndexError
  | some s => some (refine inside s.lchi (sortByChi inside) s)

/-- `tests = [t for t in tests if lower_limit <= t.num_RC <= upper_limit]` -/
def inside (lo hi : Int) (ts : List Cand) : List Cand := ts.filter fun t => lo ≤ t.n && t.n ≤ hi

end KKAuto

/-! # Best-result selection (C17) — import-free

`sorted(results, key=…)[0]` / `list.sort(key=…); results[0]`: Python's sort is a stable merge sort, and
so is `List.mergeSort`.  Keys are integers (the harness sends the ranks of the float keys, ties kept). -/

namespace Select

/-- `sorted(rs, key=key)[0]` -/
def pickBest {α : Type} (key : α → Int) (rs : List α) : Option α :=
  (rs.mergeSort (fun a b => decide (key a ≤ key b))).head?

/-- the argument list of the second Z-HIT stage: `for window in windows: for r in reconstructions` -/
def product {ω ρ : Type} (ws : List ω) (rs : List ρ) : List (ω × ρ) := ws.flatMap fun w => rs.map fun r => (w, r)

end Select

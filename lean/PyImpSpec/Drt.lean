/-! # Discretisation weights of the TR-NNLS DRT method (C13) — import-free

`_calculate_delta_ln_tau` of `pyimpspec/analysis/drt/tr_nnls.py`: half the distance between the
neighbours of every point on the ln(tau) axis, one-sided at the two ends.  Generic in the number type:
`Float` in the driver, `ℝ` in the proofs. -/

namespace Drt

variable {α : Type} [Sub α] [Mul α]

/-- interior points and the last point: `prev`, `cur` are the two points before `rest` -/
def mid (half : α) : α → α → List α → List α
  | prev, cur, [] => [half * (cur - prev)]
  | prev, cur, nxt :: rest => half * (nxt - prev) :: mid half cur nxt rest

/-- `_calculate_delta_ln_tau` on the list of ln(tau); fewer than two points: `IndexError` -/
def deltas (half : α) : List α → Option (List α)
  | x0 :: x1 :: rest => some (half * (x1 - x0) :: mid half x0 x1 rest)
  | _ => none

end Drt

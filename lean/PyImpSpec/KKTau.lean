/-! # Time constants of the linear Kramers-Kronig tests (C09) — import-free

`_generate_time_constants(w, num_RC, log_F_ext)` of `analysis/kramers_kronig/utility.py`, as a function of
`min(w)`, `max(w)`, `F_ext = 10**log_F_ext`, written once over a record of real-number operations:
executed at `Float` in the driver, reasoned about at `ℝ` in the proofs. -/

namespace KKTau

structure ROps (α : Type) where
  ofNat : Nat → α
  mul : α → α → α
  div : α → α → α
  sub : α → α → α
  log10 : α → α
  exp10 : α → α          -- `10 ** x`

/-- `tau_k`, `k = 1 … n`:  `10 ** (log10(tau_min) + (k-1)/(n-1) * log10(tau_max/tau_min))` with
`tau_min = 1/(w_max·F_ext)`, `tau_max = F_ext/w_min` -/
def tau {α : Type} (o : ROps α) (wmin wmax fext : α) (n k : Nat) : α :=
  let tauMin := o.div (o.ofNat 1) (o.mul wmax fext)
  let tauMax := o.div fext wmin
  o.exp10 (o.mul (o.ofNat 1) (o.sub (o.log10 tauMin) (o.sub (o.ofNat 0)
    (o.mul (o.div (o.sub (o.ofNat k) (o.ofNat 1)) (o.sub (o.ofNat n) (o.ofNat 1))) (o.log10 (o.div tauMax tauMin))))))

def floatOps : ROps Float :=
  { ofNat := fun n => n.toFloat, mul := (· * ·), div := (· / ·), sub := (· - ·), log10 := Float.log10, exp10 := fun x => Float.pow 10.0 x }

end KKTau

#!/bin/sh
# Build the framework offline from files on disk: regenerate the Gen/ modules from /repo, then lake build.
set -e
cd "$(dirname "$0")"
/venv/bin/python harness/translate.py > /dev/null
cd lean
lake build 2>&1 | tail -3
